(* C03/Props.v — property C03: the comment machinery of src/comment.rs
   (CharClasses, the two slice iterators, CommentReducer, changed_comment_content,
   recover_comment_removed).  Offsets are byte offsets ([blen]).  A panic of the
   Rust code is the value None of the model. *)
From V Require Import Base.Text C03.Model C03.Lemmas.
Local Open Scope nat_scope.

(* C03 every char is classified exactly once, in order *)
Theorem classify_chars : forall t, map snd (classify t) = t.
Proof. exact classify_chars. Qed.
Print Assumptions classify_chars.

(* C03 CharClasses::next never hits an assert or a counter underflow *)
Theorem classify_no_panic : forall t, classify_panics t = false.
Proof. exact classify_no_panic. Qed.
Print Assumptions classify_no_panic.

(* C03 grammar of the kinds: code, or StartComment InComment+ EndComment (line comment ends at LF, block comment at star slash) *)
Theorem classify_kind_wf : forall t, kc_wf fin_any WCode (classify t).
Proof. exact classify_wf. Qed.
Print Assumptions classify_kind_wf.

(* C03 StartComment is only produced at a slash that is followed by a slash or a star *)
Theorem classify_start_comment : forall t l1 c l2,
  classify t = l1 ++ (KStartComment, c) :: l2 ->
  c = SLASH /\ exists d l2', l2 = (KInComment, d) :: l2' /\ (d = SLASH \/ d = STAR).
Proof. exact classify_start_comment. Qed.
Print Assumptions classify_start_comment.

(* C03 only six of the ten kinds are produced by CharClasses (the others come from LineClasses) *)
Theorem classify_kinds : forall t k c, In (k, c) (classify t) ->
  k = KNormal \/ k = KStartComment \/ k = KInComment \/ k = KEndComment \/
  k = KInStringCommented \/ k = KInString.
Proof. exact classify_kinds. Qed.
Print Assumptions classify_kinds.

(* C03 the panic!() arm of UngroupedCommentCodeSlices::next is unreachable *)
Theorem ungrouped_no_panic : forall t, ~ In None (ungrouped t).
Proof. exact ungrouped_no_panic. Qed.
Print Assumptions ungrouped_no_panic.

(* C03 the ungrouped slices partition the text *)
Theorem ungrouped_partition : forall t, items_text (ungrouped t) = t.
Proof. exact ungrouped_partition. Qed.
Print Assumptions ungrouped_partition.

(* C03 each ungrouped slice starts at the byte length of the slices before it *)
Theorem ungrouped_offsets : forall t l1 k o s l2,
  ungrouped t = l1 ++ Some (k, o, s) :: l2 -> o = blen (items_text l1).
Proof. exact ungrouped_offsets. Qed.
Print Assumptions ungrouped_offsets.

(* C03 every ungrouped Comment slice begins with two slashes or slash star *)
Theorem ungrouped_comment_slices_are_comments : forall t o s,
  In (Some (CComment, o, s)) (ungrouped t) -> starts2 s.
Proof. exact ungrouped_comment_starts2. Qed.
Print Assumptions ungrouped_comment_slices_are_comments.

(* C03 when the text does not end inside a block comment every ungrouped Comment slice is one whole comment *)
Theorem ungrouped_closed_shape : forall t o s,
  in_block_comment (final_status t) = false ->
  In (Some (CComment, o, s)) (ungrouped t) -> line_comment s \/ closed_block s.
Proof. exact ungrouped_closed_shape. Qed.
Print Assumptions ungrouped_closed_shape.

(* C03 CommentCodeSlices::next never panics (the byte slice of two bytes is always in range) *)
Theorem slices_no_panic : forall t, ~ In None (slices t).
Proof. exact slices_no_panic. Qed.
Print Assumptions slices_no_panic.

(* C03 the grouped slices partition the text *)
Theorem slices_partition : forall t, items_text (slices t) = t.
Proof. exact slices_partition. Qed.
Print Assumptions slices_partition.

(* C03 each grouped slice starts at the byte length of the slices before it *)
Theorem slices_offsets : forall t l1 k o s l2,
  slices t = l1 ++ Some (k, o, s) :: l2 -> o = blen (items_text l1).
Proof. exact slices_offsets. Qed.
Print Assumptions slices_offsets.

(* C03 the grouped slices alternate Normal, Comment, Normal, ... starting with Normal *)
Theorem slices_alternate : forall t, alternate CNormal (slices t).
Proof. exact slices_alternate. Qed.
Print Assumptions slices_alternate.

(* C03 every grouped Comment slice begins with two slashes or slash star *)
Theorem comment_slices_are_comments : forall t o s,
  In (Some (CComment, o, s)) (slices t) -> starts2 s.
Proof. exact slices_comment_shape. Qed.
Print Assumptions comment_slices_are_comments.

(* C03 changed_comment_content answers false exactly when both payloads are computed without panic and are equal *)
Theorem changed_iff : forall a b,
  changed a b = Some false <-> payload_ok a = true /\ payload_ok b = true /\ payload a = payload b.
Proof. exact changed_false_iff. Qed.
Print Assumptions changed_iff.

(* C03 changed_comment_content compares the payloads *)
Theorem changed_spec : forall a b, payload_ok a = true -> payload_ok b = true ->
  changed a b = Some (negb (eqb_text (payload a) (payload b))).
Proof. exact changed_spec. Qed.
Print Assumptions changed_spec.

(* C03 the payload computation cannot panic on a text that does not end inside a block comment *)
Theorem payload_ok_closed : forall t, in_block_comment (final_status t) = false -> payload_ok t = true.
Proof. exact payload_ok_closed. Qed.
Print Assumptions payload_ok_closed.

(* C03 safety net: the result is the source verbatim, or the new text and then it has the payload of the source *)
Theorem net_sound : forall new src r, recover new src = Some r ->
  r = src \/ (r = new /\ payload_ok src = true /\ payload_ok new = true /\ payload new = payload src).
Proof. exact recover_sound. Qed.
Print Assumptions net_sound.

(* C03 safety net: recover_comment_removed as a function of the payloads *)
Theorem net_spec : forall new src, payload_ok src = true -> payload_ok new = true ->
  recover new src = Some (if eqb_text (payload src) (payload new) then new else src).
Proof. exact recover_spec. Qed.
Print Assumptions net_spec.

(* C03 the payload of a line comment is its non-whitespace chars after the opener *)
Theorem payload_line_comment : forall b,
  comment_reducer (SLASH :: SLASH :: b) =
  Some (filter (fun c => negb (is_whitespace c)) (line_body b)).
Proof. exact comment_reducer_line_filter. Qed.
Print Assumptions payload_line_comment.

(* C03 same text up to trimming of trailing blanks: blanks before a newline inside a comment are not seen *)
Theorem payload_insensitive_trailing_blanks : forall a x p w q A B C,
  classify (a ++ SLASH :: x :: p ++ LF :: q) = A ++ (KStartComment, SLASH) :: B ++ C ->
  length A = length a -> length B = S (length p) -> Forall inside_item B ->
  Forall blank w ->
  in_block_comment (final_status (a ++ SLASH :: x :: p ++ LF :: q)) = false ->
  payload_stream (a ++ SLASH :: x :: p ++ w ++ LF :: q) = payload_stream (a ++ SLASH :: x :: p ++ LF :: q).
Proof. exact payload_trailing_blanks. Qed.
Print Assumptions payload_insensitive_trailing_blanks.

(* C03 same text up to re-indentation: blanks at the start of a continuation line of a block comment are not seen *)
Theorem payload_insensitive_reindent : forall a p w q A B C,
  classify (a ++ SLASH :: STAR :: p ++ LF :: q) = A ++ (KStartComment, SLASH) :: B ++ C ->
  length A = length a -> length B = S (S (length p)) -> Forall inside_item B ->
  Forall blank w ->
  in_block_comment (final_status (a ++ SLASH :: STAR :: p ++ LF :: q)) = false ->
  payload_stream (a ++ SLASH :: STAR :: p ++ LF :: w ++ q) = payload_stream (a ++ SLASH :: STAR :: p ++ LF :: q).
Proof. exact payload_reindent. Qed.
Print Assumptions payload_insensitive_reindent.

(* C03 a dropped comment that contains a char other than whitespace and star (after its opener) is always detected *)
Theorem payload_detects_loss : forall src new o s body c,
  payload_ok src = true ->
  In (Some (CComment, o, s)) (ungrouped src) ->
  remove_comment_header s = Some body ->
  In c body -> is_whitespace c = false -> c <> STAR ->
  no_comment_slice new ->
  changed src new = Some true.
Proof. exact payload_detects_loss. Qed.
Print Assumptions payload_detects_loss.

(* C03 the losses that are not detected: exactly the texts all of whose comments reduce to nothing *)
Theorem payload_nil_iff : forall src, payload_ok src = true ->
  (payload src = [] <->
   forall o s, In (Some (CComment, o, s)) (ungrouped src) -> comment_reducer s = Some []).
Proof. exact payload_nil_iff. Qed.
Print Assumptions payload_nil_iff.

(* C03 dropping all comments of such a text is not detected *)
Theorem trivial_loss_undetected : forall src new, payload_ok src = true ->
  (forall o s, In (Some (CComment, o, s)) (ungrouped src) -> comment_reducer s = Some []) ->
  no_comment_slice new ->
  changed src new = Some false.
Proof. exact trivial_loss_undetected. Qed.
Print Assumptions trivial_loss_undetected.

(* C03 the trivial line comments: only whitespace after the opener *)
Theorem trivial_line_comment : forall b,
  comment_reducer (SLASH :: SLASH :: b) = Some [] <-> Forall (fun c => is_whitespace c = true) (line_body b).
Proof. exact comment_reducer_line_nil. Qed.
Print Assumptions trivial_line_comment.

(* C03 the trivial block comments: whitespace up to the first newline, then only whitespace and single stars *)
Theorem trivial_block_comment : forall m,
  comment_reducer (SLASH :: STAR :: m ++ [STAR; SLASH]) = Some [] <-> trivial_block (block_body m).
Proof. exact comment_reducer_block_nil. Qed.
Print Assumptions trivial_block_comment.

(* C03 refuted: changed_comment_content is total; it panics on an unterminated block comment *)
Theorem changed_total_refuted : exists a b, changed a b = None.
Proof. exact changed_total_refuted. Qed.
Print Assumptions changed_total_refuted.

(* C03 refuted: only stars at the beginning of a line are ignored; at_start_line is never reset, so a star in the middle of a later line of a block comment can be lost unnoticed *)
Theorem mid_line_star_refuted : exists pre post,
  changed (pre ++ [STAR] ++ post) (pre ++ post) = Some false /\
  last pre 0%N = 97%N /\ hd 0%N post = 98%N.
Proof. exact mid_line_star_refuted. Qed.
Print Assumptions mid_line_star_refuted.

(* C03 refuted: equal payload implies the same words; all whitespace is ignored, so merged words are not noticed *)
Theorem words_merged_refuted : exists pre post,
  changed (pre ++ [SP] ++ post) (pre ++ post) = Some false /\
  last pre 0%N = 97%N /\ hd 0%N post = 98%N.
Proof. exact words_merged_refuted. Qed.
Print Assumptions words_merged_refuted.
