(* C03/Lemmas.v — proofs about the model of C03/Model.v.
   Parts: 1 CharClasses never panics; 2 shape of the classified list; 3 ungrouped slices;
   4 grouped slices; 5 payload / changed / recover; 6 whitespace the safety net ignores;
   7 readable consequences. *)
From V Require Import Base.Text C03.Model.
Local Open Scope nat_scope.
Arguments N.add : simpl never.
Arguments N.sub : simpl never.
Arguments N.mul : simpl never.
Arguments N.ltb : simpl never.
Arguments N.leb : simpl never.
Arguments N.eqb : simpl never.
Arguments Nat.eqb : simpl never.

(* ------------------------------------------------------------------ *)
(* Part 1: CharClasses never panics and classifies every char once *)

(* the status is consistent with the text that remains *)
Definition st_ok (st : status) (r : text) : Prop :=
  match st with
  | SRawStringSuffix n => n <> 0
  | SBlockComment d | SStringInBlockComment d => d <> 0
  | SBlockCommentOpening d => d <> 0 /\ exists r', r = STAR :: r'
  | SBlockCommentClosing d => exists r', r = SLASH :: r'
  | _ => True
  end.

Lemma peek_is_true r c : peek_is r c = true -> exists r', r = c :: r'.
Proof.
  destruct r as [|x r']; cbn [peek_is]; [discriminate|].
  intros H. apply N.eqb_eq in H. subst x. exists r'. reflexivity.
Qed.

Lemma is_raw_string_suffix_pos r n : n <> 0 -> is_raw_string_suffix r n = true -> exists r', r = HASH :: r'.
Proof.
  intros Hn. destruct n as [|n]; [congruence|]. clear Hn.
  destruct r as [|x r']; cbn [is_raw_string_suffix]; [discriminate|].
  destruct (N.eqb_spec x HASH) as [->|]; cbv iota; [|discriminate]. intros _. exists r'. reflexivity.
Qed.

Ltac case_eqb :=
  match goal with
  | |- context [N.eqb ?a ?b] => destruct (N.eqb_spec a b)
  end.

Ltac fin := do 2 eexists; split; [reflexivity|]; cbv [st_ok]; first [exact I | discriminate | assumption].

Lemma step_ok st c r : st_ok st (c :: r) ->
  exists k st', step st c r = Some (k, st') /\ st_ok st' r.
Proof.
  destruct st as [| | |n|n|n| | |d|d|d|d|]; cbn [st_ok]; intros Hok; unfold step.
  - (* Normal *)
    case_eqb; [destruct r as [|x r']; [|destruct ((x =? HASH)%N || (x =? DQ)%N)]; fin|].
    case_eqb; [fin|].
    case_eqb.
    { destruct r as [|x r']; [fin|]. case_eqb; [fin|].
      destruct r' as [|y r'']; [fin|]. case_eqb; fin. }
    case_eqb; [|fin].
    destruct r as [|x r']; [fin|].
    case_eqb; [subst x; do 2 eexists; split; [reflexivity|]; cbn [st_ok]; split; [discriminate|eauto]|].
    case_eqb; fin.
  - case_eqb; [fin|]. case_eqb; fin.
  - fin.
  - case_eqb; [|fin].
    destruct (Nat.eqb_spec n 0) as [Hn|Hn]; [fin|].
    destruct (is_raw_string_suffix r n); do 2 eexists; (split; [reflexivity|]); cbn [st_ok]; auto.
  - case_eqb; [fin|]. case_eqb; fin.
  - case_eqb; [|fin].
    destruct n as [|[|n]]; [congruence|fin|].
    do 2 eexists; split; [reflexivity|]. cbv [st_ok]. discriminate.
  - case_eqb; [fin|]. case_eqb; fin.
  - fin.
  - (* BlockComment *)
    destruct d as [|d']; [congruence|].
    destruct (peek_is r SLASH && (c =? STAR)%N) eqn:E1.
    { apply andb_true_iff in E1. destruct E1 as [E1 _]. apply peek_is_true in E1.
      do 2 eexists; split; [reflexivity|]. exact E1. }
    destruct (peek_is r STAR && (c =? SLASH)%N) eqn:E2.
    { apply andb_true_iff in E2. destruct E2 as [E2 _]. apply peek_is_true in E2.
      do 2 eexists; split; [reflexivity|]. cbn [st_ok]. split; [discriminate|exact E2]. }
    case_eqb; do 2 eexists; (split; [reflexivity|]); cbn [st_ok]; discriminate.
  - (* StringInBlockComment *)
    case_eqb; [do 2 eexists; split; [reflexivity|]; exact Hok|].
    destruct ((c =? STAR)%N && peek_is r SLASH) eqn:E1.
    { apply andb_true_iff in E1. destruct E1 as [_ E1]. apply peek_is_true in E1.
      destruct d as [|d']; [congruence|]. do 2 eexists; split; [reflexivity|]. exact E1. }
    do 2 eexists; split; [reflexivity|]. exact Hok.
  - (* Opening *)
    destruct Hok as [Hd [r' Hr]]. injection Hr as -> ->.
    rewrite N.eqb_refl. do 2 eexists; split; [reflexivity|]. exact Hd.
  - (* Closing *)
    destruct Hok as [r' Hr]. injection Hr as -> ->.
    rewrite N.eqb_refl. destruct d as [|d']; do 2 eexists; (split; [reflexivity|]); cbn [st_ok]; [exact I|discriminate].
  - case_eqb; fin.
Qed.

Lemma classify_from_chars : forall t st, st_ok st t -> map snd (classify_from st t) = t.
Proof.
  induction t as [|c r IH]; intros st Hok; [reflexivity|].
  cbn [classify_from]. destruct (step_ok st c r Hok) as (k & st' & E & Hok').
  rewrite E. cbn [map snd]. rewrite (IH st' Hok'). reflexivity.
Qed.
Lemma classify_from_no_panic : forall t st, st_ok st t -> classify_panics_from st t = false.
Proof.
  induction t as [|c r IH]; intros st Hok; [reflexivity|].
  cbn [classify_panics_from]. destruct (step_ok st c r Hok) as (k & st' & E & Hok').
  rewrite E. exact (IH st' Hok').
Qed.

Lemma classify_chars t : map snd (classify t) = t.
Proof. apply classify_from_chars. exact I. Qed.
Lemma classify_no_panic t : classify_panics t = false.
Proof. apply classify_from_no_panic. exact I. Qed.
Lemma classify_length t : length (classify t) = length t.
Proof. rewrite <- (classify_chars t) at 2. rewrite map_length. reflexivity. Qed.

(* ------------------------------------------------------------------ *)
(* Part 2: the shape of the classified list *)

(* where the classifier is, seen from the kinds it has produced *)
Inductive wst : Type :=
| WCode                       (* outside comments *)
| WLine                       (* inside a line comment *)
| WOpen                       (* after the slash of a top-level block comment opener *)
| WBlock (prev_star : bool).  (* inside a block comment; was the previous char a star *)

Fixpoint kc_wf (Fin : wst -> Prop) (w : wst) (l : list (kind * char)) : Prop :=
  match l with
  | [] => Fin w
  | (k, c) :: l' =>
      match w, k with
      | WCode, KNormal => kc_wf Fin WCode l'
      | WCode, KInString => kc_wf Fin WCode l'
      | WCode, KStartComment =>
          c = SLASH /\
          ((exists l'', l' = (KInComment, SLASH) :: l'') /\ kc_wf Fin WLine l' \/
           (exists l'', l' = (KInComment, STAR) :: l'') /\ kc_wf Fin WOpen l')
      | WLine, KInComment => c <> LF /\ kc_wf Fin WLine l'
      | WLine, KEndComment => c = LF /\ kc_wf Fin WCode l'
      | WOpen, KInComment => c = STAR /\ kc_wf Fin (WBlock false) l'
      | WBlock p, KInComment => kc_wf Fin (WBlock (c =? STAR)%N) l'
      | WBlock p, KInStringCommented => kc_wf Fin (WBlock (c =? STAR)%N) l'
      | WBlock p, KEndComment => p = true /\ c = SLASH /\ kc_wf Fin WCode l'
      | _, _ => False
      end
  end.

Definition abs_ok (st : status) (w : wst) : Prop :=
  match w with
  | WCode => match st with
             | SNormal | SLitString | SLitStringEscape | SLitRawString _ | SRawStringPrefix _
             | SRawStringSuffix _ | SLitChar | SLitCharEscape => True
             | _ => False
             end
  | WLine => st = SLineComment
  | WOpen => exists d, st = SBlockCommentOpening d
  | WBlock p => match st with
                | SBlockComment _ | SStringInBlockComment _ | SBlockCommentOpening _ => True
                | SBlockCommentClosing _ => p = true
                | _ => False
                end
  end.

Lemma classify_from_wf (Fin : wst -> Prop) : forall t st w, abs_ok st w -> st_ok st t ->
  (forall w', abs_ok (final_status_from st t) w' -> Fin w') ->
  kc_wf Fin w (classify_from st t).
Proof.
  induction t as [|c r IH]; intros st w Ha Hok HF; [apply HF; exact Ha|].
  cbn [classify_from]. cbn [final_status_from] in HF.
  destruct (step_ok st c r Hok) as (k & st' & E & Hok'). rewrite E in HF |- *. cbn [kc_wf].
  destruct w as [| | |p].
  - (* WCode *)
    destruct st; cbn [abs_ok] in Ha; try contradiction; unfold step in E.
    + (* Normal *)
      revert E. case_eqb.
      { destruct r as [|x r']; [|destruct ((x =? HASH)%N || (x =? DQ)%N)]; intros E; injection E as <- <-;
          apply IH; solve [exact I | assumption]. }
      case_eqb; [intros E; injection E as <- <-; apply IH; solve [exact I | assumption]|].
      case_eqb.
      { destruct r as [|x r']; [intros E; injection E as <- <-; apply IH; solve [exact I | assumption]|].
        case_eqb; [intros E; injection E as <- <-; apply IH; solve [exact I | assumption]|].
        destruct r' as [|y r'']; [intros E; injection E as <- <-; apply IH; solve [exact I | assumption]|].
        case_eqb; intros E; injection E as <- <-; apply IH; solve [exact I | assumption]. }
      case_eqb; [|intros E; injection E as <- <-; apply IH; solve [exact I | assumption]].
      destruct r as [|x r']; [intros E; injection E as <- <-; apply IH; solve [exact I | assumption]|].
      case_eqb.
      { intros E; injection E as <- <-. split; [assumption|]. right. subst x. split.
        - cbn [classify_from]. unfold step at 1. rewrite N.eqb_refl. eexists. reflexivity.
        - apply IH; [exists 1; reflexivity|assumption|assumption]. }
      case_eqb; [|intros E; injection E as <- <-; apply IH; solve [exact I | assumption]].
      intros E; injection E as <- <-. split; [assumption|]. left. subst x. split.
      * cbn [classify_from]. unfold step at 1.
        replace (SLASH =? LF)%N with false by reflexivity. eexists. reflexivity.
      * apply IH; [reflexivity|assumption|assumption].
    + revert E. case_eqb; [|case_eqb]; intros E; injection E as <- <-; apply IH; solve [exact I | assumption].
    + injection E as <- <-; apply IH; solve [exact I | assumption].
    + revert E. case_eqb; [destruct (Nat.eqb sharps 0); [|destruct (is_raw_string_suffix r sharps)]|];
        intros E; injection E as <- <-; apply IH; solve [exact I | assumption].
    + revert E. case_eqb; [|case_eqb]; intros E; injection E as <- <-; apply IH; solve [exact I | assumption].
    + revert E. case_eqb; [destruct sharps as [|[|n]]|]; intros E; try discriminate E;
        injection E as <- <-; apply IH; solve [exact I | assumption].
    + revert E. case_eqb; [|case_eqb]; intros E; injection E as <- <-; apply IH; solve [exact I | assumption].
    + injection E as <- <-; apply IH; solve [exact I | assumption].
  - (* WLine *)
    cbn [abs_ok] in Ha. subst st. unfold step in E. revert E.
    case_eqb; intros E; injection E as <- <-; (split; [assumption|]); apply IH; solve [exact I | reflexivity | assumption].
  - (* WOpen *)
    destruct Ha as [d ->]. unfold step in E. revert E.
    case_eqb; intros E; [|discriminate E]. injection E as <- <-. split; [assumption|].
    apply IH; [exact I|assumption|assumption].
  - (* WBlock *)
    destruct st; cbn [abs_ok] in Ha; try contradiction; unfold step in E.
    + destruct deepness as [|d']; [discriminate E|]. revert E.
      destruct (peek_is r SLASH && (c =? STAR)%N) eqn:E1.
      { apply andb_true_iff in E1. destruct E1 as [_ E1]. intros E; injection E as <- <-.
        apply IH; [|assumption|assumption]. cbn [abs_ok]. exact E1. }
      destruct (peek_is r STAR && (c =? SLASH)%N) eqn:E2.
      { intros E; injection E as <- <-. apply IH; [exact I|assumption|assumption]. }
      case_eqb; intros E; injection E as <- <-; apply IH; solve [exact I | assumption].
    + revert E. case_eqb; [intros E; injection E as <- <-; apply IH; solve [exact I | assumption]|].
      destruct ((c =? STAR)%N && peek_is r SLASH) eqn:E1.
      { apply andb_true_iff in E1. destruct E1 as [E1 _].
        destruct deepness as [|d']; intros E; [discriminate E|]. injection E as <- <-.
        apply IH; [|assumption|assumption]. cbn [abs_ok]. exact E1. }
      intros E; injection E as <- <-; apply IH; solve [exact I | assumption].
    + revert E. case_eqb; intros E; [|discriminate E]. injection E as <- <-. apply IH; solve [exact I | assumption].
    + revert E. case_eqb; intros E; [|discriminate E]. subst p.
      destruct deepness as [|d']; injection E as <- <-.
      * split; [reflexivity|]. split; [assumption|]. apply IH; solve [exact I | assumption].
      * apply IH; solve [exact I | assumption].
Qed.

Definition fin_any (w : wst) : Prop := True.
Definition fin_closed (w : wst) : Prop := match w with WCode | WLine => True | _ => False end.

Lemma classify_wf t : kc_wf fin_any WCode (classify t).
Proof. apply classify_from_wf; try exact I. intros w' _. exact I. Qed.

Lemma classify_wf_closed t : in_block_comment (final_status t) = false -> kc_wf fin_closed WCode (classify t).
Proof.
  intros H. apply classify_from_wf; try exact I. fold (final_status t).
  intros w' Ha. destruct w' as [| | |p]; cbn [fin_closed]; try exact I.
  - destruct Ha as [d Hd]. rewrite Hd in H. discriminate H.
  - destruct (final_status t); cbn [abs_ok] in Ha; try contradiction; discriminate H.
Qed.

(* ------------------------------------------------------------------ *)
(* Part 3: UngroupedCommentCodeSlices *)

Lemma blen_app a b : blen (a ++ b) = blen a + blen b.
Proof. induction a as [|x a IH]; cbn [blen app]; [reflexivity|]. rewrite IH. lia. Qed.
Lemma utf8_len_pos c : 1 <= utf8_len c.
Proof. unfold utf8_len. destruct (c <? 128)%N; [lia|]. destruct (c <? 2048)%N; [lia|]. destruct (c <? 65536)%N; lia. Qed.

Definition item_text (it : option slice_item) : text :=
  match it with Some (_, _, s) => s | None => [] end.
Definition items_text (items : list (option slice_item)) : text := concat (map item_text items).

(* every recorded start offset is the byte length of what precedes *)
Fixpoint offs_ok (base : nat) (items : list (option slice_item)) : Prop :=
  match items with
  | [] => True
  | None :: _ => True
  | Some (_, o, s) :: rest => o = base /\ offs_ok (base + blen s) rest
  end.

Definition line_comment (s : text) : Prop := exists b, s = SLASH :: SLASH :: b.
Definition closed_block (s : text) : Prop := exists m, s = SLASH :: STAR :: m ++ [STAR; SLASH].
Definition open_block (s : text) : Prop := exists b, s = SLASH :: STAR :: b.

(* [Open]: an unterminated block comment is possible *)
Definition item_good (Open : Prop) (it : option slice_item) : Prop :=
  match it with
  | None => False
  | Some (CNormal, _, s) => s <> []
  | Some (CComment, _, s) => line_comment s \/ closed_block s \/ (open_block s /\ Open)
  end.

Definition pending (m : umode) (acc : text) : text :=
  match m with UIdle => [] | _ => rev acc end.
Definition ubase (m : umode) (start off : nat) : nat :=
  match m with UIdle => off | _ => start end.

Definition mode_inv (m : umode) (w : wst) (start : nat) (acc : text) (off : nat) (l : list (kind * char)) : Prop :=
  match m with
  | UIdle => w = WCode
  | UNormal => w = WCode /\ acc <> [] /\ off = start + blen (rev acc)
  | UComment =>
      off = start + blen (rev acc) /\
      match w with
      | WLine => (exists b, rev acc = SLASH :: SLASH :: b) \/
                 (acc = [SLASH] /\ exists l'', l = (KInComment, SLASH) :: l'')
      | WOpen => acc = [SLASH] /\ exists l'', l = (KInComment, STAR) :: l''
      | WBlock p => exists m, rev acc = SLASH :: STAR :: m /\ (p = true -> exists m', m = m' ++ [STAR])
      | WCode => False
      end
  end.

Definition ung_spec (Open : Prop) (m : umode) (start : nat) (acc : text) (off : nat)
           (l : list (kind * char)) (items : list (option slice_item)) : Prop :=
  Forall (item_good Open) items /\
  items_text items = pending m acc ++ map snd l /\
  offs_ok (ubase m start off) items.

Lemma ung_go_spec (Fin : wst -> Prop) : forall l m w start acc off,
  kc_wf Fin w l -> mode_inv m w start acc off l ->
  ung_spec (exists p, Fin (WBlock p)) m start acc off l (ung_go m start acc off l).
Proof.
  set (Open := exists p, Fin (WBlock p)).
  induction l as [|[k c] l' IH]; intros m w start acc off Hwf Hinv.
  - (* end of input *)
    cbn [ung_go]. unfold ung_spec. destruct m; cbn [mode_inv] in Hinv; cbn [pending ubase map].
    + split; [constructor|]. split; [reflexivity|exact I].
    + destruct Hinv as (-> & Hacc & Hoff). split.
      { constructor; [|constructor]. cbn [item_good]. intros H. apply Hacc.
        apply (f_equal (@rev char)) in H. rewrite rev_involutive in H. exact H. }
      split; [unfold items_text; cbn [map concat item_text]; reflexivity|].
      cbn [offs_ok]. auto.
    + destruct Hinv as (Hoff & Hw). split.
      { constructor; [|constructor]. cbn [item_good]. destruct w as [| | |p]; [contradiction| | |].
        - destruct Hw as [[b Hb]|[_ [l'' Hl]]]; [|discriminate Hl]. left. exists b. exact Hb.
        - destruct Hw as [_ [l'' Hl]]. discriminate Hl.
        - destruct Hw as (mm & Hm & _). right. right. split; [exists mm; exact Hm|].
          exists p. exact Hwf. }
      split; [unfold items_text; cbn [map concat item_text]; reflexivity|].
      cbn [offs_ok]. auto.
  - (* one more item *)
    (* the match on the first item of a slice *)
    assert (Hfirst : forall st0 acc0, kc_wf Fin WCode ((k, c) :: l') ->
              ung_spec Open UIdle st0 acc0 off ((k, c) :: l')
                (match k with
                 | KNormal | KInString => ung_go UNormal off [c] (off + utf8_len c) l'
                 | KStartComment => ung_go UComment off [c] (off + utf8_len c) l'
                 | _ => [None]
                 end)).
    { intros st0 acc0 Hwf0. cbn [kc_wf] in Hwf0.
      destruct k; try contradiction.
      - (* Normal *)
        destruct (IH UNormal WCode off [c] (off + utf8_len c) Hwf0) as (G & T & O).
        { cbn [mode_inv rev app blen]. split; [reflexivity|]. split; [discriminate|lia]. }
        split; [exact G|]. split; [rewrite T; reflexivity|exact O].
      - (* StartComment *)
        destruct Hwf0 as (-> & [[[l'' Hl] Hw]|[[l'' Hl] Hw]]).
        + destruct (IH UComment WLine off [SLASH] (off + utf8_len SLASH) Hw) as (G & T & O).
          { cbn [mode_inv rev app blen]. split; [lia|]. right. split; [reflexivity|]. exists l''. exact Hl. }
          split; [exact G|]. split; [rewrite T; reflexivity|exact O].
        + destruct (IH UComment WOpen off [SLASH] (off + utf8_len SLASH) Hw) as (G & T & O).
          { cbn [mode_inv rev app blen]. split; [lia|]. split; [reflexivity|]. exists l''. exact Hl. }
          split; [exact G|]. split; [rewrite T; reflexivity|exact O].
      - (* InString *)
        destruct (IH UNormal WCode off [c] (off + utf8_len c) Hwf0) as (G & T & O).
        { cbn [mode_inv rev app blen]. split; [reflexivity|]. split; [discriminate|lia]. }
        split; [exact G|]. split; [rewrite T; reflexivity|exact O]. }
    cbn [ung_go]. destruct m; cbn [mode_inv] in Hinv.
    + (* UIdle *) subst w. apply Hfirst. exact Hwf.
    + (* UNormal *)
      destruct Hinv as (-> & Hacc & Hoff).
      destruct (is_comment k) eqn:Ek.
      * destruct (Hfirst start acc Hwf) as (G & T & O).
        split; [constructor; [|exact G]|].
        { cbn [item_good]. intros H. apply Hacc.
          apply (f_equal (@rev char)) in H. rewrite rev_involutive in H. exact H. }
        split.
        { unfold items_text in *. cbn [map concat item_text pending]. rewrite T. reflexivity. }
        cbn [offs_ok ubase]. split; [reflexivity|]. rewrite <- Hoff. exact O.
      * cbn [kc_wf] in Hwf. destruct k; try contradiction; try discriminate Ek.
        -- destruct (IH UNormal WCode start (c :: acc) (off + utf8_len c) Hwf) as (G & T & O).
           { cbn [mode_inv rev]. split; [reflexivity|]. split; [discriminate|]. rewrite blen_app. cbn [blen]. lia. }
           split; [exact G|]. split; [|exact O].
           rewrite T. cbn [pending rev map snd]. rewrite <- app_assoc. reflexivity.
        -- destruct (IH UNormal WCode start (c :: acc) (off + utf8_len c) Hwf) as (G & T & O).
           { cbn [mode_inv rev]. split; [reflexivity|]. split; [discriminate|]. rewrite blen_app. cbn [blen]. lia. }
           split; [exact G|]. split; [|exact O].
           rewrite T. cbn [pending rev map snd]. rewrite <- app_assoc. reflexivity.
    + (* UComment *)
      destruct Hinv as (Hoff & Hw).
      assert (Hoff' : off + utf8_len c = start + blen (rev (c :: acc))).
      { cbn [rev]. rewrite blen_app. cbn [blen]. lia. }
      assert (Hcont : forall w', inside_comment k = true -> kc_wf Fin w' l' ->
                mode_inv UComment w' start (c :: acc) (off + utf8_len c) l' ->
                ung_spec Open UComment start acc off ((k, c) :: l')
                  (if inside_comment k then ung_go UComment start (c :: acc) (off + utf8_len c) l'
                   else Some (CComment, start, rev (c :: acc)) :: ung_go UIdle (off + utf8_len c) [] (off + utf8_len c) l')).
      { intros w' Hin Hwf' Hinv'. rewrite Hin.
        destruct (IH UComment w' start (c :: acc) (off + utf8_len c) Hwf' Hinv') as (G & T & O).
        split; [exact G|]. split; [|exact O].
        rewrite T. cbn [pending rev map snd]. rewrite <- app_assoc. reflexivity. }
      assert (Hend : forall s, inside_comment k = false -> kc_wf Fin WCode l' ->
                (line_comment (rev (c :: acc)) \/ closed_block (rev (c :: acc))) ->
                ung_spec Open UComment start acc off ((k, c) :: l')
                  (if inside_comment k then ung_go UComment start (c :: acc) (off + utf8_len c) l'
                   else Some (CComment, start, rev (c :: acc)) :: ung_go UIdle s [] (off + utf8_len c) l')).
      { intros s Hin Hwf' Hshape. rewrite Hin.
        destruct (IH UIdle WCode s [] (off + utf8_len c) Hwf' eq_refl) as (G & T & O).
        split; [constructor; [|exact G]|].
        { cbn [item_good]. destruct Hshape as [H|H]; auto. }
        split.
        { unfold items_text in *. cbn [map concat item_text pending]. rewrite T.
          cbn [pending rev map snd app]. rewrite <- app_assoc. reflexivity. }
        cbn [offs_ok ubase]. split; [reflexivity|]. rewrite <- Hoff'. exact O. }
      cbn [kc_wf] in Hwf. destruct w as [| | |p]; [contradiction| | |].
      * (* WLine *)
        destruct k; try contradiction.
        -- destruct Hwf as (Hc & Hwf'). apply (Hcont WLine eq_refl Hwf').
           cbn [mode_inv]. split; [exact Hoff'|]. left.
           destruct Hw as [[b Hb]|[-> [l'' Hl]]].
           ++ exists (b ++ [c]). cbn [rev]. rewrite Hb. reflexivity.
           ++ injection Hl as -> _. exists []. reflexivity.
        -- destruct Hwf as (-> & Hwf'). apply (Hend _ eq_refl Hwf'). left.
           destruct Hw as [[b Hb]|[_ [l'' Hl]]]; [|discriminate Hl].
           exists (b ++ [LF]). cbn [rev]. rewrite Hb. reflexivity.
      * (* WOpen *)
        destruct k; try contradiction.
        destruct Hwf as (-> & Hwf'). destruct Hw as [-> _].
        apply (Hcont (WBlock false) eq_refl Hwf').
        cbn [mode_inv]. split; [exact Hoff'|]. exists []. split; [reflexivity|discriminate].
      * (* WBlock *)
        destruct Hw as (mm & Hm & Hp).
        assert (Hnext : mode_inv UComment (WBlock (c =? STAR)%N) start (c :: acc) (off + utf8_len c) l').
        { cbn [mode_inv]. split; [exact Hoff'|]. exists (mm ++ [c]). split.
          - cbn [rev]. rewrite Hm. reflexivity.
          - intros Hc. apply N.eqb_eq in Hc. subst c. exists mm. reflexivity. }
        destruct k; try contradiction.
        -- apply (Hcont _ eq_refl Hwf Hnext).
        -- destruct Hwf as (-> & -> & Hwf'). apply (Hend _ eq_refl Hwf'). right.
           destruct (Hp eq_refl) as [m' ->]. exists m'. cbn [rev]. rewrite Hm.
           cbn [app]. rewrite <- app_assoc. reflexivity.
        -- apply (Hcont _ eq_refl Hwf Hnext).
Qed.

(* ------------------------------------------------------------------ *)
(* corollaries of Part 3 for [ungrouped] *)

Lemma ungrouped_spec_any t :
  ung_spec True UIdle 0 [] 0 (classify t) (ungrouped t).
Proof.
  destruct (ung_go_spec fin_any (classify t) UIdle WCode 0 [] 0 (classify_wf t) eq_refl) as (G & T & O).
  split; [|split; assumption].
  eapply Forall_impl; [|exact G]. intros [[[[|] o] s]|]; cbn [item_good]; try tauto.
Qed.

Lemma ungrouped_spec_closed t : in_block_comment (final_status t) = false ->
  ung_spec False UIdle 0 [] 0 (classify t) (ungrouped t).
Proof.
  intros Hc.
  destruct (ung_go_spec fin_closed (classify t) UIdle WCode 0 [] 0 (classify_wf_closed t Hc) eq_refl) as (G & T & O).
  split; [|split; assumption].
  eapply Forall_impl; [|exact G]. intros [[[[|] o] s]|]; cbn [item_good]; try tauto.
  intros [H|[H|[H1 [p H2]]]]; auto.
Qed.

Lemma ungrouped_no_panic t : ~ In None (ungrouped t).
Proof.
  destruct (ungrouped_spec_any t) as (G & _). intros Hin.
  rewrite Forall_forall in G. exact (G None Hin).
Qed.

Lemma ungrouped_partition t : items_text (ungrouped t) = t.
Proof.
  destruct (ungrouped_spec_any t) as (_ & T & _). rewrite T. cbn [pending app]. apply classify_chars.
Qed.

Lemma items_text_app a b : items_text (a ++ b) = items_text a ++ items_text b.
Proof. unfold items_text. rewrite map_app, concat_app. reflexivity. Qed.

Lemma offs_ok_split : forall l1 base k o s l2,
  offs_ok base (l1 ++ Some (k, o, s) :: l2) -> ~ In None l1 -> o = base + blen (items_text l1).
Proof.
  induction l1 as [|[[[k1 o1] s1]|] l1 IH]; intros base k o s l2 H Hn.
  - cbn [app offs_ok] in H. destruct H as [-> _]. unfold items_text. cbn [map concat blen]. lia.
  - cbn [app offs_ok] in H. destruct H as [-> H].
    rewrite (IH _ _ _ _ _ H); [|intros Hin; apply Hn; right; exact Hin].
    unfold items_text. cbn [map concat item_text]. rewrite blen_app. lia.
  - exfalso. apply Hn. left. reflexivity.
Qed.

Lemma ungrouped_offsets t l1 k o s l2 :
  ungrouped t = l1 ++ Some (k, o, s) :: l2 -> o = blen (items_text l1).
Proof.
  intros E. destruct (ungrouped_spec_any t) as (_ & _ & O). cbn [ubase] in O. rewrite E in O.
  apply offs_ok_split in O; [exact O|].
  intros Hin. apply (ungrouped_no_panic t). rewrite E. apply in_or_app. left. exact Hin.
Qed.

Lemma ungrouped_comment_shape t o s : In (Some (CComment, o, s)) (ungrouped t) ->
  line_comment s \/ open_block s.
Proof.
  intros Hin. destruct (ungrouped_spec_any t) as (G & _). rewrite Forall_forall in G.
  specialize (G _ Hin). cbn [item_good] in G. destruct G as [H|[[m H]|[H _]]]; auto.
  right. exists (m ++ [STAR; SLASH]). exact H.
Qed.

Lemma ungrouped_normal_nonempty t o s : In (Some (CNormal, o, s)) (ungrouped t) -> s <> [].
Proof.
  intros Hin. destruct (ungrouped_spec_any t) as (G & _). rewrite Forall_forall in G.
  exact (G _ Hin).
Qed.

Lemma ungrouped_closed_shape t o s : in_block_comment (final_status t) = false ->
  In (Some (CComment, o, s)) (ungrouped t) -> line_comment s \/ closed_block s.
Proof.
  intros Hc Hin. destruct (ungrouped_spec_closed t Hc) as (G & _). rewrite Forall_forall in G.
  specialize (G _ Hin). cbn [item_good] in G. destruct G as [H|[H|[_ []]]]; auto.
Qed.

(* ------------------------------------------------------------------ *)
(* Part 4: CommentCodeSlices *)

Definition starts2 (s : text) : Prop := exists d r, s = SLASH :: d :: r /\ (d = SLASH \/ d = STAR).

Definition noncomment (x : kind * char) : Prop := is_comment (fst x) = false.

Lemma wf_first_comment Fin : forall l1 k c l2,
  kc_wf Fin WCode (l1 ++ (k, c) :: l2) -> Forall noncomment l1 -> is_comment k = true ->
  c = SLASH /\ exists d l2', l2 = (KInComment, d) :: l2' /\ (d = SLASH \/ d = STAR).
Proof.
  induction l1 as [|[k1 c1] l1 IH]; intros k c l2 Hwf Hn Hk.
  - cbn [app kc_wf] in Hwf. destruct k; try contradiction; try discriminate Hk.
    destruct Hwf as (-> & [[[l'' ->] _]|[[l'' ->] _]]); split; try reflexivity.
    + exists SLASH, l''. auto.
    + exists STAR, l''. auto.
  - inversion Hn as [|x xs Hx Hxs]; subst. unfold noncomment in Hx. cbn [fst] in Hx.
    cbn [app kc_wf] in Hwf. destruct k1; try contradiction; try discriminate Hx; eauto.
Qed.

Lemma gloop_comment : forall l i,
  (Forall noncomment l /\ gloop CComment false i None l = (None, None, true)) \/
  (exists l1 x l2, l = l1 ++ x :: l2 /\ Forall noncomment l1 /\ is_comment (fst x) = true /\
     gloop CComment false i None l = (Some (i + length l1), None, match l2 with [] => true | _ => false end)).
Proof.
  induction l as [|[k c] l IH]; intros i.
  - left. split; [constructor|reflexivity].
  - cbn [gloop andb]. unfold to_codecharkind.
    destruct (is_comment k) eqn:Ek; cbn [ckind_eqb andb negb].
    + right. exists [], (k, c), l. cbn [app length fst]. rewrite Nat.add_0_r. auto.
    + destruct (IH (S i)) as [[Hn E]|(l1 & x & l2 & -> & Hn & Hx & E)].
      * left. split; [constructor; [exact Ek|exact Hn]|exact E].
      * right. exists ((k, c) :: l1), x, l2. cbn [app length]. split; [reflexivity|].
        split; [constructor; [exact Ek|exact Hn]|]. split; [exact Hx|].
        rewrite E. f_equal. f_equal. f_equal. lia.
Qed.

Lemma skipn_map_snd_app {A B} (l1 : list (A * B)) l2 :
  skipn (length l1) (map snd (l1 ++ l2)) = map snd l2.
Proof. induction l1 as [|x l1 IH]; cbn [length app map skipn]; [reflexivity|exact IH]. Qed.

Lemma grouped_next_comment sub : sub <> [] ->
  exists n, grouped_next CComment sub = Some n /\ n <= length sub /\
            (n = length sub \/ starts2 (skipn n sub)).
Proof.
  intros Hne. unfold grouped_next.
  destruct (gloop_comment (classify sub) 0) as [[Hn E]|(l1 & x & l2 & El & Hn & Hx & E)]; rewrite E.
  - exists (length sub). cbn [andb Nat.eqb]. split; [reflexivity|]. split; [lia|]. left. reflexivity.
  - cbn [plus]. destruct x as [k c].
    pose proof (classify_wf sub) as Hwf. rewrite El in Hwf.
    destruct (wf_first_comment _ _ _ _ _ Hwf Hn Hx) as (-> & d & l2' & -> & Hd).
    cbn [andb].
    exists (length l1). split; [reflexivity|].
    pose proof (classify_chars sub) as Hc. rewrite El in Hc.
    assert (Hlen : length sub = length l1 + S (S (length l2'))).
    { rewrite <- Hc, map_length, app_length. reflexivity. }
    split; [lia|]. right.
    rewrite <- Hc at 1. rewrite skipn_map_snd_app. cbn [map snd].
    exists d, (map snd l2'). auto.
Qed.

Lemma gloop_bounds last conn : forall l i fw lo brk fw' ex,
  lo <= i -> (forall j, fw = Some j -> lo <= j <= i) ->
  gloop last conn i fw l = (brk, fw', ex) ->
  (forall j, brk = Some j -> lo <= j < i + length l) /\
  (forall j, fw' = Some j -> lo <= j <= i + length l) /\
  (brk = None -> ex = true).
Proof.
  induction l as [|[k c] l IH]; intros i fw lo brk fw' ex Hlo Hfw E.
  - cbn [gloop] in E. injection E as <- <- <-. cbn [length].
    split; [intros j Hj; discriminate Hj|]. split; [|reflexivity].
    intros j Hj. specialize (Hfw j Hj). lia.
  - cbn [gloop] in E. cbn [length].
    set (is_conn := conn && ((c =? SP)%N || (c =? TAB)%N)) in *.
    set (fw1 := if is_conn then match fw with None => Some i | Some _ => fw end else fw) in *.
    assert (Hfw1 : forall j, fw1 = Some j -> lo <= j <= i).
    { intros j Hj. unfold fw1 in Hj. destruct is_conn; [|exact (Hfw j Hj)].
      destruct fw as [j0|]; [exact (Hfw j Hj)|]. injection Hj as <-. lia. }
    destruct (ckind_eqb (to_codecharkind k) last && negb is_conn).
    + injection E as <- <- <-.
      split.
      { intros j Hj. destruct fw1 as [j1|]; injection Hj as <-; [specialize (Hfw1 j1 eq_refl)|]; lia. }
      split; [|intros H; destruct fw1; discriminate H].
      intros j Hj. specialize (Hfw1 j Hj). lia.
    + apply IH with (lo := lo) in E; [|lia|].
      * destruct E as (E1 & E2 & E3). split; [intros j Hj; specialize (E1 j Hj); lia|].
        split; [intros j Hj; specialize (E2 j Hj); lia|exact E3].
      * intros j Hj. destruct is_conn; [|discriminate Hj]. specialize (Hfw1 j Hj). lia.
Qed.

Lemma grouped_next_normal sub : starts2 sub ->
  exists n, grouped_next CNormal sub = Some n /\ 2 <= n <= length sub.
Proof.
  intros (d & r & -> & Hd). unfold grouped_next.
  assert (E2 : first2_is_slashes (SLASH :: d :: r) = Some (d =? SLASH)%N).
  { destruct Hd as [->| ->]; reflexivity. }
  rewrite E2.
  assert (Eg : exists st, gloop CNormal (d =? SLASH)%N 0 None (classify (SLASH :: d :: r)) =
               gloop CNormal (d =? SLASH)%N 2 None (classify_from st r)).
  { destruct Hd as [->| ->]; eexists; reflexivity. }
  destruct Eg as [st Eg]. rewrite Eg.
  destruct (gloop CNormal (d =? SLASH)%N 2 None (classify_from st r)) as [[brk fw'] ex] eqn:E.
  apply gloop_bounds with (lo := 2) in E; [|lia|intros j Hj; discriminate Hj].
  destruct E as (E1 & E3 & E4).
  assert (Hlen : length (classify_from st r) <= length r).
  { clear. revert st. induction r as [|c r IH]; intros st; cbn [classify_from length]; [lia|].
    destruct (step st c r) as [[k st']|]; cbn [length]; [specialize (IH st')|]; lia. }
  cbn [length].
  destruct brk as [j|].
  - specialize (E1 j eq_refl).
    destruct (Nat.eqb_spec j 0) as [Hj|Hj]; [lia|]. rewrite andb_false_r.
    exists j. split; [reflexivity|]. lia.
  - rewrite (E4 eq_refl). cbn [andb Nat.eqb]. change (Nat.eqb 0 0) with true. cbv iota.
    destruct fw' as [j|].
    + specialize (E3 j eq_refl). exists j. split; [reflexivity|]. lia.
    + eexists. split; [reflexivity|]. lia.
Qed.

(* kinds alternate, starting with [k]; no panic *)
Fixpoint alternate (k : ckind) (items : list (option slice_item)) : Prop :=
  match items with
  | [] => True
  | None :: _ => False
  | Some (k', _, _) :: rest => k' = k /\ alternate (flip_ckind k) rest
  end.

Definition comment_starts2 (it : option slice_item) : Prop :=
  match it with Some (CComment, _, s) => starts2 s | _ => True end.

Lemma grouped_fuel_spec : forall fuel last off sub,
  (last = CNormal -> sub = [] \/ starts2 sub) ->
  2 * length sub + (match last with CComment => 1 | CNormal => 0 end) <= fuel ->
  let items := grouped_fuel fuel last off sub in
  items_text items = sub /\ offs_ok off items /\ alternate (flip_ckind last) items /\
  Forall comment_starts2 items.
Proof.
  induction fuel as [|f IH]; intros last off sub Hinv Hfuel.
  - destruct sub as [|c sub]; [|cbn [length] in Hfuel; lia].
    cbn [grouped_fuel]. repeat split; constructor.
  - cbn [grouped_fuel]. destruct sub as [|c0 sub0] eqn:Es; [repeat split; constructor|]. rewrite <- Es in *.
    assert (Hne : sub <> []) by (rewrite Es; discriminate).
    destruct last.
    + (* producing a Comment slice *)
      destruct (Hinv eq_refl) as [H0|H2]; [contradiction|].
      destruct (grouped_next_normal sub H2) as (n & En & Hn). rewrite En. cbn [flip_ckind].
      destruct (IH CComment (off + blen (firstn n sub)) (skipn n sub)) as (T & O & A & S2).
      { intros H; discriminate H. }
      { rewrite skipn_length. lia. }
      split; [|split; [|split]].
      * unfold items_text in *. cbn [map concat item_text]. rewrite T. apply firstn_skipn.
      * cbn [offs_ok]. split; [reflexivity|exact O].
      * cbn [alternate flip_ckind] in *. split; [reflexivity|exact A].
      * constructor; [|exact S2]. cbn [comment_starts2].
        destruct H2 as (d & r & -> & Hd). destruct n as [|[|n]]; [lia|lia|].
        cbn [firstn]. exists d, (firstn n r). auto.
    + (* producing a Normal slice *)
      destruct (grouped_next_comment sub Hne) as (n & En & Hn & Hs). rewrite En. cbn [flip_ckind].
      destruct (IH CNormal (off + blen (firstn n sub)) (skipn n sub)) as (T & O & A & S2).
      { intros _. destruct Hs as [->|Hs]; [left; apply skipn_all|right; exact Hs]. }
      { rewrite skipn_length. lia. }
      split; [|split; [|split]].
      * unfold items_text in *. cbn [map concat item_text]. rewrite T. apply firstn_skipn.
      * cbn [offs_ok]. split; [reflexivity|exact O].
      * cbn [alternate flip_ckind] in *. split; [reflexivity|exact A].
      * constructor; [exact I|exact S2].
Qed.

Lemma slices_spec t :
  items_text (slices t) = t /\ offs_ok 0 (slices t) /\ alternate CNormal (slices t) /\
  Forall comment_starts2 (slices t).
Proof.
  unfold slices. apply (grouped_fuel_spec (2 * length t + 2) CComment 0 t).
  - intros H; discriminate H.
  - lia.
Qed.

Lemma alternate_no_panic : forall items k, alternate k items -> ~ In None items.
Proof.
  induction items as [|[[[k' o] s]|] items IH]; intros k H Hin; cbn [alternate] in H.
  - destruct Hin.
  - destruct H as [_ H]. destruct Hin as [Hin|Hin]; [discriminate Hin|]. exact (IH _ H Hin).
  - exact H.
Qed.

Lemma slices_no_panic t : ~ In None (slices t).
Proof. destruct (slices_spec t) as (_ & _ & A & _). exact (alternate_no_panic _ _ A). Qed.
Lemma slices_partition t : items_text (slices t) = t.
Proof. apply slices_spec. Qed.
Lemma slices_offsets t l1 k o s l2 :
  slices t = l1 ++ Some (k, o, s) :: l2 -> o = blen (items_text l1).
Proof.
  intros E. destruct (slices_spec t) as (_ & O & _). rewrite E in O.
  apply offs_ok_split in O; [exact O|].
  intros Hin. apply (slices_no_panic t). rewrite E. apply in_or_app. left. exact Hin.
Qed.
Lemma slices_alternate t : alternate CNormal (slices t).
Proof. apply slices_spec. Qed.
Lemma slices_comment_shape t o s : In (Some (CComment, o, s)) (slices t) -> starts2 s.
Proof.
  intros Hin. destruct (slices_spec t) as (_ & _ & _ & S2). rewrite Forall_forall in S2.
  exact (S2 _ Hin).
Qed.

(* ------------------------------------------------------------------ *)
(* Part 5: payload, changed_comment_content, recover_comment_removed *)

Lemma eqb_text_refl a : eqb_text a a = true.
Proof. apply eqb_text_spec. reflexivity. Qed.

Lemma stream_ne_false : forall a b, stream_ne a b = Some false -> a = b /\ stream_ok a = true.
Proof.
  induction a as [|[x|] a IH]; intros b H; cbn [stream_ne] in H.
  - destruct b as [|[y|] b]; try discriminate H. split; reflexivity.
  - destruct b as [|[y|] b]; try discriminate H.
    destruct (N.eqb_spec x y) as [->|]; [|discriminate H].
    destruct (IH b H) as [-> Hok]. split; [reflexivity|exact Hok].
  - discriminate H.
Qed.

Lemma stream_ne_ok : forall x y, stream_ne (map Some x) (map Some y) = Some (negb (eqb_text x y)).
Proof.
  induction x as [|c x IH]; intros [|d y]; cbn [map stream_ne eqb_text negb]; try reflexivity.
  destruct (N.eqb_spec c d) as [->|Hne]; cbn [andb negb]; [apply IH|reflexivity].
Qed.

Lemma stream_ok_chars : forall s, stream_ok s = true -> s = map Some (stream_chars s).
Proof.
  induction s as [|[c|] s IH]; cbn [stream_ok forallb stream_chars map]; intros H.
  - reflexivity.
  - cbn [andb] in H. rewrite <- (IH H). reflexivity.
  - discriminate H.
Qed.

Lemma stream_ok_map_some x : stream_ok (map Some x) = true.
Proof. induction x as [|c x IH]; cbn [map stream_ok forallb andb]; [reflexivity|exact IH]. Qed.
Lemma stream_chars_map_some x : stream_chars (map Some x) = x.
Proof. induction x as [|c x IH]; cbn [map stream_chars]; [reflexivity|rewrite IH; reflexivity]. Qed.

Lemma changed_spec a b : payload_ok a = true -> payload_ok b = true ->
  changed a b = Some (negb (eqb_text (payload a) (payload b))).
Proof.
  unfold payload_ok, payload, changed. intros Ha Hb.
  rewrite (stream_ok_chars _ Ha) at 1. rewrite (stream_ok_chars _ Hb) at 1. apply stream_ne_ok.
Qed.

Lemma changed_false_iff a b :
  changed a b = Some false <-> payload_ok a = true /\ payload_ok b = true /\ payload a = payload b.
Proof.
  split.
  - intros H. unfold changed in H. apply stream_ne_false in H. destruct H as [E Hok].
    unfold payload_ok, payload. rewrite <- E. auto.
  - intros (Ha & Hb & E). rewrite (changed_spec a b Ha Hb), E, eqb_text_refl. reflexivity.
Qed.

Lemma changed_true_iff a b : payload_ok a = true -> payload_ok b = true ->
  (changed a b = Some true <-> payload a <> payload b).
Proof.
  intros Ha Hb. rewrite (changed_spec a b Ha Hb).
  destruct (eqb_text (payload a) (payload b)) eqn:E; cbn [negb].
  - apply eqb_text_spec in E. split; [discriminate|]. intros H. contradiction.
  - split; [|reflexivity]. intros _ H. apply eqb_text_spec in H. rewrite H in E. discriminate E.
Qed.

(* recover_comment_removed returns the source verbatim, or the new text, and
   the latter only if the comment payload is the same *)
Lemma recover_sound new src r : recover new src = Some r ->
  r = src \/ (r = new /\ payload_ok src = true /\ payload_ok new = true /\ payload new = payload src).
Proof.
  unfold recover. destruct (eqb_text src new) eqn:E.
  - apply eqb_text_spec in E. subst new. intros H. injection H as <-. left. reflexivity.
  - destruct (changed src new) as [[|]|] eqn:Ec; intros H; try discriminate H; injection H as <-.
    + left. reflexivity.
    + right. apply changed_false_iff in Ec. destruct Ec as (Ha & Hb & Ep). auto.
Qed.

Lemma recover_spec new src : payload_ok src = true -> payload_ok new = true ->
  recover new src = Some (if eqb_text (payload src) (payload new) then new else src).
Proof.
  intros Ha Hb. unfold recover. destruct (eqb_text src new) eqn:E.
  - apply eqb_text_spec in E. subst new. rewrite eqb_text_refl. reflexivity.
  - rewrite (changed_spec src new Ha Hb). destruct (eqb_text (payload src) (payload new)); reflexivity.
Qed.

(* ------------------------------------------------------------------ *)
(* remove_comment_header on well-formed comments *)

Definition line_body (b : text) : text :=
  match b with
  | c :: b' => if (c =? SLASH)%N || (c =? BANG)%N then b' else b
  | [] => []
  end.
Definition block_body (m : text) : text :=
  match m with
  | c :: m' =>
      if (c =? BANG)%N then m'
      else if (c =? STAR)%N then match m' with d :: _ => if (d =? SLASH)%N then m else m' | [] => m' end
      else m
  | [] => []
  end.

Lemma remove_header_line b : remove_comment_header (SLASH :: SLASH :: b) = Some (line_body b).
Proof.
  unfold remove_comment_header, starts_with. cbn [length firstn eqb_text].
  destruct b as [|c b']; [reflexivity|]. cbn [firstn eqb_text line_body].
  change (SLASH =? SLASH)%N with true. cbn [andb].
  destruct (c =? SLASH)%N; destruct (c =? BANG)%N; reflexivity.
Qed.

Lemma drop_last2_closer m : drop_last2_bytes (m ++ [STAR; SLASH]) = Some m.
Proof.
  unfold drop_last2_bytes. rewrite rev_app_distr. cbn [rev app].
  change (utf8_len SLASH) with 1. change (utf8_len STAR) with 1. cbv iota.
  change (Nat.eqb 1 1) with true. cbv iota. rewrite rev_involutive. reflexivity.
Qed.

Lemma remove_header_block m :
  remove_comment_header (SLASH :: STAR :: m ++ [STAR; SLASH]) = Some (block_body m).
Proof.
  unfold remove_comment_header, starts_with. cbn [length].
  destruct m as [|c m'].
  - reflexivity.
  - cbn [app firstn eqb_text block_body].
    change (SLASH =? SLASH)%N with true. change (STAR =? SLASH)%N with false.
    change (STAR =? STAR)%N with true. cbn [andb orb negb skipn].
    destruct (N.eqb_spec c BANG) as [->|Hb].
    { change (BANG =? STAR)%N with false. cbn [andb orb negb]. apply drop_last2_closer. }
    destruct (N.eqb_spec c STAR) as [->|Hs]; cbn [andb orb negb].
    + destruct m' as [|d m'']; cbn [app firstn eqb_text andb].
      * change (STAR =? SLASH)%N with false. cbn [andb negb orb]. cbv iota. apply (drop_last2_closer []).
      * destruct (d =? SLASH)%N; cbn [andb negb orb]; cbv iota.
        -- apply (drop_last2_closer (STAR :: d :: m'')).
        -- apply (drop_last2_closer (d :: m'')).
    + apply (drop_last2_closer (c :: m')).
Qed.

Lemma comment_reducer_line b :
  comment_reducer (SLASH :: SLASH :: b) = Some (reduce false RFirst (line_body b)).
Proof. unfold comment_reducer. rewrite remove_header_line. reflexivity. Qed.
Lemma comment_reducer_block m :
  comment_reducer (SLASH :: STAR :: m ++ [STAR; SLASH]) = Some (reduce true RFirst (block_body m)).
Proof. unfold comment_reducer. rewrite remove_header_block. reflexivity. Qed.

(* ------------------------------------------------------------------ *)
(* texts whose comments are all terminated never make the reducer panic *)

Lemma stream_ok_concat ls : stream_ok (concat ls) = forallb stream_ok ls.
Proof.
  induction ls as [|l ls IH]; cbn [concat forallb]; [reflexivity|].
  unfold stream_ok in *. rewrite forallb_app, IH. reflexivity.
Qed.
Lemma stream_chars_concat : forall ls, forallb stream_ok ls = true ->
  stream_chars (concat ls) = concat (map stream_chars ls).
Proof.
  induction ls as [|l ls IH]; cbn [concat forallb map]; intros H; [reflexivity|].
  apply andb_true_iff in H. destruct H as [Hl Hls]. rewrite <- (IH Hls).
  clear IH Hls. induction l as [|[c|] l IHl]; cbn [app stream_chars]; [reflexivity| |discriminate Hl].
  cbn [stream_ok forallb andb] in Hl. rewrite (IHl Hl). reflexivity.
Qed.

Lemma payload_ok_closed t : in_block_comment (final_status t) = false -> payload_ok t = true.
Proof.
  intros Hc. unfold payload_ok, payload_stream. rewrite stream_ok_concat, forallb_forall.
  intros s Hs. apply in_map_iff in Hs. destruct Hs as (it & <- & Hit).
  destruct it as [[[[|] o] s]|]; cbn [item_stream].
  - reflexivity.
  - destruct (ungrouped_closed_shape t o s Hc Hit) as [[b ->]|[m ->]].
    + rewrite comment_reducer_line. apply stream_ok_map_some.
    + rewrite comment_reducer_block. apply stream_ok_map_some.
  - exfalso. exact (ungrouped_no_panic t Hit).
Qed.

(* the payload of a text is the concatenation of the reduced comments *)
Definition item_payload (it : option slice_item) : text := stream_chars (item_stream it).
Lemma payload_concat t : payload_ok t = true ->
  payload t = concat (map item_payload (ungrouped t)).
Proof.
  unfold payload_ok, payload, payload_stream. rewrite stream_ok_concat. intros H.
  rewrite (stream_chars_concat _ H), map_map. reflexivity.
Qed.

(* ------------------------------------------------------------------ *)
(* what the reducer keeps *)

Lemma reduce_nonws b : forall t m c, In c (reduce b m t) -> is_whitespace c = false.
Proof.
  induction t as [|x t IH]; intros m c H; cbn [reduce] in H; [destruct H|].
  destruct m.
  - destruct (is_whitespace x) eqn:Ex; [exact (IH _ _ H)|].
    destruct H as [<-|H]; [exact Ex|exact (IH _ _ H)].
  - destruct (is_whitespace x) eqn:Ex; [exact (IH _ _ H)|].
    destruct (x =? STAR)%N; [exact (IH _ _ H)|].
    destruct H as [<-|H]; [exact Ex|exact (IH _ _ H)].
  - destruct (is_whitespace x) eqn:Ex; [exact (IH _ _ H)|].
    destruct H as [<-|H]; [exact Ex|exact (IH _ _ H)].
Qed.

Lemma reduce_keeps b : forall t m c, In c t -> is_whitespace c = false -> c <> STAR ->
  In c (reduce b m t).
Proof.
  induction t as [|x t IH]; intros m c Hin Hws Hst; [destruct Hin|].
  cbn [reduce]. destruct Hin as [->|Hin].
  - rewrite Hws. destruct m; [left; reflexivity| |left; reflexivity].
    destruct (N.eqb_spec c STAR) as [E|_]; [contradiction|]. left. reflexivity.
  - specialize (fun m => IH m c Hin Hws Hst).
    destruct m.
    + destruct (is_whitespace x); [apply IH|right; apply IH].
    + destruct (is_whitespace x); [apply IH|]. destruct (x =? STAR)%N; [apply IH|right; apply IH].
    + destruct (is_whitespace x); [apply IH|right; apply IH].
Qed.

(* line comments: exactly the non-whitespace chars *)
Lemma reduce_line : forall t, reduce false RFirst t = filter (fun c => negb (is_whitespace c)) t.
Proof.
  induction t as [|x t IH]; cbn [reduce filter andb]; [reflexivity|].
  destruct (is_whitespace x); cbn [negb]; rewrite IH; reflexivity.
Qed.

(* the comments whose payload is empty *)
Fixpoint stars_ok (prev_star : bool) (t : text) : Prop :=
  match t with
  | [] => True
  | c :: t' => if is_whitespace c then stars_ok false t'
               else c = STAR /\ prev_star = false /\ stars_ok true t'
  end.
Fixpoint trivial_block (t : text) : Prop :=
  match t with
  | [] => True
  | c :: t' => is_whitespace c = true /\ (if (c =? LF)%N then stars_ok false t' else trivial_block t')
  end.

Lemma reduce_start_nil : forall t,
  (reduce true RStart t = [] <-> stars_ok false t) /\ (reduce true RStar t = [] <-> stars_ok true t).
Proof.
  induction t as [|x t [IH0 IH1]]; cbn [reduce stars_ok]; [tauto|].
  destruct (is_whitespace x) eqn:Ex.
  - tauto.
  - destruct (N.eqb_spec x STAR) as [->|Hx].
    + split.
      * rewrite IH1. tauto.
      * split; [discriminate|]. intros (_ & H & _). discriminate H.
    + split; (split; [discriminate|]); intros (H & _); contradiction.
Qed.

Lemma reduce_block_nil : forall t, reduce true RFirst t = [] <-> trivial_block t.
Proof.
  induction t as [|x t IH]; cbn [reduce trivial_block andb]; [tauto|].
  destruct (is_whitespace x) eqn:Ex.
  - destruct (x =? LF)%N.
    + rewrite (proj1 (reduce_start_nil t)). tauto.
    + rewrite IH. tauto.
  - split; [discriminate|]. intros [H _]. discriminate H.
Qed.

Lemma reduce_line_nil : forall t, reduce false RFirst t = [] <-> Forall (fun c => is_whitespace c = true) t.
Proof.
  induction t as [|x t IH]; cbn [reduce andb].
  - split; [constructor|reflexivity].
  - destruct (is_whitespace x) eqn:Ex.
    + rewrite IH. split; [intros H; constructor; assumption|intros H; inversion H; assumption].
    + split; [discriminate|]. intros H. inversion H as [|? ? Hx _]. rewrite Ex in Hx. discriminate Hx.
Qed.

(* ------------------------------------------------------------------ *)
(* a dropped comment is detected unless it is trivial *)

Definition no_comment_slice (t : text) : Prop :=
  forall o s, ~ In (Some (CComment, o, s)) (ungrouped t).

Lemma no_comment_payload t : no_comment_slice t -> payload_stream t = [].
Proof.
  intros H. unfold payload_stream.
  assert (G : forall it, In it (ungrouped t) -> item_stream it = []).
  { intros [[[[|] o] s]|] Hin; cbn [item_stream]; [reflexivity| |].
    - exfalso. exact (H o s Hin).
    - exfalso. exact (ungrouped_no_panic t Hin). }
  induction (ungrouped t) as [|it its IH]; cbn [map concat]; [reflexivity|].
  rewrite (G it (or_introl eq_refl)), IH; [reflexivity|].
  intros it' Hin. apply G. right. exact Hin.
Qed.

Lemma in_concat_map {A B} (f : A -> list B) x l y : In x l -> In y (f x) -> In y (concat (map f l)).
Proof.
  intros Hx Hy. apply in_concat. exists (f x). split; [apply in_map; exact Hx|exact Hy].
Qed.

Lemma payload_detects_loss src new o s body c :
  payload_ok src = true ->
  In (Some (CComment, o, s)) (ungrouped src) ->
  remove_comment_header s = Some body ->
  In c body -> is_whitespace c = false -> c <> STAR ->
  no_comment_slice new ->
  changed src new = Some true.
Proof.
  intros Hok Hin Hb Hc Hws Hst Hnew.
  assert (Hn : payload_stream new = []) by (apply no_comment_payload; exact Hnew).
  rewrite changed_spec; [|exact Hok|unfold payload_ok; rewrite Hn; reflexivity].
  unfold payload at 2. rewrite Hn. cbn [stream_chars].
  assert (Hp : In c (payload src)).
  { rewrite (payload_concat src Hok).
    apply (in_concat_map item_payload _ _ c Hin).
    unfold item_payload, item_stream, comment_reducer. rewrite Hb, stream_chars_map_some.
    apply reduce_keeps; assumption. }
  destruct (payload src) as [|x p]; [destruct Hp|reflexivity].
Qed.

Lemma payload_nil_iff src : payload_ok src = true ->
  (payload src = [] <->
   forall o s, In (Some (CComment, o, s)) (ungrouped src) -> comment_reducer s = Some []).
Proof.
  intros Hok. rewrite (payload_concat src Hok).
  assert (Hall : forall it, In it (ungrouped src) -> stream_ok (item_stream it) = true).
  { unfold payload_ok, payload_stream in Hok. rewrite stream_ok_concat, forallb_forall in Hok.
    intros it Hin. apply Hok. apply in_map. exact Hin. }
  split.
  - intros H o s Hin.
    assert (E : item_payload (Some (CComment, o, s)) = []).
    { destruct (item_payload (Some (CComment, o, s))) as [|x p] eqn:E; [reflexivity|].
      exfalso. assert (Hx : In x (concat (map item_payload (ungrouped src)))).
      { apply (in_concat_map item_payload _ _ x Hin). rewrite E. left. reflexivity. }
      rewrite H in Hx. destruct Hx. }
    specialize (Hall _ Hin). unfold item_payload in E. cbn [item_stream] in *.
    destruct (comment_reducer s) as [cs|]; [|discriminate Hall].
    rewrite stream_chars_map_some in E. rewrite E. reflexivity.
  - intros H. induction (ungrouped src) as [|it its IH]; cbn [map concat]; [reflexivity|].
    rewrite IH.
    + rewrite app_nil_r. destruct it as [[[[|] o] s]|]; unfold item_payload; cbn [item_stream]; try reflexivity.
      rewrite (H o s (or_introl eq_refl)). reflexivity.
    + intros it' Hin. apply Hall. right. exact Hin.
    + intros o s Hin. apply (H o s). right. exact Hin.
Qed.

Lemma trivial_loss_undetected src new : payload_ok src = true ->
  (forall o s, In (Some (CComment, o, s)) (ungrouped src) -> comment_reducer s = Some []) ->
  no_comment_slice new ->
  changed src new = Some false.
Proof.
  intros Hok Htriv Hnew.
  assert (Hn : payload_stream new = []) by (apply no_comment_payload; exact Hnew).
  apply changed_false_iff. split; [exact Hok|]. split; [unfold payload_ok; rewrite Hn; reflexivity|].
  unfold payload at 2. rewrite Hn. cbn [stream_chars]. apply (payload_nil_iff src Hok). exact Htriv.
Qed.

Lemma comment_reducer_line_nil b :
  comment_reducer (SLASH :: SLASH :: b) = Some [] <-> Forall (fun c => is_whitespace c = true) (line_body b).
Proof.
  rewrite comment_reducer_line, <- reduce_line_nil. split; [intros H; injection H; auto|intros ->; reflexivity].
Qed.
Lemma comment_reducer_block_nil m :
  comment_reducer (SLASH :: STAR :: m ++ [STAR; SLASH]) = Some [] <-> trivial_block (block_body m).
Proof.
  rewrite comment_reducer_block, <- reduce_block_nil. split; [intros H; injection H; auto|intros ->; reflexivity].
Qed.

(* ------------------------------------------------------------------ *)
(* Part 6: whitespace the safety net does not see *)

(* the classification of a prefix [a] of a text [a ++ z] *)
Fixpoint pre_items (st : status) (a z : text) : list (kind * char) :=
  match a with
  | [] => []
  | c :: a' => match step st c (a' ++ z) with
               | Some (k, st') => (k, c) :: pre_items st' a' z
               | None => []
               end
  end.
Fixpoint pre_status (st : status) (a z : text) : status :=
  match a with
  | [] => st
  | c :: a' => match step st c (a' ++ z) with
               | Some (_, st') => pre_status st' a' z
               | None => st
               end
  end.

Lemma classify_from_app : forall a st z, st_ok st (a ++ z) ->
  classify_from st (a ++ z) = pre_items st a z ++ classify_from (pre_status st a z) z /\
  st_ok (pre_status st a z) z /\ length (pre_items st a z) = length a.
Proof.
  induction a as [|c a IH]; intros st z Hok; cbn [app pre_items pre_status].
  - auto.
  - cbn [classify_from]. destruct (step_ok st c (a ++ z) Hok) as (k & st' & E & Hok').
    rewrite E. destruct (IH st' z Hok') as (E1 & E2 & E3). rewrite E1. cbn [app length]. auto.
Qed.

(* what a step looks at *)
Lemma step_ext st c r r' :
  firstn 2 r = firstn 2 r' ->
  (forall n, is_raw_string_suffix r n = is_raw_string_suffix r' n) ->
  step st c r = step st c r'.
Proof.
  intros H2 Hraw.
  assert (Hpeek : forall x, peek_is r x = peek_is r' x).
  { intros x. destruct r as [|a r1], r' as [|a' r1']; cbn [firstn] in H2; try discriminate H2; [reflexivity|].
    injection H2 as -> _. reflexivity. }
  destruct st; unfold step; rewrite ?Hraw, ?Hpeek; try reflexivity.
  destruct r as [|a [|b r2]], r' as [|a' [|b' r2']]; cbn [firstn] in H2; try discriminate H2; try reflexivity.
  - injection H2 as ->. reflexivity.
  - injection H2 as -> ->. reflexivity.
Qed.

Lemma raw_suffix_stop : forall a x z z' n, x <> HASH ->
  is_raw_string_suffix (a ++ x :: z) n = is_raw_string_suffix (a ++ x :: z') n.
Proof.
  induction a as [|h a IH]; intros x z z' n Hx; destruct n as [|n]; cbn [app is_raw_string_suffix]; try reflexivity.
  - destruct (N.eqb_spec x HASH); [contradiction|reflexivity].
  - destruct (h =? HASH)%N; [apply IH; exact Hx|reflexivity].
Qed.

(* the classification before a comment opener does not depend on what follows it *)
Lemma pre_opener_local : forall a st x z z',
  pre_items st a (SLASH :: x :: z) = pre_items st a (SLASH :: x :: z') /\
  pre_status st a (SLASH :: x :: z) = pre_status st a (SLASH :: x :: z').
Proof.
  induction a as [|c a IH]; intros st x z z'; cbn [pre_items pre_status]; [auto|].
  assert (E : step st c (a ++ SLASH :: x :: z) = step st c (a ++ SLASH :: x :: z')).
  { apply step_ext.
    - destruct a as [|a1 [|a2 a]]; reflexivity.
    - intros n. apply raw_suffix_stop. discriminate. }
  rewrite E. destruct (step st c (a ++ SLASH :: x :: z')) as [[k st']|]; [|auto].
  destruct (IH st' x z z') as [E1 E2]. rewrite E1, E2. auto.
Qed.

(* comment statuses *)
Definition cstat (st : status) : bool :=
  match st with
  | SBlockComment _ | SStringInBlockComment _ | SBlockCommentOpening _ | SBlockCommentClosing _
  | SLineComment => true
  | _ => false
  end.

Definition not_star_slash (c : char) : Prop := c <> STAR /\ c <> SLASH.

Lemma step_comment_ext st c r r' : cstat st = true ->
  (peek_is r SLASH = peek_is r' SLASH /\ peek_is r STAR = peek_is r' STAR) \/ not_star_slash c ->
  step st c r = step st c r'.
Proof.
  intros Hc [[H1 H2]|[Hs Hl]]; destruct st; try discriminate Hc; unfold step; rewrite ?H1, ?H2; try reflexivity.
  - destruct deepness; [reflexivity|].
    destruct (N.eqb_spec c STAR); [contradiction|]. destruct (N.eqb_spec c SLASH); [contradiction|].
    rewrite !andb_false_r. reflexivity.
  - destruct (N.eqb_spec c STAR); [contradiction|]. reflexivity.
Qed.

Definition inside_item (it : kind * char) : Prop := inside_comment (fst it) = true.

Lemma step_inside_cstat st c r k st' : step st c r = Some (k, st') -> inside_comment k = true ->
  cstat st = true /\ cstat st' = true.
Proof.
  intros E Hk. destruct st; unfold step in E;
  repeat match type of E with
         | context [if ?b then _ else _] => destruct b
         | context [match ?x with _ => _ end] => destruct x
         end; try discriminate E; injection E as <- <-; try discriminate Hk; split; reflexivity.
Qed.

(* inside a comment, the classification up to a point depends on what follows
   only through the question whether the next char is a star or a slash *)
Lemma pre_comment_local : forall p st z z', cstat st = true ->
  Forall inside_item (pre_items st p z') ->
  length (pre_items st p z') = length p ->
  ((peek_is z SLASH = peek_is z' SLASH /\ peek_is z STAR = peek_is z' STAR) \/
   (exists p0 c, p = p0 ++ [c] /\ not_star_slash c)) ->
  pre_items st p z = pre_items st p z' /\ pre_status st p z = pre_status st p z' /\
  cstat (pre_status st p z') = true.
Proof.
  induction p as [|c p IH]; intros st z z' Hc Hin Hlen Hb; cbn [pre_items pre_status] in *; [auto|].
  assert (E : step st c (p ++ z) = step st c (p ++ z')).
  { apply step_comment_ext; [exact Hc|].
    destruct p as [|d p1].
    - destruct Hb as [Hb|(p0 & c0 & E0 & Hc0)]; [left; exact Hb|right].
      destruct p0 as [|? [|? ?]]; cbn [app] in E0; try discriminate E0. injection E0 as ->. exact Hc0.
    - left. split; reflexivity. }
  rewrite E. destruct (step st c (p ++ z')) as [[k st']|] eqn:Es; [|cbn [length] in Hlen; discriminate Hlen].
  inversion Hin as [|x xs Hx Hxs]; subst. unfold inside_item in Hx. cbn [fst] in Hx.
  destruct (step_inside_cstat _ _ _ _ _ Es Hx) as [_ Hc'].
  cbn [length] in Hlen. injection Hlen as Hlen.
  destruct p as [|d p1]; [cbn [pre_items pre_status]; auto|].
  destruct (IH st' z z' Hc' Hxs Hlen) as (E1 & E2 & E3).
  { destruct Hb as [Hb|(p0 & c0 & E0 & Hc0)]; [left; exact Hb|right].
    destruct p0 as [|e p0]; cbn [app] in E0; [discriminate E0|].
    injection E0 as -> E0. exists p0, c0. auto. }
  rewrite E1, E2. auto.
Qed.

(* whitespace chars are none of the chars the classifier and the header removal test for *)
Lemma ws_not_special c : is_whitespace c = true ->
  c <> STAR /\ c <> SLASH /\ c <> DQ /\ c <> BANG.
Proof.
  intros H. repeat split; intros ->; vm_compute in H; discriminate H.
Qed.

Definition blank (c : char) : Prop := is_whitespace c = true /\ c <> LF.

Definition kind_in (st : status) : kind :=
  match st with SStringInBlockComment _ => KInStringCommented | _ => KInComment end.

Lemma kind_in_inside st : inside_comment (kind_in st) = true.
Proof. destruct st; reflexivity. Qed.

Lemma pre_blank : forall w st z, cstat st = true -> st_ok st (w ++ z) -> Forall blank w ->
  pre_items st w z = map (fun c => (kind_in st, c)) w /\ pre_status st w z = st.
Proof.
  induction w as [|c w IH]; intros st z Hc Hok Hb; cbn [pre_items pre_status map]; [auto|].
  inversion Hb as [|? ? [Hws Hlf] Hb']; subst.
  destruct (ws_not_special c Hws) as (Hs & Hl & Hq & _).
  assert (E : step st c (w ++ z) = Some (kind_in st, st)).
  { destruct st; try discriminate Hc; cbn [st_ok app] in Hok; unfold step, kind_in.
    - destruct deepness as [|d]; [congruence|].
      destruct (N.eqb_spec c STAR); [contradiction|]. destruct (N.eqb_spec c SLASH); [contradiction|].
      destruct (N.eqb_spec c DQ); [contradiction|]. rewrite !andb_false_r. reflexivity.
    - destruct (N.eqb_spec c DQ); [contradiction|]. destruct (N.eqb_spec c STAR); [contradiction|]. reflexivity.
    - destruct Hok as [_ [r' Hr]]. injection Hr as -> _. contradiction.
    - destruct Hok as [r' Hr]. injection Hr as -> _. contradiction.
    - destruct (N.eqb_spec c LF); [contradiction|]. reflexivity. }
  rewrite E.
  assert (Hok' : st_ok st (w ++ z)).
  { destruct (step_ok st c (w ++ z) Hok) as (k & st' & E' & Hok'). rewrite E in E'. injection E' as _ <-. exact Hok'. }
  destruct (IH st z Hc Hok' Hb') as [E1 E2]. rewrite E1, E2. auto.
Qed.

(* ------------------------------------------------------------------ *)
(* ung_go on a list given by a prefix and a rest *)

Definition strip (it : option slice_item) : option (ckind * text) :=
  match it with Some (k, _, s) => Some (k, s) | None => None end.


Lemma ung_go_inside : forall P s acc off L, Forall inside_item P ->
  ung_go UComment s acc off (P ++ L) =
  ung_go UComment s (rev (map snd P) ++ acc) (off + blen (map snd P)) L.
Proof.
  induction P as [|[k c] P IH]; intros s acc off L Hin.
  - cbn [app map rev blen]. rewrite Nat.add_0_r. reflexivity.
  - inversion Hin as [|? ? Hk Hin']; subst. unfold inside_item in Hk. cbn [fst] in Hk.
    cbn [app ung_go]. rewrite Hk. rewrite (IH _ _ _ _ Hin').
    cbn [map snd rev blen]. rewrite <- app_assoc. cbn [app]. rewrite Nat.add_assoc. reflexivity.
Qed.

(* the chars of the rest of a comment, and what follows it *)
Fixpoint crest (R : list (kind * char)) : text :=
  match R with
  | [] => []
  | (k, c) :: R' => c :: (if inside_comment k then crest R' else [])
  end.
Fixpoint ctail (R : list (kind * char)) : list (kind * char) :=
  match R with
  | [] => []
  | (k, c) :: R' => if inside_comment k then ctail R' else R'
  end.

Lemma ung_go_comment : forall R s acc off, exists o,
  ung_go UComment s acc off R = Some (CComment, s, rev acc ++ crest R) :: ung_go UIdle o [] o (ctail R).
Proof.
  induction R as [|[k c] R IH]; intros s acc off.
  - exists 0. cbn [ung_go crest ctail]. rewrite app_nil_r. reflexivity.
  - cbn [ung_go crest ctail]. destruct (inside_comment k).
    + destruct (IH s (c :: acc) (off + utf8_len c)) as [o E]. exists o. rewrite E.
      cbn [rev]. rewrite <- app_assoc. reflexivity.
    + exists (off + utf8_len c). reflexivity.
Qed.

Lemma ung_idle_strip : forall L m s s' acc off off',
  map strip (ung_go m s acc off L) = map strip (ung_go m s' acc off' L).
Proof.
  induction L as [|[k c] L IH]; intros m s s' acc off off'.
  - destruct m; reflexivity.
  - cbn [ung_go].
    assert (F : map strip (match k with
                 | KNormal | KInString => ung_go UNormal off [c] (off + utf8_len c) L
                 | KStartComment => ung_go UComment off [c] (off + utf8_len c) L
                 | _ => [None] end) =
                map strip (match k with
                 | KNormal | KInString => ung_go UNormal off' [c] (off' + utf8_len c) L
                 | KStartComment => ung_go UComment off' [c] (off' + utf8_len c) L
                 | _ => [None] end)).
    { destruct k; try reflexivity; apply IH. }
    destruct m.
    + exact F.
    + destruct (is_comment k); [cbn [map strip]; rewrite F; reflexivity|apply IH].
    + destruct (inside_comment k); [apply IH|]. cbn [map strip]. f_equal. apply IH.
Qed.

Lemma item_stream_strip it it' : strip it = strip it' -> item_stream it = item_stream it'.
Proof.
  destruct it as [[[k o] s]|], it' as [[[k' o'] s']|]; cbn [strip]; intros H; try discriminate H; [|reflexivity].
  injection H as -> ->. reflexivity.
Qed.
Lemma map_item_stream_strip : forall l l', map strip l = map strip l' -> map item_stream l = map item_stream l'.
Proof.
  induction l as [|it l IH]; intros [|it' l'] H; cbn [map] in *; try discriminate H; [reflexivity|].
  injection H as H1 H2. rewrite (item_stream_strip _ _ H1), (IH _ H2). reflexivity.
Qed.

(* one item of input: what is emitted and the next state do not depend on the rest *)
Lemma ung_step m s acc off k c :
  (exists E m1 s1 acc1 off1, forall X, ung_go m s acc off ((k, c) :: X) = E ++ ung_go m1 s1 acc1 off1 X) \/
  (exists E, forall X, ung_go m s acc off ((k, c) :: X) = E ++ [None]).
Proof.
  destruct m, k; cbn [ung_go is_comment inside_comment];
  first [ left; exists []; do 4 eexists; intros X; cbn [app]; reflexivity
        | left; eexists [_]; do 4 eexists; intros X; cbn [app]; reflexivity
        | right; exists []; intros X; reflexivity
        | right; eexists [_]; intros X; reflexivity ].
Qed.

Lemma ung_prefix : forall A m s acc off,
  (exists E m1 s1 acc1 off1, forall X, ung_go m s acc off (A ++ X) = E ++ ung_go m1 s1 acc1 off1 X) \/
  (exists E, forall X, ung_go m s acc off (A ++ X) = E ++ [None]).
Proof.
  induction A as [|[k c] A IH]; intros m s acc off.
  - left. exists [], m, s, acc, off. intros X. reflexivity.
  - destruct (ung_step m s acc off k c) as [(E & m1 & s1 & acc1 & off1 & H)|(E & H)].
    + destruct (IH m1 s1 acc1 off1) as [(E' & m2 & s2 & acc2 & off2 & H')|(E' & H')].
      * left. exists (E ++ E'), m2, s2, acc2, off2. intros X. cbn [app]. rewrite H, H', app_assoc. reflexivity.
      * right. exists (E ++ E'). intros X. cbn [app]. rewrite H, H', app_assoc. reflexivity.
    + right. exists E. intros X. cbn [app]. apply H.
Qed.

(* ------------------------------------------------------------------ *)
(* the reducer and whitespace *)

Definition ws (c : char) : Prop := is_whitespace c = true.

Fixpoint rmode_after (b : bool) (m : rmode) (a : text) : rmode :=
  match a with
  | [] => m
  | c :: a' =>
      rmode_after b
        (match m with
         | RFirst => if b && (c =? LF)%N then RStart else RFirst
         | RStart => if is_whitespace c then RStart else if (c =? STAR)%N then RStar else RStart
         | RStar => RStart
         end) a'
  end.

Lemma reduce_app b : forall a m y,
  reduce b m (a ++ y) = reduce b m a ++ reduce b (rmode_after b m a) y.
Proof.
  induction a as [|c a IH]; intros m y; cbn [app reduce rmode_after]; [reflexivity|].
  destruct m.
  - destruct (is_whitespace c); rewrite IH; reflexivity.
  - destruct (is_whitespace c); [rewrite IH; reflexivity|].
    destruct (c =? STAR)%N; rewrite IH; reflexivity.
  - destruct (is_whitespace c); rewrite IH; reflexivity.
Qed.

Definition after_lf (b : bool) (m : rmode) : rmode :=
  match m with RFirst => if b then RStart else RFirst | _ => RStart end.

Lemma reduce_ws_lf b : forall w m r, Forall ws w ->
  reduce b m (w ++ LF :: r) = reduce b (after_lf b m) r.
Proof.
  induction w as [|c w IH]; intros m r Hw.
  - cbn [app reduce]. change (is_whitespace LF) with true. change (LF =? LF)%N with true.
    rewrite andb_true_r. destruct m, b; reflexivity.
  - inversion Hw as [|? ? Hc Hw']; subst. unfold ws in Hc. cbn [app reduce]. rewrite Hc.
    destruct m; rewrite (IH _ _ Hw').
    + destruct b; [|reflexivity]. cbn [andb]. destruct (c =? LF)%N; reflexivity.
    + reflexivity.
    + reflexivity.
Qed.

Lemma reduce_trailing_blanks b m w r : Forall ws w ->
  reduce b m (w ++ LF :: r) = reduce b m (LF :: r).
Proof.
  intros Hw. rewrite (reduce_ws_lf b w m r Hw). symmetry. apply (reduce_ws_lf b [] m r). constructor.
Qed.

Lemma reduce_start_ws : forall w r, Forall ws w -> reduce true RStart (w ++ r) = reduce true RStart r.
Proof.
  induction w as [|c w IH]; intros r Hw; [reflexivity|].
  inversion Hw as [|? ? Hc Hw']; subst. unfold ws in Hc. cbn [app reduce]. rewrite Hc. apply IH. exact Hw'.
Qed.

Lemma reduce_reindent m w r : Forall ws w ->
  reduce true m (LF :: w ++ r) = reduce true m (LF :: r).
Proof.
  intros Hw.
  assert (E : forall y, reduce true m (LF :: y) = reduce true RStart y).
  { intros y. cbn [reduce]. change (is_whitespace LF) with true. change (LF =? LF)%N with true.
    destruct m; reflexivity. }
  rewrite !E. apply reduce_start_ws. exact Hw.
Qed.

Definition ws_head (Z : text) : Prop := exists c Z', Z = c :: Z' /\ is_whitespace c = true.

Lemma block_body_ws p : exists pb, forall Z, ws_head Z -> block_body (p ++ Z) = pb ++ Z.
Proof.
  destruct p as [|c [|d p']].
  - exists []. intros Z (z & Z' & -> & Hz). destruct (ws_not_special z Hz) as (Hs & Hl & _ & Hb).
    cbn [app block_body]. destruct (N.eqb_spec z BANG); [contradiction|]. destruct (N.eqb_spec z STAR); [contradiction|].
    reflexivity.
  - destruct (N.eqb_spec c BANG) as [Eb|Eb].
    { exists []. intros Z _. cbn [app block_body]. destruct (N.eqb_spec c BANG); [reflexivity|contradiction]. }
    destruct (N.eqb_spec c STAR) as [Es|Es].
    { exists []. intros Z (z & Z' & -> & Hz). destruct (ws_not_special z Hz) as (_ & Hl & _).
      cbn [app block_body]. destruct (N.eqb_spec c BANG); [contradiction|]. destruct (N.eqb_spec c STAR); [|contradiction].
      destruct (N.eqb_spec z SLASH); [contradiction|]. reflexivity. }
    exists [c]. intros Z _. cbn [app block_body].
    destruct (N.eqb_spec c BANG); [contradiction|]. destruct (N.eqb_spec c STAR); [contradiction|]. reflexivity.
  - cbn [app block_body].
    destruct (c =? BANG)%N; [exists (d :: p'); reflexivity|].
    destruct (c =? STAR)%N; [|exists (c :: d :: p'); reflexivity].
    destruct (d =? SLASH)%N; [exists (c :: d :: p')|exists (d :: p')]; reflexivity.
Qed.

Lemma line_body_ws p : exists pb, forall Z, ws_head Z -> line_body (p ++ Z) = pb ++ Z.
Proof.
  destruct p as [|c p'].
  - exists []. intros Z (z & Z' & -> & Hz). destruct (ws_not_special z Hz) as (_ & Hl & _ & Hb).
    cbn [app line_body]. destruct (N.eqb_spec z SLASH); [contradiction|]. destruct (N.eqb_spec z BANG); [contradiction|].
    reflexivity.
  - cbn [app line_body]. destruct ((c =? SLASH)%N || (c =? BANG)%N); [exists p'|exists (c :: p')]; reflexivity.
Qed.

Lemma app_last2 (u X m : text) (y a b : char) : u ++ y :: X = m ++ [a; b] -> b <> y -> a <> y ->
  exists X', X = X' ++ [a; b] /\ m = u ++ y :: X'.
Proof.
  intros E Hb Ha.
  assert (Er : rev X ++ y :: rev u = b :: a :: rev m).
  { apply (f_equal (@rev char)) in E. rewrite !rev_app_distr in E. cbn [rev app] in E.
    rewrite <- app_assoc in E. exact E. }
  destruct (rev X) as [|r1 [|r2 rr]] eqn:EX; cbn [app] in Er.
  - injection Er as Er _. congruence.
  - injection Er as _ Er _. congruence.
  - injection Er as -> -> Er.
    assert (EX' : X = rev rr ++ [a; b]).
    { rewrite <- (rev_involutive X), EX. cbn [rev]. rewrite <- app_assoc. reflexivity. }
    exists (rev rr). split; [exact EX'|].
    apply (f_equal (@rev char)) in Er. rewrite rev_involutive, rev_app_distr in Er. cbn [rev] in Er.
    rewrite rev_involutive, <- app_assoc in Er. exact (eq_sym Er).
Qed.

(* ------------------------------------------------------------------ *)
(* inserting blanks inside a comment: classification *)

Lemma app_inv_len {A} : forall (l1 l2 r1 r2 : list A),
  l1 ++ r1 = l2 ++ r2 -> length l1 = length l2 -> l1 = l2 /\ r1 = r2.
Proof.
  induction l1 as [|x l1 IH]; intros [|y l2] r1 r2 E Hl; cbn [length] in Hl; try discriminate Hl.
  - auto.
  - cbn [app] in E. injection E as -> E. injection Hl as Hl. destruct (IH _ _ _ E Hl) as [-> ->]. auto.
Qed.

Lemma pre_items_chars : forall a st z, length (pre_items st a z) = length a -> map snd (pre_items st a z) = a.
Proof.
  induction a as [|c a IH]; intros st z H; cbn [pre_items] in *; [reflexivity|].
  destruct (step st c (a ++ z)) as [[k st']|]; [|discriminate H].
  cbn [length] in H. injection H as H. cbn [map snd]. rewrite (IH _ _ H). reflexivity.
Qed.

Lemma step_start st c r st' : step st c r = Some (KStartComment, st') ->
  st = SNormal /\ c = SLASH /\
  ((exists r', r = STAR :: r' /\ st' = SBlockCommentOpening 1) \/ (exists r', r = SLASH :: r' /\ st' = SLineComment)).
Proof.
  intros E. destruct st; unfold step in E;
  try (repeat match type of E with
         | context [if ?b then _ else _] => destruct b
         | context [match ?x with _ => _ end] => destruct x
         end; discriminate E).
  split; [reflexivity|]. revert E.
  case_eqb; [destruct r as [|y r']; [|destruct ((y =? HASH)%N || (y =? DQ)%N)]; discriminate|].
  case_eqb; [discriminate|].
  case_eqb.
  { destruct r as [|y r']; [discriminate|]. case_eqb; [discriminate|].
    destruct r' as [|y2 r'']; [discriminate|]. case_eqb; discriminate. }
  case_eqb; [|discriminate]. split; [assumption|].
  destruct r as [|y r']; [discriminate E|]. revert E.
  case_eqb; [intros E; injection E as <-; left; subst y; eauto|].
  case_eqb; [intros E; injection E as <-; right; subst y; eauto|discriminate].
Qed.

Definition opener_status (x : char) : status :=
  if (x =? STAR)%N then SBlockComment 1 else SLineComment.

Lemma classify_opener x : x = STAR \/ x = SLASH ->
  (forall Y, classify_from SNormal (SLASH :: x :: Y) =
             (KStartComment, SLASH) :: (KInComment, x) :: classify_from (opener_status x) Y) /\
  cstat (opener_status x) = true /\ (forall r, st_ok (opener_status x) r).
Proof.
  intros [->| ->].
  - split; [intros Y; reflexivity|]. split; [reflexivity|]. intros r. cbv [opener_status st_ok]. cbn. discriminate.
  - split; [intros Y; reflexivity|]. split; [reflexivity|]. intros r. exact I.
Qed.

Definition boundary_ok (p w q : text) : Prop :=
  (peek_is (w ++ q) SLASH = peek_is q SLASH /\ peek_is (w ++ q) STAR = peek_is q STAR) \/
  (exists p0 c, p = p0 ++ [c] /\ not_star_slash c).

Lemma insert_classify a x p w q A B C :
  classify (a ++ SLASH :: x :: p ++ q) = A ++ (KStartComment, SLASH) :: B ++ C ->
  length A = length a -> length B = S (length p) -> Forall inside_item B ->
  Forall blank w -> boundary_ok p w q ->
  exists P st1, Forall inside_item P /\ map snd P = x :: p /\ cstat st1 = true /\ st_ok st1 q /\
    classify (a ++ SLASH :: x :: p ++ w ++ q) =
      A ++ (KStartComment, SLASH) :: P ++ map (fun c => (kind_in st1, c)) w ++ classify_from st1 q /\
    classify (a ++ SLASH :: x :: p ++ q) = A ++ (KStartComment, SLASH) :: P ++ classify_from st1 q.
Proof.
  intros Hd HlA HlB HinB Hw Hbd.
  set (Z2 := SLASH :: x :: p ++ q) in *. set (Z1 := SLASH :: x :: p ++ w ++ q).
  destruct (classify_from_app a SNormal Z2 I) as (E2 & Hok2 & Hlen2).
  fold (classify (a ++ Z2)) in E2. rewrite E2 in Hd.
  destruct (app_inv_len _ _ _ _ Hd) as [EA ER]; [rewrite Hlen2, HlA; reflexivity|].
  (* the opener *)
  set (stA := pre_status SNormal a Z2) in *. unfold Z2 in ER. cbn [classify_from] in ER.
  destruct (step stA SLASH (x :: p ++ q)) as [[k0 st0']|] eqn:Es; [|discriminate ER].
  injection ER as -> ER.
  destruct (step_start _ _ _ _ Es) as (EstA & _ & Hx).
  assert (Hx' : x = STAR \/ x = SLASH).
  { destruct Hx as [(r' & Hr & _)|(r' & Hr & _)]; injection Hr as -> _; auto. }
  clear ER.
  destruct (classify_opener x Hx') as (Eo & Hc0 & Hok0). set (st0 := opener_status x) in *.
  destruct (app_inv_len _ _ _ _ Hd) as [_ ER]; [rewrite Hlen2, HlA; reflexivity|].
  rewrite EstA in ER, E2. clear Es Hx st0'.
  unfold Z2 in ER. rewrite Eo in ER. injection ER as ER.
  (* the comment up to the insertion point *)
  destruct (classify_from_app p st0 q (Hok0 _)) as (Ep2 & Hokp2 & Hlenp2).
  rewrite Ep2 in ER.
  assert (ER' : B ++ C = ((KInComment, x) :: pre_items st0 p q) ++ classify_from (pre_status st0 p q) q).
  { exact (eq_sym ER). }
  destruct (app_inv_len _ _ _ _ ER') as [EB EC]; [cbn [length]; rewrite Hlenp2, HlB; reflexivity|].
  assert (HinP : Forall inside_item (pre_items st0 p q)).
  { rewrite EB in HinB. inversion HinB; assumption. }
  destruct (pre_comment_local p st0 (w ++ q) q Hc0 HinP Hlenp2 Hbd) as (El1 & El2 & Hc1).
  set (st1 := pre_status st0 p q) in *.
  exists ((KInComment, x) :: pre_items st0 p q), st1.
  split; [constructor; [reflexivity|exact HinP]|].
  split; [cbn [map snd]; rewrite (pre_items_chars _ _ _ Hlenp2); reflexivity|].
  split; [exact Hc1|]. split; [exact Hokp2|].
  split.
  - (* the text with the blanks *)
    destruct (classify_from_app a SNormal Z1 I) as (E1 & _ & _).
    fold (classify (a ++ Z1)) in E1. fold Z1. rewrite E1.
    destruct (pre_opener_local a SNormal x (p ++ w ++ q) (p ++ q)) as [Ei Es'].
    fold Z1 Z2 in Ei, Es'. rewrite Ei, Es', EA. fold stA. rewrite EstA.
    unfold Z1. rewrite Eo.
    destruct (classify_from_app p st0 (w ++ q) (Hok0 _)) as (Ep1 & Hokp1 & _).
    rewrite Ep1, El1, El2. fold st1. rewrite El2 in Hokp1. fold st1 in Hokp1.
    destruct (classify_from_app w st1 q Hokp1) as (Ew & _ & _).
    destruct (pre_blank w st1 q Hc1 Hokp1 Hw) as [Ew1 Ew2].
    rewrite Ew, Ew1, Ew2. reflexivity.
  - rewrite E2, EA. unfold Z2. rewrite Eo, Ep2. reflexivity.
Qed.

(* ------------------------------------------------------------------ *)
(* inserting blanks inside a comment: the slices *)

Lemma map_snd_tag {K} (k : K) (w : text) : map snd (map (fun c => (k, c)) w) = w.
Proof. induction w as [|c w IH]; cbn [map snd]; [reflexivity|rewrite IH; reflexivity]. Qed.

Lemma rev_acc3 (w xp acc Y : text) : rev (rev w ++ rev xp ++ acc) ++ Y = rev acc ++ xp ++ w ++ Y.
Proof. rewrite !rev_app_distr, !rev_involutive, <- !app_assoc. reflexivity. Qed.
Lemma rev_acc2 (xp acc Y : text) : rev (rev xp ++ acc) ++ Y = rev acc ++ xp ++ Y.
Proof. rewrite !rev_app_distr, !rev_involutive, <- !app_assoc. reflexivity. Qed.

Lemma insert_ungrouped a x p w q A B C :
  classify (a ++ SLASH :: x :: p ++ q) = A ++ (KStartComment, SLASH) :: B ++ C ->
  length A = length a -> length B = S (length p) -> Forall inside_item B ->
  Forall blank w -> boundary_ok p w q ->
  exists pre s0 X T1 T2,
    ungrouped (a ++ SLASH :: x :: p ++ w ++ q) = pre ++ Some (CComment, s0, SLASH :: x :: p ++ w ++ X) :: T1 /\
    ungrouped (a ++ SLASH :: x :: p ++ q) = pre ++ Some (CComment, s0, SLASH :: x :: p ++ X) :: T2 /\
    map strip T1 = map strip T2 /\
    (forall c q', q = c :: q' -> exists X', X = c :: X').
Proof.
  intros Hd HlA HlB HinB Hw Hbd.
  destruct (insert_classify a x p w q A B C Hd HlA HlB HinB Hw Hbd)
    as (P & st1 & HinP & EP & Hc1 & Hok1 & E1 & E2).
  set (R := classify_from st1 q) in *.
  set (W := map (fun c => (kind_in st1, c)) w) in *.
  assert (HinW : Forall inside_item W).
  { unfold W. clear. induction w as [|c w IH]; cbn [map]; constructor; [apply kind_in_inside|exact IH]. }
  assert (HX : forall c q', q = c :: q' -> exists X', crest R = c :: X').
  { intros c q' ->. unfold R. cbn [classify_from].
    destruct (step_ok st1 c q' Hok1) as (k & st' & Es & _). rewrite Es. cbn [crest]. eexists. reflexivity. }
  pose proof (ungrouped_no_panic (a ++ SLASH :: x :: p ++ q)) as Hnp.
  unfold ungrouped in *. rewrite E1. rewrite E2 in Hnp |- *. clear E1 E2 Hd.
  (* from the state reached after A, run the opener, the comment and the blanks *)
  assert (Hrun : forall s acc off o', exists o,
     ung_go UComment s (acc) off (P ++ W ++ R) =
       Some (CComment, s, rev acc ++ x :: p ++ w ++ crest R) :: ung_go UIdle o [] o (ctail R) /\
     exists o2, ung_go UComment s acc o' (P ++ R) =
       Some (CComment, s, rev acc ++ x :: p ++ crest R) :: ung_go UIdle o2 [] o2 (ctail R)).
  { intros s acc off o'.
    rewrite (ung_go_inside P s acc off (W ++ R) HinP), (ung_go_inside W _ _ _ R HinW).
    rewrite (ung_go_inside P s acc o' R HinP).
    unfold W at 1 2. rewrite (map_snd_tag (kind_in st1) w), EP.
    match goal with |- context [ung_go UComment s ?ac ?of R] => destruct (ung_go_comment R s ac of) as [o Eo] end.
    exists o. rewrite Eo. split.
    { rewrite rev_acc3. reflexivity. }
    match goal with |- context [ung_go UComment s ?ac ?of R] => destruct (ung_go_comment R s ac of) as [o2 Eo2] end.
    exists o2. rewrite Eo2, rev_acc2. reflexivity. }
  destruct (ung_prefix A UIdle 0 [] 0) as [(E & m1 & s1 & acc1 & off1 & HA)|(E & HA)].
  2: { exfalso. apply Hnp. rewrite HA. apply in_or_app. right. left. reflexivity. }
  rewrite !HA. rewrite HA in Hnp.
  destruct m1.
  - (* UIdle *)
    cbn [ung_go].
    destruct (Hrun off1 [SLASH] (off1 + utf8_len SLASH) (off1 + utf8_len SLASH)) as (o & Er1 & o2 & Er2).
    rewrite Er1, Er2. cbn [rev app].
    exists E, off1, (crest R), (ung_go UIdle o [] o (ctail R)), (ung_go UIdle o2 [] o2 (ctail R)).
    split; [reflexivity|]. split; [reflexivity|]. split; [apply ung_idle_strip|exact HX].
  - (* UNormal *)
    cbn [ung_go is_comment].
    destruct (Hrun off1 [SLASH] (off1 + utf8_len SLASH) (off1 + utf8_len SLASH)) as (o & Er1 & o2 & Er2).
    rewrite Er1, Er2. cbn [rev app].
    exists (E ++ [Some (CNormal, s1, rev acc1)]), off1, (crest R),
           (ung_go UIdle o [] o (ctail R)), (ung_go UIdle o2 [] o2 (ctail R)).
    rewrite <- !app_assoc. cbn [app].
    split; [reflexivity|]. split; [reflexivity|]. split; [apply ung_idle_strip|exact HX].
  - (* UComment: the opener would end a comment and the next item panics *)
    exfalso. apply Hnp. destruct P as [|[k0 c0] P']; [discriminate EP|].
    inversion HinP as [|? ? Hk0 _]; subst. unfold inside_item in Hk0. cbn [fst] in Hk0.
    cbn [ung_go inside_comment app]. apply in_or_app. right. right.
    destruct k0; try discriminate Hk0; left; reflexivity.
Qed.

(* the payload stream when one comment slice differs *)
Lemma payload_stream_insert t1 t2 pre s0 c1 c2 T1 T2 :
  ungrouped t1 = pre ++ Some (CComment, s0, c1) :: T1 ->
  ungrouped t2 = pre ++ Some (CComment, s0, c2) :: T2 ->
  map strip T1 = map strip T2 ->
  comment_reducer c1 = comment_reducer c2 ->
  payload_stream t1 = payload_stream t2.
Proof.
  intros E1 E2 ET Ec. unfold payload_stream. rewrite E1, E2, !map_app, !map_cons.
  assert (Ei : item_stream (Some (CComment, s0, c1)) = item_stream (Some (CComment, s0, c2))).
  { cbn [item_stream]. rewrite Ec. reflexivity. }
  rewrite Ei. do 3 f_equal. apply map_item_stream_strip. exact ET.
Qed.

Lemma blank_ws w : Forall blank w -> Forall ws w.
Proof. intros H. eapply Forall_impl; [|exact H]. intros c [Hc _]. exact Hc. Qed.

Lemma peek_blank_lf w q c : Forall blank w -> peek_is (w ++ LF :: q) c = true -> is_whitespace c = true.
Proof.
  intros Hw. destruct w as [|d w]; cbn [app peek_is]; intros H; apply N.eqb_eq in H; subst c.
  - reflexivity.
  - inversion Hw as [|? ? [Hd _] _]. exact Hd.
Qed.

Lemma boundary_trailing p w q : Forall blank w -> boundary_ok p w (LF :: q).
Proof.
  intros Hw. left.
  assert (F : forall c, is_whitespace c = false -> peek_is (w ++ LF :: q) c = peek_is (LF :: q) c).
  { intros c Hc. destruct (peek_is (w ++ LF :: q) c) eqn:E1.
    - apply peek_blank_lf in E1; [|exact Hw]. rewrite E1 in Hc. discriminate Hc.
    - destruct (peek_is (LF :: q) c) eqn:E2; [|reflexivity].
      cbn [peek_is] in E2. apply N.eqb_eq in E2. subst c. discriminate Hc. }
  split; apply F; reflexivity.
Qed.

(* (b) trailing blanks before a newline inside a comment are not seen *)
Lemma payload_trailing_blanks a x p w q A B C :
  classify (a ++ SLASH :: x :: p ++ LF :: q) = A ++ (KStartComment, SLASH) :: B ++ C ->
  length A = length a -> length B = S (length p) -> Forall inside_item B ->
  Forall blank w ->
  in_block_comment (final_status (a ++ SLASH :: x :: p ++ LF :: q)) = false ->
  payload_stream (a ++ SLASH :: x :: p ++ w ++ LF :: q) = payload_stream (a ++ SLASH :: x :: p ++ LF :: q).
Proof.
  intros Hd HlA HlB HinB Hw Hcl.
  destruct (insert_ungrouped a x p w (LF :: q) A B C Hd HlA HlB HinB Hw (boundary_trailing p w q Hw))
    as (pre & s0 & X & T1 & T2 & E1 & E2 & ET & HX).
  destruct (HX LF q eq_refl) as [X' ->].
  apply (payload_stream_insert _ _ _ _ _ _ _ _ E1 E2 ET).
  assert (Hin : In (Some (CComment, s0, SLASH :: x :: p ++ LF :: X')) (ungrouped (a ++ SLASH :: x :: p ++ LF :: q))).
  { rewrite E2. apply in_or_app. right. left. reflexivity. }
  pose proof (blank_ws w Hw) as Hws.
  assert (Hh : ws_head (w ++ LF :: X')).
  { destruct w as [|c w']; [exists LF, X'; auto|].
    inversion Hws; subst. exists c, (w' ++ LF :: X'). auto. }
  assert (Hh2 : ws_head (LF :: X')) by (exists LF, X'; auto).
  destruct (ungrouped_closed_shape _ _ _ Hcl Hin) as [[b Eb]|[m Em]].
  - injection Eb as -> _.
    rewrite !comment_reducer_line. destruct (line_body_ws p) as [pb Hpb].
    rewrite (Hpb _ Hh), (Hpb _ Hh2), !(reduce_app _ pb), (reduce_trailing_blanks _ _ w X' Hws). reflexivity.
  - injection Em as -> Em.
    destruct (app_last2 p X' m LF STAR SLASH Em) as (X'' & -> & ->); [discriminate|discriminate|].
    replace (p ++ w ++ LF :: X'' ++ [STAR; SLASH]) with ((p ++ w ++ LF :: X'') ++ [STAR; SLASH])
      by (rewrite <- !app_assoc; reflexivity).
    replace (p ++ LF :: X'' ++ [STAR; SLASH]) with ((p ++ LF :: X'') ++ [STAR; SLASH])
      by (rewrite <- !app_assoc; reflexivity).
    rewrite !comment_reducer_block. destruct (block_body_ws p) as [pb Hpb].
    rewrite (Hpb (w ++ LF :: X'')), (Hpb (LF :: X'')).
    + rewrite !(reduce_app _ pb), (reduce_trailing_blanks _ _ w X'' Hws). reflexivity.
    + exists LF, X''. auto.
    + destruct w as [|c w']; [exists LF, X''; auto|]. inversion Hws; subst. exists c, (w' ++ LF :: X''). auto.
Qed.

(* (a) blanks at the start of a continuation line of a block comment are not seen *)
Lemma payload_reindent a p w q A B C :
  classify (a ++ SLASH :: STAR :: p ++ LF :: q) = A ++ (KStartComment, SLASH) :: B ++ C ->
  length A = length a -> length B = S (S (length p)) -> Forall inside_item B ->
  Forall blank w ->
  in_block_comment (final_status (a ++ SLASH :: STAR :: p ++ LF :: q)) = false ->
  payload_stream (a ++ SLASH :: STAR :: p ++ LF :: w ++ q) = payload_stream (a ++ SLASH :: STAR :: p ++ LF :: q).
Proof.
  intros Hd HlA HlB HinB Hw Hcl.
  assert (Ht : forall y, a ++ SLASH :: STAR :: p ++ LF :: y = a ++ SLASH :: STAR :: (p ++ [LF]) ++ y).
  { intros y. rewrite <- app_assoc. reflexivity. }
  rewrite !Ht in *.
  assert (Hbd : boundary_ok (p ++ [LF]) w q).
  { right. exists p, LF. split; [reflexivity|]. split; discriminate. }
  destruct (insert_ungrouped a STAR (p ++ [LF]) w q A B C Hd HlA) as (pre & s0 & X & T1 & T2 & E1 & E2 & ET & _);
    [rewrite app_length; cbn [length]; lia|exact HinB|exact Hw|exact Hbd|].
  apply (payload_stream_insert _ _ _ _ _ _ _ _ E1 E2 ET).
  assert (Hin : In (Some (CComment, s0, SLASH :: STAR :: (p ++ [LF]) ++ X)) (ungrouped (a ++ SLASH :: STAR :: (p ++ [LF]) ++ q))).
  { rewrite E2. apply in_or_app. right. left. reflexivity. }
  pose proof (blank_ws w Hw) as Hws.
  destruct (ungrouped_closed_shape _ _ _ Hcl Hin) as [[b Eb]|[m Em]]; [discriminate Eb|].
  injection Em as Em. rewrite <- app_assoc in Em. cbn [app] in Em.
  destruct (app_last2 p X m LF STAR SLASH Em) as (X'' & -> & ->); [discriminate|discriminate|].
  replace ((p ++ [LF]) ++ w ++ X'' ++ [STAR; SLASH]) with ((p ++ LF :: w ++ X'') ++ [STAR; SLASH])
    by (rewrite <- !app_assoc; cbn [app]; rewrite <- !app_assoc; reflexivity).
  replace ((p ++ [LF]) ++ X'' ++ [STAR; SLASH]) with ((p ++ LF :: X'') ++ [STAR; SLASH])
    by (rewrite <- !app_assoc; reflexivity).
  rewrite !comment_reducer_block. destruct (block_body_ws p) as [pb Hpb].
  rewrite (Hpb (LF :: w ++ X'')), (Hpb (LF :: X'')).
  - rewrite !(reduce_app _ pb), (reduce_reindent _ w X'' Hws). reflexivity.
  - exists LF, X''. auto.
  - exists LF, (w ++ X''). auto.
Qed.

(* ------------------------------------------------------------------ *)
(* Part 7: readable consequences of the grammar of the classified list *)

Lemma kc_wf_suffix Fin : forall l1 w l2, kc_wf Fin w (l1 ++ l2) -> exists w', kc_wf Fin w' l2.
Proof.
  induction l1 as [|[k c] l1 IH]; intros w l2 H; [exists w; exact H|].
  cbn [app kc_wf] in H.
  destruct w as [| | |pst], k; try contradiction;
    try (destruct H as (_ & [[_ H]|[_ H]])); try (destruct H as (_ & _ & H)); try (destruct H as (_ & H));
    eapply IH; exact H.
Qed.

Lemma classify_start_comment t l1 c l2 : classify t = l1 ++ (KStartComment, c) :: l2 ->
  c = SLASH /\ exists d l2', l2 = (KInComment, d) :: l2' /\ (d = SLASH \/ d = STAR).
Proof.
  intros E. pose proof (classify_wf t) as H. rewrite E in H.
  apply kc_wf_suffix in H. destruct H as [w H]. cbn [kc_wf] in H.
  destruct w; try contradiction.
  destruct H as (-> & [[[l'' ->] _]|[[l'' ->] _]]); (split; [reflexivity|]).
  - exists SLASH, l''. auto.
  - exists STAR, l''. auto.
Qed.

Lemma classify_kinds t k c : In (k, c) (classify t) ->
  k = KNormal \/ k = KStartComment \/ k = KInComment \/ k = KEndComment \/
  k = KInStringCommented \/ k = KInString.
Proof.
  intros Hin. apply in_split in Hin. destruct Hin as (l1 & l2 & E).
  pose proof (classify_wf t) as H. rewrite E in H.
  apply kc_wf_suffix in H. destruct H as [w H]. cbn [kc_wf] in H.
  destruct w, k; try contradiction; tauto.
Qed.

Lemma ungrouped_comment_starts2 t o s : In (Some (CComment, o, s)) (ungrouped t) -> starts2 s.
Proof.
  intros Hin. destruct (ungrouped_comment_shape t o s Hin) as [[b ->]|[b ->]].
  - exists SLASH, b. auto.
  - exists STAR, b. auto.
Qed.

Lemma comment_reducer_line_filter b :
  comment_reducer (SLASH :: SLASH :: b) =
  Some (filter (fun c => negb (is_whitespace c)) (line_body b)).
Proof. rewrite comment_reducer_line, reduce_line. reflexivity. Qed.

(* statements that are false of the model *)
Lemma changed_total_refuted : exists a b, changed a b = None.
Proof. exists [SLASH; STAR], []. vm_compute. reflexivity. Qed.

Lemma mid_line_star_refuted : exists pre post,
  changed (pre ++ [STAR] ++ post) (pre ++ post) = Some false /\
  last pre 0%N = 97%N /\ hd 0%N post = 98%N.
Proof.
  exists [SLASH; STAR; LF; SP; 97%N], [98%N; SP; STAR; SLASH]. vm_compute. auto.
Qed.

Lemma words_merged_refuted : exists pre post,
  changed (pre ++ [SP] ++ post) (pre ++ post) = Some false /\
  last pre 0%N = 97%N /\ hd 0%N post = 98%N.
Proof.
  exists [SLASH; SLASH; SP; 97%N], [98%N; LF]. vm_compute. auto.
Qed.
