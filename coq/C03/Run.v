(* C03/Run.v — encodings of model results for the correspondence run.
   Kinds are numbered in the order of the Rust enum declarations:
   FullCodeCharKind  Normal 0, StartComment 1, InComment 2, EndComment 3,
                     StartStringCommented 4, EndStringCommented 5, InStringCommented 6,
                     StartString 7, EndString 8, InString 9;
   CodeCharKind      Normal 0, Comment 1.
   Offsets are byte offsets.  A panic is encoded as kind 99 (an item
   (99, 0, []) that ends the list) or, for options, as None. *)
From V Require Import Base.Text C03.Model.
Open Scope N_scope.

Definition enc_kind (k : kind) : N :=
  match k with
  | KNormal => 0 | KStartComment => 1 | KInComment => 2 | KEndComment => 3
  | KStartStringCommented => 4 | KEndStringCommented => 5 | KInStringCommented => 6
  | KStartString => 7 | KEndString => 8 | KInString => 9
  end.
Definition enc_ckind (k : ckind) : N := match k with CNormal => 0 | CComment => 1 end.
Definition enc_item (it : option slice_item) : N * N * text :=
  match it with
  | Some (k, off, s) => (enc_ckind k, N.of_nat off, s)
  | None => (99, 0, [])
  end.

(* CharClasses::new(t.chars()).collect() *)
Definition run_classify (t : text) : list (N * N) :=
  map (fun p => (enc_kind (fst p), snd p)) (classify t).
Definition run_classify_panics (t : text) : bool := classify_panics t.
(* UngroupedCommentCodeSlices::new(t).collect() *)
Definition run_ungrouped (t : text) : list (N * N * text) := map enc_item (ungrouped t).
(* CommentCodeSlices::new(t).collect() *)
Definition run_slices (t : text) : list (N * N * text) := map enc_item (slices t).
(* changed_comment_content(a, b); None = panic *)
Definition run_changed_opt (a b : text) : option bool := changed a b.
Definition run_changed (a b : text) : bool :=
  match changed a b with Some r => r | None => false end.
(* code_comment_content(t).collect::<String>() up to a panic, and whether it panics *)
Definition run_payload (t : text) : text := payload t.
Definition run_payload_ok (t : text) : bool := payload_ok t.
(* recover_comment_removed(new, snippet); None = panic *)
Definition run_recover (new snippet : text) : option text := recover new snippet.
(* LineClasses::new(t).collect() and filter_normal_code(t) *)
Definition run_line_classes (t : text) : list (N * text) :=
  map (fun p => (enc_kind (fst p), snd p)) (line_classes t).
Definition run_filter_normal_code (t : text) : text := filter_normal_code t.

(* everything about one text, for a single Eval *)
Definition case (t : text) :=
  (run_classify t, run_ungrouped t, run_slices t, run_payload t, run_payload_ok t,
   run_line_classes t, run_filter_normal_code t).
