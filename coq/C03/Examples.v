(* C03/Examples.v — non-vacuity: concrete values meeting the hypotheses of the
   implications of Props.v, the witnesses of the refuted statements, and the
   unit tests of comment.rs. *)
From Coq Require Import String Ascii.
From V Require Import Base.Text C03.Model C03.Lemmas.
Open Scope string_scope.
Open Scope list_scope.
Open Scope N_scope.

(* an ASCII string literal as a text; \n is written with [nl] *)
Definition T (s : string) : text := map N_of_ascii (list_ascii_of_string s).
Definition nl : text := [LF].
Definition e_acute : char := 233.

(* ---- the unit tests of comment.rs (1847-1899) ---- *)
Example rs_char_classes : classify (T "//" ++ nl ++ nl) =
  [(KStartComment, SLASH); (KInComment, SLASH); (KEndComment, LF); (KNormal, LF)].
Proof. vm_compute. reflexivity. Qed.
Example rs_comment_code_slices : slices (T "code(); /* test */ 1 + 1") =
  [Some (CNormal, 0%nat, T "code(); "); Some (CComment, 8%nat, T "/* test */"); Some (CNormal, 18%nat, T " 1 + 1")].
Proof. vm_compute. reflexivity. Qed.
Example rs_comment_code_slices_two : slices (T "// comment" ++ nl ++ T "    test();") =
  [Some (CNormal, 0%nat, []); Some (CComment, 0%nat, T "// comment" ++ nl); Some (CNormal, 11%nat, T "    test();")].
Proof. vm_compute. reflexivity. Qed.
Example rs_comment_code_slices_three :
  slices (T "1 // comment" ++ nl ++ T "    // comment2" ++ nl ++ nl) =
  [Some (CNormal, 0%nat, T "1 "); Some (CComment, 2%nat, T "// comment" ++ nl ++ T "    // comment2" ++ nl);
   Some (CNormal, 29%nat, nl)].
Proof. vm_compute. reflexivity. Qed.

(* ---- classify_start_comment, classify_kinds ---- *)
Example ex_start_comment : classify (T "a//b") =
  [(KNormal, 97)] ++ (KStartComment, SLASH) :: [(KInComment, SLASH); (KInComment, 98)].
Proof. vm_compute. reflexivity. Qed.
(* all six kinds occur: a string, a block comment with a string inside *)
Example ex_kinds : map fst (classify (T "x""s""/*""q""*/")) =
  [KNormal; KInString; KInString; KInString; KStartComment; KInComment;
   KInComment; KInStringCommented; KInStringCommented; KInComment; KEndComment].
Proof. vm_compute. reflexivity. Qed.
(* lifetimes and char literals: the quote look-ahead *)
Example ex_lifetime : map fst (classify (T "'a //")) = [KNormal; KNormal; KNormal; KStartComment; KInComment].
Proof. vm_compute. reflexivity. Qed.
Example ex_char_lit : map fst (classify (T "'/'//")) = [KNormal; KNormal; KNormal; KStartComment; KInComment].
Proof. vm_compute. reflexivity. Qed.
Example ex_raw_string : map fst (classify (T "r#""//""#/**/")) =
  [KInString; KInString; KInString; KInString; KInString; KInString; KNormal;
   KStartComment; KInComment; KInComment; KEndComment].
Proof. vm_compute. reflexivity. Qed.

(* ---- ungrouped: partition, byte offsets, shapes ---- *)
Definition t_ung : text := e_acute :: T "/*c*/x//d".
Example ex_ungrouped : ungrouped t_ung =
  [Some (CNormal, 0%nat, [e_acute])] ++ Some (CComment, 2%nat, T "/*c*/") ::
  [Some (CNormal, 7%nat, T "x"); Some (CComment, 8%nat, T "//d")].
Proof. vm_compute. reflexivity. Qed.
Example ex_ungrouped_offset : 2%nat = blen (items_text [Some (CNormal, 0%nat, [e_acute])]).
Proof. vm_compute. reflexivity. Qed.
Example ex_ungrouped_in : In (Some (CComment, 2%nat, T "/*c*/")) (ungrouped t_ung).
Proof. vm_compute. auto. Qed.
Example ex_ungrouped_closed : in_block_comment (final_status t_ung) = false.
Proof. vm_compute. reflexivity. Qed.
(* two adjacent comments are two ungrouped slices *)
Example ex_ungrouped_adjacent : map strip (ungrouped (T "/**//**/")) =
  [Some (CComment, T "/**/"); Some (CComment, T "/**/")].
Proof. vm_compute. reflexivity. Qed.

(* ---- grouped: partition, offsets, alternation, connectors ---- *)
Definition t_grp : text := T "a // x" ++ nl ++ T "  // y" ++ nl ++ T "  b".
Example ex_slices : slices t_grp =
  [Some (CNormal, 0%nat, T "a ")] ++ Some (CComment, 2%nat, T "// x" ++ nl ++ T "  // y" ++ nl) ::
  [Some (CNormal, 14%nat, T "  b")].
Proof. vm_compute. reflexivity. Qed.
Example ex_slices_in : In (Some (CComment, 2%nat, T "// x" ++ nl ++ T "  // y" ++ nl)) (slices t_grp).
Proof. vm_compute. auto. Qed.
(* trailing blanks of a final line comment are given to the next Normal slice *)
Example ex_slices_trailing : map strip (slices (T "// a  ")) =
  [Some (CNormal, []); Some (CComment, T "// a"); Some (CNormal, T "  ")].
Proof. vm_compute. reflexivity. Qed.

(* ---- changed_iff, changed_spec, net_sound, net_spec ---- *)
Definition c_src : text := T "f(a, /* x */ b)".
Definition c_new_ok : text := T "f(a, /*   x" ++ nl ++ T "     */ b)".
Definition c_new_lost : text := T "f(a, b)".
Example ex_payload_ok : payload_ok c_src = true /\ payload_ok c_new_ok = true /\ payload_ok c_new_lost = true.
Proof. vm_compute. auto. Qed.
Example ex_payload_eq : payload c_src = payload c_new_ok /\ payload c_src = T "x".
Proof. vm_compute. auto. Qed.
Example ex_changed_false : changed c_src c_new_ok = Some false.
Proof. vm_compute. reflexivity. Qed.
Example ex_changed_true : changed c_src c_new_lost = Some true.
Proof. vm_compute. reflexivity. Qed.
Example ex_recover_keeps_new : recover c_new_ok c_src = Some c_new_ok.
Proof. vm_compute. reflexivity. Qed.
Example ex_recover_restores_src : recover c_new_lost c_src = Some c_src.
Proof. vm_compute. reflexivity. Qed.
Example ex_closed : in_block_comment (final_status c_src) = false.
Proof. vm_compute. reflexivity. Qed.

(* ---- payload_detects_loss ---- *)
Example ex_loss_hyps :
  payload_ok c_src = true /\
  In (Some (CComment, 5%nat, T "/* x */")) (ungrouped c_src) /\
  remove_comment_header (T "/* x */") = Some (T " x ") /\
  In 120 (T " x ") /\ is_whitespace 120 = false /\ 120 <> STAR /\
  no_comment_slice c_new_lost.
Proof.
  repeat split; try (vm_compute; auto; fail); try discriminate.
  intros o s H. vm_compute in H. destruct H as [H|[]]. discriminate H.
Qed.
Example ex_loss_detected : changed c_src c_new_lost = Some true.
Proof.
  destruct ex_loss_hyps as (H1 & H2 & H3 & H4 & H5 & H6 & H7).
  exact (payload_detects_loss _ _ _ _ _ _ H1 H2 H3 H4 H5 H6 H7).
Qed.

(* ---- the trivial comments, whose loss is not detected ---- *)
Example ex_trivial :
  map (fun s => changed s []) [T "/**/"; T "//"; T "//" ++ nl; T "///"; T "//!  "; T "/*!*/"; T "/***/";
                               T "/*" ++ nl ++ T " * " ++ nl ++ T " */"; T "/*  " ++ nl ++ T "*" ++ nl ++ T "* */"] =
  [Some false; Some false; Some false; Some false; Some false; Some false; Some false; Some false; Some false].
Proof. vm_compute. reflexivity. Qed.
(* a star on the first line, two stars in a row, or a fourth slash are payload *)
Example ex_not_trivial :
  map (fun s => changed s []) [T "/* * */"; T "/****/"; T "////"; T "/*" ++ nl ++ T "**" ++ nl ++ T "*/"] =
  [Some true; Some true; Some true; Some true].
Proof. vm_compute. reflexivity. Qed.
Example ex_trivial_hyps :
  let src := T "a /*" ++ nl ++ T " * " ++ nl ++ T " */ b //" ++ nl in
  payload_ok src = true /\
  (forall o s, In (Some (CComment, o, s)) (ungrouped src) -> comment_reducer s = Some []) /\
  no_comment_slice (T "a  b ").
Proof.
  cbv zeta. split; [vm_compute; reflexivity|]. split.
  - intros o s H. vm_compute in H.
    destruct H as [H|[H|[H|[H|[]]]]]; try discriminate H; injection H as _ <-; vm_compute; reflexivity.
  - intros o s H. vm_compute in H. destruct H as [H|[]]. discriminate H.
Qed.
Example ex_trivial_block : trivial_block (block_body (nl ++ T " * " ++ nl ++ T " ")).
Proof. vm_compute. auto 10. Qed.
Example ex_trivial_line : Forall (fun c => is_whitespace c = true) (line_body (T "!  ")).
Proof. vm_compute. repeat constructor. Qed.

(* ---- payload_insensitive_trailing_blanks ---- *)
Example ex_trailing_hyps :
  let a := T "x " in let p := T " a" in let q := T " b */ y" in let w := T "  " ++ [TAB] in
  classify (a ++ SLASH :: STAR :: p ++ LF :: q) =
    [(KNormal, 120); (KNormal, 32)] ++ (KStartComment, SLASH) ::
    [(KInComment, STAR); (KInComment, 32); (KInComment, 97)] ++
    [(KInComment, LF); (KInComment, 32); (KInComment, 98); (KInComment, 32); (KInComment, STAR);
     (KEndComment, SLASH); (KNormal, 32); (KNormal, 121)] /\
  Forall inside_item [(KInComment, STAR); (KInComment, 32); (KInComment, 97)] /\
  Forall blank w /\
  in_block_comment (final_status (a ++ SLASH :: STAR :: p ++ LF :: q)) = false.
Proof.
  cbv zeta. split; [vm_compute; reflexivity|]. split; [repeat constructor|].
  split; [|vm_compute; reflexivity].
  repeat constructor; discriminate.
Qed.
Example ex_trailing :
  payload_stream (T "x /* a  " ++ [TAB] ++ nl ++ T " b */ y") = payload_stream (T "x /* a" ++ nl ++ T " b */ y").
Proof.
  destruct ex_trailing_hyps as (H1 & H2 & H3 & H4).
  exact (payload_trailing_blanks (T "x ") STAR (T " a") (T "  " ++ [TAB]) (T " b */ y") _ _ _ H1 eq_refl eq_refl H2 H3 H4).
Qed.
(* in a line comment *)
Example ex_trailing_line :
  payload_stream (T "// a  " ++ nl ++ T "y") = payload_stream (T "// a" ++ nl ++ T "y") /\
  payload (T "// a  " ++ nl ++ T "y") = T "a".
Proof. vm_compute. auto. Qed.

(* ---- payload_insensitive_reindent ---- *)
Example ex_reindent_hyps :
  let a := T "x " in let p := T " a" in let q := T "* b */ y" in let w := T "    " in
  classify (a ++ SLASH :: STAR :: p ++ LF :: q) =
    [(KNormal, 120); (KNormal, 32)] ++ (KStartComment, SLASH) ::
    [(KInComment, STAR); (KInComment, 32); (KInComment, 97); (KInComment, LF)] ++
    [(KInComment, STAR); (KInComment, 32); (KInComment, 98); (KInComment, 32); (KInComment, STAR);
     (KEndComment, SLASH); (KNormal, 32); (KNormal, 121)] /\
  Forall inside_item [(KInComment, STAR); (KInComment, 32); (KInComment, 97); (KInComment, LF)] /\
  Forall blank w /\
  in_block_comment (final_status (a ++ SLASH :: STAR :: p ++ LF :: q)) = false.
Proof.
  cbv zeta. split; [vm_compute; reflexivity|]. split; [repeat constructor|].
  split; [|vm_compute; reflexivity].
  repeat constructor; discriminate.
Qed.
Example ex_reindent :
  payload_stream (T "x /* a" ++ nl ++ T "    * b */ y") = payload_stream (T "x /* a" ++ nl ++ T "* b */ y").
Proof.
  destruct ex_reindent_hyps as (H1 & H2 & H3 & H4).
  exact (payload_reindent (T "x ") (T " a") (T "    ") (T "* b */ y") _ _ _ H1 eq_refl eq_refl H2 H3 H4).
Qed.

(* ---- witnesses of the refuted statements ---- *)
(* an unterminated block comment makes remove_comment_header slice out of range *)
Example ex_changed_panics : changed (T "/*") [] = None /\ changed (T "a /*!") (T "a") = None /\
                            remove_comment_header (T "/*") = None.
Proof. vm_compute. auto. Qed.
(* ... or silently lose the last two chars *)
Example ex_unterminated_chop : payload (T "/* abc") = T "a" /\ payload_ok (T "/* abc") = true.
Proof. vm_compute. auto. Qed.
(* a star in the middle of a later line of a block comment is not payload *)
Example ex_mid_line_star : changed (T "/*" ++ nl ++ T " a*b */") (T "/*" ++ nl ++ T " ab */") = Some false /\
                           payload (T "/*" ++ nl ++ T " a*b */") = T "ab" /\
                           payload (T "/* a*b */") = T "a*b".
Proof. vm_compute. auto. Qed.
(* merged words *)
Example ex_words_merged : changed (T "// a b" ++ nl) (T "// ab" ++ nl) = Some false.
Proof. vm_compute. reflexivity. Qed.
(* the raw-identifier quirk of the classifier (arms marked Unreachable in the code are reachable) *)
Example ex_raw_ident : map fst (classify (T "r#abc")) = [KInString; KInString; KInString; KNormal; KNormal].
Proof. vm_compute. reflexivity. Qed.
