(* C03/Model.v — executable model of the comment machinery of src/comment.rs.
   Sources modelled (all in /repo/src/comment.rs):
     1214-1240  enum CharClassesStatus                     (status)
     1253-1274  enum FullCodeCharKind                      (kind)
     1276-1317  is_comment / inside_comment / to_codecharkind
     1332-1344  is_raw_string_suffix                       (is_raw_string_suffix)
     1346-1506  impl Iterator for CharClasses::next        (step, classify_from)
     1510-1568  LineClasses                                (line_classes)
     1573-1627  UngroupedCommentCodeSlices                 (ung_go, ungrouped)
     1632-1706  CommentCodeSlices                          (gloop, grouped_next, slices)
     1709-1731  recover_comment_removed                    (recover)
     1733-1749  filter_normal_code                         (filter_normal_code)
     1757-1775  changed_comment_content                    (payload_stream, stream_ne, changed)
     1781-1822  CommentReducer                             (reduce, comment_reducer)
     1824-1840  remove_comment_header                      (remove_comment_header)
   itertools-0.12.1 src/multipeek_impl.rs  MultiPeek       (look-ahead = matching on the rest)

   Conventions of this model
   * A text is a list of Unicode scalar values.  Offsets reported by the slice
     iterators are BYTE offsets (str::char_indices); [utf8_len]/[blen] give the
     UTF-8 length.  Positions inside the model are char positions; a byte
     offset is always the [blen] of the prefix before the position.
   * MultiPeek: within one call of next, the k-th call of peek looks at the
     k-th char after the current one (peek does not advance its cursor when it
     returns None); next resets the cursor.  So every look-ahead is a match on
     the text that remains after the current char.
   * A panic (assert!, panic!, slice index out of range / not on a char
     boundary, u32 underflow) is an explicit None.  An iterator that can panic
     is a list of option items; None is the panic and ends the list.
     [classify_from] stops at a panic and [classify_panics] reports it;
     Lemmas.v proves that it never happens from the initial status, which is
     why the slice iterators may use [classify] without tracking laziness.
   * u32 counters (sharps, deepness) are nat; overflow at 2^32 is not modelled.
   Definitions only; proofs are in Lemmas.v. *)
From V Require Import Base.Text.
Local Open Scope N_scope.

(* ------------------------------------------------------------------ *)
(* characters used by the code *)
Definition DQ : char := 34.      (* double quote *)
Definition HASH : char := 35.
Definition SQ : char := 39.      (* single quote *)
Definition STAR : char := 42.
Definition SLASH : char := 47.
Definition BSL : char := 92.     (* backslash *)
Definition LOWER_R : char := 114.
Definition BANG : char := 33.

(* UTF-8 encoded length of a scalar value; byte length of a text (str::len) *)
Definition utf8_len (c : char) : nat :=
  if c <? 128 then 1%nat else if c <? 2048 then 2%nat else if c <? 65536 then 3%nat else 4%nat.
Fixpoint blen (t : text) : nat :=
  match t with [] => 0%nat | c :: t' => (utf8_len c + blen t')%nat end.

(* ------------------------------------------------------------------ *)
(* comment.rs:1253 FullCodeCharKind, in declaration order *)
Inductive kind : Type :=
| KNormal | KStartComment | KInComment | KEndComment
| KStartStringCommented | KEndStringCommented | KInStringCommented
| KStartString | KEndString | KInString.

(* comment.rs:1244 CodeCharKind *)
Inductive ckind : Type := CNormal | CComment.

(* comment.rs:1215 CharClassesStatus, in declaration order *)
Inductive status : Type :=
| SNormal
| SLitString
| SLitStringEscape
| SLitRawString (sharps : nat)
| SRawStringPrefix (sharps : nat)
| SRawStringSuffix (sharps : nat)
| SLitChar
| SLitCharEscape
| SBlockComment (deepness : nat)
| SStringInBlockComment (deepness : nat)
| SBlockCommentOpening (deepness : nat)
| SBlockCommentClosing (deepness : nat)
| SLineComment.

(* comment.rs:1277 is_comment *)
Definition is_comment (k : kind) : bool :=
  match k with
  | KStartComment | KInComment | KEndComment
  | KStartStringCommented | KInStringCommented | KEndStringCommented => true
  | _ => false
  end.
(* comment.rs:1290 inside_comment *)
Definition inside_comment (k : kind) : bool :=
  match k with
  | KInComment | KStartStringCommented | KInStringCommented | KEndStringCommented => true
  | _ => false
  end.
(* comment.rs:1310 to_codecharkind *)
Definition to_codecharkind (k : kind) : ckind := if is_comment k then CComment else CNormal.

Definition ckind_eqb (a b : ckind) : bool :=
  match a, b with CNormal, CNormal => true | CComment, CComment => true | _, _ => false end.
Definition flip_ckind (a : ckind) : ckind := match a with CNormal => CComment | CComment => CNormal end.

(* comment.rs:1332 is_raw_string_suffix: [count] successive peeks must all be # *)
Fixpoint is_raw_string_suffix (r : text) (count : nat) : bool :=
  match count with
  | O => true
  | S n => match r with
           | c :: r' => if c =? HASH then is_raw_string_suffix r' n else false
           | [] => false
           end
  end.

(* first peek is Some(x) with x = c *)
Definition peek_is (r : text) (c : char) : bool :=
  match r with x :: _ => x =? c | [] => false end.

(* comment.rs:1353 CharClasses::next, one call: [st] is self.status, [c] the
   item taken from the base iterator, [r] what the base iterator still holds.
   Result: the kind returned with the item and the new status; None = panic. *)
Definition step (st : status) (c : char) (r : text) : option (kind * status) :=
  match st with
  | SLitRawString sharps =>                                    (* 1358 *)
      if c =? DQ then
        if Nat.eqb sharps 0 then Some (KNormal, SNormal)
        else if is_raw_string_suffix r sharps then Some (KInString, SRawStringSuffix sharps)
        else Some (KInString, SLitRawString sharps)
      else Some (KInString, SLitRawString sharps)
  | SRawStringPrefix sharps =>                                 (* 1374 *)
      if c =? HASH then Some (KInString, SRawStringPrefix (S sharps))
      else if c =? DQ then Some (KInString, SLitRawString sharps)
      else Some (KInString, SNormal)
  | SRawStringSuffix sharps =>                                 (* 1382 *)
      if c =? HASH then
        match sharps with
        | 1%nat => Some (KNormal, SNormal)
        | O => None                                            (* sharps - 1 underflows *)
        | S n => Some (KInString, SRawStringSuffix n)
        end
      else Some (KNormal, SNormal)
  | SLitString =>                                              (* 1395 *)
      if c =? DQ then Some (KInString, SNormal)
      else if c =? BSL then Some (KInString, SLitStringEscape)
      else Some (KInString, SLitString)
  | SLitStringEscape => Some (KInString, SLitString)           (* 1403 *)
  | SLitChar =>                                                (* 1407 *)
      if c =? BSL then Some (KNormal, SLitCharEscape)
      else if c =? SQ then Some (KNormal, SNormal)
      else Some (KNormal, SLitChar)
  | SLitCharEscape => Some (KNormal, SLitChar)                 (* 1412 *)
  | SNormal =>                                                 (* 1413 *)
      if c =? LOWER_R then
        match r with
        | x :: _ => if (x =? HASH) || (x =? DQ) then Some (KInString, SRawStringPrefix 0)
                    else Some (KNormal, SNormal)
        | [] => Some (KNormal, SNormal)
        end
      else if c =? DQ then Some (KInString, SLitString)
      else if c =? SQ then
        match r with                                           (* first peek *)
        | x :: r' =>
            if x =? BSL then Some (KNormal, SLitChar)
            else match r' with                                 (* second peek *)
                 | y :: _ => if y =? SQ then Some (KNormal, SLitChar) else Some (KNormal, SNormal)
                 | [] => Some (KNormal, SNormal)
                 end
        | [] => Some (KNormal, SNormal)
        end
      else if c =? SLASH then
        match r with
        | x :: _ => if x =? STAR then Some (KStartComment, SBlockCommentOpening 1)
                    else if x =? SLASH then Some (KStartComment, SLineComment)
                    else Some (KNormal, SNormal)
        | [] => Some (KNormal, SNormal)
        end
      else Some (KNormal, SNormal)
  | SStringInBlockComment d =>                                 (* 1453 *)
      if c =? DQ then Some (KInStringCommented, SBlockComment d)
      else if (c =? STAR) && peek_is r SLASH then
        match d with
        | O => None                                            (* deepness - 1 underflows *)
        | S d' => Some (KInComment, SBlockCommentClosing d')
        end
      else Some (KInStringCommented, SStringInBlockComment d)
  | SBlockComment d =>                                         (* 1464 *)
      match d with
      | O => None                                              (* assert_ne!(deepness, 0) *)
      | S d' =>
          if peek_is r SLASH && (c =? STAR) then Some (KInComment, SBlockCommentClosing d')
          else if peek_is r STAR && (c =? SLASH) then Some (KInComment, SBlockCommentOpening (S d))
          else if c =? DQ then Some (KInComment, SStringInBlockComment d)
          else Some (KInComment, SBlockComment d)
      end
  | SBlockCommentOpening d =>                                  (* 1478 *)
      if c =? STAR then Some (KInComment, SBlockComment d)
      else None                                                (* assert_eq!(chr, star) *)
  | SBlockCommentClosing d =>                                  (* 1483 *)
      if c =? SLASH then
        match d with
        | O => Some (KEndComment, SNormal)
        | S _ => Some (KInComment, SBlockComment d)
        end
      else None                                                (* assert_eq!(chr, slash) *)
  | SLineComment =>                                            (* 1493 *)
      if c =? LF then Some (KEndComment, SNormal) else Some (KInComment, SLineComment)
  end.

(* the whole iteration of CharClasses from status [st]; stops at a panic *)
Fixpoint classify_from (st : status) (t : text) : list (kind * char) :=
  match t with
  | [] => []
  | c :: r => match step st c r with
              | Some (k, st') => (k, c) :: classify_from st' r
              | None => []
              end
  end.
Fixpoint classify_panics_from (st : status) (t : text) : bool :=
  match t with
  | [] => false
  | c :: r => match step st c r with
              | Some (_, st') => classify_panics_from st' r
              | None => true
              end
  end.
(* self.status after the iterator is exhausted (used by find_comment_end) *)
Fixpoint final_status_from (st : status) (t : text) : status :=
  match t with
  | [] => st
  | c :: r => match step st c r with
              | Some (_, st') => final_status_from st' r
              | None => st
              end
  end.

(* CharClasses::new(..) then collect *)
Definition classify (t : text) : list (kind * char) := classify_from SNormal t.
Definition classify_panics (t : text) : bool := classify_panics_from SNormal t.
Definition final_status (t : text) : status := final_status_from SNormal t.

(* the text ends inside a block comment *)
Definition in_block_comment (st : status) : bool :=
  match st with
  | SBlockComment _ | SStringInBlockComment _ | SBlockCommentOpening _ | SBlockCommentClosing _ => true
  | _ => false
  end.

(* ------------------------------------------------------------------ *)
(* comment.rs:1510 LineClasses.  [st] = None between lines, else
   Some (start_kind, self.kind); [acc] = the line, reversed. *)
Definition lc_adjust (start_kind k : kind) : kind :=          (* 1541 *)
  match start_kind, k with
  | KNormal, KInString => KStartString
  | KInString, KNormal => KEndString
  | KInComment, KInStringCommented => KStartStringCommented
  | KInStringCommented, KInComment => KEndStringCommented
  | _, _ => k
  end.
Definition pop_cr_rev (acc : text) : text :=                  (* 1562 *)
  match acc with c :: acc' => if c =? CR then acc' else acc | [] => [] end.
Fixpoint lc_go (st : option (kind * kind)) (acc : text) (l : list (kind * char)) : list (kind * text) :=
  match l with
  | [] => match st with
          | None => []
          | Some (_, k) => [(k, rev (pop_cr_rev acc))]
          end
  | (k, c) :: l' =>
      let sk := match st with None => k | Some (sk, _) => sk end in
      if c =? LF then (lc_adjust sk k, rev (pop_cr_rev acc)) :: lc_go None [] l'
      else lc_go (Some (sk, k)) (c :: acc) l'
  end.
Definition line_classes (t : text) : list (kind * text) := lc_go None [] (classify t).

(* comment.rs:1733 filter_normal_code *)
Definition keeps_line (k : kind) : bool :=
  match k with KNormal | KStartString | KInString | KEndString => true | _ => false end.
Definition filter_normal_code (code : text) : text :=
  let buffer := concat (map (fun p => snd p ++ [LF]) (filter (fun p => keeps_line (fst p)) (line_classes code))) in
  if negb (ends_with_lf code) && ends_with_lf buffer then removelast buffer else buffer.

(* ------------------------------------------------------------------ *)
(* comment.rs:1573 UngroupedCommentCodeSlices.  An item is
   (kind, start byte offset, slice); None = the panic!() arm of next. *)
Definition slice_item : Type := (ckind * nat * text)%type.

Inductive umode : Type :=
| UIdle           (* at the top of next *)
| UNormal         (* in the while-let loop of the Normal | InString arm *)
| UComment.       (* in the loop of the StartComment arm *)

(* One pass over the items of the Peekable<CharClasses>.  [start] = start_idx,
   [acc] = the chars of the current slice, reversed, [off] = byte index of the
   next item. *)
Fixpoint ung_go (m : umode) (start : nat) (acc : text) (off : nat) (l : list (kind * char))
  : list (option slice_item) :=
  match l with
  | [] => match m with
          | UIdle => []
          | UNormal => [Some (CNormal, start, rev acc)]
          | UComment => [Some (CComment, start, rev acc)]
          end
  | (k, c) :: l' =>
      let off' := (off + utf8_len c)%nat in
      (* the match on the first item of a slice (1592) *)
      let first :=
        match k with
        | KNormal | KInString => ung_go UNormal off [c] off' l'
        | KStartComment => ung_go UComment off [c] off' l'
        | _ => [None]
        end in
      match m with
      | UIdle => first
      | UNormal =>
          if is_comment k then Some (CNormal, start, rev acc) :: first
          else ung_go UNormal start (c :: acc) off' l'
      | UComment =>
          if inside_comment k then ung_go UComment start (c :: acc) off' l'
          else Some (CComment, start, rev (c :: acc)) :: ung_go UIdle off' [] off' l'
      end
  end.
Definition ungrouped (t : text) : list (option slice_item) := ung_go UIdle 0 [] 0 (classify t).

(* ------------------------------------------------------------------ *)
(* comment.rs:1632 CommentCodeSlices *)

(* &subslice[..2] == "//" ; None = the byte slice panics (shorter than two
   bytes, or byte 2 is not a char boundary) *)
Definition first2_is_slashes (sub : text) : option bool :=
  match sub with
  | c1 :: rest =>
      match utf8_len c1 with
      | 1%nat => match rest with
                 | c2 :: _ => if Nat.eqb (utf8_len c2) 1 then Some ((c1 =? SLASH) && (c2 =? SLASH)) else None
                 | [] => None
                 end
      | 2%nat => Some false
      | _ => None
      end
  | [] => None
  end.

(* the for loop (1661-1682) over CharClasses::new(subslice.char_indices()).
   [conn] = last_slice_kind == Normal && &subslice[..2] == "//";
   [i] = position of the next item; [fw] = first_whitespace.
   Result: (Some last_index if the loop breaks, first_whitespace at the end,
            whether iter.next() after the loop is None). *)
Fixpoint gloop (last : ckind) (conn : bool) (i : nat) (fw : option nat) (l : list (kind * char))
  : option nat * option nat * bool :=
  match l with
  | [] => (None, fw, true)
  | (k, c) :: l' =>
      let is_conn := conn && ((c =? SP) || (c =? TAB)) in
      let fw1 := if is_conn then match fw with None => Some i | Some _ => fw end else fw in
      if ckind_eqb (to_codecharkind k) last && negb is_conn
      then (Some (match fw1 with Some j => j | None => i end), fw1,
            match l' with [] => true | _ => false end)
      else gloop last conn (S i) (if is_conn then fw1 else None) l'
  end.

(* one call of next on a non-empty remainder [sub] = &self.slice[self.last_slice_end..].
   Result: the number of chars of the returned slice; None = panic. *)
Definition grouped_next (last : ckind) (sub : text) : option nat :=
  match (match last with
         | CNormal => first2_is_slashes sub     (* evaluated in the first iteration *)
         | CComment => Some false
         end) with
  | None => None
  | Some conn =>
      let '(brk, fw, exhausted) := gloop last conn 0 None (classify sub) in
      let n := match brk with Some j => j | None => O end in      (* sub_slice_end - last_slice_end *)
      Some (if exhausted && Nat.eqb n 0
            then match fw with Some j => j | None => length sub end
            else n)
  end.

(* iteration of next; [off] = self.last_slice_end in bytes, [sub] the text
   from there on.  Each call produces a slice, and a Comment slice is never
   empty (Lemmas), so 2 * length + 2 calls exhaust every text. *)
Fixpoint grouped_fuel (fuel : nat) (last : ckind) (off : nat) (sub : text) : list (option slice_item) :=
  match fuel with
  | O => []
  | S f =>
      match sub with
      | [] => []                                   (* last_slice_end == slice.len() *)
      | _ :: _ =>
          match grouped_next last sub with
          | None => [None]
          | Some n =>
              let k := flip_ckind last in
              let s := firstn n sub in
              Some (k, off, s) :: grouped_fuel f k (off + blen s)%nat (skipn n sub)
          end
      end
  end.
Definition slices (t : text) : list (option slice_item) :=
  grouped_fuel (2 * length t + 2) CComment 0 t.

(* ------------------------------------------------------------------ *)
(* comment.rs:1824 remove_comment_header *)
Definition starts_with (p t : text) : bool := eqb_text (firstn (length p) t) p.

(* &s[..s.len() - 2] for a text of at least two bytes; None = panic *)
Definition drop_last2_bytes (t : text) : option text :=
  match rev t with
  | c1 :: rest =>
      match utf8_len c1 with
      | 1%nat => match rest with
                 | c2 :: rest' => if Nat.eqb (utf8_len c2) 1 then Some (rev rest') else None
                 | [] => None
                 end
      | 2%nat => Some (rev rest)
      | _ => None
      end
  | [] => None
  end.

Definition remove_comment_header (comment : text) : option text :=
  if starts_with [SLASH; SLASH; SLASH] comment || starts_with [SLASH; SLASH; BANG] comment
  then Some (skipn 3 comment)
  else if starts_with [SLASH; SLASH] comment then Some (skipn 2 comment)
  else if (starts_with [SLASH; STAR; STAR] comment && negb (starts_with [SLASH; STAR; STAR; SLASH] comment))
          || starts_with [SLASH; STAR; BANG] comment
  then drop_last2_bytes (skipn 3 comment)          (* &comment[3..comment.len() - 2] *)
  else if starts_with [SLASH; STAR] comment
  then drop_last2_bytes (skipn 2 comment)          (* &comment[2..comment.len() - 2] *)
  else None.                                       (* assert!(comment.starts_with(..)) *)

(* comment.rs:1800 CommentReducer::next, iterated.  The control flow of the
   loop is unrolled into three states:
     RFirst  — not (is_block && at_start_line): top of the loop;
     RStart  — is_block && at_start_line: top of the loop or inside the while;
     RStar   — is_block && at_start_line, the leading star has just been
               skipped and `c = self.iter.next()?` is about to run.
   Note that at_start_line is never reset to false by the code. *)
Inductive rmode : Type := RFirst | RStart | RStar.
Fixpoint reduce (is_block : bool) (m : rmode) (t : text) : text :=
  match t with
  | [] => []
  | c :: t' =>
      match m with
      | RFirst =>
          let m' := if is_block && (c =? LF) then RStart else RFirst in
          if is_whitespace c then reduce is_block m' t' else c :: reduce is_block m' t'
      | RStart =>
          if is_whitespace c then reduce is_block RStart t'
          else if c =? STAR then reduce is_block RStar t'
          else c :: reduce is_block RStart t'
      | RStar =>
          if is_whitespace c then reduce is_block RStart t' else c :: reduce is_block RStart t'
      end
  end.

(* CommentReducer::new(comment).collect() ; None = remove_comment_header panics *)
Definition comment_reducer (comment : text) : option text :=
  match remove_comment_header comment with
  | Some body => Some (reduce (starts_with [SLASH; STAR] comment) RFirst body)
  | None => None
  end.

(* comment.rs:1759 the closure code_comment_content: a lazy stream; None = a
   panic when the stream is advanced that far *)
Definition item_stream (it : option slice_item) : list (option char) :=
  match it with
  | None => [None]
  | Some (CNormal, _, _) => []
  | Some (CComment, _, s) =>
      match comment_reducer s with
      | Some cs => map Some cs
      | None => [None]
      end
  end.
Definition payload_stream (code : text) : list (option char) :=
  concat (map item_stream (ungrouped code)).

(* Iterator::ne on two such streams (core::iter eq_by: advance the left
   stream, then the right one; stop at the first difference) *)
Fixpoint stream_ne (a b : list (option char)) : option bool :=
  match a with
  | [] => match b with
          | [] => Some false
          | None :: _ => None
          | Some _ :: _ => Some true
          end
  | None :: _ => None
  | Some x :: a' =>
      match b with
      | [] => Some true
      | None :: _ => None
      | Some y :: b' => if x =? y then stream_ne a' b' else Some true
      end
  end.

(* comment.rs:1757 changed_comment_content (the debug! call is not modelled:
   it is only evaluated when debug logging is enabled) *)
Definition changed (orig new : text) : option bool :=
  stream_ne (payload_stream orig) (payload_stream new).

(* the payload of a text: the chars of the stream up to a panic, and whether
   the stream is panic-free *)
Fixpoint stream_chars (s : list (option char)) : text :=
  match s with
  | Some c :: s' => c :: stream_chars s'
  | _ => []
  end.
Definition stream_ok (s : list (option char)) : bool :=
  forallb (fun o => match o with Some _ => true | None => false end) s.
Definition payload (code : text) : text := stream_chars (payload_stream code).
Definition payload_ok (code : text) : bool := stream_ok (payload_stream code).

(* comment.rs:1709 recover_comment_removed(new, span, context) with
   snippet = context.snippet(span); the error report is not modelled *)
Definition recover (new snippet : text) : option text :=
  if eqb_text snippet new then Some new
  else match changed snippet new with
       | None => None
       | Some true => Some snippet
       | Some false => Some new
       end.
