(* C20/Run.v — model evaluation for the correspondence run: paths 1 = FILE, 2 = FILE.tmp, 3 = FILE.bk *)
From V Require Import Base.Text C20.Model.
Open Scope N_scope.
Definition tmp_of (p : path) : path := p + 1.
Definition bk_of (p : path) : path := p + 2.
(* pre-state of the siblings: 0 absent, 1 stale file (text [120]), 2 link to FILE, 3 link to another file (path 9), 4 directory *)
Definition pre_node (k : N) : option node :=
  match k with 1 => Some (File [120]) | 2 => Some (Link 1) | 3 => Some (Link 9) | 4 => Some Dir | _ => None end.
Definition init_pre (orig : text) (tmp_k bk_k : N) : fsstate :=
  fun q => if q =? 1 then Some (File orig) else if q =? 2 then pre_node tmp_k else if q =? 3 then pre_node bk_k
           else if q =? 9 then Some (File [112]) else None.
Definition init (orig : text) : fsstate := init_pre orig 0 0.
(* what a directory listing shows: Some text for a readable file (links followed), None for absent / directory / dangling *)
Definition observe (s : fsstate) : option text * option text * option text := (read s 1, read s 2, read s 3).
(* state after n complete operations, the next one interrupted after k chars (started) or not begun *)
Definition run_stopped (orig fmt : text) (n k : N) (started : bool) :=
  match stopped_at (init orig) (backup_ops tmp_of bk_of 1 orig fmt) (N.to_nat n) (N.to_nat k) started with
  | Some s => Some (observe s)
  | None => None
  end.
(* a whole run from a pre-state of the siblings: (did every operation succeed, file, tmp, bk, the other file) where the
   state shown is the final one, or the one the failing operation found *)
Fixpoint run_until_fail (s : fsstate) (ops : list op) : bool * fsstate :=
  match ops with
  | [] => (true, s)
  | o :: ops' => match exec s o with Some s' => run_until_fail s' ops' | None => (false, s) end
  end.
Definition run_pre (orig fmt : text) (tmp_k bk_k : N) :=
  let r := run_until_fail (init_pre orig tmp_k bk_k) (backup_ops tmp_of bk_of 1 orig fmt) in
  (fst r, observe (snd r), read (snd r) 9).
(* the operation sequence as (0 write | 1 rename | 2 remove, src-or-target, dst) *)
Definition enc_op (o : op) : N * N * N :=
  match o with Write p _ => (0, p, 0) | Rename a b => (1, a, b) | Remove p => (2, p, 0) end.
Definition run_ops (orig fmt : text) := map enc_op (backup_ops tmp_of bk_of 1 orig fmt).

(* the sibling names for a file given as stem and extension (None = no extension): (FILE.tmp-name, FILE.bk-name) as written *)
Definition run_names (stem : text) (ext : option text) : text * text :=
  (whole (tmp_name (stem, ext)), whole (bk_name (stem, ext))).
