(* C20/Run.v — model evaluation for the correspondence run: paths 1 = FILE, 2 = FILE.tmp, 3 = FILE.bk *)
From V Require Import Base.Text C20.Model.
Open Scope N_scope.
Definition tmp_of (p : path) : path := p + 1.
Definition bk_of (p : path) : path := p + 2.
Definition init (orig : text) : fsstate := fun q => if q =? 1 then Some orig else None.
Definition observe (s : fsstate) : option text * option text * option text := (s 1, s 2, s 3).
(* state after n complete operations, the next one interrupted after k chars (started) or not begun *)
Definition run_stopped (orig fmt : text) (n k : N) (started : bool) :=
  match stopped_at (init orig) (backup_ops tmp_of bk_of 1 orig fmt) (N.to_nat n) (N.to_nat k) started with
  | Some s => Some (observe s)
  | None => None
  end.
(* the operation sequence as (0 write | 1 rename, src-or-target, dst) *)
Definition enc_op (o : op) : N * N * N :=
  match o with Write p _ => (0, p, 0) | Rename a b => (1, a, b) end.
Definition run_ops (orig fmt : text) := map enc_op (backup_ops tmp_of bk_of 1 orig fmt).

(* the sibling names for a file given as stem and extension (None = no extension): (FILE.tmp-name, FILE.bk-name) as written *)
Definition run_names (stem : text) (ext : option text) : text * text :=
  (whole (tmp_name (stem, ext)), whole (bk_name (stem, ext))).
