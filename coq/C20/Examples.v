From V Require Import Base.Text C20.Model C20.Lemmas C20.Run.
Open Scope N_scope.
(* the hypotheses of crash_safe are met by the concrete path scheme used in Run.v *)
Example hyps_ok : tmp_of 1 <> 1 /\ bk_of 1 <> 1 /\ tmp_of 1 <> bk_of 1 /\ eqb_text [97] [98] = false /\ init [97] 1 = Some (File [97]).
Proof. repeat split; vm_compute; congruence. Qed.
Example mid_write : run_stopped [97; 98] [99; 100; 101] 1 2 true = Some (Some [97; 98], Some [99; 100], None).
Proof. vm_compute. reflexivity. Qed.
Example after_first_rename : run_stopped [97; 98] [99; 100; 101] 3 0 false = Some (None, Some [99; 100; 101], Some [97; 98]).
Proof. vm_compute. reflexivity. Qed.
Example done : run_stopped [97; 98] [99; 100; 101] 4 0 false = Some (Some [99; 100; 101], None, Some [97; 98]).
Proof. vm_compute. reflexivity. Qed.
(* the hypotheses of crash_safe are met by states whose FILE.tmp is a symbolic link to FILE itself, and the protocol then
   still ends with the formatted text in FILE, the original in FILE.bk and the other file untouched *)
Example link_self_ok : run_pre [97; 98] [99] 2 0 = (true, (Some [99], None, Some [97; 98]), Some [112]).
Proof. vm_compute. reflexivity. Qed.
Example link_other_ok : run_pre [97; 98] [99] 3 3 = (true, (Some [99], None, Some [97; 98]), Some [112]).
Proof. vm_compute. reflexivity. Qed.
Example tmp_dir_fails : run_pre [97; 98] [99] 4 1 = (false, (Some [97; 98], None, Some [120]), Some [112]).
Proof. vm_compute. reflexivity. Qed.
