From V Require Import Base.Text C20.Model C20.Lemmas C20.Run.
Open Scope N_scope.
(* the hypotheses of crash_safe are met by the concrete path scheme used in Run.v *)
Example hyps_ok : tmp_of 1 <> 1 /\ bk_of 1 <> 1 /\ tmp_of 1 <> bk_of 1 /\ eqb_text [97] [98] = false /\ init [97] 1 = Some [97].
Proof. repeat split; vm_compute; congruence. Qed.
Example mid_write : run_stopped [97; 98] [99; 100; 101] 0 2 true = Some (Some [97; 98], Some [99; 100], None).
Proof. vm_compute. reflexivity. Qed.
Example after_first_rename : run_stopped [97; 98] [99; 100; 101] 2 0 false = Some (None, Some [99; 100; 101], Some [97; 98]).
Proof. vm_compute. reflexivity. Qed.
Example done : run_stopped [97; 98] [99; 100; 101] 3 0 false = Some (Some [99; 100; 101], None, Some [97; 98]).
Proof. vm_compute. reflexivity. Qed.
