(* C20/Model.v — the --backup write protocol as file-system operations.
   Source modelled: src/emitter/files_with_backup.rs:18-29 (FilesWithBackupEmitter::emit_formatted_file)
       if original_text != formatted_text {
           let tmp_name = filename.with_extension("tmp");
           let bk_name = filename.with_extension("bk");
           fs::write(&tmp_name, formatted_text)?;
           fs::rename(filename, bk_name)?;
           fs::rename(tmp_name, filename)?;
       }
   and src/emitter/files.rs:29-34 (FilesEmitter: one fs::write over the original, for contrast).
   File-system assumptions (trusted, POSIX on one file system): rename is atomic and, when it
   fails, changes nothing; write is NOT atomic: a crash or an error during it leaves the target
   holding any prefix of the data (possibly empty; the file exists once the write has started). *)
From V Require Import Base.Text.

Definition path := N.
Definition fsstate := path -> option text.

Definition upd (s : fsstate) (p : path) (v : option text) : fsstate :=
  fun q => if N.eqb q p then v else s q.

Inductive op : Type :=
| Write (p : path) (data : text)
| Rename (src dst : path).

(* complete execution of one operation; a rename of a missing source is an error and changes nothing *)
Definition exec (s : fsstate) (o : op) : option fsstate :=
  match o with
  | Write p d => Some (upd s p (Some d))
  | Rename a b =>
      match s a with
      | Some v => Some (upd (upd s b (Some v)) a None)
      | None => None
      end
  end.

(* the operation is interrupted (crash or I/O error): a write leaves the first k chars, a rename nothing *)
Definition interrupt (s : fsstate) (o : op) (k : nat) : fsstate :=
  match o with
  | Write p d => upd s p (Some (firstn k d))
  | Rename _ _ => s
  end.
(* ... or fails before touching anything (e.g. open() fails) *)
Definition untouched (s : fsstate) (o : op) : fsstate := s.

Section Protocol.
Variable tmp_of bk_of : path -> path.     (* Path::with_extension("tmp" / "bk") *)

Definition backup_ops (f : path) (orig fmt : text) : list op :=
  if eqb_text orig fmt then []
  else [Write (tmp_of f) fmt; Rename f (bk_of f); Rename (tmp_of f) f].

Definition files_ops (f : path) (orig fmt : text) : list op :=
  if eqb_text orig fmt then [] else [Write f fmt].

(* run all operations; None if one of them fails *)
Fixpoint run (s : fsstate) (ops : list op) : option fsstate :=
  match ops with
  | [] => Some s
  | o :: ops' => match exec s o with Some s' => run s' ops' | None => None end
  end.

(* the states observable when the run stops early: after [n] complete operations the next one is
   interrupted after [k] chars ([k] ignored for renames), or not started at all *)
Definition stopped_at (s : fsstate) (ops : list op) (n k : nat) (started : bool) : option fsstate :=
  match run s (firstn n ops) with
  | None => None
  | Some s' =>
      match nth_error ops n with
      | None => Some s'                      (* everything completed *)
      | Some o => Some (if started then interrupt s' o k else s')
      end
  end.

(* a multi-file run: files are rewritten one after the other *)
Definition multi_ops (fs : list (path * text * text)) : list op :=
  concat (map (fun x => backup_ops (fst (fst x)) (snd (fst x)) (snd x)) fs).
End Protocol.

(* the property's invariant for file f with original text orig and formatted text fmt *)
Definition Inv (f bk : path) (orig fmt : text) (s : fsstate) : Prop :=
  (s f = Some orig \/ s bk = Some orig) /\
  (forall b, s f = Some b -> b = orig \/ b = fmt).

(* ---------------------------------------------------------------------------------------------
   The names.  files_with_backup.rs (after the repair of the name collision):
       let (tmp_name, bk_name) = match filename.extension().and_then(|ext| ext.to_str()) {
           Some("tmp") | Some("bk") => (append(".tmp"), append(".bk")),      // FILE.tmp / FILE.bk: append
           _ => (filename.with_extension("tmp"), filename.with_extension("bk")),
       };
   A file name is modelled as its stem and its extension (Path::file_stem / Path::extension: the part after the
   last dot of a name that does not start with the dot; None = no extension).  with_extension replaces the
   extension; appending keeps the whole name as the new stem. *)
Definition fname : Type := (text * option text)%type.
Definition T_TMP : text := [116; 109; 112].
Definition T_BK : text := [98; 107].
Definition DOT : N := 46.
Definition eqb_fname (a b : fname) : bool :=
  eqb_text (fst a) (fst b) &&
  match snd a, snd b with
  | None, None => true
  | Some x, Some y => eqb_text x y
  | _, _ => false
  end.
(* the name as written: stem, or stem.ext *)
Definition whole (f : fname) : text :=
  match snd f with None => fst f | Some e => fst f ++ DOT :: e end.
Definition with_extension (f : fname) (e : text) : fname := (fst f, Some e).
Definition append_ext (f : fname) (e : text) : fname := (whole f, Some e).
(* before the repair: always with_extension *)
Definition tmp_name_pre (f : fname) : fname := with_extension f T_TMP.
Definition bk_name_pre (f : fname) : fname := with_extension f T_BK.
Definition collides (f : fname) : bool :=
  match snd f with Some e => eqb_text e T_TMP || eqb_text e T_BK | None => false end.
Definition tmp_name (f : fname) : fname := if collides f then append_ext f T_TMP else with_extension f T_TMP.
Definition bk_name (f : fname) : fname := if collides f then append_ext f T_BK else with_extension f T_BK.
