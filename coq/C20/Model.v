(* C20/Model.v — the --backup write protocol as file-system operations.
   Source modelled: src/emitter/files_with_backup.rs (FilesWithBackupEmitter::emit_formatted_file)
       if original_text != formatted_text {
           let (tmp_name, bk_name) = ...;                 // see "The names" below
           let _ = fs::remove_file(&tmp_name);            // since the repair: a stale FILE.tmp may be a symbolic link
           fs::write(&tmp_name, formatted_text)?;
           fs::rename(filename, bk_name)?;
           fs::rename(tmp_name, filename)?;
       }
   and src/emitter/files.rs:29-34 (FilesEmitter: one fs::write over the original, for contrast).
   The file system: a path holds a regular file, a symbolic link or a (non-empty) directory.
   Assumptions (trusted, POSIX on one file system):
     rename moves the node itself (links are not followed), is atomic and, when it fails (missing source,
       a non-empty directory in the way), changes nothing;
     unlink removes the node itself (a link, not its target), fails on a directory and changes nothing then;
     write FOLLOWS symbolic links (at most 40 of them, more is ELOOP), fails on a directory, and is NOT
       atomic: a crash or an error during it leaves the target holding any prefix of the data (possibly
       empty; the file exists once the write has started). *)
From V Require Import Base.Text.

Definition path := N.
Inductive node : Type := File (t : text) | Link (target : path) | Dir.
Definition fsstate := path -> option node.

Definition upd (s : fsstate) (p : path) (v : option node) : fsstate :=
  fun q => if N.eqb q p then v else s q.

Inductive op : Type :=
| Remove (p : path)                 (* let _ = fs::remove_file(p): its failure is ignored *)
| Write (p : path) (data : text)
| Rename (src dst : path).

(* where an open-for-writing of p lands: symbolic links are followed *)
Fixpoint resolve (fuel : nat) (s : fsstate) (p : path) : option path :=
  match s p with
  | Some (Link q) => match fuel with O => None | S n => resolve n s q end
  | _ => Some p
  end.
Definition MAXSYMLINKS : nat := 40.
Definition is_dir (s : fsstate) (p : path) : bool := match s p with Some Dir => true | _ => false end.

(* what reading p gives (links followed) *)
Definition read (s : fsstate) (p : path) : option text :=
  match resolve MAXSYMLINKS s p with
  | Some q => match s q with Some (File t) => Some t | _ => None end
  | None => None
  end.

(* complete execution of one operation; None = the operation fails and changes nothing *)
Definition exec (s : fsstate) (o : op) : option fsstate :=
  match o with
  | Remove p => Some (if is_dir s p then s else upd s p None)
  | Write p d =>
      match resolve MAXSYMLINKS s p with
      | Some q => if is_dir s q then None else Some (upd s q (Some (File d)))
      | None => None
      end
  | Rename a b =>
      match s a with
      | Some v => if is_dir s b then None else Some (upd (upd s b (Some v)) a None)
      | None => None
      end
  end.

(* the operation is interrupted (crash or I/O error): a write leaves the first k chars, the others nothing *)
Definition interrupt (s : fsstate) (o : op) (k : nat) : fsstate :=
  match o with
  | Write p d =>
      match resolve MAXSYMLINKS s p with
      | Some q => if is_dir s q then s else upd s q (Some (File (firstn k d)))
      | None => s
      end
  | _ => s
  end.
(* ... or fails before touching anything (e.g. open() fails) *)
Definition untouched (s : fsstate) (o : op) : fsstate := s.

Section Protocol.
Variable tmp_of bk_of : path -> path.     (* the sibling names, see below *)

Definition backup_ops (f : path) (orig fmt : text) : list op :=
  if eqb_text orig fmt then []
  else [Remove (tmp_of f); Write (tmp_of f) fmt; Rename f (bk_of f); Rename (tmp_of f) f].

(* before the repair: the temporary file was written through whatever FILE.tmp already was *)
Definition backup_ops_pre (f : path) (orig fmt : text) : list op :=
  if eqb_text orig fmt then []
  else [Write (tmp_of f) fmt; Rename f (bk_of f); Rename (tmp_of f) f].

Definition files_ops (f : path) (orig fmt : text) : list op :=
  if eqb_text orig fmt then [] else [Write f fmt].

(* run all operations; None if one of them fails *)
Fixpoint run (s : fsstate) (ops : list op) : option fsstate :=
  match ops with
  | [] => Some s
  | o :: ops' => match exec s o with Some s' => run s' ops' | None => None end
  end.

(* the states observable when the run stops early: after [n] complete operations the next one is
   interrupted after [k] chars ([k] ignored for renames), or not started at all *)
Definition stopped_at (s : fsstate) (ops : list op) (n k : nat) (started : bool) : option fsstate :=
  match run s (firstn n ops) with
  | None => None
  | Some s' =>
      match nth_error ops n with
      | None => Some s'                      (* everything completed *)
      | Some o => Some (if started then interrupt s' o k else s')
      end
  end.

(* a multi-file run: files are rewritten one after the other *)
Definition multi_ops (fs : list (path * text * text)) : list op :=
  concat (map (fun x => backup_ops (fst (fst x)) (snd (fst x)) (snd x)) fs).
End Protocol.

(* the property's invariant for file f with original text orig and formatted text fmt *)
Definition Inv (f bk : path) (orig fmt : text) (s : fsstate) : Prop :=
  (read s f = Some orig \/ read s bk = Some orig) /\
  (forall b, read s f = Some b -> b = orig \/ b = fmt).

(* ---------------------------------------------------------------------------------------------
   The names.  files_with_backup.rs (after the repair of the name collision):
       let (tmp_name, bk_name) = match filename.extension().and_then(|ext| ext.to_str()) {
           Some("tmp") | Some("bk") => (append(".tmp"), append(".bk")),      // FILE.tmp / FILE.bk: append
           _ => (filename.with_extension("tmp"), filename.with_extension("bk")),
       };
   A file name is modelled as its stem and its extension (Path::file_stem / Path::extension: the part after the
   last dot of a name that does not start with the dot; None = no extension).  with_extension replaces the
   extension; appending keeps the whole name as the new stem. *)
Definition fname : Type := (text * option text)%type.
Definition T_TMP : text := [116; 109; 112].
Definition T_BK : text := [98; 107].
Definition DOT : N := 46.
Definition eqb_fname (a b : fname) : bool :=
  eqb_text (fst a) (fst b) &&
  match snd a, snd b with
  | None, None => true
  | Some x, Some y => eqb_text x y
  | _, _ => false
  end.
(* the name as written: stem, or stem.ext *)
Definition whole (f : fname) : text :=
  match snd f with None => fst f | Some e => fst f ++ DOT :: e end.
Definition with_extension (f : fname) (e : text) : fname := (fst f, Some e).
Definition append_ext (f : fname) (e : text) : fname := (whole f, Some e).
(* before the repair: always with_extension *)
Definition tmp_name_pre (f : fname) : fname := with_extension f T_TMP.
Definition bk_name_pre (f : fname) : fname := with_extension f T_BK.
Definition collides (f : fname) : bool :=
  match snd f with Some e => eqb_text e T_TMP || eqb_text e T_BK | None => false end.
Definition tmp_name (f : fname) : fname := if collides f then append_ext f T_TMP else with_extension f T_TMP.
Definition bk_name (f : fname) : fname := if collides f then append_ext f T_BK else with_extension f T_BK.
