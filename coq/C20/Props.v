(* C20/Props.v — C20: "When rustfmt rewrites a file with --backup, the original bytes are at every instant
   recoverable from the file itself or from its .bk sibling: whichever file-system operation of the write is the
   last to complete before a crash or an I/O error, one of the two holds the complete original, and the file,
   when present, holds either the complete original or the complete formatted text, never a partial one. After a
   successful run the file has the formatted text and the .bk the original; unchanged files get no .bk." *)
From V Require Import Base.Text C20.Model C20.Lemmas.

(* every crash point (n complete operations, the next one interrupted after k chars or not started) and every
   single failing operation leave the invariant intact — from ANY state of the sibling paths (absent, stale files,
   symbolic links to the file itself or elsewhere, directories); the three names must be distinct paths *)
Theorem crash_safe : forall (tmp_of bk_of : path -> path) (f : path) (orig fmt : text),
  tmp_of f <> f -> bk_of f <> f -> tmp_of f <> bk_of f -> eqb_text orig fmt = false ->
  forall s0 : fsstate, s0 f = Some (File orig) ->
  forall (n k : nat) (started : bool) (st : fsstate),
    stopped_at s0 (backup_ops tmp_of bk_of f orig fmt) n k started = Some st ->
    Inv f (bk_of f) orig fmt st.
Proof. exact crash_safe_lemma. Qed.
Print Assumptions crash_safe.

(* a run that is not interrupted and whose siblings are not directories ends with the formatted text in the file,
   the original in .bk and no .tmp *)
Theorem success_post : forall (tmp_of bk_of : path -> path) (f : path) (orig fmt : text),
  tmp_of f <> f -> bk_of f <> f -> tmp_of f <> bk_of f -> eqb_text orig fmt = false ->
  forall s0 : fsstate, s0 f = Some (File orig) ->
  is_dir s0 (tmp_of f) = false -> is_dir s0 (bk_of f) = false ->
  exists st, run s0 (backup_ops tmp_of bk_of f orig fmt) = Some st /\ st f = Some (File fmt) /\ st (bk_of f) = Some (File orig)
             /\ st (tmp_of f) = None.
Proof. exact success_post_lemma. Qed.
Print Assumptions success_post.

(* an operation that cannot succeed (FILE.tmp or FILE.bk is a non-empty directory) makes the run fail, and the state
   it stops in is a crash point of crash_safe *)
Theorem failing_op_stops : forall (tmp_of bk_of : path -> path) (f : path) (orig fmt : text),
  tmp_of f <> f -> bk_of f <> f -> tmp_of f <> bk_of f -> eqb_text orig fmt = false ->
  forall s0 : fsstate, s0 f = Some (File orig) ->
  (is_dir s0 (tmp_of f) = true -> run s0 (backup_ops tmp_of bk_of f orig fmt) = None /\
     exists st, stopped_at s0 (backup_ops tmp_of bk_of f orig fmt) 1 0 false = Some st) /\
  (is_dir s0 (tmp_of f) = false -> is_dir s0 (bk_of f) = true -> run s0 (backup_ops tmp_of bk_of f orig fmt) = None /\
     exists st, stopped_at s0 (backup_ops tmp_of bk_of f orig fmt) 2 0 false = Some st).
Proof. exact failing_op_stops_lemma. Qed.
Print Assumptions failing_op_stops.

(* unchanged files: no file-system operation, hence no .bk *)
Theorem unchanged_no_bk : forall (tmp_of bk_of : path -> path) (f : path) (t : text),
  backup_ops tmp_of bk_of f t t = [].
Proof. exact unchanged_no_ops. Qed.
Print Assumptions unchanged_no_bk.

(* multi-file runs: rewriting f never touches any path other than f, f.tmp, f.bk — whatever the siblings were (a
   symbolic link is replaced, never written through) — so with distinct stems the files of one run are independent *)
Theorem others_untouched : forall (tmp_of bk_of : path -> path) (f : path) (orig fmt : text),
  tmp_of f <> f -> tmp_of f <> bk_of f -> eqb_text orig fmt = false ->
  forall s0 : fsstate, s0 f = Some (File orig) ->
  forall (n k : nat) (started : bool) (st : fsstate) (q : path),
    q <> f -> q <> tmp_of f -> q <> bk_of f ->
    stopped_at s0 (backup_ops tmp_of bk_of f orig fmt) n k started = Some st -> st q = s0 q.
Proof. exact others_untouched_lemma. Qed.
Print Assumptions others_untouched.

(* before the repair (FILE.tmp written without removing it first): a stale FILE.tmp that is a symbolic link to FILE
   made the run succeed with the original in no file; a link to another file overwrote that file.  The genuine
   defect repaired in /repo; the same states are safe under the repaired protocol *)
Theorem symlinked_tmp_pre_refuted :
  (exists st, run s0_link_self (backup_ops_pre (fun p => (p + 1)%N) (fun p => (p + 2)%N) 1%N [97%N; 98%N] [99%N]) = Some st /\
              ~ Inv 1%N 3%N [97%N; 98%N] [99%N] st) /\
  (exists st, run s0_link_other (backup_ops_pre (fun p => (p + 1)%N) (fun p => (p + 2)%N) 1%N [97%N; 98%N] [99%N]) = Some st /\
              st 9%N <> s0_link_other 9%N).
Proof. exact (conj pre_repair_symlink_loses_original pre_repair_symlink_touches_other). Qed.
Print Assumptions symlinked_tmp_pre_refuted.

(* for contrast (not claimed by C20): the plain Files emitter's single write is not crash safe *)
Theorem plain_files_not_crash_safe_refuted :
  exists (f bk : path) (orig fmt : text) (s0 : fsstate) st,
    s0 f = Some (File orig) /\ stopped_at s0 (files_ops f orig fmt) 0 1 true = Some st /\ ~ Inv f bk orig fmt st.
Proof. exact files_not_crash_safe. Qed.
Print Assumptions plain_files_not_crash_safe_refuted.

(* the hypothesis of crash_safe that the three names are different paths: for EVERY file name the repaired naming
   scheme gives a temporary and a backup name that differ from the file and from each other *)
Theorem backup_names_distinct : forall f : fname,
  tmp_name f <> f /\ bk_name f <> f /\ tmp_name f <> bk_name f.
Proof. exact backup_names_distinct_lemma. Qed.
Print Assumptions backup_names_distinct.

(* before the repair the scheme named the file itself for FILE.tmp and FILE.bk (then the original is overwritten
   before any copy exists): the genuine defect repaired in /repo *)
Theorem backup_names_pre_refuted :
  (exists f : fname, tmp_name_pre f = f) /\ (exists f : fname, bk_name_pre f = f).
Proof. exact backup_names_pre_collide_lemma. Qed.
Print Assumptions backup_names_pre_refuted.

(* the repair changes the names of no other file *)
Theorem backup_names_unchanged : forall f : fname, collides f = false ->
  tmp_name f = tmp_name_pre f /\ bk_name f = bk_name_pre f.
Proof. exact backup_names_unchanged_lemma. Qed.
Print Assumptions backup_names_unchanged.
