(* C20/Lemmas.v — proofs *)
From V Require Import Base.Text C20.Model.
Local Open Scope nat_scope.

Lemma upd_same s p v : upd s p v p = v.
Proof. unfold upd. rewrite N.eqb_refl. reflexivity. Qed.
Lemma upd_other s p v q : q <> p -> upd s p v q = s q.
Proof. unfold upd. intros H. destruct (N.eqb_spec q p); [contradiction|reflexivity]. Qed.

Section Proofs.
Variable tmp_of bk_of : path -> path.
Variable f : path.
Variables orig fmt : text.
Hypothesis tmp_ne_f : tmp_of f <> f.
Hypothesis bk_ne_f : bk_of f <> f.
Hypothesis tmp_ne_bk : tmp_of f <> bk_of f.
Hypothesis differ : eqb_text orig fmt = false.
Variable s0 : fsstate.
Hypothesis f_has_orig : s0 f = Some orig.

Let ops := backup_ops tmp_of bk_of f orig fmt.

Lemma ops_eq : ops = [Write (tmp_of f) fmt; Rename f (bk_of f); Rename (tmp_of f) f].
Proof. unfold ops, backup_ops. rewrite differ. reflexivity. Qed.

(* the three intermediate states *)
Let s1 := upd s0 (tmp_of f) (Some fmt).
Let s2 := upd (upd s1 (bk_of f) (Some orig)) f None.
Let s3 := upd (upd s2 f (Some fmt)) (tmp_of f) None.

Lemma run_prefix n : run s0 (firstn n ops) =
  Some (match n with 0 => s0 | 1 => s1 | 2 => s2 | _ => s3 end).
Proof.
  rewrite ops_eq. destruct n as [|[|[|n]]]; cbn [firstn run exec].
  - reflexivity.
  - reflexivity.
  - fold s1. assert (E : s1 f = Some orig) by (unfold s1; rewrite upd_other by auto; exact f_has_orig).
    rewrite E. reflexivity.
  - fold s1. assert (E : s1 f = Some orig) by (unfold s1; rewrite upd_other by auto; exact f_has_orig).
    rewrite E. fold s2.
    assert (E2 : s2 (tmp_of f) = Some fmt).
    { unfold s2. rewrite upd_other by auto. rewrite upd_other by auto. unfold s1. apply upd_same. }
    rewrite E2. fold s3. destruct n; reflexivity.
Qed.

Lemma inv_s0 : Inv f (bk_of f) orig fmt s0.
Proof. split; [left; exact f_has_orig|]. intros b H. rewrite f_has_orig in H. inversion H. left; reflexivity. Qed.
Lemma inv_s1 : Inv f (bk_of f) orig fmt s1.
Proof.
  assert (E : s1 f = Some orig) by (unfold s1; rewrite upd_other by auto; exact f_has_orig).
  split; [left; exact E|]. intros b H. rewrite E in H. inversion H. left; reflexivity.
Qed.
Lemma inv_s1_partial k : Inv f (bk_of f) orig fmt (upd s0 (tmp_of f) (Some (firstn k fmt))).
Proof.
  assert (E : upd s0 (tmp_of f) (Some (firstn k fmt)) f = Some orig) by (rewrite upd_other by auto; exact f_has_orig).
  split; [left; exact E|]. intros b H. rewrite E in H. inversion H. left; reflexivity.
Qed.
Lemma inv_s2 : Inv f (bk_of f) orig fmt s2.
Proof.
  split.
  - right. unfold s2. rewrite upd_other by auto. apply upd_same.
  - intros b H. unfold s2 in H. rewrite upd_same in H. discriminate.
Qed.
Lemma inv_s3 : Inv f (bk_of f) orig fmt s3.
Proof.
  split.
  - right. unfold s3. rewrite upd_other by auto. rewrite upd_other by auto.
    unfold s2. rewrite upd_other by auto. apply upd_same.
  - intros b H. unfold s3 in H. rewrite upd_other in H by auto. rewrite upd_same in H.
    inversion H. right; reflexivity.
Qed.

(* every crash point, including the middle of the write, and every single failing operation *)
Lemma crash_safe_lemma n k started st :
  stopped_at s0 ops n k started = Some st -> Inv f (bk_of f) orig fmt st.
Proof.
  unfold stopped_at. rewrite run_prefix. rewrite ops_eq.
  destruct n as [|[|[|n]]]; cbn [nth_error].
  - intros H; inversion H; subst; clear H. destruct started; cbn [interrupt]; [apply inv_s1_partial|apply inv_s0].
  - intros H; inversion H; subst; clear H. destruct started; cbn [interrupt]; apply inv_s1.
  - intros H; inversion H; subst; clear H. destruct started; cbn [interrupt]; apply inv_s2.
  - replace (nth_error (@nil op) n) with (@None op) by (destruct n; reflexivity).
    intros H; inversion H; subst; clear H. apply inv_s3.
Qed.

Lemma success_post_lemma : exists st, run s0 ops = Some st /\ st f = Some fmt /\ st (bk_of f) = Some orig.
Proof.
  exists s3. split.
  - pose proof (run_prefix 3) as H. rewrite ops_eq in *. cbn [firstn] in H. exact H.
  - split.
    + unfold s3. rewrite upd_other by auto. apply upd_same.
    + unfold s3. rewrite upd_other by auto. rewrite upd_other by auto.
      unfold s2. rewrite upd_other by auto. apply upd_same.
Qed.

(* paths other than f, f.tmp, f.bk are never touched, whatever happens *)
Lemma others_untouched_lemma n k started st q :
  q <> f -> q <> tmp_of f -> q <> bk_of f ->
  stopped_at s0 ops n k started = Some st -> st q = s0 q.
Proof.
  intros H1 H2 H3. unfold stopped_at. rewrite run_prefix. rewrite ops_eq.
  assert (E1 : s1 q = s0 q) by (unfold s1; apply upd_other; auto).
  assert (E2 : s2 q = s0 q) by (unfold s2; rewrite !upd_other by auto; exact E1).
  assert (E3 : s3 q = s0 q) by (unfold s3; rewrite !upd_other by auto; exact E2).
  destruct n as [|[|[|n]]]; cbn [nth_error].
  - intros H; inversion H; subst; clear H. destruct started; cbn [interrupt]; [apply upd_other; auto|reflexivity].
  - intros H; inversion H; subst; clear H. destruct started; cbn [interrupt]; exact E1.
  - intros H; inversion H; subst; clear H. destruct started; cbn [interrupt]; exact E2.
  - replace (nth_error (@nil op) n) with (@None op) by (destruct n; reflexivity).
    intros H; inversion H; subst; clear H. exact E3.
Qed.
End Proofs.

(* unchanged files: no operation at all *)
Lemma unchanged_no_ops tmp_of bk_of f t : backup_ops tmp_of bk_of f t t = [].
Proof. unfold backup_ops. rewrite (proj2 (eqb_text_spec t t) eq_refl). reflexivity. Qed.

(* the plain Files emitter is NOT crash safe: a crash in the middle of its single write loses the original *)
Lemma files_not_crash_safe :
  exists (f bk : path) (orig fmt : text) (s0 : fsstate) st,
    s0 f = Some orig /\ stopped_at s0 (files_ops f orig fmt) 0 1 true = Some st /\ ~ Inv f bk orig fmt st.
Proof.
  exists 1%N, 2%N, [97%N; 98%N], [99%N; 100%N], (fun q => if N.eqb q 1%N then Some [97%N; 98%N] else None).
  eexists. split; [reflexivity|]. split; [reflexivity|].
  intros [[H|H] _]; cbn in H; discriminate.
Qed.

(* ---------------------------------------------------------------------------------------------
   names *)
Lemma eqb_text_true_iff : forall a b : text, eqb_text a b = true <-> a = b.
Proof. exact eqb_text_spec. Qed.

Lemma app_cons_neq : forall (l r : text) (c : N), l ++ c :: r <> l.
Proof.
  induction l as [|x l IH]; intros r c H.
  - discriminate H.
  - cbn [app] in H. inversion H as [H1]. exact (IH r c H1).
Qed.

Lemma tmp_bk_texts_differ : T_TMP <> T_BK.
Proof. discriminate. Qed.

Ltac by_stem H := apply (f_equal (@fst text (option text))) in H; cbn [fst] in H; exact (app_cons_neq _ _ _ H).
Ltac by_ext H := apply (f_equal (@snd text (option text))) in H; cbn [snd] in H; discriminate H.

Lemma backup_names_distinct_lemma : forall f : fname,
  tmp_name f <> f /\ bk_name f <> f /\ tmp_name f <> bk_name f.
Proof.
  intros [stem ext]. unfold tmp_name, bk_name, collides, append_ext, with_extension, whole. cbn [fst snd].
  destruct ext as [e|].
  - destruct (eqb_text e T_TMP || eqb_text e T_BK) eqn:Hc.
    + split; [|split]; intros H; [by_stem H | by_stem H | by_ext H].
    + apply Bool.orb_false_iff in Hc. destruct Hc as [Ht Hb].
      split; [|split]; intros H.
      * apply (f_equal (@snd text (option text))) in H; cbn [snd] in H. injection H as H1. subst e. vm_compute in Ht. discriminate Ht.
      * apply (f_equal (@snd text (option text))) in H; cbn [snd] in H. injection H as H1. subst e. vm_compute in Hb. discriminate Hb.
      * by_ext H.
  - split; [|split]; intros H; by_ext H.
Qed.

Lemma backup_names_pre_collide_lemma :
  (exists f : fname, tmp_name_pre f = f) /\ (exists f : fname, bk_name_pre f = f).
Proof. split; [exists ([97%N], Some T_TMP) | exists ([98%N], Some T_BK)]; reflexivity. Qed.

Lemma backup_names_unchanged_lemma : forall f : fname, collides f = false ->
  tmp_name f = tmp_name_pre f /\ bk_name f = bk_name_pre f.
Proof. intros f H. unfold tmp_name, bk_name. rewrite H. split; reflexivity. Qed.
