(* C20/Lemmas.v — proofs *)
From V Require Import Base.Text C20.Model.
Local Open Scope nat_scope.

Lemma upd_same s p v : upd s p v p = v.
Proof. unfold upd. rewrite N.eqb_refl. reflexivity. Qed.
Lemma upd_other s p v q : q <> p -> upd s p v q = s q.
Proof. unfold upd. intros H. destruct (N.eqb_spec q p); [contradiction|reflexivity]. Qed.

Lemma resolve_nonlink fuel s p : (forall q, s p <> Some (Link q)) -> resolve fuel s p = Some p.
Proof.
  intros H. destruct fuel; cbn [resolve]; destruct (s p) as [[t|q|]|] eqn:E; try reflexivity;
    exfalso; apply (H q); reflexivity.
Qed.
Lemma read_file s p t : s p = Some (File t) -> read s p = Some t.
Proof.
  intros H. unfold read. rewrite resolve_nonlink by (intros q Hq; rewrite H in Hq; discriminate Hq).
  rewrite H. reflexivity.
Qed.
Lemma read_absent s p : s p = None -> read s p = None.
Proof.
  intros H. unfold read. rewrite resolve_nonlink by (intros q Hq; rewrite H in Hq; discriminate Hq).
  rewrite H. reflexivity.
Qed.
Lemma is_dir_upd_other s p v q : q <> p -> is_dir (upd s p v) q = is_dir s q.
Proof. intros H. unfold is_dir. rewrite upd_other by exact H. reflexivity. Qed.

Lemma some_inj (A : Type) (a b : A) : Some a = Some b -> a = b.
Proof. intros H. congruence. Qed.
Arguments interrupt : simpl never.
Arguments resolve : simpl never.

Section Proofs.
Variable tmp_of bk_of : path -> path.
Variable f : path.
Variables orig fmt : text.
Hypothesis tmp_ne_f : tmp_of f <> f.
Hypothesis bk_ne_f : bk_of f <> f.
Hypothesis tmp_ne_bk : tmp_of f <> bk_of f.
Hypothesis differ : eqb_text orig fmt = false.
Variable s0 : fsstate.                                  (* ANY state of the siblings: absent, files, links, directories *)
Hypothesis f_has_orig : s0 f = Some (File orig).

Local Notation T := (tmp_of f).
Local Notation B := (bk_of f).
Local Definition ops := backup_ops tmp_of bk_of f orig fmt.

Lemma ops_eq : ops = [Remove T; Write T fmt; Rename f B; Rename T f].
Proof. unfold ops, backup_ops. rewrite differ. reflexivity. Qed.

(* the intermediate states *)
Local Definition sA := if is_dir s0 T then s0 else upd s0 T None.
Local Definition sB := upd sA T (Some (File fmt)).
Local Definition sC := upd (upd sB B (Some (File orig))) f None.
Local Definition sD := upd (upd sC f (Some (File fmt))) T None.

Lemma f_ne_T : f <> T. Proof. intros H. apply tmp_ne_f. symmetry. exact H. Qed.
Lemma f_ne_B : f <> B. Proof. intros H. apply bk_ne_f. symmetry. exact H. Qed.
Lemma B_ne_T : B <> T. Proof. intros H. apply tmp_ne_bk. symmetry. exact H. Qed.

Lemma sA_f : sA f = Some (File orig).
Proof. unfold sA. destruct (is_dir s0 T); [exact f_has_orig|]. rewrite upd_other by exact f_ne_T. exact f_has_orig. Qed.
Lemma sA_T_nonlink : forall q, sA T <> Some (Link q).
Proof.
  intros q. unfold sA. destruct (is_dir s0 T) eqn:E.
  - unfold is_dir in E. destruct (s0 T) as [[t|l|]|]; try discriminate E. discriminate.
  - rewrite upd_same. discriminate.
Qed.
Lemma sA_T_dir : is_dir sA T = is_dir s0 T.
Proof.
  unfold sA. destruct (is_dir s0 T) eqn:E; [exact E|]. unfold is_dir. rewrite upd_same. reflexivity.
Qed.
Lemma sA_B_dir : is_dir sA B = is_dir s0 B.
Proof. unfold sA. destruct (is_dir s0 T); [reflexivity|]. apply is_dir_upd_other. exact B_ne_T. Qed.

Lemma exec_remove : exec s0 (Remove T) = Some sA.
Proof. reflexivity. Qed.
Lemma exec_write : exec sA (Write T fmt) = if is_dir s0 T then None else Some sB.
Proof.
  unfold exec. rewrite (resolve_nonlink _ _ _ sA_T_nonlink). rewrite sA_T_dir. reflexivity.
Qed.
Lemma interrupt_write k : interrupt sA (Write T fmt) k = if is_dir s0 T then sA else upd sA T (Some (File (firstn k fmt))).
Proof.
  unfold interrupt. rewrite (resolve_nonlink _ _ _ sA_T_nonlink). rewrite sA_T_dir. reflexivity.
Qed.
Lemma sB_f : sB f = Some (File orig).
Proof. unfold sB. rewrite upd_other by exact f_ne_T. exact sA_f. Qed.
Lemma exec_rename1 : exec sB (Rename f B) = if is_dir s0 B then None else Some sC.
Proof.
  unfold exec. rewrite sB_f. unfold sB at 1. rewrite is_dir_upd_other by exact B_ne_T. rewrite sA_B_dir. reflexivity.
Qed.
Lemma sC_T : sC T = Some (File fmt).
Proof.
  unfold sC. rewrite upd_other by exact tmp_ne_f. rewrite upd_other by exact tmp_ne_bk. unfold sB. apply upd_same.
Qed.
Lemma sC_f : sC f = None.
Proof. unfold sC. apply upd_same. Qed.
Lemma sC_B : sC B = Some (File orig).
Proof. unfold sC. rewrite upd_other by exact bk_ne_f. apply upd_same. Qed.
Lemma exec_rename2 : exec sC (Rename T f) = Some sD.
Proof. unfold exec. rewrite sC_T. unfold is_dir. rewrite sC_f. reflexivity. Qed.
Lemma sD_f : sD f = Some (File fmt).
Proof. unfold sD. rewrite upd_other by exact f_ne_T. apply upd_same. Qed.
Lemma sD_B : sD B = Some (File orig).
Proof. unfold sD. rewrite upd_other by exact B_ne_T. rewrite upd_other by exact bk_ne_f. exact sC_B. Qed.

Lemma inv_of_f s : s f = Some (File orig) -> Inv f B orig fmt s.
Proof.
  intros H. pose proof (read_file _ _ _ H) as R. split; [left; exact R|].
  intros b Hb. rewrite R in Hb. inversion Hb. left; reflexivity.
Qed.
Lemma inv_sC : Inv f B orig fmt sC.
Proof.
  split.
  - right. apply read_file. exact sC_B.
  - intros b Hb. rewrite (read_absent _ _ sC_f) in Hb. discriminate Hb.
Qed.
Lemma inv_sD : Inv f B orig fmt sD.
Proof.
  split.
  - right. apply read_file. exact sD_B.
  - intros b Hb. rewrite (read_file _ _ _ sD_f) in Hb. inversion Hb. right; reflexivity.
Qed.

(* the run, prefix by prefix *)
Lemma run1 : run s0 (firstn 1 ops) = Some sA.
Proof. rewrite ops_eq. reflexivity. Qed.
Lemma run2 : run s0 (firstn 2 ops) = if is_dir s0 T then None else Some sB.
Proof. rewrite ops_eq. cbn [firstn run]. rewrite exec_remove. rewrite exec_write. destruct (is_dir s0 T); reflexivity. Qed.
Lemma run3 : run s0 (firstn 3 ops) = if is_dir s0 T then None else if is_dir s0 B then None else Some sC.
Proof.
  rewrite ops_eq. cbn [firstn run]. rewrite exec_remove. rewrite exec_write. destruct (is_dir s0 T); [reflexivity|].
  rewrite exec_rename1. destruct (is_dir s0 B); reflexivity.
Qed.
Lemma run4 n : run s0 (firstn (4 + n) ops) = if is_dir s0 T then None else if is_dir s0 B then None else Some sD.
Proof.
  rewrite ops_eq. cbn [plus firstn run]. rewrite exec_remove. rewrite exec_write. destruct (is_dir s0 T); [reflexivity|].
  rewrite exec_rename1. destruct (is_dir s0 B); [reflexivity|]. rewrite exec_rename2.
  destruct n; reflexivity.
Qed.

(* every crash point, including the middle of the write, and every single failing operation, from ANY state of the
   sibling paths *)
Lemma crash_safe_lemma n k started st :
  stopped_at s0 ops n k started = Some st -> Inv f B orig fmt st.
Proof.
  unfold stopped_at. destruct n as [|[|[|[|n]]]].
  - rewrite ops_eq. cbn [firstn run nth_error interrupt]. intros H; apply some_inj in H; subst st.
    destruct started; apply inv_of_f; exact f_has_orig.
  - rewrite run1. rewrite ops_eq. cbn [nth_error]. intros H; apply some_inj in H; subst st.
    destruct started; [|apply inv_of_f; exact sA_f].
    rewrite interrupt_write. destruct (is_dir s0 T); apply inv_of_f; [exact sA_f|].
    rewrite upd_other by exact f_ne_T. exact sA_f.
  - rewrite run2. destruct (is_dir s0 T); [discriminate|]. rewrite ops_eq. cbn [nth_error interrupt].
    intros H; apply some_inj in H; subst st. destruct started; apply inv_of_f; exact sB_f.
  - rewrite run3. destruct (is_dir s0 T); [discriminate|]. destruct (is_dir s0 B); [discriminate|].
    rewrite ops_eq. cbn [nth_error interrupt]. intros H; apply some_inj in H; subst st. destruct started; exact inv_sC.
  - change (S (S (S (S n)))) with (4 + n). rewrite run4.
    destruct (is_dir s0 T); [discriminate|]. destruct (is_dir s0 B); [discriminate|].
    rewrite ops_eq. replace (nth_error [Remove T; Write T fmt; Rename f B; Rename T f] (4 + n)) with (@None op)
      by (destruct n; reflexivity).
    intros H; apply some_inj in H; subst st. exact inv_sD.
Qed.

(* a failing operation stops the run with the state it found: FILE.tmp or FILE.bk is a (non-empty) directory *)
Lemma failing_op_lemma :
  (is_dir s0 T = true -> run s0 ops = None /\ stopped_at s0 ops 1 0 false = Some sA) /\
  (is_dir s0 T = false -> is_dir s0 B = true -> run s0 ops = None /\ stopped_at s0 ops 2 0 false = Some sB).
Proof.
  split.
  - intros HT. split.
    + pose proof (run4 0) as H. rewrite ops_eq in *. cbn [plus firstn] in H. rewrite HT in H. exact H.
    + unfold stopped_at. rewrite run1. rewrite ops_eq. reflexivity.
  - intros HT HB. split.
    + pose proof (run4 0) as H. rewrite ops_eq in *. cbn [plus firstn] in H. rewrite HT, HB in H. exact H.
    + unfold stopped_at. rewrite run2. rewrite HT. rewrite ops_eq. reflexivity.
Qed.

Lemma success_post_lemma : is_dir s0 T = false -> is_dir s0 B = false ->
  exists st, run s0 ops = Some st /\ st f = Some (File fmt) /\ st B = Some (File orig) /\ st T = None.
Proof.
  intros HT HB. exists sD. split.
  - pose proof (run4 0) as H. rewrite ops_eq in *. cbn [plus firstn] in H. rewrite HT, HB in H. exact H.
  - split; [exact sD_f|]. split; [exact sD_B|]. unfold sD. apply upd_same.
Qed.

(* paths other than f, f.tmp, f.bk are never touched, whatever happens and whatever the siblings were *)
Lemma others_untouched_lemma n k started st q :
  q <> f -> q <> T -> q <> B ->
  stopped_at s0 ops n k started = Some st -> st q = s0 q.
Proof.
  intros H1 H2 H3.
  assert (EA : sA q = s0 q) by (unfold sA; destruct (is_dir s0 T); [reflexivity|apply upd_other; exact H2]).
  assert (EB : sB q = s0 q) by (unfold sB; rewrite upd_other by exact H2; exact EA).
  assert (EC : sC q = s0 q) by (unfold sC; rewrite !upd_other by assumption; exact EB).
  assert (ED : sD q = s0 q) by (unfold sD; rewrite !upd_other by assumption; exact EC).
  unfold stopped_at. destruct n as [|[|[|[|n]]]].
  - rewrite ops_eq. cbn [firstn run nth_error interrupt]. intros H; apply some_inj in H; subst st.
    destruct started; reflexivity.
  - rewrite run1. rewrite ops_eq. cbn [nth_error]. intros H; apply some_inj in H; subst st.
    destruct started; [|exact EA].
    rewrite interrupt_write. destruct (is_dir s0 T); [exact EA|]. rewrite upd_other by exact H2. exact EA.
  - rewrite run2. destruct (is_dir s0 T); [discriminate|]. rewrite ops_eq. cbn [nth_error interrupt].
    intros H; apply some_inj in H; subst st. destruct started; exact EB.
  - rewrite run3. destruct (is_dir s0 T); [discriminate|]. destruct (is_dir s0 B); [discriminate|].
    rewrite ops_eq. cbn [nth_error interrupt]. intros H; apply some_inj in H; subst st. destruct started; exact EC.
  - change (S (S (S (S n)))) with (4 + n). rewrite run4.
    destruct (is_dir s0 T); [discriminate|]. destruct (is_dir s0 B); [discriminate|].
    rewrite ops_eq. replace (nth_error [Remove T; Write T fmt; Rename f B; Rename T f] (4 + n)) with (@None op)
      by (destruct n; reflexivity).
    intros H; apply some_inj in H; subst st. exact ED.
Qed.
End Proofs.

Lemma failing_op_stops_lemma : forall (tmp_of bk_of : path -> path) (f : path) (orig fmt : text),
  tmp_of f <> f -> bk_of f <> f -> tmp_of f <> bk_of f -> eqb_text orig fmt = false ->
  forall s0 : fsstate, s0 f = Some (File orig) ->
  (is_dir s0 (tmp_of f) = true -> run s0 (backup_ops tmp_of bk_of f orig fmt) = None /\
     exists st, stopped_at s0 (backup_ops tmp_of bk_of f orig fmt) 1 0 false = Some st) /\
  (is_dir s0 (tmp_of f) = false -> is_dir s0 (bk_of f) = true -> run s0 (backup_ops tmp_of bk_of f orig fmt) = None /\
     exists st, stopped_at s0 (backup_ops tmp_of bk_of f orig fmt) 2 0 false = Some st).
Proof.
  intros tmp_of bk_of f orig fmt H1 H2 H3 H4 s0 H5.
  pose proof (failing_op_lemma tmp_of bk_of f orig fmt) as L.
  assert (AB : (is_dir s0 (tmp_of f) = true ->
       run s0 (ops tmp_of bk_of f orig fmt) = None /\ stopped_at s0 (ops tmp_of bk_of f orig fmt) 1 0 false = Some (sA tmp_of f s0)) /\
      (is_dir s0 (tmp_of f) = false -> is_dir s0 (bk_of f) = true ->
       run s0 (ops tmp_of bk_of f orig fmt) = None /\ stopped_at s0 (ops tmp_of bk_of f orig fmt) 2 0 false = Some (sB tmp_of f fmt s0)))
    by (apply L; assumption).
  destruct AB as [A B].
  split; [intros HT; destruct (A HT) as [X Y]; split; [exact X|eexists; exact Y]
         |intros HT HB; destruct (B HT HB) as [X Y]; split; [exact X|eexists; exact Y]].
Qed.

(* unchanged files: no operation at all *)
Lemma unchanged_no_ops tmp_of bk_of f t : backup_ops tmp_of bk_of f t t = [].
Proof. unfold backup_ops. rewrite (proj2 (eqb_text_spec t t) eq_refl). reflexivity. Qed.

(* the plain Files emitter is NOT crash safe: a crash in the middle of its single write loses the original *)
Lemma files_not_crash_safe :
  exists (f bk : path) (orig fmt : text) (s0 : fsstate) st,
    s0 f = Some (File orig) /\ stopped_at s0 (files_ops f orig fmt) 0 1 true = Some st /\ ~ Inv f bk orig fmt st.
Proof.
  exists 1%N, 2%N, [97%N; 98%N], [99%N; 100%N], (fun q => if N.eqb q 1%N then Some (File [97%N; 98%N]) else None).
  eexists. split; [reflexivity|]. split; [reflexivity|].
  intros [[H|H] _]; vm_compute in H; discriminate.
Qed.

(* before the repair (no Remove): a stale FILE.tmp that is a symbolic link to FILE itself makes the first write land
   in FILE; the run "succeeds" and the original is in no file; a link to another file overwrites that file *)
Definition s0_link_self : fsstate := fun q => if N.eqb q 1%N then Some (File [97%N; 98%N]) else if N.eqb q 2%N then Some (Link 1%N) else None.
Definition s0_link_other : fsstate := fun q => if N.eqb q 1%N then Some (File [97%N; 98%N]) else if N.eqb q 2%N then Some (Link 9%N)
                                               else if N.eqb q 9%N then Some (File [120%N]) else None.
Lemma pre_repair_symlink_loses_original :
  exists st, run s0_link_self (backup_ops_pre (fun p => (p + 1)%N) (fun p => (p + 2)%N) 1%N [97%N; 98%N] [99%N]) = Some st /\
             ~ Inv 1%N 3%N [97%N; 98%N] [99%N] st.
Proof.
  eexists. split; [vm_compute; reflexivity|]. intros [[H|H] _]; vm_compute in H; discriminate.
Qed.
Lemma pre_repair_symlink_touches_other :
  exists st, run s0_link_other (backup_ops_pre (fun p => (p + 1)%N) (fun p => (p + 2)%N) 1%N [97%N; 98%N] [99%N]) = Some st /\
             st 9%N <> s0_link_other 9%N.
Proof. eexists. split; [vm_compute; reflexivity|]. vm_compute. discriminate. Qed.
(* the same two states under the repaired protocol: invariant kept, other file untouched (instances of the theorems) *)
Lemma repaired_symlink_examples :
  (exists st, run s0_link_self (backup_ops (fun p => (p + 1)%N) (fun p => (p + 2)%N) 1%N [97%N; 98%N] [99%N]) = Some st /\
              read st 1%N = Some [99%N] /\ read st 3%N = Some [97%N; 98%N]) /\
  (exists st, run s0_link_other (backup_ops (fun p => (p + 1)%N) (fun p => (p + 2)%N) 1%N [97%N; 98%N] [99%N]) = Some st /\
              st 9%N = s0_link_other 9%N).
Proof. split; eexists; (split; [vm_compute; reflexivity|]); vm_compute; auto. Qed.

(* ---------------------------------------------------------------------------------------------
   names *)
Lemma eqb_text_true_iff : forall a b : text, eqb_text a b = true <-> a = b.
Proof. exact eqb_text_spec. Qed.

Lemma app_cons_neq : forall (l r : text) (c : N), l ++ c :: r <> l.
Proof.
  induction l as [|x l IH]; intros r c H.
  - discriminate H.
  - cbn [app] in H. inversion H as [H1]. exact (IH r c H1).
Qed.

Lemma tmp_bk_texts_differ : T_TMP <> T_BK.
Proof. discriminate. Qed.

Ltac by_stem H := apply (f_equal (@fst text (option text))) in H; cbn [fst] in H; exact (app_cons_neq _ _ _ H).
Ltac by_ext H := apply (f_equal (@snd text (option text))) in H; cbn [snd] in H; discriminate H.

Lemma backup_names_distinct_lemma : forall f : fname,
  tmp_name f <> f /\ bk_name f <> f /\ tmp_name f <> bk_name f.
Proof.
  intros [stem ext]. unfold tmp_name, bk_name, collides, append_ext, with_extension, whole. cbn [fst snd].
  destruct ext as [e|].
  - destruct (eqb_text e T_TMP || eqb_text e T_BK) eqn:Hc.
    + split; [|split]; intros H; [by_stem H | by_stem H | by_ext H].
    + apply Bool.orb_false_iff in Hc. destruct Hc as [Ht Hb].
      split; [|split]; intros H.
      * apply (f_equal (@snd text (option text))) in H; cbn [snd] in H. injection H as H1. subst e. vm_compute in Ht. discriminate Ht.
      * apply (f_equal (@snd text (option text))) in H; cbn [snd] in H. injection H as H1. subst e. vm_compute in Hb. discriminate Hb.
      * by_ext H.
  - split; [|split]; intros H; by_ext H.
Qed.

Lemma backup_names_pre_collide_lemma :
  (exists f : fname, tmp_name_pre f = f) /\ (exists f : fname, bk_name_pre f = f).
Proof. split; [exists ([97%N], Some T_TMP) | exists ([98%N], Some T_BK)]; reflexivity. Qed.

Lemma backup_names_unchanged_lemma : forall f : fname, collides f = false ->
  tmp_name f = tmp_name_pre f /\ bk_name f = bk_name_pre f.
Proof. intros f H. unfold tmp_name, bk_name. rewrite H. split; reflexivity. Qed.
