(* C12/Lemmas.v — proofs about the model of C12/Model.v *)
From V Require Import Base.Text C12.Model.
From Coq Require Import Permutation.
Local Open Scope nat_scope.
Arguments Nat.leb : simpl never.
Arguments Nat.ltb : simpl never.
Arguments Nat.eqb : simpl never.
Arguments Nat.sub : simpl never.

(* ------------------------------------------------------------------ *)
(* projections *)
Lemma projL_app {A} (s t : list (dres A)) : projL (s ++ t) = projL s ++ projL t.
Proof. induction s as [|[x|x|l r] s IH]; cbn [projL app]; rewrite ?IH; reflexivity. Qed.
Lemma projR_app {A} (s t : list (dres A)) : projR (s ++ t) = projR s ++ projR t.
Proof. induction s as [|[x|x|l r] s IH]; cbn [projR app]; rewrite ?IH; reflexivity. Qed.

Lemma both_eq_cons {A} {d : dres A} {s} : both_eq (d :: s) -> both_eq s.
Proof. intros H l r Hin. apply H. right. exact Hin. Qed.
Lemma both_eq_head {A} {l r : A} {s} : both_eq (B l r :: s) -> l = r.
Proof. intros H. apply H. left. reflexivity. Qed.
Lemma both_eq_app {A} (s t : list (dres A)) : both_eq s -> both_eq t -> both_eq (s ++ t).
Proof. intros Hs Ht l r Hin. apply in_app_or in Hin. destruct Hin as [Hin|Hin]; [apply Hs|apply Ht]; exact Hin. Qed.

(* ------------------------------------------------------------------ *)
Lemma mm_add_add {A} (m : mismatch A) a b : mm_add (mm_add m a) b = mm_add m (a ++ b).
Proof. unfold mm_add. cbn [mm_line mm_orig mm_lines]. rewrite app_assoc. reflexivity. Qed.
Lemma mm_add_nil {A} (m : mismatch A) : mm_add m [] = m.
Proof. unfold mm_add. rewrite app_nil_r. destruct m; reflexivity. Qed.

(* go never returns the empty list; its head is an extension of [cur] *)
Lemma go_shape {A} ctx (s : list (dres A)) : forall ln lo q lsm cur,
  exists ext rest, go ctx ln lo q lsm cur s = mm_add cur ext :: rest.
Proof.
  induction s as [|d s IH]; intros ln lo q lsm cur.
  - exists [], []. cbn [go]. rewrite mm_add_nil. reflexivity.
  - destruct d as [x|x|l r]; cbn [go].
    + destruct (Nat.leb ctx lsm && Nat.ltb 0 lsm).
      * eexists [], _. rewrite mm_add_nil. reflexivity.
      * destruct (IH ln (S lo) [] 0 (mm_add cur (map Ctx q ++ [Res x]))) as (ext & rest & E).
        eexists _, rest. rewrite E, mm_add_add. reflexivity.
    + destruct (Nat.leb ctx lsm && Nat.ltb 0 lsm).
      * eexists [], _. rewrite mm_add_nil. reflexivity.
      * destruct (IH (S ln) lo [] 0 (mm_add cur (map Ctx q ++ [Exp x]))) as (ext & rest & E).
        eexists _, rest. rewrite E, mm_add_add. reflexivity.
    + destruct (Nat.ltb lsm ctx).
      * match goal with |- context [go ctx ?a ?b ?c ?d ?e s] => destruct (IH a b c d e) as (ext & rest & E) end.
        eexists _, rest. rewrite E, mm_add_add. reflexivity.
      * match goal with |- context [go ctx ?a ?b ?c ?d ?e s] => destruct (IH a b c d e) as (ext & rest & E) end.
        exists ext, rest. exact E.
Qed.

(* ------------------------------------------------------------------ *)
(* the modified-lines report (context 0) reconstructs the formatted text *)

Definition removed {A} (m : mismatch A) : nat := length (filter is_res (mm_lines m)).

Lemma removed_add {A} (m : mismatch A) ls :
  removed (mm_add m ls) = removed m + length (filter is_res ls).
Proof. unfold removed, mm_add. cbn [mm_lines]. rewrite filter_app, app_length. reflexivity. Qed.

Lemma exp_lines_app {A} (a b : list (dline A)) : exp_lines (a ++ b) = exp_lines a ++ exp_lines b.
Proof. induction a as [|[x|x|x] a IH]; cbn [exp_lines app]; rewrite ?IH; reflexivity. Qed.
Lemma res_lines_app {A} (a b : list (dline A)) : res_lines (a ++ b) = res_lines a ++ res_lines b.
Proof. induction a as [|[x|x|x] a IH]; cbn [res_lines app]; rewrite ?IH; reflexivity. Qed.

Definition first_orig_ge {A} (n : nat) (cs : list (chunk A)) : Prop :=
  match cs with [] => True | c :: _ => n <= ch_orig c end.

(* copying one unchanged line in front *)
Lemma apply_shift {A} (x : A) pos rest cs r :
  first_orig_ge (S pos) cs ->
  apply_chunks (S pos) rest cs = Some r ->
  apply_chunks pos (x :: rest) cs = Some (x :: r).
Proof.
  destruct cs as [|c cs]; cbn [apply_chunks first_orig_ge]; intros Hge H.
  - inversion H; reflexivity.
  - destruct (Nat.ltb_spec (ch_orig c) (S pos)) as [Hlt|Hge']; [lia|].
    destruct (Nat.ltb_spec (ch_orig c) pos) as [Hlt2|_]; [lia|].
    replace (ch_orig c - pos) with (S (ch_orig c - S pos)) by lia.
    cbn [length plus].
    destruct (Nat.ltb_spec (length rest) (ch_orig c - S pos + ch_removed c)) as [Hl|Hl]; [discriminate|].
    destruct (Nat.ltb_spec (S (length rest)) (S (ch_orig c - S pos + ch_removed c))) as [Hl2|_]; [lia|].
    cbn [skipn firstn].
    destruct (apply_chunks (ch_orig c + ch_removed c) (skipn (ch_orig c - S pos + ch_removed c) rest) cs) as [tl|];
      [|discriminate].
    inversion H. reflexivity.
Qed.

(* state of the ctx = 0 loop: q = [] always *)
Lemma go0_closed_open {A} (s : list (dres A)) :
  both_eq s ->
  (forall ln lo lsm cur, 0 < lsm ->
     exists rest, go 0 ln lo [] lsm cur s = cur :: rest
       /\ first_orig_ge lo (modified_lines rest)
       /\ apply_chunks lo (projL s) (modified_lines rest) = Some (projR s))
  /\
  (forall ln lo cur X, mm_orig cur + removed cur = lo -> length X = removed cur ->
     exists cur' rest, go 0 ln lo [] 0 cur s = cur' :: rest
       /\ mm_orig cur' = mm_orig cur
       /\ apply_chunks (mm_orig cur) (X ++ projL s) (modified_lines (cur' :: rest))
          = Some (exp_lines (mm_lines cur) ++ projR s)).
Proof.
  induction s as [|d s IH]; intros Hbe.
  - split.
    + intros ln lo lsm cur _. exists []. cbn. auto.
    + intros ln lo cur X Hlo HX. exists cur, []. cbn [go]. split; [reflexivity|]. split; [reflexivity|].
      cbn [modified_lines map apply_chunks chunk_of ch_orig ch_removed ch_lines projL projR].
      fold (removed cur).
      destruct (Nat.ltb_spec (mm_orig cur) (mm_orig cur)) as [?|_]; [lia|].
      rewrite Nat.sub_diag. cbn [plus]. rewrite app_nil_r.
      destruct (Nat.ltb_spec (length X) (removed cur)) as [?|_]; [lia|].
      rewrite <- HX, skipn_all. cbn [firstn app]. rewrite !app_nil_r. reflexivity.
  - specialize (IH (both_eq_cons Hbe)). destruct IH as [IHc IHo].
    destruct d as [x|x|l r].
    + (* Left: a removed line *)
      split.
      * intros ln lo lsm cur Hlsm. cbn [go].
        destruct (Nat.ltb_spec 0 lsm) as [_|?]; [|lia]. cbn [Nat.leb andb].
        replace (Nat.leb 0 lsm) with true by (symmetry; apply Nat.leb_le; lia). cbn [andb].
        cbn [length map app]. rewrite !Nat.sub_0_r.
        destruct (IHo ln (S lo) (MkMM ln lo [Res x]) [x]) as (cur' & rest & E & Ho & Hap).
        { cbn. lia. } { reflexivity. }
        exists (cur' :: rest). rewrite E. split; [reflexivity|]. split.
        { cbn [modified_lines map first_orig_ge chunk_of ch_orig]. rewrite Ho. cbn. lia. }
        cbn [projL projR]. cbn [mm_orig mm_lines exp_lines app] in Hap. exact Hap.
      * intros ln lo cur X Hlo HX. cbn [go].
        replace (Nat.ltb 0 0) with false by reflexivity. rewrite andb_false_r.
        cbn [length map app].
        destruct (IHo ln (S lo) (mm_add cur [Res x]) (X ++ [x])) as (cur' & rest & E & Ho & Hap).
        { rewrite removed_add. cbn. lia. }
        { rewrite removed_add, app_length. cbn. lia. }
        exists cur', rest. rewrite E. split; [reflexivity|]. split; [exact Ho|].
        cbn [projL projR]. cbn [mm_add mm_orig mm_lines] in Hap.
        rewrite exp_lines_app in Hap. cbn [exp_lines] in Hap. rewrite app_nil_r in Hap.
        rewrite <- app_assoc in Hap. exact Hap.
    + (* Right: an added line *)
      split.
      * intros ln lo lsm cur Hlsm. cbn [go].
        destruct (Nat.ltb_spec 0 lsm) as [_|?]; [|lia].
        replace (Nat.leb 0 lsm) with true by (symmetry; apply Nat.leb_le; lia). cbn [andb].
        cbn [length map app]. rewrite !Nat.sub_0_r.
        destruct (IHo (S ln) lo (MkMM ln lo [Exp x]) []) as (cur' & rest & E & Ho & Hap).
        { cbn. lia. } { reflexivity. }
        exists (cur' :: rest). rewrite E. split; [reflexivity|]. split.
        { cbn [modified_lines map first_orig_ge chunk_of ch_orig]. rewrite Ho. cbn. lia. }
        cbn [projL projR]. cbn [mm_orig mm_lines exp_lines app] in Hap. exact Hap.
      * intros ln lo cur X Hlo HX. cbn [go].
        replace (Nat.ltb 0 0) with false by reflexivity. rewrite andb_false_r.
        cbn [length map app].
        destruct (IHo (S ln) lo (mm_add cur [Exp x]) X) as (cur' & rest & E & Ho & Hap).
        { rewrite removed_add. cbn. lia. }
        { rewrite removed_add. cbn. lia. }
        exists cur', rest. rewrite E. split; [reflexivity|]. split; [exact Ho|].
        cbn [projL projR]. cbn [mm_add mm_orig mm_lines] in Hap.
        rewrite exp_lines_app in Hap. cbn [exp_lines] in Hap.
        rewrite <- app_assoc in Hap. exact Hap.
    + (* Both: an unchanged line *)
      assert (l = r) as <- by (apply (both_eq_head Hbe)).
      split.
      * intros ln lo lsm cur Hlsm. cbn [go].
        replace (Nat.ltb lsm 0) with false by (symmetry; apply Nat.ltb_ge; lia).
        replace (Nat.leb 0 (@length A [])) with true by reflexivity.
        replace (Nat.ltb 0 0) with false by reflexivity. cbn [tl].
        destruct (IHc (S ln) (S lo) (S lsm) cur) as (rest & E & Hge & Hap); [lia|].
        exists rest. rewrite E. split; [reflexivity|]. split.
        { destruct (modified_lines rest); cbn in *; [exact I|lia]. }
        cbn [projL projR]. apply apply_shift; assumption.
      * intros ln lo cur X Hlo HX. cbn [go].
        replace (Nat.ltb 0 0) with false by reflexivity.
        replace (Nat.leb 0 (@length A [])) with true by reflexivity. cbn [tl].
        destruct (IHc (S ln) (S lo) 1 cur) as (rest & E & Hge & Hap); [lia|].
        exists cur, rest. rewrite E. split; [reflexivity|]. split; [reflexivity|].
        cbn [modified_lines map apply_chunks chunk_of ch_orig ch_removed ch_lines projL projR].
        fold (removed cur). fold (modified_lines rest).
        destruct (Nat.ltb_spec (mm_orig cur) (mm_orig cur)) as [?|_]; [lia|].
        rewrite Nat.sub_diag. cbn [plus].
        destruct (Nat.ltb_spec (length (X ++ l :: projL s)) (removed cur)) as [Hl|_].
        { rewrite app_length in Hl. lia. }
        rewrite <- HX, skipn_app, skipn_all, Nat.sub_diag. cbn [skipn app firstn].
        rewrite HX, Hlo.
        rewrite (apply_shift l lo (projL s) (modified_lines rest) (projR s) Hge Hap). reflexivity.
Qed.

Lemma apply_reconstructs_lemma {A} (s : list (dres A)) :
  both_eq s ->
  apply_chunks 1 (projL s) (modified_lines (make_diff 0 s)) = Some (projR s).
Proof.
  intros Hbe. unfold make_diff.
  destruct (go0_closed_open s Hbe) as [Hc _].
  destruct (Hc 1 1 1 (MkMM 0 0 [])) as (rest & E & _ & Hap); [lia|].
  rewrite E. cbn [tl]. exact Hap.
Qed.

(* ------------------------------------------------------------------ *)
(* every hunk is consistent with both texts at its stated line numbers *)

Fixpoint osd {A} (ls : list (dline A)) : list A :=   (* original side: context + removed *)
  match ls with
  | [] => []
  | Exp _ :: t => osd t
  | Ctx x :: t => x :: osd t
  | Res x :: t => x :: osd t
  end.
Fixpoint nsd {A} (ls : list (dline A)) : list A :=   (* new side: context + added *)
  match ls with
  | [] => []
  | Res _ :: t => nsd t
  | Ctx x :: t => x :: nsd t
  | Exp x :: t => x :: nsd t
  end.
Lemma osd_app {A} (a b : list (dline A)) : osd (a ++ b) = osd a ++ osd b.
Proof. induction a as [|[x|x|x] a IH]; cbn [osd app]; rewrite ?IH; reflexivity. Qed.
Lemma nsd_app {A} (a b : list (dline A)) : nsd (a ++ b) = nsd a ++ nsd b.
Proof. induction a as [|[x|x|x] a IH]; cbn [nsd app]; rewrite ?IH; reflexivity. Qed.
Lemma osd_ctx {A} (q : list A) : osd (map Ctx q) = q.
Proof. induction q as [|x q IH]; cbn [osd map]; rewrite ?IH; reflexivity. Qed.
Lemma nsd_ctx {A} (q : list A) : nsd (map Ctx q) = q.
Proof. induction q as [|x q IH]; cbn [nsd map]; rewrite ?IH; reflexivity. Qed.

(* m's lines sit in text [a] at line mm_orig m and in text [b] at line mm_line m *)
Definition hunk_at {A} (a b : list A) (m : mismatch A) : Prop :=
  (exists pa xa, a = pa ++ osd (mm_lines m) ++ xa /\ S (length pa) = mm_orig m) /\
  (exists pb xb, b = pb ++ nsd (mm_lines m) ++ xb /\ S (length pb) = mm_line m).
Definition hunk_ok {A} (a b : list A) (m : mismatch A) : Prop :=
  mm_lines m = [] \/ hunk_at a b m.

(* the open mismatch, relative to the consumed prefixes pa / pb *)
Definition cur_ok {A} ctx (pa pb : list A) lsm (cur : mismatch A) : Prop :=
  (mm_lines cur = [] /\ ctx <= lsm /\ 0 < lsm) \/
  (exists ca ga cb gb,
      pa = ca ++ osd (mm_lines cur) ++ ga /\ S (length ca) = mm_orig cur /\
      pb = cb ++ nsd (mm_lines cur) ++ gb /\ S (length cb) = mm_line cur /\
      length ga = lsm - ctx /\ length gb = lsm - ctx).

Definition st_ok {A} ctx (pa pb q : list A) lsm (cur : mismatch A) : Prop :=
  (exists pa', pa = pa' ++ q) /\ (exists pb', pb = pb' ++ q) /\
  length q <= lsm - ctx /\ length q <= ctx /\ cur_ok ctx pa pb lsm cur.

Lemma hunk_ok_extend {A} ctx (pa pb : list A) lsm cur ta tb :
  cur_ok ctx pa pb lsm cur -> hunk_ok (pa ++ ta) (pb ++ tb) cur.
Proof.
  intros [[H _]|(ca & ga & cb & gb & Ha & Hca & Hb & Hcb & _ & _)]; [left; exact H|right].
  split.
  - exists ca, (ga ++ ta). rewrite Ha, <- !app_assoc. auto.
  - exists cb, (gb ++ tb). rewrite Hb, <- !app_assoc. auto.
Qed.

Lemma suffix_tl {A} (p q : list A) : (exists p', p = p' ++ q) -> exists p', p = p' ++ tl q.
Proof.
  intros [p' ->]. destruct q as [|x q]; cbn [tl]; [exists p'; reflexivity|].
  exists (p' ++ [x]). rewrite <- app_assoc. reflexivity.
Qed.

Lemma go_hunks_ok {A} ctx (s : list (dres A)) : both_eq s ->
  forall pa pb q lsm cur,
  st_ok ctx pa pb q lsm cur ->
  Forall (hunk_ok (pa ++ projL s) (pb ++ projR s))
         (go ctx (S (length pb)) (S (length pa)) q lsm cur s).
Proof.
  induction s as [|d s IH]; intros Hbe pa pb q lsm cur (Hsa & Hsb & Hq1 & Hq2 & Hcur).
  - cbn [go projL projR]. constructor; [|constructor]. eapply hunk_ok_extend; eassumption.
  - specialize (IH (both_eq_cons Hbe)).
    destruct Hsa as [pa' Hpa]. destruct Hsb as [pb' Hpb].
    destruct d as [x|x|l r]; cbn [go projL projR].
    + (* Left *)
      destruct (Nat.leb_spec ctx lsm) as [Hc|Hc]; [destruct (Nat.ltb_spec 0 lsm) as [Hz|Hz]|]; cbn [andb].
      * constructor; [eapply hunk_ok_extend; eassumption|].
        replace (pa ++ x :: projL s) with ((pa ++ [x]) ++ projL s) by (rewrite <- app_assoc; reflexivity).
        replace (S (S (length pa))) with (S (length (pa ++ [x]))) by (rewrite app_length; cbn; lia).
        apply IH. repeat split.
        -- exists (pa ++ [x]). rewrite app_nil_r. reflexivity.
        -- exists pb. rewrite app_nil_r. reflexivity.
        -- cbn; lia.
        -- cbn; lia.
        -- right. exists pa', [], pb', []. cbn [mm_lines mm_orig mm_line].
           rewrite osd_app, nsd_app, osd_ctx, nsd_ctx. cbn [osd nsd]. rewrite !app_nil_r.
           subst pa pb. rewrite !app_length. repeat split; try (cbn; lia).
           rewrite <- app_assoc. reflexivity.
      * (* lsm = 0 : extend *)
        assert (q = []) as -> by (destruct q; [reflexivity|cbn in Hq1; lia]).
        destruct Hcur as [(_ & _ & Hz')|(ca & ga & cb & gb & Ha & Hca & Hb & Hcb & Hga & Hgb)]; [lia|].
        assert (ga = []) as -> by (destruct ga; [reflexivity|cbn in Hga; lia]).
        assert (gb = []) as -> by (destruct gb; [reflexivity|cbn in Hgb; lia]).
        cbn [map app].
        replace (pa ++ x :: projL s) with ((pa ++ [x]) ++ projL s) by (rewrite <- app_assoc; reflexivity).
        replace (S (S (length pa))) with (S (length (pa ++ [x]))) by (rewrite app_length; cbn; lia).
        apply IH. repeat split.
        -- exists (pa ++ [x]). rewrite app_nil_r. reflexivity.
        -- exists pb. rewrite app_nil_r. reflexivity.
        -- cbn; lia.
        -- cbn; lia.
        -- right. exists ca, [], cb, []. cbn [mm_add mm_lines mm_orig mm_line].
           rewrite osd_app, nsd_app. cbn [osd nsd]. rewrite !app_nil_r in *.
           repeat split; try assumption; try (cbn; lia).
           rewrite Ha, <- app_assoc. reflexivity.
      * (* lsm < ctx : extend *)
        assert (q = []) as -> by (destruct q; [reflexivity|cbn in Hq1; lia]).
        destruct Hcur as [(_ & Hc' & _)|(ca & ga & cb & gb & Ha & Hca & Hb & Hcb & Hga & Hgb)]; [lia|].
        assert (ga = []) as -> by (destruct ga; [reflexivity|cbn in Hga; lia]).
        assert (gb = []) as -> by (destruct gb; [reflexivity|cbn in Hgb; lia]).
        cbn [map app].
        replace (pa ++ x :: projL s) with ((pa ++ [x]) ++ projL s) by (rewrite <- app_assoc; reflexivity).
        replace (S (S (length pa))) with (S (length (pa ++ [x]))) by (rewrite app_length; cbn; lia).
        apply IH. repeat split.
        -- exists (pa ++ [x]). rewrite app_nil_r. reflexivity.
        -- exists pb. rewrite app_nil_r. reflexivity.
        -- cbn; lia.
        -- cbn; lia.
        -- right. exists ca, [], cb, []. cbn [mm_add mm_lines mm_orig mm_line].
           rewrite osd_app, nsd_app. cbn [osd nsd]. rewrite !app_nil_r in *.
           repeat split; try assumption; try (cbn; lia).
           rewrite Ha, <- app_assoc. reflexivity.
    + (* Right *)
      destruct (Nat.leb_spec ctx lsm) as [Hc|Hc]; [destruct (Nat.ltb_spec 0 lsm) as [Hz|Hz]|]; cbn [andb].
      * constructor; [eapply hunk_ok_extend; eassumption|].
        replace (pb ++ x :: projR s) with ((pb ++ [x]) ++ projR s) by (rewrite <- app_assoc; reflexivity).
        replace (S (S (length pb))) with (S (length (pb ++ [x]))) by (rewrite app_length; cbn; lia).
        apply IH. repeat split.
        -- exists pa. rewrite app_nil_r. reflexivity.
        -- exists (pb ++ [x]). rewrite app_nil_r. reflexivity.
        -- cbn; lia.
        -- cbn; lia.
        -- right. exists pa', [], pb', []. cbn [mm_lines mm_orig mm_line].
           rewrite osd_app, nsd_app, osd_ctx, nsd_ctx. cbn [osd nsd]. rewrite !app_nil_r.
           subst pa pb. rewrite !app_length. repeat split; try (cbn; lia).
           rewrite <- app_assoc. reflexivity.
      * assert (q = []) as -> by (destruct q; [reflexivity|cbn in Hq1; lia]).
        destruct Hcur as [(_ & _ & Hz')|(ca & ga & cb & gb & Ha & Hca & Hb & Hcb & Hga & Hgb)]; [lia|].
        assert (ga = []) as -> by (destruct ga; [reflexivity|cbn in Hga; lia]).
        assert (gb = []) as -> by (destruct gb; [reflexivity|cbn in Hgb; lia]).
        cbn [map app].
        replace (pb ++ x :: projR s) with ((pb ++ [x]) ++ projR s) by (rewrite <- app_assoc; reflexivity).
        replace (S (S (length pb))) with (S (length (pb ++ [x]))) by (rewrite app_length; cbn; lia).
        apply IH. repeat split.
        -- exists pa. rewrite app_nil_r. reflexivity.
        -- exists (pb ++ [x]). rewrite app_nil_r. reflexivity.
        -- cbn; lia.
        -- cbn; lia.
        -- right. exists ca, [], cb, []. cbn [mm_add mm_lines mm_orig mm_line].
           rewrite osd_app, nsd_app. cbn [osd nsd]. rewrite !app_nil_r in *.
           repeat split; try assumption; try (cbn; lia).
           rewrite Hb, <- app_assoc. reflexivity.
      * assert (q = []) as -> by (destruct q; [reflexivity|cbn in Hq1; lia]).
        destruct Hcur as [(_ & Hc' & _)|(ca & ga & cb & gb & Ha & Hca & Hb & Hcb & Hga & Hgb)]; [lia|].
        assert (ga = []) as -> by (destruct ga; [reflexivity|cbn in Hga; lia]).
        assert (gb = []) as -> by (destruct gb; [reflexivity|cbn in Hgb; lia]).
        cbn [map app].
        replace (pb ++ x :: projR s) with ((pb ++ [x]) ++ projR s) by (rewrite <- app_assoc; reflexivity).
        replace (S (S (length pb))) with (S (length (pb ++ [x]))) by (rewrite app_length; cbn; lia).
        apply IH. repeat split.
        -- exists pa. rewrite app_nil_r. reflexivity.
        -- exists (pb ++ [x]). rewrite app_nil_r. reflexivity.
        -- cbn; lia.
        -- cbn; lia.
        -- right. exists ca, [], cb, []. cbn [mm_add mm_lines mm_orig mm_line].
           rewrite osd_app, nsd_app. cbn [osd nsd]. rewrite !app_nil_r in *.
           repeat split; try assumption; try (cbn; lia).
           rewrite Hb, <- app_assoc. reflexivity.
    + (* Both *)
      assert (l = r) as <- by (apply (both_eq_head Hbe)).
      replace (pa ++ l :: projL s) with ((pa ++ [l]) ++ projL s) by (rewrite <- app_assoc; reflexivity).
      replace (pb ++ l :: projR s) with ((pb ++ [l]) ++ projR s) by (rewrite <- app_assoc; reflexivity).
      replace (S (S (length pa))) with (S (length (pa ++ [l]))) by (rewrite app_length; cbn; lia).
      replace (S (S (length pb))) with (S (length (pb ++ [l]))) by (rewrite app_length; cbn; lia).
      destruct (Nat.ltb_spec lsm ctx) as [Hlt|Hge].
      * assert (q = []) as -> by (destruct q; [reflexivity|cbn in Hq1; lia]).
        replace (if Nat.leb ctx (@length A []) then tl [] else []) with (@nil A)
          by (destruct (Nat.leb ctx (@length A [])); reflexivity).
        destruct Hcur as [(_ & Hc' & _)|(ca & ga & cb & gb & Ha & Hca & Hb & Hcb & Hga & Hgb)]; [lia|].
        assert (ga = []) as -> by (destruct ga; [reflexivity|cbn in Hga; lia]).
        assert (gb = []) as -> by (destruct gb; [reflexivity|cbn in Hgb; lia]).
        apply IH. repeat split.
        -- exists (pa ++ [l]). rewrite app_nil_r. reflexivity.
        -- exists (pb ++ [l]). rewrite app_nil_r. reflexivity.
        -- cbn; lia.
        -- cbn; lia.
        -- right. exists ca, [], cb, []. cbn [mm_add mm_lines mm_orig mm_line].
           rewrite osd_app, nsd_app. cbn [osd nsd]. rewrite !app_nil_r in *.
           repeat split; try assumption; try (cbn; lia).
           ++ rewrite Ha, <- app_assoc. reflexivity.
           ++ rewrite Hb, <- app_assoc. reflexivity.
      * set (q1 := if Nat.leb ctx (length q) then tl q else q).
        assert (Hq1a : exists p', pa = p' ++ q1).
        { unfold q1. destruct (Nat.leb ctx (length q)); [apply suffix_tl|]; exists pa'; exact Hpa. }
        assert (Hq1b : exists p', pb = p' ++ q1).
        { unfold q1. destruct (Nat.leb ctx (length q)); [apply suffix_tl|]; exists pb'; exact Hpb. }
        assert (Hq1l : length q1 <= length q /\ (0 < ctx -> S (length q1) <= ctx)).
        { unfold q1. destruct (Nat.leb_spec ctx (length q)) as [H|H].
          - destruct q; cbn [tl length] in *; lia.
          - lia. }
        assert (Hcur' : cur_ok ctx (pa ++ [l]) (pb ++ [l]) (S lsm) cur).
        { destruct Hcur as [(H1 & H2 & H3)|(ca & ga & cb & gb & Ha & Hca & Hb & Hcb & Hga & Hgb)].
          - left. repeat split; try assumption; lia.
          - right. exists ca, (ga ++ [l]), cb, (gb ++ [l]).
            rewrite Ha, Hb, <- !app_assoc, !app_length. cbn [length].
            repeat split; try assumption; try lia. }
        destruct Hq1a as [pa1 Hpa1]. destruct Hq1b as [pb1 Hpb1].
        destruct (Nat.ltb_spec 0 ctx) as [Hpos|Hzero].
        -- apply IH. repeat split.
           ++ exists pa1. rewrite Hpa1, <- app_assoc. reflexivity.
           ++ exists pb1. rewrite Hpb1, <- app_assoc. reflexivity.
           ++ rewrite app_length. cbn [length]. lia.
           ++ rewrite app_length. cbn [length]. lia.
           ++ exact Hcur'.
        -- assert (q1 = []) as Hq1nil.
           { destruct q1; [reflexivity|]. cbn [length] in *. lia. }
           rewrite Hq1nil. apply IH. repeat split.
           ++ exists (pa ++ [l]). rewrite app_nil_r. reflexivity.
           ++ exists (pb ++ [l]). rewrite app_nil_r. reflexivity.
           ++ cbn; lia.
           ++ cbn; lia.
           ++ exact Hcur'.
Qed.

(* mismatches after the first one always have lines *)
Lemma go_nonempty {A} ctx (s : list (dres A)) : forall ln lo q lsm cur,
  mm_lines cur <> [] -> Forall (fun m => mm_lines m <> []) (go ctx ln lo q lsm cur s).
Proof.
  induction s as [|d s IH]; intros ln lo q lsm cur Hne.
  - cbn [go]. constructor; [exact Hne|constructor].
  - assert (Hadd : forall ls, mm_lines (mm_add cur ls) <> []).
    { intros ls. unfold mm_add. cbn [mm_lines]. destruct (mm_lines cur); [congruence|discriminate]. }
    destruct d as [x|x|l r]; cbn [go].
    + destruct (Nat.leb ctx lsm && Nat.ltb 0 lsm).
      * constructor; [exact Hne|]. apply IH. cbn [mm_lines]. destruct (map Ctx q); discriminate.
      * apply IH, Hadd.
    + destruct (Nat.leb ctx lsm && Nat.ltb 0 lsm).
      * constructor; [exact Hne|]. apply IH. cbn [mm_lines]. destruct (map Ctx q); discriminate.
      * apply IH, Hadd.
    + destruct (Nat.ltb lsm ctx); apply IH; [apply Hadd|exact Hne].
Qed.

Lemma go_tail_nonempty {A} ctx (s : list (dres A)) : forall ln lo q lsm cur,
  Forall (fun m => mm_lines m <> []) (tl (go ctx ln lo q lsm cur s)).
Proof.
  induction s as [|d s IH]; intros ln lo q lsm cur.
  - cbn. constructor.
  - destruct d as [x|x|l r]; cbn [go].
    + destruct (Nat.leb ctx lsm && Nat.ltb 0 lsm).
      * cbn [tl]. apply go_nonempty. cbn [mm_lines]. destruct (map Ctx q); discriminate.
      * apply IH.
    + destruct (Nat.leb ctx lsm && Nat.ltb 0 lsm).
      * cbn [tl]. apply go_nonempty. cbn [mm_lines]. destruct (map Ctx q); discriminate.
      * apply IH.
    + destruct (Nat.ltb lsm ctx); apply IH.
Qed.

Lemma hunks_consistent_lemma {A} ctx (s : list (dres A)) :
  both_eq s -> Forall (hunk_at (projL s) (projR s)) (make_diff ctx s).
Proof.
  intros Hbe. unfold make_diff.
  pose proof (go_hunks_ok ctx s Hbe [] [] [] (S ctx) (MkMM 0 0 [])) as H.
  cbn [length app] in H.
  assert (Hst : st_ok ctx (@nil A) [] [] (S ctx) (MkMM 0 0 [])).
  { repeat split; try (exists []; reflexivity); cbn; try lia. left. cbn. repeat split; lia. }
  specialize (H Hst).
  pose proof (go_tail_nonempty ctx s 1 1 [] (S ctx) (MkMM 0 0 [])) as Hne.
  destruct (go ctx 1 1 [] (S ctx) (MkMM 0 0 []) s) as [|h rest]; cbn [tl] in *; [constructor|].
  inversion H as [|? ? _ Hrest]; subst.
  clear H. induction rest as [|m rest IHr]; constructor.
  - inversion Hrest as [|? ? Hm _]; subst. inversion Hne as [|? ? Hn _]; subst.
    destruct Hm as [Hm|Hm]; [contradiction|exact Hm].
  - inversion Hrest; subst. inversion Hne; subst. apply IHr; assumption.
Qed.

(* ------------------------------------------------------------------ *)
(* diff::iter / diff::lines produce a valid script *)
Lemma projL_rev {A} (s : list (dres A)) : projL (rev s) = rev (projL s).
Proof.
  induction s as [|[x|x|l r] s IH]; cbn [rev projL]; rewrite ?projL_app, ?IH; cbn [projL]; rewrite ?app_nil_r; reflexivity.
Qed.
Lemma projR_rev {A} (s : list (dres A)) : projR (rev s) = rev (projR s).
Proof.
  induction s as [|[x|x|l r] s IH]; cbn [rev projR]; rewrite ?projR_app, ?IH; cbn [projR]; rewrite ?app_nil_r; reflexivity.
Qed.

Lemma projL_zipB {A} (a b : list A) : length a = length b -> projL (zipB a b) = a.
Proof.
  revert b; induction a as [|x a IH]; intros [|y b] H; cbn in *; try discriminate; [reflexivity|].
  f_equal. apply IH. lia.
Qed.
Lemma projR_zipB {A} (a b : list A) : length a = length b -> projR (zipB a b) = b.
Proof.
  revert b; induction a as [|x a IH]; intros [|y b] H; cbn in *; try discriminate; [reflexivity|].
  f_equal. apply IH. lia.
Qed.
Lemma zipB_same_both_eq {A} (a : list A) : both_eq (zipB a a).
Proof.
  induction a as [|x a IH]; intros l r Hin; cbn in Hin; [contradiction|].
  destruct Hin as [Hin|Hin]; [inversion Hin; reflexivity|apply IH; exact Hin].
Qed.
Lemma zipB_all_both {A} (a b : list A) : forallb is_both (zipB a b) = true.
Proof. unfold zipB. revert b; induction a as [|x a IH]; intros [|y b]; cbn; auto. Qed.

Lemma skipn_add {A} n m : forall l : list A, skipn (n + m) l = skipn m (skipn n l).
Proof.
  induction n as [|n IH]; intros l; [reflexivity|].
  destruct l as [|x l]; cbn [plus skipn]; [destruct m; reflexivity|apply IH].
Qed.
Lemma split3 {A} (l : list A) n m : firstn n l ++ firstn m (skipn n l) ++ skipn (n + m) l = l.
Proof.
  rewrite skipn_add, (firstn_skipn m (skipn n l)). apply firstn_skipn.
Qed.

Section IterProofs.
Variable A : Type.
Variable eqb : A -> A -> bool.

Lemma backtrack_projL t : forall li ri : list A, projL (backtrack t li ri) = li.
Proof.
  induction li as [|l li IHl]; induction ri as [|r ri IHr]; cbn [backtrack projL].
  - reflexivity.
  - cbn [backtrack projL] in IHr. exact IHr.
  - f_equal. apply IHl.
  - destruct (Nat.eqb _ _).
    + cbn [projL]. exact IHr.
    + destruct (Nat.eqb _ _); cbn [projL]; f_equal; apply IHl.
Qed.
Lemma backtrack_projR t : forall li ri : list A, projR (backtrack t li ri) = ri.
Proof.
  induction li as [|l li IHl]; induction ri as [|r ri IHr]; cbn [backtrack projR].
  - reflexivity.
  - f_equal. cbn [backtrack] in IHr. exact IHr.
  - apply IHl.
  - destruct (Nat.eqb _ _).
    + cbn [projR]. f_equal. exact IHr.
    + destruct (Nat.eqb _ _); cbn [projR]; [apply IHl|f_equal; apply IHl].
Qed.

Lemma cpl_le_l (a b : list A) : common_prefix_len eqb a b <= length a.
Proof. revert b; induction a as [|x a IH]; intros [|y b]; cbn; try lia. destruct (eqb x y); [specialize (IH b)|]; lia. Qed.
Lemma cpl_le_r (a b : list A) : common_prefix_len eqb a b <= length b.
Proof. revert b; induction a as [|x a IH]; intros [|y b]; cbn; try lia. destruct (eqb x y); [specialize (IH b)|]; lia. Qed.

Lemma diff_iter_lengths (a b : list A) :
  let lead := common_prefix_len eqb a b in
  let mn := Nat.min (length a) (length b) in
  let trail := common_prefix_len eqb (firstn (mn - lead) (rev a)) (firstn (mn - lead) (rev b)) in
  lead <= mn /\ trail <= mn - lead.
Proof.
  cbn zeta. split.
  - pose proof (cpl_le_l a b). pose proof (cpl_le_r a b). lia.
  - etransitivity; [apply cpl_le_l|]. rewrite firstn_length. lia.
Qed.

Lemma diff_iter_valid (a b : list A) :
  projL (diff_iter eqb a b) = a /\ projR (diff_iter eqb a b) = b.
Proof.
  unfold diff_iter.
  destruct (diff_iter_lengths a b) as [Hlead Htrail]. cbn zeta in Hlead, Htrail.
  set (lead := common_prefix_len eqb a b) in *.
  set (mn := Nat.min (length a) (length b)) in *.
  set (trail := common_prefix_len eqb (firstn (mn - lead) (rev a)) (firstn (mn - lead) (rev b))) in *.
  set (lds := length a - lead - trail). set (rds := length b - lead - trail).
  assert (Hla : lead + lds + trail = length a) by (unfold lds, mn in *; lia).
  assert (Hlb : lead + rds + trail = length b) by (unfold rds, mn in *; lia).
  rewrite !projL_app, !projR_app, projL_rev, projR_rev, backtrack_projL, backtrack_projR, !rev_involutive.
  rewrite !projL_zipB, !projR_zipB; try (rewrite ?firstn_length, ?skipn_length; lia).
  split; apply split3.
Qed.

(* equal inputs give an all-Both script *)
Hypothesis eqb_refl : forall x, eqb x x = true.
Lemma cpl_refl (a : list A) : common_prefix_len eqb a a = length a.
Proof. induction a as [|x a IH]; cbn; [reflexivity|]. rewrite eqb_refl, IH. reflexivity. Qed.

Lemma diff_iter_same (a : list A) : forallb is_both (diff_iter eqb a a) = true.
Proof.
  unfold diff_iter. rewrite cpl_refl.
  assert (E : forall t, length a - length a - t = 0) by (intros; lia). rewrite !E.
  cbn [firstn rev]. cbn. rewrite forallb_app, !zipB_all_both. reflexivity.
Qed.
End IterProofs.

(* ------------------------------------------------------------------ *)
(* Both elements of diff::iter are equal pairs: needs the LCS table's defining equation *)
Section TableProofs.
Variable A : Type.
Variable eqb : A -> A -> bool.
Hypothesis eqb_sound : forall x y, eqb x y = true -> x = y.

Lemma cpl_firstn (a b : list A) :
  firstn (common_prefix_len eqb a b) a = firstn (common_prefix_len eqb a b) b.
Proof.
  revert b; induction a as [|x a IH]; intros [|y b]; cbn; try reflexivity.
  destruct (eqb x y) eqn:E; [|reflexivity]. cbn. rewrite (eqb_sound _ _ E), IH. reflexivity.
Qed.

(* next_row: the value at column j+1 *)
Lemma next_row_nth l : forall rs prev left_val j,
  length prev = S (length rs) -> j < length rs ->
  nth j (next_row eqb l rs prev left_val) 0 =
    (if eqb l (nth j rs l) then S (nth j prev 0)
     else Nat.max (nth (S j) prev 0)
                  (match j with 0 => left_val | S j' => nth j' (next_row eqb l rs prev left_val) 0 end)).
Proof.
  induction rs as [|r rs IH]; intros prev left_val j Hlen Hj; cbn [length] in *; [lia|].
  destruct prev as [|p0 [|p1 prev]]; cbn [length] in Hlen; try lia.
  cbn [next_row]. destruct j as [|j].
  - cbn [nth]. reflexivity.
  - cbn [nth]. rewrite IH; [|cbn [length]; lia|lia].
    destruct (eqb l (nth j rs l)); [reflexivity|].
    destruct j; reflexivity.
Qed.

Lemma next_row_length l : forall rs prev left_val,
  length prev = S (length rs) -> length (next_row eqb l rs prev left_val) = length rs.
Proof.
  induction rs as [|r rs IH]; intros prev left_val Hlen; cbn [length] in *.
  - destruct prev; reflexivity.
  - destruct prev as [|p0 [|p1 prev]]; cbn [length] in Hlen; try lia.
    cbn [next_row length]. f_equal. apply IH. cbn [length]. lia.
Qed.

Lemma row_after_length rs prev l :
  length prev = S (length rs) -> length (row_after eqb rs prev l) = S (length rs).
Proof. intros H. unfold row_after. cbn [length]. f_equal. apply next_row_length; exact H. Qed.

(* defining equation of one row, in terms of the previous row *)
Lemma row_after_nth rs prev l j :
  length prev = S (length rs) -> j < length rs ->
  nth (S j) (row_after eqb rs prev l) 0 =
    (if eqb l (nth j rs l) then S (nth j prev 0)
     else Nat.max (nth (S j) prev 0) (nth j (row_after eqb rs prev l) 0)).
Proof.
  intros Hlen Hj. unfold row_after. cbn [nth]. rewrite next_row_nth by assumption.
  destruct (eqb l (nth j rs l)); [reflexivity|]. destruct j; reflexivity.
Qed.


Lemma rows_head ls rs prev : nth 0 (rows eqb ls rs prev) [] = prev.
Proof. destruct ls; reflexivity. Qed.

Lemma rows_succ rs d : forall ls prev i, i < length ls ->
  nth (S i) (rows eqb ls rs prev) [] = row_after eqb rs (nth i (rows eqb ls rs prev) []) (nth i ls d).
Proof.
  induction ls as [|l ls IH]; intros prev i Hi; cbn [length] in Hi; [lia|].
  cbn [rows]. destruct i as [|i].
  - cbn [nth]. rewrite rows_head. reflexivity.
  - change (nth (S (S i)) (prev :: rows eqb ls rs (row_after eqb rs prev l)) [])
      with (nth (S i) (rows eqb ls rs (row_after eqb rs prev l)) []).
    rewrite IH by lia. reflexivity.
Qed.

Lemma rows_len rs : forall ls prev i, length prev = S (length rs) -> i <= length ls ->
  length (nth i (rows eqb ls rs prev) []) = S (length rs).
Proof.
  induction ls as [|l ls IH]; intros prev i Hp Hi; cbn [length] in Hi.
  - assert (i = 0) as -> by lia. exact Hp.
  - cbn [rows]. destruct i as [|i]; [exact Hp|]. cbn [nth]. apply IH; [|lia].
    apply row_after_length; exact Hp.
Qed.

Lemma table_eq ls rs i j d d' : i < length ls -> j < length rs ->
  tget (table eqb ls rs) (S i) (S j) =
    (if eqb (nth i ls d) (nth j rs d') then S (tget (table eqb ls rs) i j)
     else Nat.max (tget (table eqb ls rs) i (S j)) (tget (table eqb ls rs) (S i) j)).
Proof.
  intros Hi Hj. unfold tget, table.
  rewrite (rows_succ rs d) by exact Hi.
  rewrite row_after_nth; [|apply rows_len; [rewrite repeat_length; reflexivity|lia]|exact Hj].
  rewrite (nth_indep rs _ d' Hj). reflexivity.
Qed.

Lemma backtrack_cc t (l : A) li r ri :
  backtrack t (l :: li) (r :: ri) =
    if Nat.eqb (tget t (S (length li)) (S (length ri))) (tget t (S (length li)) (length ri))
    then R r :: backtrack t (l :: li) ri
    else if Nat.eqb (tget t (S (length li)) (S (length ri))) (tget t (length li) (S (length ri)))
         then L l :: backtrack t li (r :: ri)
         else B l r :: backtrack t li ri.
Proof.
  cbn [backtrack length]. rewrite !Nat.sub_succ, !Nat.sub_0_r. reflexivity.
Qed.
Lemma backtrack_nc t (r : A) ri : backtrack t [] (r :: ri) = R r :: backtrack t [] ri.
Proof. reflexivity. Qed.
Lemma backtrack_cn t (l : A) li : backtrack t (l :: li) [] = L l :: backtrack t li [].
Proof. reflexivity. Qed.

Lemma backtrack_both_eq ls rs : forall li ri : list A,
  (exists la, ls = rev li ++ la) -> (exists ra, rs = rev ri ++ ra) ->
  both_eq (backtrack (table eqb ls rs) li ri).
Proof.
  assert (Hstep : forall (x : A) xs zs, (exists ya, zs = rev (x :: xs) ++ ya) -> exists ya, zs = rev xs ++ ya).
  { intros x xs zs [ya H]. exists (x :: ya). rewrite H. cbn [rev]. rewrite <- app_assoc. reflexivity. }
  induction li as [|l li IHl]; induction ri as [|r ri IHr]; intros Hl Hr x y Hin.
  - contradiction.
  - rewrite backtrack_nc in Hin. destruct Hin as [Hin|Hin]; [discriminate|].
    apply (IHr Hl (Hstep _ _ _ Hr)); exact Hin.
  - rewrite backtrack_cn in Hin. destruct Hin as [Hin|Hin]; [discriminate|].
    apply (IHl [] (Hstep _ _ _ Hl) Hr); exact Hin.
  - pose proof (Hstep _ _ _ Hl) as Hl'. pose proof (Hstep _ _ _ Hr) as Hr'.
    rewrite backtrack_cc in Hin.
    destruct (Nat.eqb_spec (tget (table eqb ls rs) (S (length li)) (S (length ri)))
                           (tget (table eqb ls rs) (S (length li)) (length ri))) as [E1|E1].
    + destruct Hin as [Hin|Hin]; [discriminate|]. apply (IHr Hl Hr'); exact Hin.
    + destruct (Nat.eqb_spec (tget (table eqb ls rs) (S (length li)) (S (length ri)))
                             (tget (table eqb ls rs) (length li) (S (length ri)))) as [E2|E2].
      * destruct Hin as [Hin|Hin]; [discriminate|]. apply (IHl (r :: ri) Hl' Hr); exact Hin.
      * destruct Hin as [Hin|Hin]; [|apply (IHl ri Hl' Hr'); exact Hin].
        inversion Hin; subst x y. clear Hin.
        destruct Hl as [la Hl]. destruct Hr as [ra Hr].
        assert (Hi : length li < length ls).
        { rewrite Hl, app_length, rev_length. cbn [length]. lia. }
        assert (Hj : length ri < length rs).
        { rewrite Hr, app_length, rev_length. cbn [length]. lia. }
        rewrite (table_eq ls rs (length li) (length ri) l r Hi Hj) in E1, E2.
        assert (Hnl : nth (length li) ls l = l).
        { rewrite Hl. cbn [rev]. rewrite <- app_assoc, app_nth2; rewrite rev_length; [|lia].
          rewrite Nat.sub_diag. reflexivity. }
        assert (Hnr : nth (length ri) rs r = r).
        { rewrite Hr. cbn [rev]. rewrite <- app_assoc, app_nth2; rewrite rev_length; [|lia].
          rewrite Nat.sub_diag. reflexivity. }
        rewrite Hnl, Hnr in E1, E2.
        destruct (eqb l r) eqn:E; [apply eqb_sound; exact E|]. lia.
Qed.

Lemma diff_iter_both_eq (a b : list A) : both_eq (diff_iter eqb a b).
Proof.
  unfold diff_iter.
  destruct (diff_iter_lengths _ eqb a b) as [Hlead Htrail]. cbn zeta in Hlead, Htrail.
  set (lead := common_prefix_len eqb a b) in *.
  set (mn := Nat.min (length a) (length b)) in *.
  set (trail := common_prefix_len eqb (firstn (mn - lead) (rev a)) (firstn (mn - lead) (rev b))) in *.
  set (lds := length a - lead - trail). set (rds := length b - lead - trail).
  apply both_eq_app; [|apply both_eq_app].
  - unfold lead. rewrite cpl_firstn. apply zipB_same_both_eq.
  - intros l r Hin. apply in_rev in Hin. revert l r Hin. apply backtrack_both_eq.
    + exists []. rewrite rev_involutive, app_nil_r. reflexivity.
    + exists []. rewrite rev_involutive, app_nil_r. reflexivity.
  - (* the trailing equal part *)
    assert (Ht : firstn trail (rev a) = firstn trail (rev b)).
    { pose proof (cpl_firstn (firstn (mn - lead) (rev a)) (firstn (mn - lead) (rev b))) as H.
      fold trail in H. rewrite !firstn_firstn in H. rewrite Nat.min_l in H by lia. exact H. }
    assert (Ea : skipn (lead + lds) a = rev (firstn trail (rev a))).
    { rewrite firstn_rev, rev_involutive. f_equal. unfold lds, mn in *. lia. }
    assert (Eb : skipn (lead + rds) b = rev (firstn trail (rev b))).
    { rewrite firstn_rev, rev_involutive. f_equal. unfold rds, mn in *. lia. }
    rewrite Ea, Eb, Ht. apply zipB_same_both_eq.
Qed.
End TableProofs.

(* ------------------------------------------------------------------ *)
(* diff::lines *)
Lemma eqb_text_refl (a : text) : eqb_text a a = true.
Proof. apply eqb_text_spec. reflexivity. Qed.
Lemma eqb_text_sound (a b : text) : eqb_text a b = true -> a = b.
Proof. apply eqb_text_spec. Qed.

Lemma diff_lines_valid (a b : text) :
  projL (diff_lines a b) = dlines a /\ projR (diff_lines a b) = dlines b /\ both_eq (diff_lines a b).
Proof.
  unfold diff_lines, dlines.
  destruct (diff_iter_valid _ eqb_text (str_lines a) (str_lines b)) as [HL HR].
  rewrite projL_app, projR_app, HL, HR.
  repeat split.
  - destruct (ends_with_lf a), (ends_with_lf b); reflexivity.
  - destruct (ends_with_lf a), (ends_with_lf b); reflexivity.
  - apply both_eq_app; [apply diff_iter_both_eq; exact eqb_text_sound|].
    intros l r Hin. destruct (ends_with_lf a), (ends_with_lf b); cbn in Hin;
      try contradiction; destruct Hin as [Hin|[]]; try discriminate. inversion Hin; reflexivity.
Qed.

(* ------------------------------------------------------------------ *)
(* a report is empty exactly when the script has no Left / Right *)
Lemma go_closed_all_both {A} ctx (s : list (dres A)) : forall ln lo q lsm cur,
  ctx <= lsm -> 0 < lsm ->
  (forallb is_both s = true -> go ctx ln lo q lsm cur s = [cur]) /\
  (forallb is_both s = false -> tl (go ctx ln lo q lsm cur s) <> []).
Proof.
  induction s as [|d s IH]; intros ln lo q lsm cur Hc Hz.
  - cbn. split; [reflexivity|discriminate].
  - destruct d as [x|x|l r]; cbn [go forallb is_both andb].
    + replace (Nat.leb ctx lsm) with true by (symmetry; apply Nat.leb_le; lia).
      replace (Nat.ltb 0 lsm) with true by (symmetry; apply Nat.ltb_lt; lia). cbn [andb tl].
      split; [discriminate|]. intros _.
      match goal with |- go ctx ?a ?b ?c ?d ?e s <> [] => destruct (go_shape ctx s a b c d e) as (ext & rest & E) end.
      rewrite E. discriminate.
    + replace (Nat.leb ctx lsm) with true by (symmetry; apply Nat.leb_le; lia).
      replace (Nat.ltb 0 lsm) with true by (symmetry; apply Nat.ltb_lt; lia). cbn [andb tl].
      split; [discriminate|]. intros _.
      match goal with |- go ctx ?a ?b ?c ?d ?e s <> [] => destruct (go_shape ctx s a b c d e) as (ext & rest & E) end.
      rewrite E. discriminate.
    + replace (Nat.ltb lsm ctx) with false by (symmetry; apply Nat.ltb_ge; lia).
      apply IH; lia.
Qed.

Lemma make_diff_nil_iff {A} ctx (s : list (dres A)) :
  make_diff ctx s = [] <-> forallb is_both s = true.
Proof.
  unfold make_diff.
  destruct (go_closed_all_both ctx s 1 1 [] (S ctx) (MkMM 0 0 [])) as [H1 H2]; [lia|lia|].
  destruct (forallb is_both s) eqn:E.
  - rewrite (H1 eq_refl). cbn. split; reflexivity.
  - split; [intros H; exfalso; apply (H2 eq_refl); exact H|discriminate].
Qed.

Lemma all_both_proj {A} (s : list (dres A)) : forallb is_both s = true -> both_eq s -> projL s = projR s.
Proof.
  induction s as [|[x|x|l r] s IH]; cbn [forallb is_both andb projL projR]; intros H Hbe; try discriminate.
  - reflexivity.
  - rewrite (both_eq_head Hbe), (IH H (both_eq_cons Hbe)). reflexivity.
Qed.

Lemma empty_iff_lemma ctx (a b : text) :
  make_diff ctx (diff_lines a b) = [] <->
  (str_lines a = str_lines b /\ ends_with_lf a = ends_with_lf b).
Proof.
  rewrite make_diff_nil_iff. unfold diff_lines. rewrite forallb_app. split.
  - intros H. apply andb_true_iff in H. destruct H as [H1 H2].
    destruct (diff_iter_valid _ eqb_text (str_lines a) (str_lines b)) as [HL HR].
    pose proof (all_both_proj _ H1 (diff_iter_both_eq _ eqb_text eqb_text_sound _ _)) as E.
    rewrite HL, HR in E. split; [exact E|].
    destruct (ends_with_lf a), (ends_with_lf b); cbn in H2; try discriminate; reflexivity.
  - intros [E1 E2]. rewrite E1, E2, diff_iter_same by exact eqb_text_refl.
    destruct (ends_with_lf b); reflexivity.
Qed.

(* ------------------------------------------------------------------ *)
(* context 0: no Context lines *)
Definition is_ctx {A} (d : dline A) : bool := match d with Ctx _ => true | _ => false end.
Definition noctx {A} (ls : list (dline A)) : Prop := forallb (fun d => negb (is_ctx d)) ls = true.

Lemma noctx_app {A} (a b : list (dline A)) : noctx a -> noctx b -> noctx (a ++ b).
Proof. unfold noctx. rewrite forallb_app. intros -> ->. reflexivity. Qed.
Lemma noctx_osd {A} (ls : list (dline A)) : noctx ls -> osd ls = res_lines ls /\ nsd ls = exp_lines ls.
Proof.
  unfold noctx. induction ls as [|[x|x|x] ls IH]; cbn [forallb is_ctx negb andb osd nsd res_lines exp_lines]; intros H.
  - split; reflexivity.
  - discriminate.
  - destruct (IH H) as [-> ->]. split; reflexivity.
  - destruct (IH H) as [-> ->]. split; reflexivity.
Qed.

Lemma go0_noctx {A} (s : list (dres A)) : forall ln lo lsm cur,
  noctx (mm_lines cur) -> Forall (fun m => noctx (mm_lines m)) (go 0 ln lo [] lsm cur s).
Proof.
  induction s as [|d s IH]; intros ln lo lsm cur Hc.
  - cbn [go]. constructor; [exact Hc|constructor].
  - destruct d as [x|x|l r]; cbn [go map app length].
    + destruct (Nat.leb 0 lsm && Nat.ltb 0 lsm).
      * constructor; [exact Hc|]. apply IH. reflexivity.
      * apply IH. unfold mm_add. cbn [mm_lines]. apply noctx_app; [exact Hc|reflexivity].
    + destruct (Nat.leb 0 lsm && Nat.ltb 0 lsm).
      * constructor; [exact Hc|]. apply IH. reflexivity.
      * apply IH. unfold mm_add. cbn [mm_lines]. apply noctx_app; [exact Hc|reflexivity].
    + replace (Nat.ltb lsm 0) with false by (symmetry; apply Nat.ltb_ge; lia).
      replace (Nat.leb 0 0) with true by reflexivity. cbn [tl].
      replace (Nat.ltb 0 0) with false by reflexivity. apply IH. exact Hc.
Qed.

Lemma make_diff0_noctx {A} (s : list (dres A)) : Forall (fun m => noctx (mm_lines m)) (make_diff 0 s).
Proof.
  unfold make_diff. pose proof (go0_noctx s 1 1 1 (MkMM 0 0 []) eq_refl) as H.
  destruct (go 0 1 1 [] 1 (MkMM 0 0 []) s); cbn [tl]; [constructor|]. inversion H; assumption.
Qed.

(* ------------------------------------------------------------------ *)
(* json blocks *)
Lemma jscan_spec {A} (ls : list (dline A)) : forall ob oe oc eb ee ec,
  jscan ls ob oe oc eb ee ec =
    ((match length (res_lines ls) with 0 => oe | S k => ob + oc + k end),
     (match length (exp_lines ls) with 0 => ee | S k => eb + ec + k end)).
Proof.
  induction ls as [|[x|x|x] ls IH]; intros ob oe oc eb ee ec; cbn [jscan res_lines exp_lines length].
  - reflexivity.
  - apply IH.
  - rewrite IH. f_equal. destruct (length (exp_lines ls)); lia.
  - rewrite IH. f_equal. destruct (length (res_lines ls)); lia.
Qed.

Definition jblock_ok {A} (a b : list A) (j : jblock A) : Prop :=
  (exists pa xa, a = pa ++ j_original j ++ xa /\ S (length pa) = j_obegin j) /\
  (exists pb xb, b = pb ++ j_expected j ++ xb /\ S (length pb) = j_ebegin j) /\
  j_oend j = j_obegin j + (length (j_original j) - 1) /\
  j_eend j = j_ebegin j + (length (j_expected j) - 1).

Lemma json_blocks_ok_lemma {A} (s : list (dres A)) : both_eq s ->
  Forall (jblock_ok (projL s) (projR s)) (json_blocks (make_diff 0 s)).
Proof.
  intros Hbe. unfold json_blocks.
  pose proof (hunks_consistent_lemma 0 s Hbe) as Hh. pose proof (make_diff0_noctx s) as Hn.
  induction (make_diff 0 s) as [|m ms IH]; cbn [map]; constructor.
  - inversion Hh as [|? ? [Ha Hb] _]; subst. inversion Hn as [|? ? Hc _]; subst.
    destruct (noctx_osd _ Hc) as [Eo En]. rewrite Eo in Ha. rewrite En in Hb.
    unfold jblock_ok, json_block. rewrite jscan_spec.
    cbn [j_original j_expected j_obegin j_ebegin j_oend j_eend].
    repeat split; try assumption.
    + destruct (length (res_lines (mm_lines m))); lia.
    + destruct (length (exp_lines (mm_lines m))); lia.
  - inversion Hh; subst. inversion Hn; subst. apply IH; assumption.
Qed.

(* checkstyle error lines *)
Lemma cs_scan_spec {A} (ls : list (dline A)) : forall b c n x,
  In (n, x) (cs_scan ls b c) -> exists k, n = b + c + k /\ nth_error (exp_lines ls) k = Some x.
Proof.
  induction ls as [|[y|y|y] ls IH]; intros b c n x Hin; cbn [cs_scan exp_lines] in *.
  - contradiction.
  - apply IH; exact Hin.
  - destruct Hin as [Hin|Hin].
    + inversion Hin; subst. exists 0. split; [lia|reflexivity].
    + destruct (IH _ _ _ _ Hin) as (k & -> & Hk). exists (S k). split; [lia|exact Hk].
  - apply IH; exact Hin.
Qed.

Lemma checkstyle_lines_ok_lemma {A} (s : list (dres A)) n (msg : A) : both_eq s ->
  In (n, msg) (checkstyle_errors (make_diff 0 s)) ->
  1 <= n /\ nth_error (projR s) (n - 1) = Some msg.
Proof.
  intros Hbe. unfold checkstyle_errors.
  pose proof (hunks_consistent_lemma 0 s Hbe) as Hh. pose proof (make_diff0_noctx s) as Hn.
  induction (make_diff 0 s) as [|m ms IH]; cbn [map concat]; [contradiction|].
  intros Hin. apply in_app_or in Hin. destruct Hin as [Hin|Hin].
  - inversion Hh as [|? ? [_ Hb] _]; subst. inversion Hn as [|? ? Hc _]; subst.
    destruct (noctx_osd _ Hc) as [_ En]. rewrite En in Hb.
    destruct Hb as (pb & xb & Eb & Hl).
    destruct (cs_scan_spec _ _ _ _ _ Hin) as (k & -> & Hk).
    split; [lia|]. rewrite Eb, <- Hl.
    replace (S (length pb) + 0 + k - 1) with (length pb + k) by lia.
    rewrite nth_error_app2 by lia. replace (length pb + k - length pb) with k by lia.
    rewrite nth_error_app1; [exact Hk|]. apply nth_error_Some. rewrite Hk. discriminate.
  - inversion Hh; subst. inversion Hn; subst. apply IH; assumption.
Qed.

(* ------------------------------------------------------------------ *)
(* XmlEscaped *)
Local Open Scope N_scope.
Lemma xml_escape_cons c t : xml_escape (c :: t) = xml_escape_char c ++ xml_escape t.
Proof. reflexivity. Qed.

Lemma xml_unescape_escape t : xml_unescape (xml_escape t) = t.
Proof.
  induction t as [|c t IH]; [reflexivity|]. rewrite xml_escape_cons. unfold xml_escape_char.
  destruct (N.eqb_spec c 60) as [->|H60]; [cbn; rewrite IH; reflexivity|].
  destruct (N.eqb_spec c 62) as [->|H62]; [cbn; rewrite IH; reflexivity|].
  destruct (N.eqb_spec c 34) as [->|H34]; [cbn; rewrite IH; reflexivity|].
  destruct (N.eqb_spec c 39) as [->|H39]; [cbn; rewrite IH; reflexivity|].
  destruct (N.eqb_spec c 38) as [->|H38]; [cbn; rewrite IH; reflexivity|].
  cbn [app xml_unescape]. destruct (N.eqb_spec c 38) as [?|_]; [contradiction|]. rewrite IH. reflexivity.
Qed.

Lemma xml_escape_wf t : wf_attr (xml_escape t) = true.
Proof.
  induction t as [|c t IH]; [reflexivity|]. rewrite xml_escape_cons. unfold xml_escape_char.
  destruct (N.eqb_spec c 60) as [->|H60]; [cbn; exact IH|].
  destruct (N.eqb_spec c 62) as [->|H62]; [cbn; exact IH|].
  destruct (N.eqb_spec c 34) as [->|H34]; [cbn; exact IH|].
  destruct (N.eqb_spec c 39) as [->|H39]; [cbn; exact IH|].
  destruct (N.eqb_spec c 38) as [->|H38]; [cbn; exact IH|].
  cbn [app wf_attr]. destruct (N.eqb_spec c 38) as [?|_]; [contradiction|].
  destruct (N.eqb_spec c 60) as [?|_]; [contradiction|].
  destruct (N.eqb_spec c 34) as [?|_]; [contradiction|]. cbn [orb]. exact IH.
Qed.

Lemma xml_escape_forbidden t : existsb xml_forbidden (xml_escape t) = existsb xml_forbidden t.
Proof.
  induction t as [|c t IH]; [reflexivity|]. rewrite xml_escape_cons, existsb_app, IH. cbn [existsb]. f_equal.
  unfold xml_escape_char.
  destruct (N.eqb_spec c 60) as [->|H60]; [reflexivity|].
  destruct (N.eqb_spec c 62) as [->|H62]; [reflexivity|].
  destruct (N.eqb_spec c 34) as [->|H34]; [reflexivity|].
  destruct (N.eqb_spec c 39) as [->|H39]; [reflexivity|].
  destruct (N.eqb_spec c 38) as [->|H38]; [reflexivity|].
  cbn [existsb]. rewrite orb_false_r. reflexivity.
Qed.

(* ------------------------------------------------------------------ *)
(* ModifiedLines: Display / FromStr round trip *)
#[local] Arguments N.add : simpl never.
#[local] Arguments N.sub : simpl never.
#[local] Arguments N.mul : simpl never.
#[local] Arguments N.div : simpl never.
#[local] Arguments N.modulo : simpl never.
#[local] Arguments N.ltb : simpl never.
#[local] Arguments N.leb : simpl never.
#[local] Arguments N.eqb : simpl never.
#[local] Arguments N.of_nat : simpl never.

(* well-formedness of a report: what a value of the Rust type satisfies (fields are u32, a Vec has at most
   usize::MAX elements) plus: no reported line contains LF.  Nothing about CR. *)
Definition nolf (l : text) : Prop := ~ In LF l.
Definition wf_chunk (c : mchunk) : Prop :=
  mc_orig c <= U32_MAX /\ mc_removed c <= U32_MAX /\
  N.of_nat (length (mc_lines c)) <= USIZE_MAX /\ Forall nolf (mc_lines c).
Definition WF (cs : list mchunk) : Prop := Forall wf_chunk cs.
(* what str::lines needs in addition (pre-repair parser): no reported line ends in CR *)
Definition no_cr_end (l : text) : Prop := forall l', l <> l' ++ [CR].

(* the line sequence a report prints as *)
Definition flat (cs : list mchunk) : list text :=
  concat (map (fun c => print_header c :: mc_lines c) cs).

(* -- decimal numerals -- *)
Definition all_dec (t : text) : Prop := Forall (fun c => is_dec_digit c = true) t.

Lemma digits_val_app s : forall a t,
  digits_val a (s ++ t) = match digits_val a s with Some v => digits_val v t | None => None end.
Proof.
  induction s as [|c s IH]; intros a t; cbn [app digits_val].
  - reflexivity.
  - destruct (is_dec_digit c); [apply IH|reflexivity].
Qed.

Lemma dec_digit_of_mod n : is_dec_digit (48 + n mod 10) = true.
Proof.
  pose proof (N.mod_upper_bound n 10 ltac:(lia)) as Hm.
  generalize dependent (n mod 10). intros r Hr.
  unfold is_dec_digit. apply andb_true_iff. split; apply N.leb_le; lia.
Qed.

Lemma le_digits_val fuel : forall n, n < 2 ^ N.of_nat fuel ->
  digits_val 0 (rev (le_digits fuel n)) = Some n.
Proof.
  induction fuel as [|fuel IH]; intros n Hn.
  - cbn in Hn. assert (n = 0) as -> by lia. reflexivity.
  - rewrite Nat2N.inj_succ, N.pow_succ_r' in Hn.
    cbn [le_digits rev]. rewrite digits_val_app.
    pose proof (N.div_mod n 10 ltac:(lia)) as Hdm.
    pose proof (N.mod_upper_bound n 10 ltac:(lia)) as Hm.
    destruct (N.eqb_spec (n / 10) 0) as [E|E].
    + cbn [rev digits_val]. rewrite dec_digit_of_mod. f_equal. clear IH.
      generalize dependent (n mod 10). generalize dependent (n / 10). intros q Hq r Hr1 Hr2. lia.
    + rewrite IH.
      * cbn [digits_val]. rewrite dec_digit_of_mod. f_equal. clear IH.
        generalize dependent (n mod 10). generalize dependent (n / 10). intros q Hq r Hr1 Hr2. lia.
      * clear IH. assert (n / 10 <= n / 2) as Hle by (apply N.div_le_compat_l; lia).
        assert (n / 2 < 2 ^ N.of_nat fuel) as Hlt by (apply N.div_lt_upper_bound; lia).
        lia.
Qed.

Lemma size_nat_bound n : n < 2 ^ N.of_nat (N.size_nat n).
Proof.
  destruct n as [|q]; cbn [N.size_nat].
  - cbn. lia.
  - induction q as [q IH|q IH|]; cbn [Pos.size_nat].
    + rewrite Nat2N.inj_succ, N.pow_succ_r'. lia.
    + rewrite Nat2N.inj_succ, N.pow_succ_r'. lia.
    + cbn. lia.
Qed.

(* decimal printing followed by decimal reading is the identity *)
Lemma dec_val n : digits_val 0 (dec n) = Some n.
Proof.
  unfold dec. apply le_digits_val.
  pose proof (size_nat_bound n) as H. rewrite Nat2N.inj_succ, N.pow_succ_r'. lia.
Qed.

Lemma le_digits_all fuel : forall n, all_dec (le_digits fuel n).
Proof.
  induction fuel as [|fuel IH]; intros n; cbn [le_digits]; constructor.
  - apply dec_digit_of_mod.
  - destruct (n / 10 =? 0); [constructor|apply IH].
Qed.

Lemma dec_all n : all_dec (dec n).
Proof. unfold dec, all_dec. apply Forall_rev. apply le_digits_all. Qed.

Lemma dec_nonempty n : dec n <> [].
Proof.
  unfold dec. cbn [le_digits rev]. intros H. apply app_eq_nil in H. destruct H as [_ H]. discriminate H.
Qed.

Lemma dec_digit_cases c : is_dec_digit c = true ->
  c = 48 \/ c = 49 \/ c = 50 \/ c = 51 \/ c = 52 \/ c = 53 \/ c = 54 \/ c = 55 \/ c = 56 \/ c = 57.
Proof.
  unfold is_dec_digit. rewrite andb_true_iff, !N.leb_le. lia.
Qed.

Lemma dec_digit_not_ws c : is_dec_digit c = true -> is_whitespace c = false.
Proof.
  intros H. apply dec_digit_cases in H.
  destruct H as [->|[->|[->|[->|[->|[->|[->|[->|[->| ->]]]]]]]]]; reflexivity.
Qed.

Lemma dec_digit_not_lf c : is_dec_digit c = true -> c <> LF.
Proof. intros H ->. discriminate H. Qed.

Lemma dec_digit_not_plus c : is_dec_digit c = true -> (c =? 43) = false.
Proof.
  intros H. apply dec_digit_cases in H.
  destruct H as [->|[->|[->|[->|[->|[->|[->|[->|[->| ->]]]]]]]]]; reflexivity.
Qed.

Lemma parse_uint_dec max n : n <= max -> parse_uint max (dec n) = Some n.
Proof.
  intros Hn. pose proof (dec_val n) as Hv. pose proof (dec_all n) as Ha. pose proof (dec_nonempty n) as Hne.
  destruct (dec n) as [|c rest]; [contradiction|].
  unfold parse_uint. inversion Ha as [|? ? Hc _]; subst.
  rewrite (dec_digit_not_plus c Hc), Hv. cbn [bounded].
  destruct (N.leb_spec n max) as [_|Hgt]; [reflexivity|lia].
Qed.

Lemma bounded_some max o v : bounded max o = Some v -> v <= max.
Proof.
  destruct o as [w|]; cbn [bounded]; [|discriminate].
  destruct (N.leb_spec w max) as [Hle|_]; [|discriminate]. intros H; inversion H; subst. exact Hle.
Qed.

Lemma parse_uint_bound max s v : parse_uint max s = Some v -> v <= max.
Proof.
  unfold parse_uint. destruct s as [|c rest]; [discriminate|].
  destruct (c =? 43).
  - destruct rest as [|d rest']; [discriminate|]. apply bounded_some.
  - apply bounded_some.
Qed.

(* -- split_whitespace on the printed header -- *)
Definition no_ws (w : text) : Prop := Forall (fun c => is_whitespace c = false) w.

Lemma all_dec_no_ws w : all_dec w -> no_ws w.
Proof. intros H. eapply Forall_impl; [|exact H]. intros c Hc. apply dec_digit_not_ws. exact Hc. Qed.

Lemma split_ws_word w : forall cur s t, no_ws w -> is_whitespace s = true -> (cur <> [] \/ w <> []) ->
  split_ws_aux cur (w ++ s :: t) = (rev cur ++ w) :: split_ws_aux [] t.
Proof.
  induction w as [|c w IH]; intros cur s t Hw Hs Hne.
  - cbn [app split_ws_aux]. rewrite Hs. destruct cur as [|x cur]; [destruct Hne as [Hne|Hne]; contradiction|].
    rewrite app_nil_r. reflexivity.
  - inversion Hw as [|? ? Hc Hw']; subst. cbn [app split_ws_aux]. rewrite Hc.
    rewrite IH; [|exact Hw'|exact Hs|left; discriminate].
    cbn [rev]. rewrite <- app_assoc. reflexivity.
Qed.

Lemma split_ws_last w : forall cur, no_ws w -> (cur <> [] \/ w <> []) ->
  split_ws_aux cur w = [rev cur ++ w].
Proof.
  induction w as [|c w IH]; intros cur Hw Hne.
  - cbn [split_ws_aux]. destruct cur as [|x cur]; [destruct Hne as [Hne|Hne]; contradiction|].
    rewrite app_nil_r. reflexivity.
  - inversion Hw as [|? ? Hc Hw']; subst. cbn [split_ws_aux]. rewrite Hc.
    rewrite IH; [|exact Hw'|left; discriminate].
    cbn [rev]. rewrite <- app_assoc. reflexivity.
Qed.

Lemma split_ws_header a b c :
  split_whitespace (dec a ++ [SP] ++ dec b ++ [SP] ++ dec c) = [dec a; dec b; dec c].
Proof.
  unfold split_whitespace. cbn [app].
  rewrite split_ws_word; [|apply all_dec_no_ws, dec_all|reflexivity|right; apply dec_nonempty].
  rewrite split_ws_word; [|apply all_dec_no_ws, dec_all|reflexivity|right; apply dec_nonempty].
  rewrite split_ws_last; [|apply all_dec_no_ws, dec_all|right; apply dec_nonempty].
  reflexivity.
Qed.

Lemma parse_header_print c : wf_chunk c ->
  parse_header (print_header c) = Some (mc_orig c, mc_removed c, N.of_nat (length (mc_lines c))).
Proof.
  intros (Ho & Hr & Hn & _). unfold parse_header, print_header. rewrite split_ws_header.
  rewrite !parse_uint_dec by assumption. reflexivity.
Qed.

Lemma parse_header_bound h a b c : parse_header h = Some (a, b, c) ->
  a <= U32_MAX /\ b <= U32_MAX /\ c <= USIZE_MAX.
Proof.
  unfold parse_header. destruct (split_whitespace h) as [|o [|r [|n rest]]]; try discriminate.
  destruct (parse_uint U32_MAX o) as [x|] eqn:Ex; [|discriminate].
  destruct (parse_uint U32_MAX r) as [y|] eqn:Ey; [|discriminate].
  destruct (parse_uint USIZE_MAX n) as [z|] eqn:Ez; [|discriminate].
  intros H; inversion H; subst. repeat split; eapply parse_uint_bound; eassumption.
Qed.

(* -- split_terminator -- *)
Lemma nolf_is_lf l : nolf l -> Forall (fun c => is_lf c = false) l.
Proof.
  intros H. apply Forall_forall. intros c Hc. unfold is_lf. apply N.eqb_neq. intros ->. apply H. exact Hc.
Qed.

Lemma split_term_line l : forall cur t, nolf l ->
  split_term_aux cur (l ++ LF :: t) = (rev cur ++ l) :: split_term_aux [] t.
Proof.
  induction l as [|c l IH]; intros cur t Hl.
  - cbn [app split_term_aux]. change (is_lf LF) with true. cbv iota. rewrite app_nil_r. reflexivity.
  - cbn [app split_term_aux].
    assert (is_lf c = false) as Hc.
    { unfold is_lf. apply N.eqb_neq. intros ->. apply Hl. left. reflexivity. }
    rewrite Hc. rewrite IH; [|intros Hin; apply Hl; right; exact Hin].
    cbn [rev]. rewrite <- app_assoc. reflexivity.
Qed.

Lemma split_term_unlines ls : forall t, Forall nolf ls ->
  split_terminator (unlines ls ++ t) = ls ++ split_terminator t.
Proof.
  unfold split_terminator, unlines.
  induction ls as [|l ls IH]; intros t Hls; [reflexivity|].
  inversion Hls as [|? ? Hl Hls']; subst.
  cbn [map concat]. rewrite <- !app_assoc. cbn [app].
  rewrite split_term_line by exact Hl. cbn [rev app]. rewrite IH by exact Hls'. reflexivity.
Qed.

Lemma all_dec_nolf w : all_dec w -> nolf w.
Proof.
  intros H Hin. unfold all_dec in H. rewrite Forall_forall in H. specialize (H _ Hin). discriminate H.
Qed.

Lemma nolf_app a b : nolf a -> nolf b -> nolf (a ++ b).
Proof. intros Ha Hb Hin. apply in_app_or in Hin. destruct Hin; [apply Ha|apply Hb]; assumption. Qed.

Lemma print_header_nolf c : nolf (print_header c).
Proof.
  unfold print_header.
  assert (nolf [SP]) as Hsp by (intros [H|[]]; discriminate H).
  apply nolf_app; [apply all_dec_nolf, dec_all|].
  apply nolf_app; [exact Hsp|].
  apply nolf_app; [apply all_dec_nolf, dec_all|].
  apply nolf_app; [exact Hsp|apply all_dec_nolf, dec_all].
Qed.

Lemma print_modified_cons c cs : print_modified (c :: cs) = print_chunk c ++ print_modified cs.
Proof. reflexivity. Qed.

Lemma wf_lines_nolf cs : WF cs -> Forall (fun c => Forall nolf (mc_lines c)) cs.
Proof. intros H. eapply Forall_impl; [|exact H]. intros c (_ & _ & _ & Hl). exact Hl. Qed.

Lemma split_term_print cs : Forall (fun c => Forall nolf (mc_lines c)) cs ->
  split_terminator (print_modified cs) = flat cs.
Proof.
  induction cs as [|c cs IH]; intros Hcs; [reflexivity|].
  inversion Hcs as [|? ? Hc Hcs']; subst.
  rewrite print_modified_cons. unfold print_chunk. rewrite <- !app_assoc. cbn [app].
  unfold split_terminator at 1. rewrite split_term_line by apply print_header_nolf.
  cbn [rev app]. fold (split_terminator (unlines (mc_lines c) ++ print_modified cs)).
  rewrite split_term_unlines by exact Hc. rewrite IH by exact Hcs'. reflexivity.
Qed.

Lemma split_term_aux_nolf t : forall cur, nolf cur -> Forall nolf (split_term_aux cur t).
Proof.
  induction t as [|c t IH]; intros cur Hcur; cbn [split_term_aux].
  - destruct cur as [|x cur]; constructor; [|constructor].
    intros Hin. apply Hcur. apply in_rev. exact Hin.
  - destruct (is_lf c) eqn:Ec.
    + constructor.
      * intros Hin. apply Hcur. apply in_rev. exact Hin.
      * apply IH. intros [].
    + apply IH. intros [Hin|Hin].
      * subst c. discriminate Ec.
      * apply Hcur. exact Hin.
Qed.

Lemma split_terminator_nolf t : Forall nolf (split_terminator t).
Proof. apply split_term_aux_nolf. intros []. Qed.

(* -- take -- *)
Lemma take_lines_exact a : forall b, take_lines (N.of_nat (length a)) (a ++ b) = (a, b).
Proof.
  induction a as [|l a IH]; intros b.
  - cbn [length app]. destruct b as [|x b]; reflexivity.
  - cbn [length app take_lines].
    destruct (N.eqb_spec (N.of_nat (S (length a))) 0) as [E|_]; [lia|].
    replace (N.pred (N.of_nat (S (length a)))) with (N.of_nat (length a)) by lia.
    rewrite IH. reflexivity.
Qed.

Lemma take_lines_split ls : forall n a b, take_lines n ls = (a, b) -> ls = a ++ b.
Proof.
  induction ls as [|l ls IH]; intros n a b H; cbn [take_lines] in H.
  - inversion H; subst. reflexivity.
  - destruct (n =? 0).
    + inversion H; subst. reflexivity.
    + destruct (take_lines (N.pred n) ls) as [a' b'] eqn:E. inversion H; subst.
      cbn [app]. f_equal. eapply IH. exact E.
Qed.

(* -- the loop -- *)
Lemma parse_loop_acc f : forall ls acc,
  parse_loop f ls acc = match parse_loop f ls [] with POk cs => POk (acc ++ cs) | e => e end.
Proof.
  induction f as [|f IH]; intros ls acc.
  - destruct ls as [|h rest]; cbn [parse_loop]; [rewrite app_nil_r|]; reflexivity.
  - destruct ls as [|h rest]; cbn [parse_loop]; [rewrite app_nil_r; reflexivity|].
    destruct (parse_header h) as [[[o r] n]|]; [|reflexivity].
    destruct (take_lines n rest) as [a b].
    destruct (N.of_nat (length a) =? n); [|reflexivity].
    rewrite (IH b (acc ++ _)), (IH b ([] ++ _)).
    destruct (parse_loop f b []) as [cs| |]; [|reflexivity|reflexivity].
    rewrite <- app_assoc. reflexivity.
Qed.

Lemma flat_cons c cs : flat (c :: cs) = print_header c :: mc_lines c ++ flat cs.
Proof. reflexivity. Qed.

Lemma parse_loop_flat cs : forall f acc, WF cs -> (length (flat cs) <= f)%nat ->
  parse_loop f (flat cs) acc = POk (acc ++ cs).
Proof.
  induction cs as [|c cs IH]; intros f acc Hwf Hf.
  - rewrite app_nil_r. destruct f; reflexivity.
  - inversion Hwf as [|? ? Hc Hwf']; subst.
    rewrite flat_cons in *. cbn [length] in Hf. rewrite app_length in Hf.
    destruct f as [|f]; [lia|]. cbn [parse_loop].
    rewrite parse_header_print by exact Hc.
    rewrite take_lines_exact. rewrite N.eqb_refl.
    rewrite IH; [|exact Hwf'|lia].
    rewrite <- app_assoc. cbn [app]. destruct c; reflexivity.
Qed.

Lemma parse_lines_flat cs : WF cs -> parse_lines_res (flat cs) = POk cs.
Proof. intros H. unfold parse_lines_res. rewrite parse_loop_flat; [reflexivity|exact H|lia]. Qed.

(* fuel = number of lines always suffices: the loop is never cut short *)
Lemma parse_loop_total f : forall ls acc, (length ls <= f)%nat -> parse_loop f ls acc <> PDiverge.
Proof.
  induction f as [|f IH]; intros ls acc Hf.
  - destruct ls as [|h rest]; [discriminate|cbn [length] in Hf; lia].
  - destruct ls as [|h rest]; [discriminate|]. cbn [parse_loop length] in *.
    destruct (parse_header h) as [[[o r] n]|]; [|discriminate].
    destruct (take_lines n rest) as [a b] eqn:E.
    destruct (N.of_nat (length a) =? n); [|discriminate].
    apply IH. apply take_lines_split in E. subst rest. rewrite app_length in Hf. lia.
Qed.

Lemma parse_lines_total ls : parse_lines_res ls <> PDiverge.
Proof. apply parse_loop_total. lia. Qed.

Lemma parse_total_lemma t : parse_modified_res t <> PDiverge /\ parse_modified_pre_res t <> PDiverge.
Proof. split; apply parse_lines_total. Qed.

(* whatever the loop accepts is well-formed *)
Lemma parse_loop_wf f : forall ls acc cs, Forall nolf ls -> WF acc ->
  parse_loop f ls acc = POk cs -> WF cs.
Proof.
  induction f as [|f IH]; intros ls acc cs Hls Hacc H.
  - destruct ls as [|h rest]; cbn [parse_loop] in H; [|discriminate]. inversion H; subst. exact Hacc.
  - destruct ls as [|h rest]; cbn [parse_loop] in H; [inversion H; subst; exact Hacc|].
    destruct (parse_header h) as [[[o r] n]|] eqn:Eh; [|discriminate].
    destruct (take_lines n rest) as [a b] eqn:E.
    destruct (N.eqb_spec (N.of_nat (length a)) n) as [En|_]; [|discriminate].
    apply take_lines_split in E. subst rest.
    inversion Hls as [|? ? _ Hrest]; subst. apply Forall_app in Hrest. destruct Hrest as [Ha Hb].
    apply parse_header_bound in Eh. destruct Eh as (Ho & Hr & Hn).
    eapply IH; [exact Hb| |exact H].
    apply Forall_app. split; [exact Hacc|]. constructor; [|constructor].
    unfold wf_chunk. cbn [mc_orig mc_removed mc_lines]. repeat split; try assumption.
Qed.

Lemma parse_modified_wf t cs : parse_modified t = Some cs -> WF cs.
Proof.
  unfold parse_modified, parse_modified_res, parse_lines_res, opt_of_pres. intros H.
  destruct (parse_loop _ _ _) as [cs'| |] eqn:E; try discriminate. inversion H; subst.
  eapply parse_loop_wf; [apply split_terminator_nolf|constructor|exact E].
Qed.

(* -- the round trip -- *)
Lemma print_parse_roundtrip_lemma cs : WF cs -> parse_modified (print_modified cs) = Some cs.
Proof.
  intros H. unfold parse_modified, parse_modified_res.
  rewrite split_term_print by (apply wf_lines_nolf; exact H).
  rewrite parse_lines_flat by exact H. reflexivity.
Qed.

Lemma print_parse_roundtrip_iff_lemma cs : parse_modified (print_modified cs) = Some cs <-> WF cs.
Proof. split; [apply parse_modified_wf|apply print_parse_roundtrip_lemma]. Qed.

Lemma print_parse_wf_necessary_lemma cs : parse_modified (print_modified cs) = Some cs -> WF cs.
Proof. apply parse_modified_wf. Qed.

(* parse . print . parse = parse: printing normalises, and every parsed value prints to a text that parses to it *)
Lemma parse_print_parse_lemma t cs : parse_modified t = Some cs ->
  WF cs /\ parse_modified (print_modified cs) = Some cs.
Proof.
  intros H. pose proof (parse_modified_wf t cs H) as Hwf. split; [exact Hwf|].
  apply print_parse_roundtrip_lemma. exact Hwf.
Qed.

Lemma print_injective_lemma cs cs' : WF cs -> WF cs' -> print_modified cs = print_modified cs' -> cs = cs'.
Proof.
  intros H H' E. apply print_parse_roundtrip_lemma in H. apply print_parse_roundtrip_lemma in H'.
  rewrite E in H. rewrite H in H'. inversion H'. reflexivity.
Qed.

(* the converse for texts produced by print: if the text printed for a report without LF inside lines parses
   at all, it parses to a report that prints to the same text *)
Lemma print_of_parse_of_print_lemma cs cs' : Forall (fun c => Forall nolf (mc_lines c)) cs ->
  parse_modified (print_modified cs) = Some cs' -> print_modified cs' = print_modified cs.
Proof.
  intros Hl H.
  assert (WF cs) as Hwf.
  { (* the numbers were accepted by the parser, so they are in range *)
    unfold parse_modified, parse_modified_res in H. rewrite split_term_print in H by exact Hl.
    unfold parse_lines_res in H.
    remember (length (flat cs)) as f eqn:Ef. assert (length (flat cs) <= f)%nat as Hf by lia. clear Ef.
    remember (@nil mchunk) as acc eqn:Eacc. clear Eacc.
    revert f acc cs' Hf H. induction cs as [|c cs IH]; intros f acc cs' Hf H; [constructor|].
    inversion Hl as [|? ? Hc Hl']; subst.
    rewrite flat_cons in *. cbn [length] in Hf. rewrite app_length in Hf.
    destruct f as [|f]; [lia|]. cbn [parse_loop] in H.
    unfold parse_header in H. unfold print_header in H at 1. rewrite split_ws_header in H.
    destruct (parse_uint U32_MAX (dec (mc_orig c))) as [x|] eqn:Ex; [|discriminate].
    destruct (parse_uint U32_MAX (dec (mc_removed c))) as [y|] eqn:Ey; [|discriminate].
    destruct (parse_uint USIZE_MAX (dec (N.of_nat (length (mc_lines c))))) as [z|] eqn:Ez; [|discriminate].
    assert (Hval : forall max n v, parse_uint max (dec n) = Some v -> n <= max).
    { intros max n v Hp. pose proof (parse_uint_bound _ _ _ Hp) as Hb.
      destruct (N.le_gt_cases n max) as [Hle|Hgt]; [exact Hle|].
      pose proof (dec_val n) as Hv. pose proof (dec_all n) as Ha. pose proof (dec_nonempty n) as Hne.
      unfold parse_uint in Hp. destruct (dec n) as [|d rest]; [contradiction|].
      inversion Ha as [|? ? Hd _]; subst. rewrite (dec_digit_not_plus d Hd), Hv in Hp. cbn [bounded] in Hp.
      destruct (N.leb_spec n max); [lia|discriminate]. }
    pose proof (Hval _ _ _ Ex) as Hx. pose proof (Hval _ _ _ Ey) as Hy. pose proof (Hval _ _ _ Ez) as Hz.
    rewrite parse_uint_dec in Ez by exact Hz. inversion Ez; subst z.
    rewrite take_lines_exact, N.eqb_refl in H.
    constructor.
    - repeat split; assumption.
    - eapply IH; [exact Hl'| |exact H]. lia. }
  rewrite (print_parse_roundtrip_lemma cs Hwf) in H. inversion H; subst. reflexivity.
Qed.

(* -- str::lines (the parser before 686d4f4) -- *)
Lemma split_incl_line l : forall cur t, nolf l ->
  split_incl_aux cur (l ++ LF :: t) = (rev cur ++ l ++ [LF]) :: split_incl_aux [] t.
Proof.
  induction l as [|c l IH]; intros cur t Hl.
  - cbn [app split_incl_aux]. change (is_lf LF) with true. cbv iota. cbn [rev]. reflexivity.
  - cbn [app split_incl_aux].
    assert (is_lf c = false) as Hc.
    { unfold is_lf. apply N.eqb_neq. intros ->. apply Hl. left. reflexivity. }
    rewrite Hc. rewrite IH; [|intros Hin; apply Hl; right; exact Hin].
    cbn [rev]. rewrite <- app_assoc. reflexivity.
Qed.

Lemma strip_line_keep l : no_cr_end l -> strip_line (l ++ [LF]) = l.
Proof.
  intros H. unfold strip_line. rewrite rev_app_distr. cbn [rev app strip_line_rev].
  change (is_lf LF) with true. cbv iota.
  destruct (rev l) as [|d r] eqn:E.
  - apply (f_equal (@rev _)) in E. rewrite rev_involutive in E. subst l. reflexivity.
  - apply (f_equal (@rev _)) in E. rewrite rev_involutive in E. cbn [rev] in E.
    destruct (is_cr d) eqn:Ed.
    + exfalso. apply (H (rev r)). unfold is_cr in Ed. apply N.eqb_eq in Ed. subst d. exact E.
    + subst l. reflexivity.
Qed.

Lemma str_lines_unlines ls : forall t, Forall nolf ls -> Forall no_cr_end ls ->
  str_lines (unlines ls ++ t) = ls ++ str_lines t.
Proof.
  unfold str_lines, split_inclusive, unlines.
  induction ls as [|l ls IH]; intros t Hls Hcr; [reflexivity|].
  inversion Hls as [|? ? Hl Hls']; subst. inversion Hcr as [|? ? Hc Hcr']; subst.
  cbn [map concat]. rewrite <- !app_assoc. cbn [app].
  rewrite split_incl_line by exact Hl. cbn [rev app map]. rewrite strip_line_keep by exact Hc.
  rewrite IH by assumption. reflexivity.
Qed.

Lemma print_header_no_cr_end c : no_cr_end (print_header c).
Proof.
  intros l' E. unfold print_header in E. rewrite !app_assoc in E.
  pose proof (dec_all (N.of_nat (length (mc_lines c)))) as Ha.
  pose proof (dec_nonempty (N.of_nat (length (mc_lines c)))) as Hne.
  destruct (@exists_last _ (dec (N.of_nat (length (mc_lines c)))) Hne) as (p & d & Ed).
  rewrite Ed in E, Ha. rewrite app_assoc in E. apply app_inj_tail in E. destruct E as [_ E]. subst d.
  unfold all_dec in Ha. rewrite Forall_forall in Ha. specialize (Ha CR).
  assert (In CR (p ++ [CR])) as Hin by (apply in_or_app; right; left; reflexivity).
  specialize (Ha Hin). discriminate Ha.
Qed.

Lemma str_lines_print cs : Forall (fun c => Forall nolf (mc_lines c)) cs ->
  Forall (fun c => Forall no_cr_end (mc_lines c)) cs ->
  str_lines (print_modified cs) = flat cs.
Proof.
  induction cs as [|c cs IH]; intros Hcs Hcr; [reflexivity|].
  inversion Hcs as [|? ? Hc Hcs']; subst. inversion Hcr as [|? ? Hr Hcr']; subst.
  rewrite print_modified_cons. unfold print_chunk. rewrite <- !app_assoc. cbn [app].
  change (print_header c ++ LF :: unlines (mc_lines c) ++ print_modified cs)
    with (unlines [] ++ print_header c ++ LF :: unlines (mc_lines c) ++ print_modified cs).
  pose proof (str_lines_unlines [print_header c] (unlines (mc_lines c) ++ print_modified cs)) as H1.
  unfold unlines at 1 in H1. cbn [map concat] in H1. rewrite <- !app_assoc in H1. cbn [app] in H1.
  cbn [unlines map concat app]. rewrite H1.
  - rewrite str_lines_unlines by assumption. rewrite IH by assumption. reflexivity.
  - constructor; [apply print_header_nolf|constructor].
  - constructor; [apply print_header_no_cr_end|constructor].
Qed.

Lemma print_parse_pre_roundtrip_lemma cs : WF cs -> Forall (fun c => Forall no_cr_end (mc_lines c)) cs ->
  parse_modified_pre (print_modified cs) = Some cs.
Proof.
  intros H Hcr. unfold parse_modified_pre, parse_modified_pre_res.
  rewrite str_lines_print; [|apply wf_lines_nolf; exact H|exact Hcr].
  rewrite parse_lines_flat by exact H. reflexivity.
Qed.

(* -- reports produced by make_diff are well-formed -- *)
Lemma strip_lines_nolf t : forall cur, nolf cur -> Forall nolf (map strip_line (split_incl_aux cur t)).
Proof.
  induction t as [|c t IH]; intros cur Hcur; cbn [split_incl_aux].
  - destruct cur as [|x cur]; [constructor|]. cbn [map]. constructor; [|constructor].
    unfold strip_line. rewrite rev_involutive. cbn [strip_line_rev].
    assert (is_lf x = false) as Hx.
    { unfold is_lf. apply N.eqb_neq. intros ->. apply Hcur. left. reflexivity. }
    rewrite Hx. intros Hin. apply Hcur. apply in_rev. exact Hin.
  - destruct (is_lf c) eqn:Ec.
    + cbn [map]. constructor; [|apply IH; intros []].
      unfold strip_line. rewrite rev_involutive. cbn [strip_line_rev]. rewrite Ec.
      intros Hin. apply in_rev in Hin. apply Hcur.
      destruct cur as [|d r]; [exact Hin|]. destruct (is_cr d); [right; exact Hin|exact Hin].
    + apply IH. intros [Hin|Hin].
      * subst c. discriminate Ec.
      * apply Hcur. exact Hin.
Qed.

Lemma dlines_nolf t : Forall nolf (dlines t).
Proof.
  unfold dlines. apply Forall_app. split.
  - unfold str_lines, split_inclusive. apply strip_lines_nolf. intros [].
  - destruct (ends_with_lf t); constructor; [intros []|constructor].
Qed.

Lemma filter_res_length {A} (ls : list (dline A)) : length (filter is_res ls) = length (res_lines ls).
Proof.
  induction ls as [|d ls IH]; [reflexivity|]. destruct d; cbn [filter is_res res_lines length]; lia.
Qed.

Lemma report_wf_lemma (a b : text) :
  N.of_nat (length (dlines a)) < U32_MAX -> N.of_nat (length (dlines b)) <= USIZE_MAX ->
  WF (map mchunk_of (impl_modified_lines a b)).
Proof.
  intros Ha Hb. unfold impl_modified_lines, impl_make_diff, modified_lines.
  destruct (diff_lines_valid a b) as (HL & HR & Hbe).
  pose proof (hunks_consistent_lemma 0 (diff_lines a b) Hbe) as Hh.
  pose proof (make_diff0_noctx (diff_lines a b)) as Hn.
  rewrite HL, HR in Hh. pose proof (dlines_nolf b) as Hlf.
  unfold WF. rewrite map_map. apply Forall_map.
  induction (make_diff 0 (diff_lines a b)) as [|m ms IH]; [constructor|].
  inversion Hh as [|? ? Hm Hh']; subst. inversion Hn as [|? ? Hc Hn']; subst.
  constructor; [|apply IH; assumption]. clear IH Hh' Hn'.
  destruct (noctx_osd (mm_lines m) Hc) as [Eo En].
  destruct Hm as [(pa & xa & Epa & Hpa) (pb & xb & Epb & Hpb)].
  rewrite Eo in Epa. rewrite En in Epb.
  apply (f_equal (@length _)) in Epa. rewrite !app_length in Epa.
  unfold wf_chunk, mchunk_of, chunk_of. cbn [mc_orig mc_removed mc_lines ch_orig ch_removed ch_lines].
  rewrite filter_res_length.
  assert (length (exp_lines (mm_lines m)) <= length (dlines b))%nat as Hle.
  { rewrite Epb. rewrite !app_length. lia. }
  repeat split; try lia.
  rewrite Epb in Hlf. apply Forall_app in Hlf. destruct Hlf as [_ Hlf].
  apply Forall_app in Hlf. destruct Hlf as [Hlf _]. exact Hlf.
Qed.

Lemma report_print_parse_lemma (a b : text) :
  N.of_nat (length (dlines a)) < U32_MAX -> N.of_nat (length (dlines b)) <= USIZE_MAX ->
  parse_modified (print_modified (map mchunk_of (impl_modified_lines a b)))
  = Some (map mchunk_of (impl_modified_lines a b)).
Proof. intros Ha Hb. apply print_parse_roundtrip_lemma. apply report_wf_lemma; assumption. Qed.

(* -- witnesses: what fails without each hypothesis; what the parser before 686d4f4 did -- *)
(* a line containing LF: the text parses, to a different report *)
Lemma print_parse_lf_refuted_lemma : exists cs cs',
  Forall (fun c => mc_orig c <= U32_MAX /\ mc_removed c <= U32_MAX /\ N.of_nat (length (mc_lines c)) <= USIZE_MAX) cs /\
  parse_modified (print_modified cs) = Some cs' /\ cs' <> cs.
Proof.
  exists [MkMC 1 0 [[97; 10; 50; 32; 48; 32; 48]]], [MkMC 1 0 [[97]]; MkMC 2 0 []].
  split; [|split]; [|vm_compute; reflexivity|discriminate].
  constructor; [|constructor]. cbn [mc_orig mc_removed mc_lines length]. unfold U32_MAX, USIZE_MAX. lia.
Qed.

(* a number that does not fit u32 (not a value of the Rust type): the text is rejected *)
Lemma print_parse_u32_refuted_lemma : exists cs,
  Forall (fun c => Forall nolf (mc_lines c)) cs /\ parse_modified (print_modified cs) = None.
Proof.
  exists [MkMC 4294967296 0 []]. split; [|vm_compute; reflexivity]. constructor; [constructor|constructor].
Qed.

(* str::lines strips the CR of a reported line that ends in CR *)
Lemma print_parse_pre_refuted_lemma : exists cs cs',
  WF cs /\ parse_modified_pre (print_modified cs) = Some cs' /\ cs' <> cs.
Proof.
  exists [MkMC 3 1 [[120; 13]]], [MkMC 3 1 [[120]]].
  split; [|split]; [|vm_compute; reflexivity|discriminate].
  constructor; [|constructor]. unfold wf_chunk. cbn [mc_orig mc_removed mc_lines length].
  unfold U32_MAX, USIZE_MAX. repeat split; try lia.
  constructor; [|constructor]. intros [H|[H|[]]]; discriminate H.
Qed.

(* print after parse is not the identity on arbitrary accepted texts: no final newline, '+', extra words *)
Lemma parse_then_print_refuted_lemma : exists t cs,
  parse_modified t = Some cs /\ print_modified cs <> t.
Proof.
  exists [43; 49; 9; 48; 53; 32; 48; 32; 120], [MkMC 1 5 []]. split; [vm_compute; reflexivity|].
  vm_compute. discriminate.
Qed.
