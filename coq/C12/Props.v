(* placeholder until Lemmas.v exists *)
From V Require Import Base.Text C12.Model.
Theorem placeholder : True. Proof. exact I. Qed.
Print Assumptions placeholder.
