(* C12/Props.v — the property theorems of C12 (statements only; proofs in Lemmas.v).
   C12: "For any original and formatted text, the chunks of the modified-lines report applied to the
   original yield the formatted text line for line, ... the json and checkstyle reports name the same line
   numbers and texts, and each diff hunk's context, removed and added lines are consistent with both texts at
   the stated line numbers. A report is empty exactly when the two texts have the same lines; the json and
   checkstyle documents are well-formed whatever characters the source contains."
   All statements are for every pair of texts / every valid diff script and every context size: no bound. *)
From V Require Import Base.Text C12.Model C12.Lemmas.
Local Open Scope nat_scope.

(* diff::lines yields a valid edit script between the two line sequences, and its Both entries pair equal lines *)
Theorem lcs_valid : forall a b : text,
  projL (diff_lines a b) = dlines a /\ projR (diff_lines a b) = dlines b /\ both_eq (diff_lines a b).
Proof. exact diff_lines_valid. Qed.
Print Assumptions lcs_valid.

(* modified-lines clause: applying the chunks (context 0) to the original gives the formatted lines;
   for ANY valid script, hence for any diff algorithm *)
Theorem apply_reconstructs : forall (A : Type) (s : list (dres A)),
  both_eq s -> apply_chunks 1 (projL s) (modified_lines (make_diff 0 s)) = Some (projR s).
Proof. exact (@apply_reconstructs_lemma). Qed.
Print Assumptions apply_reconstructs.

(* the same, end to end on texts *)
Theorem apply_reconstructs_text : forall a b : text,
  apply_chunks 1 (dlines a) (impl_modified_lines a b) = Some (dlines b).
Proof.
  intros a b. destruct (diff_lines_valid a b) as (HL & HR & Hbe).
  unfold impl_modified_lines, impl_make_diff. rewrite <- HL, <- HR. apply apply_reconstructs_lemma; exact Hbe.
Qed.
Print Assumptions apply_reconstructs_text.

(* each hunk's context+removed lines are in the original at line_number_orig, its context+added lines in the
   formatted text at line_number; every context size *)
Theorem hunks_consistent : forall (A : Type) (ctx : nat) (s : list (dres A)),
  both_eq s -> Forall (hunk_at (projL s) (projR s)) (make_diff ctx s).
Proof. exact (@hunks_consistent_lemma). Qed.
Print Assumptions hunks_consistent.

(* a report is empty exactly when the two texts have the same lines (same str::lines and same final-newline flag) *)
Theorem empty_iff : forall (ctx : nat) (a b : text),
  impl_make_diff ctx a b = [] <-> (str_lines a = str_lines b /\ ends_with_lf a = ends_with_lf b).
Proof. exact empty_iff_lemma. Qed.
Print Assumptions empty_iff.

(* json: original/expected are the removed/added lines found at the begin lines in the two texts;
   end = begin + count - 1 (and end = begin when count = 0) *)
Theorem json_blocks_ok : forall (A : Type) (s : list (dres A)),
  both_eq s -> Forall (jblock_ok (projL s) (projR s)) (json_blocks (make_diff 0 s)).
Proof. exact (@json_blocks_ok_lemma). Qed.
Print Assumptions json_blocks_ok.

(* checkstyle: every reported (line, message) is a line of the formatted text at that 1-based number *)
Theorem checkstyle_lines_ok : forall (A : Type) (s : list (dres A)) (n : nat) (msg : A),
  both_eq s -> In (n, msg) (checkstyle_errors (make_diff 0 s)) ->
  1 <= n /\ nth_error (projR s) (n - 1) = Some msg.
Proof. exact (@checkstyle_lines_ok_lemma). Qed.
Print Assumptions checkstyle_lines_ok.

(* XmlEscaped loses nothing and its output is a well-formed attribute value (no raw '<', double quote, or bare '&') *)
Theorem xml_escape_ok : forall t : text,
  xml_unescape (xml_escape t) = t /\ wf_attr (xml_escape t) = true.
Proof. intros t. split; [apply xml_unescape_escape|apply xml_escape_wf]. Qed.
Print Assumptions xml_escape_ok.

(* ... but characters with no XML 1.0 representation pass through unchanged: well-formedness "whatever
   characters the source contains" holds only outside this class (known finding class HasXmlForbiddenChar) *)
Theorem checkstyle_wellformed_partial : forall t : text,
  existsb xml_forbidden t = false -> existsb xml_forbidden (xml_escape t) = false /\ wf_attr (xml_escape t) = true.
Proof. intros t H. split; [rewrite xml_escape_forbidden; exact H|apply xml_escape_wf]. Qed.
Print Assumptions checkstyle_wellformed_partial.

Theorem checkstyle_wellformed_refuted : exists t : text,
  existsb xml_forbidden (xml_escape t) = true.
Proof. exists [12%N]. reflexivity. Qed.
Print Assumptions checkstyle_wellformed_refuted.

(* ---- "the report survives printing and re-parsing": ModifiedLines Display / FromStr ---- *)
(* WF cs (Lemmas.v): every chunk has mc_orig <= U32_MAX, mc_removed <= U32_MAX, number of lines <= USIZE_MAX
   (all three hold of every value of the Rust type) and no line contains LF.  Nothing is assumed about CR. *)

(* decimal printing (Display for u32/usize) followed by parsing (FromStr) is the identity on values in range *)
Theorem decimal_roundtrip : forall max n : N, (n <= max)%N -> parse_uint max (dec n) = Some n.
Proof. exact parse_uint_dec. Qed.
Print Assumptions decimal_roundtrip.

(* print/parse clause: every well-formed report parses back to itself *)
Theorem print_parse_roundtrip : forall cs : list mchunk,
  WF cs -> parse_modified (print_modified cs) = Some cs.
Proof. exact print_parse_roundtrip_lemma. Qed.
Print Assumptions print_parse_roundtrip.

(* ... and WF is the weakest such hypothesis: a report that survives is well-formed *)
Theorem print_parse_roundtrip_wf_necessary : forall cs : list mchunk,
  parse_modified (print_modified cs) = Some cs -> WF cs.
Proof. exact print_parse_wf_necessary_lemma. Qed.
Print Assumptions print_parse_roundtrip_wf_necessary.

(* without "no LF inside a line": the text parses to a different report *)
Theorem print_parse_roundtrip_lf_refuted : exists cs cs' : list mchunk,
  Forall (fun c => (mc_orig c <= U32_MAX)%N /\ (mc_removed c <= U32_MAX)%N /\
                   (N.of_nat (length (mc_lines c)) <= USIZE_MAX)%N) cs /\
  parse_modified (print_modified cs) = Some cs' /\ cs' <> cs.
Proof. exact print_parse_lf_refuted_lemma. Qed.
Print Assumptions print_parse_roundtrip_lf_refuted.

(* without the u32 range (a modelling hypothesis: the Rust fields are u32): the text is rejected *)
Theorem print_parse_roundtrip_u32_refuted : exists cs : list mchunk,
  Forall (fun c => Forall nolf (mc_lines c)) cs /\ parse_modified (print_modified cs) = None.
Proof. exact print_parse_u32_refuted_lemma. Qed.
Print Assumptions print_parse_roundtrip_u32_refuted.

(* converse: whatever text the parser accepts, the value is well-formed and is a fixed point of print-then-parse *)
Theorem parse_print_parse : forall (t : text) (cs : list mchunk),
  parse_modified t = Some cs -> WF cs /\ parse_modified (print_modified cs) = Some cs.
Proof. exact parse_print_parse_lemma. Qed.
Print Assumptions parse_print_parse.

(* converse on texts produced by print: if such a text is accepted, the parsed value prints to the same text *)
Theorem print_of_parse_of_print : forall cs cs' : list mchunk,
  Forall (fun c => Forall nolf (mc_lines c)) cs ->
  parse_modified (print_modified cs) = Some cs' -> print_modified cs' = print_modified cs.
Proof. exact print_of_parse_of_print_lemma. Qed.
Print Assumptions print_of_parse_of_print.

(* ... but not on arbitrary accepted texts (leading '+', zeros, tabs, extra words, missing final newline) *)
Theorem parse_then_print_refuted : exists (t : text) (cs : list mchunk),
  parse_modified t = Some cs /\ print_modified cs <> t.
Proof. exact parse_then_print_refuted_lemma. Qed.
Print Assumptions parse_then_print_refuted.

(* the printed text determines the report *)
Theorem print_injective : forall cs cs' : list mchunk,
  WF cs -> WF cs' -> print_modified cs = print_modified cs' -> cs = cs'.
Proof. exact print_injective_lemma. Qed.
Print Assumptions print_injective.

(* from_str terminates on every text: with fuel = number of lines the loop is never cut short, so the result
   is Ok or Err(()); no operation of from_str can panic, so there is no third outcome (both parser versions) *)
Theorem parse_total : forall t : text,
  parse_modified_res t <> PDiverge /\ parse_modified_pre_res t <> PDiverge.
Proof. exact parse_total_lemma. Qed.
Print Assumptions parse_total.

(* the parser before 686d4f4 (str::lines): a reported line ending in CR comes back without it *)
Theorem print_parse_pre_refuted : exists cs cs' : list mchunk,
  WF cs /\ parse_modified_pre (print_modified cs) = Some cs' /\ cs' <> cs.
Proof. exact print_parse_pre_refuted_lemma. Qed.
Print Assumptions print_parse_pre_refuted.

(* what held of it: the round trip for reports none of whose lines ends in CR *)
Theorem print_parse_pre_roundtrip_partial : forall cs : list mchunk,
  WF cs -> Forall (fun c => Forall no_cr_end (mc_lines c)) cs ->
  parse_modified_pre (print_modified cs) = Some cs.
Proof. exact print_parse_pre_roundtrip_lemma. Qed.
Print Assumptions print_parse_pre_roundtrip_partial.

(* end to end: the report make_diff produces for any two texts (fewer than 2^32 - 1 lines, so that the u32 line
   numbers exist) survives printing and re-parsing, CRs included *)
Theorem report_print_parse_roundtrip : forall a b : text,
  (N.of_nat (length (dlines a)) < U32_MAX)%N -> (N.of_nat (length (dlines b)) <= USIZE_MAX)%N ->
  parse_modified (print_modified (map mchunk_of (impl_modified_lines a b)))
  = Some (map mchunk_of (impl_modified_lines a b)).
Proof. exact report_print_parse_lemma. Qed.
Print Assumptions report_print_parse_roundtrip.
