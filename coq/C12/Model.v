(* C12/Model.v — executable model of rustfmt's diff-based reports.
   Sources modelled:
     diff-0.1.12/src/lib.rs        iter, lines            (diff_iter, diff_lines)
     src/rustfmt_diff.rs:183-258   make_diff              (go, make_diff)
     src/rustfmt_diff.rs:54-80     ModifiedLines::from    (modified_lines)
     src/rustfmt_diff.rs:88-140    Display / FromStr      (print_ml, parse_ml)
     src/emitter/json.rs:55-100    add_misformatted_file  (json_blocks)
     src/emitter/checkstyle.rs     output_checkstyle_file (checkstyle_errors)
     src/emitter/checkstyle/xml.rs XmlEscaped             (xml_escape)
   Definitions only; proofs are in Lemmas.v. *)
From V Require Import Base.Text.
Local Open Scope nat_scope.

Set Implicit Arguments.

(* ------------------------------------------------------------------ *)
(* diff::Result *)
Inductive dres (A : Type) : Type :=
| L (x : A)            (* only in the left (original) sequence  *)
| R (x : A)            (* only in the right (formatted) sequence *)
| B (l r : A).         (* in both; the two (equal) elements      *)
Arguments L {A} x.
Arguments R {A} x.
Arguments B {A} l r.

Fixpoint projL {A} (s : list (dres A)) : list A :=
  match s with
  | [] => []
  | L x :: s' => x :: projL s'
  | R _ :: s' => projL s'
  | B l _ :: s' => l :: projL s'
  end.
Fixpoint projR {A} (s : list (dres A)) : list A :=
  match s with
  | [] => []
  | L _ :: s' => projR s'
  | R x :: s' => x :: projR s'
  | B _ r :: s' => r :: projR s'
  end.
Definition is_both {A} (d : dres A) : bool := match d with B _ _ => true | _ => false end.
Definition both_eq {A} (s : list (dres A)) : Prop :=
  forall l r, In (B l r) s -> l = r.

(* ------------------------------------------------------------------ *)
(* diff::iter *)
Section Iter.
Variable A : Type.
Variable eqb : A -> A -> bool.

Fixpoint common_prefix_len (a b : list A) : nat :=
  match a, b with
  | x :: a', y :: b' => if eqb x y then S (common_prefix_len a' b') else 0
  | _, _ => 0
  end.

(* one row of the LCS table: [prev] is row i from column j on, [left_val] is
   the new row's column j; result is the new row from column j+1 on *)
Fixpoint next_row (l : A) (rs : list A) (prev : list nat) (left_val : nat) : list nat :=
  match rs, prev with
  | r :: rs', pj :: ((pj1 :: _) as prev') =>
      let v := if eqb l r then S pj else Nat.max pj1 left_val in
      v :: next_row l rs' prev' v
  | _, _ => []
  end.
Definition row_after (rs : list A) (prev : list nat) (l : A) : list nat :=
  0 :: next_row l rs prev 0.

Fixpoint rows (ls rs : list A) (prev : list nat) : list (list nat) :=
  match ls with
  | [] => [prev]
  | l :: ls' => prev :: rows ls' rs (row_after rs prev l)
  end.
Definition table (ls rs : list A) : list (list nat) := rows ls rs (repeat 0 (S (length rs))).
Definition tget (t : list (list nat)) (i j : nat) : nat := nth j (nth i t []) 0.

(* the backtracking loop; [li], [ri] are the not yet consumed prefixes,
   reversed (i = length li, j = length ri); output in push order *)
Fixpoint backtrack (t : list (list nat)) (li : list A) : list A -> list (dres A) :=
  fix bt (ri : list A) : list (dres A) :=
    let i := length li in
    let j := length ri in
    match ri with
    | r :: ri' =>
        match li with
        | [] => R r :: bt ri'
        | l :: li' =>
            if Nat.eqb (tget t i j) (tget t i (j - 1)) then R r :: bt ri'
            else if Nat.eqb (tget t i j) (tget t (i - 1) j) then L l :: backtrack t li' ri
            else B l r :: backtrack t li' ri'
        end
    | [] =>
        match li with
        | [] => []
        | l :: li' => L l :: backtrack t li' []
        end
    end.

Definition zipB (a b : list A) : list (dres A) := map (fun p => B (fst p) (snd p)) (combine a b).

Definition diff_iter (a b : list A) : list (dres A) :=
  let lc := length a in
  let rc := length b in
  let mn := Nat.min lc rc in
  let lead := common_prefix_len a b in
  let trail := common_prefix_len (firstn (mn - lead) (rev a)) (firstn (mn - lead) (rev b)) in
  let lds := lc - lead - trail in
  let rds := rc - lead - trail in
  let lmid := firstn lds (skipn lead a) in
  let rmid := firstn rds (skipn lead b) in
  let t := table lmid rmid in
  zipB (firstn lead a) (firstn lead b)
  ++ rev (backtrack t (rev lmid) (rev rmid))
  ++ zipB (skipn (lead + lds) a) (skipn (lead + rds) b).
End Iter.

(* diff::lines *)
Definition dlines (t : text) : list text :=
  str_lines t ++ (if ends_with_lf t then [[]] else []).

Definition diff_lines (a b : text) : list (dres text) :=
  diff_iter eqb_text (str_lines a) (str_lines b)
  ++ (match ends_with_lf a, ends_with_lf b with
      | true, true => [B [] []]
      | true, false => [L []]
      | false, true => [R []]
      | false, false => []
      end).

(* ------------------------------------------------------------------ *)
(* make_diff *)
Inductive dline (A : Type) : Type :=
| Ctx (x : A)          (* DiffLine::Context   *)
| Exp (x : A)          (* DiffLine::Expected  : only in the formatted text *)
| Res (x : A).         (* DiffLine::Resulting : only in the original text  *)
Arguments Ctx {A} x.
Arguments Exp {A} x.
Arguments Res {A} x.

Record mismatch (A : Type) : Type := MkMM {
  mm_line : nat;        (* line_number       (formatted text) *)
  mm_orig : nat;        (* line_number_orig  (original text)  *)
  mm_lines : list (dline A)
}.
Arguments MkMM {A}.

Definition mm_add {A} (m : mismatch A) (ls : list (dline A)) : mismatch A :=
  MkMM (mm_line m) (mm_orig m) (mm_lines m ++ ls).

Section MakeDiff.
Variable A : Type.
Variable ctx : nat.     (* context_size *)

(* the loop of make_diff; emits each mismatch when the code pushes it to
   `results` (the last one at the end).  ln / lo = line_number /
   line_number_orig, q = context_queue, lsm = lines_since_mismatch,
   cur = mismatch *)
Fixpoint go (ln lo : nat) (q : list A) (lsm : nat) (cur : mismatch A)
            (s : list (dres A)) : list (mismatch A) :=
  match s with
  | [] => [cur]
  | L x :: s' =>
      let new := map Ctx q ++ [Res x] in
      if Nat.leb ctx lsm && Nat.ltb 0 lsm
      then cur :: go ln (S lo) [] 0 (MkMM (ln - length q) (lo - length q) new) s'
      else go ln (S lo) [] 0 (mm_add cur new) s'
  | R x :: s' =>
      let new := map Ctx q ++ [Exp x] in
      if Nat.leb ctx lsm && Nat.ltb 0 lsm
      then cur :: go (S ln) lo [] 0 (MkMM (ln - length q) (lo - length q) new) s'
      else go (S ln) lo [] 0 (mm_add cur new) s'
  | B x _ :: s' =>
      let q1 := if Nat.leb ctx (length q) then tl q else q in
      if Nat.ltb lsm ctx
      then go (S ln) (S lo) q1 (S lsm) (mm_add cur [Ctx x]) s'
      else go (S ln) (S lo) (if Nat.ltb 0 ctx then q1 ++ [x] else q1) (S lsm) cur s'
  end.

(* results.push(mismatch); results.remove(0) *)
Definition make_diff (s : list (dres A)) : list (mismatch A) :=
  tl (go 1 1 [] (S ctx) (MkMM 0 0 []) s).
End MakeDiff.

(* ------------------------------------------------------------------ *)
(* ModifiedLines *)
Record chunk (A : Type) : Type := MkChunk {
  ch_orig : nat;        (* line_number_orig *)
  ch_removed : nat;     (* lines_removed    *)
  ch_lines : list A     (* lines            *)
}.
Arguments MkChunk {A}.

Definition is_res {A} (d : dline A) : bool := match d with Res _ => true | _ => false end.
Fixpoint exp_lines {A} (ls : list (dline A)) : list A :=
  match ls with
  | [] => []
  | Exp x :: ls' => x :: exp_lines ls'
  | _ :: ls' => exp_lines ls'
  end.
Fixpoint res_lines {A} (ls : list (dline A)) : list A :=
  match ls with
  | [] => []
  | Res x :: ls' => x :: res_lines ls'
  | _ :: ls' => res_lines ls'
  end.

Definition chunk_of {A} (m : mismatch A) : chunk A :=
  MkChunk (mm_orig m) (length (filter is_res (mm_lines m))) (exp_lines (mm_lines m)).
Definition modified_lines {A} (ms : list (mismatch A)) : list (chunk A) := map chunk_of ms.

(* What a consumer of the report does: replace [ch_removed] lines starting at
   1-based line [ch_orig] of the original by [ch_lines], chunk after chunk.
   [pos] is the 1-based number of the first line of [rest]. *)
Fixpoint apply_chunks {A} (pos : nat) (rest : list A) (cs : list (chunk A)) : option (list A) :=
  match cs with
  | [] => Some rest
  | c :: cs' =>
      if Nat.ltb (ch_orig c) pos then None
      else
        let k := ch_orig c - pos in
        if Nat.ltb (length rest) (k + ch_removed c) then None
        else
          match apply_chunks (ch_orig c + ch_removed c) (skipn (k + ch_removed c) rest) cs' with
          | Some tail => Some (firstn k rest ++ ch_lines c ++ tail)
          | None => None
          end
  end.

(* ------------------------------------------------------------------ *)
(* json: MismatchedBlock *)
Record jblock (A : Type) : Type := MkJ {
  j_obegin : nat; j_oend : nat; j_ebegin : nat; j_eend : nat;
  j_original : list A;   (* each followed by '\n' in the string *)
  j_expected : list A
}.
Arguments MkJ {A}.

(* the loop over mismatch.lines: (original_end_line, counter) *)
Fixpoint jscan {A} (ls : list (dline A)) (ob oe oc eb ee ec : nat) : nat * nat :=
  match ls with
  | [] => (oe, ee)
  | Exp _ :: ls' => jscan ls' ob oe oc eb (eb + ec) (S ec)
  | Res _ :: ls' => jscan ls' ob (ob + oc) (S oc) eb ee ec
  | Ctx _ :: ls' => jscan ls' ob oe oc eb ee ec
  end.
Definition json_block {A} (m : mismatch A) : jblock A :=
  let ob := mm_orig m in
  let eb := mm_line m in
  let '(oe, ee) := jscan (mm_lines m) ob ob 0 eb eb 0 in
  MkJ ob oe eb ee (res_lines (mm_lines m)) (exp_lines (mm_lines m)).
Definition json_blocks {A} (ms : list (mismatch A)) : list (jblock A) := map json_block ms.

(* checkstyle: (line, message) per Expected line *)
Fixpoint cs_scan {A} (ls : list (dline A)) (begin counter : nat) : list (nat * A) :=
  match ls with
  | [] => []
  | Exp x :: ls' => (begin + counter, x) :: cs_scan ls' begin (S counter)
  | _ :: ls' => cs_scan ls' begin counter
  end.
Definition checkstyle_errors {A} (ms : list (mismatch A)) : list (nat * A) :=
  concat (map (fun m => cs_scan (mm_lines m) (mm_line m) 0) ms).

(* XmlEscaped *)
Local Open Scope N_scope.
Definition xml_escape_char (c : char) : text :=
  if c =? 60 then [38; 108; 116; 59]                (* <  &lt;   *)
  else if c =? 62 then [38; 103; 116; 59]           (* >  &gt;   *)
  else if c =? 34 then [38; 113; 117; 111; 116; 59] (* dquote  &quot; *)
  else if c =? 39 then [38; 97; 112; 111; 115; 59]  (* squote  &apos; *)
  else if c =? 38 then [38; 97; 109; 112; 59]       (* &  &amp;  *)
  else [c].
Definition xml_escape (t : text) : text := concat (map xml_escape_char t).

(* an unescaper for exactly these five entities (used to state that escaping loses nothing) *)
Fixpoint xml_unescape (t : text) : text :=
  match t with
  | [] => []
  | c :: t' =>
      if c =? 38 then
        match t' with
        | 108 :: 116 :: 59 :: r => 60 :: xml_unescape r
        | 103 :: 116 :: 59 :: r => 62 :: xml_unescape r
        | 113 :: 117 :: 111 :: 116 :: 59 :: r => 34 :: xml_unescape r
        | 97 :: 112 :: 111 :: 115 :: 59 :: r => 39 :: xml_unescape r
        | 97 :: 109 :: 112 :: 59 :: r => 38 :: xml_unescape r
        | _ => c :: xml_unescape t'
        end
      else c :: xml_unescape t'
  end.

(* well-formedness of an XML attribute value delimited by double quotes: no raw
   '<', no raw double quote, every '&' starts one of the five predefined entities *)
Fixpoint wf_attr (t : text) : bool :=
  match t with
  | [] => true
  | c :: t' =>
      if c =? 38 then
        match t' with
        | 108 :: 116 :: 59 :: r => wf_attr r
        | 103 :: 116 :: 59 :: r => wf_attr r
        | 113 :: 117 :: 111 :: 116 :: 59 :: r => wf_attr r
        | 97 :: 112 :: 111 :: 115 :: 59 :: r => wf_attr r
        | 97 :: 109 :: 112 :: 59 :: r => wf_attr r
        | _ => false
        end
      else if (c =? 60) || (c =? 34) then false else wf_attr t'
  end.

(* characters that have no representation at all in an XML 1.0 document *)
Definition xml_forbidden (c : char) : bool :=
  (c <? 32) && negb (c =? 9) && negb (c =? 10) && negb (c =? 13) || (c =? 65534) || (c =? 65535).
Local Close Scope N_scope.

(* ------------------------------------------------------------------ *)
(* entry points used by the correspondence run *)
Definition impl_make_diff (ctx : nat) (a b : text) : list (mismatch text) :=
  make_diff ctx (diff_lines a b).
Definition impl_modified_lines (a b : text) : list (chunk text) :=
  modified_lines (impl_make_diff 0 a b).
