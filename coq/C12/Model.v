(* C12/Model.v — executable model of rustfmt's diff-based reports.
   Sources modelled:
     diff-0.1.12/src/lib.rs        iter, lines            (diff_iter, diff_lines)
     src/rustfmt_diff.rs:183-258   make_diff              (go, make_diff)
     src/rustfmt_diff.rs:54-80     ModifiedLines::from    (modified_lines)
     src/rustfmt_diff.rs:82-144    Display / FromStr      (print_modified, parse_modified, parse_modified_pre)
     src/emitter/json.rs:55-100    add_misformatted_file  (json_blocks)
     src/emitter/checkstyle.rs     output_checkstyle_file (checkstyle_errors)
     src/emitter/checkstyle/xml.rs XmlEscaped             (xml_escape)
   Definitions only; proofs are in Lemmas.v. *)
From V Require Import Base.Text.
Local Open Scope nat_scope.

Set Implicit Arguments.

(* ------------------------------------------------------------------ *)
(* diff::Result *)
Inductive dres (A : Type) : Type :=
| L (x : A)            (* only in the left (original) sequence  *)
| R (x : A)            (* only in the right (formatted) sequence *)
| B (l r : A).         (* in both; the two (equal) elements      *)
Arguments L {A} x.
Arguments R {A} x.
Arguments B {A} l r.

Fixpoint projL {A} (s : list (dres A)) : list A :=
  match s with
  | [] => []
  | L x :: s' => x :: projL s'
  | R _ :: s' => projL s'
  | B l _ :: s' => l :: projL s'
  end.
Fixpoint projR {A} (s : list (dres A)) : list A :=
  match s with
  | [] => []
  | L _ :: s' => projR s'
  | R x :: s' => x :: projR s'
  | B _ r :: s' => r :: projR s'
  end.
Definition is_both {A} (d : dres A) : bool := match d with B _ _ => true | _ => false end.
Definition both_eq {A} (s : list (dres A)) : Prop :=
  forall l r, In (B l r) s -> l = r.

(* ------------------------------------------------------------------ *)
(* diff::iter *)
Section Iter.
Variable A : Type.
Variable eqb : A -> A -> bool.

Fixpoint common_prefix_len (a b : list A) : nat :=
  match a, b with
  | x :: a', y :: b' => if eqb x y then S (common_prefix_len a' b') else 0
  | _, _ => 0
  end.

(* one row of the LCS table: [prev] is row i from column j on, [left_val] is
   the new row's column j; result is the new row from column j+1 on *)
Fixpoint next_row (l : A) (rs : list A) (prev : list nat) (left_val : nat) : list nat :=
  match rs, prev with
  | r :: rs', pj :: ((pj1 :: _) as prev') =>
      let v := if eqb l r then S pj else Nat.max pj1 left_val in
      v :: next_row l rs' prev' v
  | _, _ => []
  end.
Definition row_after (rs : list A) (prev : list nat) (l : A) : list nat :=
  0 :: next_row l rs prev 0.

Fixpoint rows (ls rs : list A) (prev : list nat) : list (list nat) :=
  match ls with
  | [] => [prev]
  | l :: ls' => prev :: rows ls' rs (row_after rs prev l)
  end.
Definition table (ls rs : list A) : list (list nat) := rows ls rs (repeat 0 (S (length rs))).
Definition tget (t : list (list nat)) (i j : nat) : nat := nth j (nth i t []) 0.

(* the backtracking loop; [li], [ri] are the not yet consumed prefixes,
   reversed (i = length li, j = length ri); output in push order *)
Fixpoint backtrack (t : list (list nat)) (li : list A) : list A -> list (dres A) :=
  fix bt (ri : list A) : list (dres A) :=
    let i := length li in
    let j := length ri in
    match ri with
    | r :: ri' =>
        match li with
        | [] => R r :: bt ri'
        | l :: li' =>
            if Nat.eqb (tget t i j) (tget t i (j - 1)) then R r :: bt ri'
            else if Nat.eqb (tget t i j) (tget t (i - 1) j) then L l :: backtrack t li' ri
            else B l r :: backtrack t li' ri'
        end
    | [] =>
        match li with
        | [] => []
        | l :: li' => L l :: backtrack t li' []
        end
    end.

Definition zipB (a b : list A) : list (dres A) := map (fun p => B (fst p) (snd p)) (combine a b).

Definition diff_iter (a b : list A) : list (dres A) :=
  let lc := length a in
  let rc := length b in
  let mn := Nat.min lc rc in
  let lead := common_prefix_len a b in
  let trail := common_prefix_len (firstn (mn - lead) (rev a)) (firstn (mn - lead) (rev b)) in
  let lds := lc - lead - trail in
  let rds := rc - lead - trail in
  let lmid := firstn lds (skipn lead a) in
  let rmid := firstn rds (skipn lead b) in
  let t := table lmid rmid in
  zipB (firstn lead a) (firstn lead b)
  ++ rev (backtrack t (rev lmid) (rev rmid))
  ++ zipB (skipn (lead + lds) a) (skipn (lead + rds) b).
End Iter.

(* diff::lines *)
Definition dlines (t : text) : list text :=
  str_lines t ++ (if ends_with_lf t then [[]] else []).

Definition diff_lines (a b : text) : list (dres text) :=
  diff_iter eqb_text (str_lines a) (str_lines b)
  ++ (match ends_with_lf a, ends_with_lf b with
      | true, true => [B [] []]
      | true, false => [L []]
      | false, true => [R []]
      | false, false => []
      end).

(* ------------------------------------------------------------------ *)
(* make_diff *)
Inductive dline (A : Type) : Type :=
| Ctx (x : A)          (* DiffLine::Context   *)
| Exp (x : A)          (* DiffLine::Expected  : only in the formatted text *)
| Res (x : A).         (* DiffLine::Resulting : only in the original text  *)
Arguments Ctx {A} x.
Arguments Exp {A} x.
Arguments Res {A} x.

Record mismatch (A : Type) : Type := MkMM {
  mm_line : nat;        (* line_number       (formatted text) *)
  mm_orig : nat;        (* line_number_orig  (original text)  *)
  mm_lines : list (dline A)
}.
Arguments MkMM {A}.

Definition mm_add {A} (m : mismatch A) (ls : list (dline A)) : mismatch A :=
  MkMM (mm_line m) (mm_orig m) (mm_lines m ++ ls).

Section MakeDiff.
Variable A : Type.
Variable ctx : nat.     (* context_size *)

(* the loop of make_diff; emits each mismatch when the code pushes it to
   `results` (the last one at the end).  ln / lo = line_number /
   line_number_orig, q = context_queue, lsm = lines_since_mismatch,
   cur = mismatch *)
Fixpoint go (ln lo : nat) (q : list A) (lsm : nat) (cur : mismatch A)
            (s : list (dres A)) : list (mismatch A) :=
  match s with
  | [] => [cur]
  | L x :: s' =>
      let new := map Ctx q ++ [Res x] in
      if Nat.leb ctx lsm && Nat.ltb 0 lsm
      then cur :: go ln (S lo) [] 0 (MkMM (ln - length q) (lo - length q) new) s'
      else go ln (S lo) [] 0 (mm_add cur new) s'
  | R x :: s' =>
      let new := map Ctx q ++ [Exp x] in
      if Nat.leb ctx lsm && Nat.ltb 0 lsm
      then cur :: go (S ln) lo [] 0 (MkMM (ln - length q) (lo - length q) new) s'
      else go (S ln) lo [] 0 (mm_add cur new) s'
  | B x _ :: s' =>
      let q1 := if Nat.leb ctx (length q) then tl q else q in
      if Nat.ltb lsm ctx
      then go (S ln) (S lo) q1 (S lsm) (mm_add cur [Ctx x]) s'
      else go (S ln) (S lo) (if Nat.ltb 0 ctx then q1 ++ [x] else q1) (S lsm) cur s'
  end.

(* results.push(mismatch); results.remove(0) *)
Definition make_diff (s : list (dres A)) : list (mismatch A) :=
  tl (go 1 1 [] (S ctx) (MkMM 0 0 []) s).
End MakeDiff.

(* ------------------------------------------------------------------ *)
(* ModifiedLines *)
Record chunk (A : Type) : Type := MkChunk {
  ch_orig : nat;        (* line_number_orig *)
  ch_removed : nat;     (* lines_removed    *)
  ch_lines : list A     (* lines            *)
}.
Arguments MkChunk {A}.

Definition is_res {A} (d : dline A) : bool := match d with Res _ => true | _ => false end.
Fixpoint exp_lines {A} (ls : list (dline A)) : list A :=
  match ls with
  | [] => []
  | Exp x :: ls' => x :: exp_lines ls'
  | _ :: ls' => exp_lines ls'
  end.
Fixpoint res_lines {A} (ls : list (dline A)) : list A :=
  match ls with
  | [] => []
  | Res x :: ls' => x :: res_lines ls'
  | _ :: ls' => res_lines ls'
  end.

Definition chunk_of {A} (m : mismatch A) : chunk A :=
  MkChunk (mm_orig m) (length (filter is_res (mm_lines m))) (exp_lines (mm_lines m)).
Definition modified_lines {A} (ms : list (mismatch A)) : list (chunk A) := map chunk_of ms.

(* What a consumer of the report does: replace [ch_removed] lines starting at
   1-based line [ch_orig] of the original by [ch_lines], chunk after chunk.
   [pos] is the 1-based number of the first line of [rest]. *)
Fixpoint apply_chunks {A} (pos : nat) (rest : list A) (cs : list (chunk A)) : option (list A) :=
  match cs with
  | [] => Some rest
  | c :: cs' =>
      if Nat.ltb (ch_orig c) pos then None
      else
        let k := ch_orig c - pos in
        if Nat.ltb (length rest) (k + ch_removed c) then None
        else
          match apply_chunks (ch_orig c + ch_removed c) (skipn (k + ch_removed c) rest) cs' with
          | Some tail => Some (firstn k rest ++ ch_lines c ++ tail)
          | None => None
          end
  end.

(* ------------------------------------------------------------------ *)
(* json: MismatchedBlock *)
Record jblock (A : Type) : Type := MkJ {
  j_obegin : nat; j_oend : nat; j_ebegin : nat; j_eend : nat;
  j_original : list A;   (* each followed by '\n' in the string *)
  j_expected : list A
}.
Arguments MkJ {A}.

(* the loop over mismatch.lines: (original_end_line, counter) *)
Fixpoint jscan {A} (ls : list (dline A)) (ob oe oc eb ee ec : nat) : nat * nat :=
  match ls with
  | [] => (oe, ee)
  | Exp _ :: ls' => jscan ls' ob oe oc eb (eb + ec) (S ec)
  | Res _ :: ls' => jscan ls' ob (ob + oc) (S oc) eb ee ec
  | Ctx _ :: ls' => jscan ls' ob oe oc eb ee ec
  end.
Definition json_block {A} (m : mismatch A) : jblock A :=
  let ob := mm_orig m in
  let eb := mm_line m in
  let '(oe, ee) := jscan (mm_lines m) ob ob 0 eb eb 0 in
  MkJ ob oe eb ee (res_lines (mm_lines m)) (exp_lines (mm_lines m)).
Definition json_blocks {A} (ms : list (mismatch A)) : list (jblock A) := map json_block ms.

(* checkstyle: (line, message) per Expected line *)
Fixpoint cs_scan {A} (ls : list (dline A)) (begin counter : nat) : list (nat * A) :=
  match ls with
  | [] => []
  | Exp x :: ls' => (begin + counter, x) :: cs_scan ls' begin (S counter)
  | _ :: ls' => cs_scan ls' begin counter
  end.
Definition checkstyle_errors {A} (ms : list (mismatch A)) : list (nat * A) :=
  concat (map (fun m => cs_scan (mm_lines m) (mm_line m) 0) ms).

(* XmlEscaped *)
Local Open Scope N_scope.
Definition xml_escape_char (c : char) : text :=
  if c =? 60 then [38; 108; 116; 59]                (* <  &lt;   *)
  else if c =? 62 then [38; 103; 116; 59]           (* >  &gt;   *)
  else if c =? 34 then [38; 113; 117; 111; 116; 59] (* dquote  &quot; *)
  else if c =? 39 then [38; 97; 112; 111; 115; 59]  (* squote  &apos; *)
  else if c =? 38 then [38; 97; 109; 112; 59]       (* &  &amp;  *)
  else [c].
Definition xml_escape (t : text) : text := concat (map xml_escape_char t).

(* an unescaper for exactly these five entities (used to state that escaping loses nothing) *)
Fixpoint xml_unescape (t : text) : text :=
  match t with
  | [] => []
  | c :: t' =>
      if c =? 38 then
        match t' with
        | 108 :: 116 :: 59 :: r => 60 :: xml_unescape r
        | 103 :: 116 :: 59 :: r => 62 :: xml_unescape r
        | 113 :: 117 :: 111 :: 116 :: 59 :: r => 34 :: xml_unescape r
        | 97 :: 112 :: 111 :: 115 :: 59 :: r => 39 :: xml_unescape r
        | 97 :: 109 :: 112 :: 59 :: r => 38 :: xml_unescape r
        | _ => c :: xml_unescape t'
        end
      else c :: xml_unescape t'
  end.

(* well-formedness of an XML attribute value delimited by double quotes: no raw
   '<', no raw double quote, every '&' starts one of the five predefined entities *)
Fixpoint wf_attr (t : text) : bool :=
  match t with
  | [] => true
  | c :: t' =>
      if c =? 38 then
        match t' with
        | 108 :: 116 :: 59 :: r => wf_attr r
        | 103 :: 116 :: 59 :: r => wf_attr r
        | 113 :: 117 :: 111 :: 116 :: 59 :: r => wf_attr r
        | 97 :: 112 :: 111 :: 115 :: 59 :: r => wf_attr r
        | 97 :: 109 :: 112 :: 59 :: r => wf_attr r
        | _ => false
        end
      else if (c =? 60) || (c =? 34) then false else wf_attr t'
  end.

(* characters that have no representation at all in an XML 1.0 document *)
Definition xml_forbidden (c : char) : bool :=
  (c <? 32) && negb (c =? 9) && negb (c =? 10) && negb (c =? 13) || (c =? 65534) || (c =? 65535).
Local Close Scope N_scope.

(* ------------------------------------------------------------------ *)
(* ModifiedLines: Display / FromStr   src/rustfmt_diff.rs:82-144 *)
Local Open Scope N_scope.

(* src/rustfmt_diff.rs:37-45 ModifiedChunk, with the two u32 fields as N: a value of the Rust type has
   mc_orig, mc_removed <= U32_MAX and (Vec) length mc_lines <= USIZE_MAX; a String may contain any scalar,
   LF and CR included *)
Record mchunk : Type := MkMC { mc_orig : N; mc_removed : N; mc_lines : list text }.
Definition mchunk_of (c : chunk text) : mchunk :=
  MkMC (N.of_nat (ch_orig c)) (N.of_nat (ch_removed c)) (ch_lines c).

Definition U32_MAX : N := 4294967295.
Definition USIZE_MAX : N := 18446744073709551615.    (* 64-bit target *)

(* core::fmt::Display for u32 / usize (library/core/src/fmt/num.rs): decimal digits produced least significant
   first into the end of a buffer; no sign, no leading zero, a single 0 for zero *)
Fixpoint le_digits (fuel : nat) (n : N) : text :=
  match fuel with
  | O => []
  | S f => (48 + n mod 10) :: (if n / 10 =? 0 then [] else le_digits f (n / 10))
  end.
Definition dec (n : N) : text := rev (le_digits (S (N.size_nat n)) n).

(* src/rustfmt_diff.rs:88-105 <ModifiedLines as Display>::fmt: per chunk
   writeln!(f, "{} {} {}", line_number_orig, lines_removed, lines.len()) then writeln!(f, "{line}") per line *)
Definition print_header (c : mchunk) : text :=
  dec (mc_orig c) ++ [SP] ++ dec (mc_removed c) ++ [SP] ++ dec (N.of_nat (length (mc_lines c))).
Definition print_chunk (c : mchunk) : text :=
  print_header c ++ [LF] ++ unlines (mc_lines c).
Definition print_modified (cs : list mchunk) : text := concat (map print_chunk cs).

(* str::split_terminator('\n'): the pieces between LFs; a final empty piece is dropped (so the empty text
   has no piece); nothing else is stripped, a CR before the LF stays *)
Fixpoint split_term_aux (cur : text) (t : text) : list text :=
  match t with
  | [] => match cur with [] => [] | _ => [rev cur] end
  | c :: t' => if is_lf c then rev cur :: split_term_aux [] t'
               else split_term_aux (c :: cur) t'
  end.
Definition split_terminator (t : text) : list text := split_term_aux [] t.

(* str::split_whitespace: maximal runs of non-White_Space scalars *)
Fixpoint split_ws_aux (cur : text) (t : text) : list text :=
  match t with
  | [] => match cur with [] => [] | _ => [rev cur] end
  | c :: t' => if is_whitespace c
               then match cur with [] => split_ws_aux [] t' | _ => rev cur :: split_ws_aux [] t' end
               else split_ws_aux (c :: cur) t'
  end.
Definition split_whitespace (t : text) : list text := split_ws_aux [] t.

(* <u32 as FromStr> / <usize as FromStr> = from_str_radix(src, 10)  (library/core/src/num/mod.rs
   from_ascii_radix): Empty -> Err; a lone '+' -> Err; one leading '+' is skipped ('-' is not, for an
   unsigned type, and then fails as an invalid digit); every remaining byte must be an ASCII digit (a
   non-ASCII scalar is bytes >= 128, none a digit); result = result*10 + digit with checked arithmetic.
   The partial results never decrease, so an overflow happens somewhere iff the final value exceeds [max];
   the kind of error is not observable (FromStr for ModifiedLines maps every failure to Err(())). *)
Definition is_dec_digit (c : char) : bool := (48 <=? c) && (c <=? 57).
Fixpoint digits_val (acc : N) (s : text) : option N :=
  match s with
  | [] => Some acc
  | c :: s' => if is_dec_digit c then digits_val (acc * 10 + (c - 48)) s' else None
  end.
Definition bounded (max : N) (o : option N) : option N :=
  match o with
  | Some v => if v <=? max then Some v else None
  | None => None
  end.
Definition parse_uint (max : N) (s : text) : option N :=
  match s with
  | [] => None
  | c :: rest =>
      if c =? 43 then match rest with [] => None | _ => bounded max (digits_val 0 rest) end
      else bounded max (digits_val 0 s)
  end.

(* src/rustfmt_diff.rs:118-127: the first three whitespace-separated words of the header line (further words
   are ignored), parsed as (u32, u32, usize) *)
Definition parse_header (h : text) : option (N * N * N) :=
  match split_whitespace h with
  | o :: r :: a :: _ =>
      match parse_uint U32_MAX o, parse_uint U32_MAX r, parse_uint USIZE_MAX a with
      | Some orig, Some rem, Some new_lines => Some (orig, rem, new_lines)
      | _, _, _ => None
      end
  | _ => None
  end.

(* lines.by_ref().take(new_lines): (the items taken, what is left in the iterator) *)
Fixpoint take_lines (n : N) (ls : list text) : list text * list text :=
  match ls with
  | [] => ([], [])
  | l :: ls' => if n =? 0 then ([], ls)
                else let (a, b) := take_lines (N.pred n) ls' in (l :: a, b)
  end.

(* result of from_str: Ok / Err(()) / PDiverge = the `while let` loop did not finish within [fuel]
   iterations (theorem parse_total: never, with fuel = number of lines).  No operation of from_str can
   panic (no indexing, no arithmetic, no unwrap), so there is no panic value. *)
Inductive pres : Type := POk (cs : list mchunk) | PErr | PDiverge.

(* src/rustfmt_diff.rs:116-141 the `while let Some(header) = lines.next()` loop; [chunks] is the vector *)
Fixpoint parse_loop (fuel : nat) (ls : list text) (chunks : list mchunk) : pres :=
  match ls with
  | [] => POk chunks
  | header :: rest =>
      match fuel with
      | O => PDiverge
      | S f =>
          match parse_header header with
          | None => PErr
          | Some (orig, rem, new_lines) =>
              let (lines, rest') := take_lines new_lines rest in
              if N.of_nat (length lines) =? new_lines
              then parse_loop f rest' (chunks ++ [MkMC orig rem lines])
              else PErr
          end
      end
  end.

Definition parse_lines_res (ls : list text) : pres := parse_loop (length ls) ls [].
Definition opt_of_pres (r : pres) : option (list mchunk) :=
  match r with POk cs => Some cs | _ => None end.

(* src/rustfmt_diff.rs:110-143 <ModifiedLines as FromStr>::from_str as it is now (after 686d4f4) *)
Definition parse_modified_res (t : text) : pres := parse_lines_res (split_terminator t).
Definition parse_modified (t : text) : option (list mchunk) := opt_of_pres (parse_modified_res t).

(* the same before 686d4f4: `let mut lines = s.lines();` *)
Definition parse_modified_pre_res (t : text) : pres := parse_lines_res (str_lines t).
Definition parse_modified_pre (t : text) : option (list mchunk) := opt_of_pres (parse_modified_pre_res t).
Local Close Scope N_scope.

(* ------------------------------------------------------------------ *)
(* entry points used by the correspondence run *)
Definition impl_make_diff (ctx : nat) (a b : text) : list (mismatch text) :=
  make_diff ctx (diff_lines a b).
Definition impl_modified_lines (a b : text) : list (chunk text) :=
  modified_lines (impl_make_diff 0 a b).
