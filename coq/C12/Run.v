(* C12/Run.v — encodings of model results for the correspondence run *)
From V Require Import Base.Text C12.Model.
Open Scope N_scope.

Definition enc_dl (d : dline text) : N * text :=
  match d with Ctx x => (0, x) | Exp x => (1, x) | Res x => (2, x) end.
Definition enc_mm (m : mismatch text) :=
  (N.of_nat (mm_line m), N.of_nat (mm_orig m), map enc_dl (mm_lines m)).
Definition enc_dres (d : dres text) : N * text :=
  match d with L x => (0, x) | B x _ => (1, x) | R x => (2, x) end.
Definition enc_ch (c : chunk text) := (N.of_nat (ch_orig c), N.of_nat (ch_removed c), ch_lines c).
Definition enc_j (j : jblock text) :=
  (N.of_nat (j_obegin j), N.of_nat (j_oend j), N.of_nat (j_ebegin j), N.of_nat (j_eend j),
   concat (map (fun l => l ++ [LF]) (j_original j)), concat (map (fun l => l ++ [LF]) (j_expected j))).
Definition enc_cs (p : nat * text) := (N.of_nat (fst p), xml_escape (snd p)).

Definition case (ctx : N) (a b : text) :=
  let ms := impl_make_diff (N.to_nat ctx) a b in
  let m0 := impl_make_diff 0 a b in
  (map enc_dres (diff_lines a b), map enc_mm ms, map enc_ch (modified_lines m0),
   map enc_j (json_blocks m0), map enc_cs (checkstyle_errors m0)).

(* ModifiedLines Display / FromStr: a chunk is (line_number_orig, lines_removed, lines) *)
Definition dec_mc (c : N * N * list text) : mchunk := let '(o, r, ls) := c in MkMC o r ls.
Definition enc_mc (c : mchunk) : N * N * list text := (mc_orig c, mc_removed c, mc_lines c).
Definition run_print_modified (cs : list (N * N * list text)) : text := print_modified (map dec_mc cs).
Definition run_parse_modified (t : text) : option (list (N * N * list text)) :=
  option_map (map enc_mc) (parse_modified t).
(* one correspondence case: Display of [cs], FromStr of that, FromStr of [t] *)
Definition pp_case (cs : list (N * N * list text)) (t : text) :=
  (run_print_modified cs, run_parse_modified (run_print_modified cs), run_parse_modified t).
