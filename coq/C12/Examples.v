(* C12/Examples.v — non-vacuity: the hypotheses of the C12 theorems are met by non-trivial values *)
From V Require Import Base.Text C12.Model C12.Lemmas.
Local Open Scope N_scope.

(* "x\ny\nz\n" vs "x\nw\nz\n" *)
Definition ta : text := [120; 10; 121; 10; 122; 10].
Definition tb : text := [120; 10; 119; 10; 122; 10].

Example script_nontrivial :
  diff_lines ta tb = [B [120] [120]; L [121]; R [119]; B [122] [122]; B [] []].
Proof. vm_compute. reflexivity. Qed.

Example both_eq_holds : both_eq (diff_lines ta tb).
Proof. apply diff_lines_valid. Qed.

Example one_hunk_ctx1 :
  impl_make_diff 1 ta tb = [MkMM 1 1 [Ctx [120]; Res [121]; Exp [119]; Ctx [122]]].
Proof. vm_compute. reflexivity. Qed.

Example one_chunk : impl_modified_lines ta tb = [MkChunk 2 1 [[119]]].
Proof. vm_compute. reflexivity. Qed.

Example reconstructs_here :
  apply_chunks 1 (dlines ta) (impl_modified_lines ta tb) = Some (dlines tb).
Proof. vm_compute. reflexivity. Qed.

Example nonempty_report : impl_make_diff 3 ta tb <> [].
Proof. vm_compute. discriminate. Qed.

Example empty_report_crlf :   (* "a\r\n" vs "a\n": same lines, different bytes *)
  impl_make_diff 3 [97; 13; 10] [97; 10] = [].
Proof. vm_compute. reflexivity. Qed.

Example escape_specials : xml_escape [60; 97; 38; 34] = [38;108;116;59; 97; 38;97;109;112;59; 38;113;117;111;116;59].
Proof. vm_compute. reflexivity. Qed.
