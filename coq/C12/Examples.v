(* C12/Examples.v — non-vacuity: the hypotheses of the C12 theorems are met by non-trivial values *)
From V Require Import Base.Text C12.Model C12.Lemmas.
Local Open Scope N_scope.

(* "x\ny\nz\n" vs "x\nw\nz\n" *)
Definition ta : text := [120; 10; 121; 10; 122; 10].
Definition tb : text := [120; 10; 119; 10; 122; 10].

Example script_nontrivial :
  diff_lines ta tb = [B [120] [120]; L [121]; R [119]; B [122] [122]; B [] []].
Proof. vm_compute. reflexivity. Qed.

Example both_eq_holds : both_eq (diff_lines ta tb).
Proof. apply diff_lines_valid. Qed.

Example one_hunk_ctx1 :
  impl_make_diff 1 ta tb = [MkMM 1 1 [Ctx [120]; Res [121]; Exp [119]; Ctx [122]]].
Proof. vm_compute. reflexivity. Qed.

Example one_chunk : impl_modified_lines ta tb = [MkChunk 2 1 [[119]]].
Proof. vm_compute. reflexivity. Qed.

Example reconstructs_here :
  apply_chunks 1 (dlines ta) (impl_modified_lines ta tb) = Some (dlines tb).
Proof. vm_compute. reflexivity. Qed.

Example nonempty_report : impl_make_diff 3 ta tb <> [].
Proof. vm_compute. discriminate. Qed.

Example empty_report_crlf :   (* "a\r\n" vs "a\n": same lines, different bytes *)
  impl_make_diff 3 [97; 13; 10] [97; 10] = [].
Proof. vm_compute. reflexivity. Qed.

Example escape_specials : xml_escape [60; 97; 38; 34] = [38;108;116;59; 97; 38;97;109;112;59; 38;113;117;111;116;59].
Proof. vm_compute. reflexivity. Qed.

(* ---- ModifiedLines Display / FromStr ---- *)
Ltac solve_nolf := intros Hin; cbn [In] in Hin;
  repeat (destruct Hin as [Hin|Hin]; [discriminate Hin|]); exact Hin.
Ltac solve_wf := repeat constructor; cbn [mc_orig mc_removed mc_lines length];
  try (unfold U32_MAX, USIZE_MAX; lia); try solve_nolf.

(* a report with: a line ending in CR, CR inside a line, an empty line, a digits-only line that looks like a
   header ("2 0 0"), leading / trailing blanks, a two-scalar non-ASCII line, the largest u32, a chunk without lines *)
Definition ex_report : list mchunk :=
  [MkMC 1 6 [[102; 110; 13]; []; [50; 32; 48; 32; 48]; [32; 32; 97; 13; 98; 32]];
   MkMC 4294967295 0 [];
   MkMC 25 3 [[233; 20013]; [13]]].

Example ex_report_wf : WF ex_report.
Proof. unfold ex_report. solve_wf. Qed.

Example ex_report_printed : print_modified ex_report =
  [49;32;54;32;52;10; 102;110;13;10; 10; 50;32;48;32;48;10; 32;32;97;13;98;32;10;
   52;50;57;52;57;54;55;50;57;53;32;48;32;48;10;
   50;53;32;51;32;50;10; 233;20013;10; 13;10].
Proof. vm_compute. reflexivity. Qed.

(* hypothesis of print_parse_roundtrip (and its conclusion, computed) *)
Example ex_report_roundtrip : parse_modified (print_modified ex_report) = Some ex_report.
Proof. vm_compute. reflexivity. Qed.
Example ex_report_roundtrip_by_theorem : parse_modified (print_modified ex_report) = Some ex_report.
Proof. apply print_parse_roundtrip_lemma. exact ex_report_wf. Qed.

(* decimal_roundtrip at the ends of the u32 range; one above is rejected *)
Example dec_max : dec 4294967295 = [52;50;57;52;57;54;55;50;57;53] /\ dec 0 = [48].
Proof. vm_compute. split; reflexivity. Qed.
Example dec_max_parses : parse_uint U32_MAX (dec 4294967295) = Some 4294967295
  /\ parse_uint U32_MAX (dec 4294967296) = None /\ parse_uint USIZE_MAX (dec 4294967296) = Some 4294967296.
Proof. vm_compute. repeat split; reflexivity. Qed.
Example parse_uint_forms :   (* "+7" "007" ok; "+" "-7" "" "7x" "٧" (Arabic-Indic digit) rejected *)
  parse_uint U32_MAX [43; 55] = Some 7 /\ parse_uint U32_MAX [48; 48; 55] = Some 7 /\
  parse_uint U32_MAX [43] = None /\ parse_uint U32_MAX [45; 55] = None /\ parse_uint U32_MAX [] = None /\
  parse_uint U32_MAX [55; 120] = None /\ parse_uint U32_MAX [1639] = None.
Proof. vm_compute. repeat split; reflexivity. Qed.

(* parse_print_parse: the texts of the unit test modified_lines_from_str (src/rustfmt_diff.rs) *)
Definition ut_src : text :=   (* "1 6 2\nfn some() {}\nfn main() {}\n25 3 1\n  struct Test {}" *)
  [49;32;54;32;50;10; 102;110;32;115;111;109;101;40;41;32;123;125;10; 102;110;32;109;97;105;110;40;41;32;123;125;10;
   50;53;32;51;32;49;10; 32;32;115;116;114;117;99;116;32;84;101;115;116;32;123;125].
Example ut_parses : parse_modified ut_src =
  Some [MkMC 1 6 [[102;110;32;115;111;109;101;40;41;32;123;125]; [102;110;32;109;97;105;110;40;41;32;123;125]];
        MkMC 25 3 [[32;32;115;116;114;117;99;116;32;84;101;115;116;32;123;125]]].
Proof. vm_compute. reflexivity. Qed.
Example ut_errs :   (* "1 5 3" and "1 5 3\na\nb" are Err(()) *)
  parse_modified [49;32;53;32;51] = None /\ parse_modified [49;32;53;32;51;10;97;10;98] = None.
Proof. vm_compute. split; reflexivity. Qed.
(* a header may end in CR (White_Space), a reported line keeps its CR *)
Example crlf_report : parse_modified [49;32;48;32;49;13;10; 120;13;10] = Some [MkMC 1 0 [[120; 13]]].
Proof. vm_compute. reflexivity. Qed.

(* parse_total: the three outcomes of the loop; PDiverge needs less fuel than lines *)
Example res_ok : parse_modified_res ut_src <> PErr /\ parse_modified_res [49;32;53;32;51] = PErr.
Proof. vm_compute. split; [discriminate|reflexivity]. Qed.
Example diverge_is_a_real_value : parse_loop 1 [[49;32;48;32;48]; [49;32;48;32;48]] [] = PDiverge.
Proof. vm_compute. reflexivity. Qed.

(* print_of_parse_of_print: hypothesis met with cs' different from cs is impossible (it gives cs' = cs when WF);
   here the premise holds with a report whose lines are LF-free *)
Example pofp_premise : Forall (fun c => Forall nolf (mc_lines c)) ex_report /\
  parse_modified (print_modified ex_report) = Some ex_report.
Proof. split; [apply wf_lines_nolf, ex_report_wf|vm_compute; reflexivity]. Qed.

(* print_injective: two different well-formed reports, different texts *)
Example inj_distinct : WF [MkMC 1 0 [[49]]] /\ WF [MkMC 1 0 []; MkMC 1 0 []] /\
  print_modified [MkMC 1 0 [[49]]] <> print_modified [MkMC 1 0 []; MkMC 1 0 []].
Proof. split; [solve_wf|split; [solve_wf|vm_compute; discriminate]]. Qed.

(* print_parse_pre_roundtrip_partial: CR inside a line is fine for str::lines, CR at the end is not *)
Definition ex_pre : list mchunk := [MkMC 7 2 [[97; 13; 98]; []]].
Example ex_pre_hyps : WF ex_pre /\ Forall (fun c => Forall no_cr_end (mc_lines c)) ex_pre.
Proof.
  split; [unfold ex_pre; solve_wf|].
  repeat constructor; intros l' E.
  - destruct l' as [|x [|y [|z l']]]; try discriminate E. destruct l'; discriminate E.
  - destruct l'; discriminate E.
Qed.
Example ex_pre_roundtrip : parse_modified_pre (print_modified ex_pre) = Some ex_pre.
Proof. vm_compute. reflexivity. Qed.
Example ex_report_pre_loses_cr : parse_modified_pre (print_modified ex_report) <> Some ex_report.
Proof. vm_compute. discriminate. Qed.

(* report_print_parse_roundtrip: "x\ny\n" formatted to "x\r\r\ny\n": the reported line is x CR *)
Definition tc : text := [120; 10; 121; 10].
Definition td : text := [120; 13; 13; 10; 121; 10].
Example report_cr : map mchunk_of (impl_modified_lines tc td) = [MkMC 1 1 [[120; 13]]].
Proof. vm_compute. reflexivity. Qed.
Example report_cr_hyps : N.of_nat (length (dlines tc)) < U32_MAX /\ N.of_nat (length (dlines td)) <= USIZE_MAX.
Proof. vm_compute. split; [reflexivity|discriminate]. Qed.
Example report_cr_survives :
  parse_modified (print_modified (map mchunk_of (impl_modified_lines tc td))) = Some [MkMC 1 1 [[120; 13]]].
Proof. vm_compute. reflexivity. Qed.
