(* C17/Lemmas.v — proofs about the --file-lines range algebra of C17/Model.v *)
From V Require Import Base.Text C17.Model.
From Coq Require Import Permutation Sorted.
Local Open Scope N_scope.

(* ------------------------------------------------------------------ *)
(* Range predicates in arithmetic form *)

Lemma is_empty_true r : is_empty r = true <-> hi r < lo r.
Proof. unfold is_empty. apply N.ltb_lt. Qed.

Lemma is_empty_false r : is_empty r = false <-> lo r <= hi r.
Proof. unfold is_empty. apply N.ltb_ge. Qed.

Lemma intersects_arith a b :
  intersects a b = true <->
  lo a <= hi a /\ lo b <= hi b /\ lo a <= hi b /\ lo b <= hi a.
Proof.
  unfold intersects. destruct (is_empty a) eqn:Ea; cbn [orb].
  - apply is_empty_true in Ea. split; [discriminate | lia].
  - destruct (is_empty b) eqn:Eb.
    + apply is_empty_true in Eb. split; [discriminate | lia].
    + apply is_empty_false in Ea. apply is_empty_false in Eb.
      rewrite orb_true_iff, !andb_true_iff, !N.leb_le. lia.
Qed.

Lemma adjacent_arith a b :
  adjacent_to a b = true <->
  lo a <= hi a /\ lo b <= hi b /\ (hi a + 1 = lo b \/ hi b + 1 = lo a).
Proof.
  unfold adjacent_to. destruct (is_empty a) eqn:Ea; cbn [orb].
  - apply is_empty_true in Ea. split; [discriminate | lia].
  - destruct (is_empty b) eqn:Eb.
    + apply is_empty_true in Eb. split; [discriminate | lia].
    + apply is_empty_false in Ea. apply is_empty_false in Eb.
      rewrite orb_true_iff, !N.eqb_eq. tauto.
Qed.

Lemma contains_arith a b :
  contains a b = true <->
  hi b < lo b \/ (lo a <= hi a /\ lo a <= lo b /\ hi b <= hi a).
Proof.
  unfold contains. destruct (is_empty b) eqn:Eb.
  - apply is_empty_true in Eb. split; [intros _; left; exact Eb | reflexivity].
  - apply is_empty_false in Eb.
    rewrite !andb_true_iff, negb_true_iff, is_empty_false, !N.leb_le. lia.
Qed.

(* the guard of merge, in arithmetic form *)
Definition mergeable (a b : range) : Prop :=
  lo a <= hi a /\ lo b <= hi b /\
  (hi a + 1 = lo b \/ hi b + 1 = lo a \/ (lo a <= hi b /\ lo b <= hi a)).

Lemma mergeable_iff a b :
  mergeable a b <-> adjacent_to a b = true \/ intersects a b = true.
Proof. rewrite adjacent_arith, intersects_arith. unfold mergeable. tauto. Qed.

Lemma merge_some_iff a b c :
  merge a b = Some c <->
  (adjacent_to a b = true \/ intersects a b = true) /\
  c = MkRange (N.min (lo a) (lo b)) (N.max (hi a) (hi b)).
Proof.
  unfold merge. destruct (adjacent_to a b || intersects a b) eqn:E.
  - apply orb_true_iff in E. split.
    + intros H. inversion H. split; [exact E | reflexivity].
    + intros [_ ->]. reflexivity.
  - apply orb_false_iff in E. destruct E as [E1 E2]. split; [discriminate|].
    intros [[H|H] _]; congruence.
Qed.

Lemma merge_none_iff a b :
  merge a b = None <-> adjacent_to a b = false /\ intersects a b = false.
Proof.
  unfold merge. destruct (adjacent_to a b || intersects a b) eqn:E.
  - apply orb_true_iff in E. split; [discriminate|]. intros [H1 H2].
    destruct E as [E|E]; congruence.
  - apply orb_false_iff in E. split; [intros _; exact E | reflexivity].
Qed.

Lemma merge_some_arith a b c :
  merge a b = Some c ->
  mergeable a b /\ lo c = N.min (lo a) (lo b) /\ hi c = N.max (hi a) (hi b).
Proof.
  intros H. apply merge_some_iff in H. destruct H as [Hg ->].
  split; [apply mergeable_iff; exact Hg | split; reflexivity].
Qed.

Lemma merge_none_arith a b : merge a b = None <-> ~ mergeable a b.
Proof.
  rewrite merge_none_iff, mergeable_iff.
  rewrite <- !not_true_iff_false. tauto.
Qed.

(* the public specifications *)
Lemma intersects_spec_l a b :
  intersects a b = true <-> exists l, inr a l /\ inr b l.
Proof.
  rewrite intersects_arith. unfold inr. split.
  - intros H. exists (N.max (lo a) (lo b)). lia.
  - intros (l & H). lia.
Qed.

Lemma contains_spec_l a b :
  contains a b = true <-> forall l, inr b l -> inr a l.
Proof.
  rewrite contains_arith. unfold inr. split.
  - intros H l Hl. lia.
  - intros H. destruct (N.lt_ge_cases (hi b) (lo b)) as [He|He]; [left; exact He|].
    right. pose proof (H (lo b)) as H1. pose proof (H (hi b)) as H2. lia.
Qed.

Lemma adjacent_spec_l a b :
  adjacent_to a b = true <->
  lo a <= hi a /\ lo b <= hi b /\ (hi a + 1 = lo b \/ hi b + 1 = lo a).
Proof. exact (adjacent_arith a b). Qed.

Lemma merge_spec_l a b c :
  merge a b = Some c -> forall l, inr c l <-> inr a l \/ inr b l.
Proof.
  intros H l. apply merge_some_arith in H. destruct H as (Hm & Hlo & Hhi).
  unfold mergeable in Hm. unfold inr. rewrite Hlo, Hhi. lia.
Qed.

Lemma merge_defined_l a b :
  (exists c, merge a b = Some c) <-> adjacent_to a b = true \/ intersects a b = true.
Proof.
  split.
  - intros (c & H). apply merge_some_iff in H. apply H.
  - intros H. eexists. apply merge_some_iff. split; [exact H | reflexivity].
Qed.

(* an empty range neither merges nor is merged *)
Lemma merge_empty_l a b : hi a < lo a -> merge a b = None.
Proof. intros H. apply merge_none_arith. unfold mergeable. lia. Qed.
Lemma merge_empty_r a b : hi b < lo b -> merge a b = None.
Proof. intros H. apply merge_none_arith. unfold mergeable. lia. Qed.

(* ------------------------------------------------------------------ *)
(* U *)

Lemma U_nil l : U [] l <-> False.
Proof. unfold U. split; [intros (r & [] & _) | intros []]. Qed.

Lemma U_cons a rs l : U (a :: rs) l <-> inr a l \/ U rs l.
Proof.
  unfold U. cbn [In]. split.
  - intros (r & [<-|Hr] & H); [left; exact H | right; exists r; auto].
  - intros [H|(r & Hr & H)]; [exists a; auto | exists r; auto].
Qed.

Lemma U_perm rs rs' l : Permutation rs rs' -> (U rs l <-> U rs' l).
Proof.
  intros HP. unfold U. split; intros (r & Hr & H); exists r; split; auto.
  - eapply Permutation_in; eauto.
  - eapply Permutation_in; [apply Permutation_sym|]; eauto.
Qed.

(* ------------------------------------------------------------------ *)
(* The derived order and the sort *)

Lemma range_leb_spec a b : range_leb a b = true <-> range_le a b.
Proof.
  unfold range_leb, range_le.
  rewrite orb_true_iff, andb_true_iff, N.ltb_lt, N.eqb_eq, N.leb_le. reflexivity.
Qed.

Lemma range_leb_false a b : range_leb a b = false -> range_le b a.
Proof.
  intros H. apply not_true_iff_false in H. rewrite range_leb_spec in H.
  unfold range_le in *. lia.
Qed.

Lemma range_le_refl a : range_le a a.
Proof. unfold range_le. lia. Qed.

Lemma range_le_trans a b c : range_le a b -> range_le b c -> range_le a c.
Proof. unfold range_le. lia. Qed.

Lemma range_le_total a b : range_le a b \/ range_le b a.
Proof. unfold range_le. lia. Qed.

Lemma range_le_antisym a b : range_le a b -> range_le b a -> a = b.
Proof.
  destruct a as [la ha]. destruct b as [lb hb]. unfold range_le. cbn [lo hi].
  intros H1 H2. assert (la = lb) by lia. assert (ha = hb) by lia. subst. reflexivity.
Qed.

Lemma range_le_lo a b : range_le a b -> lo a <= lo b.
Proof. unfold range_le. lia. Qed.

Lemma insert_range_perm a rs : Permutation (insert_range a rs) (a :: rs).
Proof.
  induction rs as [|b rs IH]; cbn [insert_range].
  - apply Permutation_refl.
  - destruct (range_leb a b) eqn:E.
    + apply Permutation_refl.
    + eapply Permutation_trans; [apply perm_skip; exact IH | apply perm_swap].
Qed.

Lemma sort_ranges_perm rs : Permutation (sort_ranges rs) rs.
Proof.
  induction rs as [|a rs IH]; cbn [sort_ranges].
  - apply Permutation_refl.
  - eapply Permutation_trans; [apply insert_range_perm | apply perm_skip; exact IH].
Qed.

Lemma insert_range_sorted a rs :
  StronglySorted range_le rs -> StronglySorted range_le (insert_range a rs).
Proof.
  induction rs as [|b rs IH]; intros Hs; cbn [insert_range].
  - constructor; constructor.
  - inversion Hs as [|b' rs' Hs' Hall]; subst.
    destruct (range_leb a b) eqn:E.
    + apply range_leb_spec in E. constructor; [exact Hs|].
      constructor; [exact E|].
      eapply Forall_impl; [|exact Hall]. intros c Hc. eapply range_le_trans; eauto.
    + apply range_leb_false in E. constructor; [apply IH; exact Hs'|].
      apply Forall_forall. intros c Hc.
      apply (Permutation_in _ (insert_range_perm a rs)) in Hc.
      destruct Hc as [<-|Hc]; [exact E|].
      rewrite Forall_forall in Hall. apply Hall. exact Hc.
Qed.

Lemma sort_ranges_sorted rs : StronglySorted range_le (sort_ranges rs).
Proof.
  induction rs as [|a rs IH]; cbn [sort_ranges].
  - constructor.
  - apply insert_range_sorted. exact IH.
Qed.

(* two sorted permutations of the same list are equal: whatever (correct)
   algorithm Vec::sort uses, it returns sort_ranges *)
Lemma sorted_perm_unique l1 :
  forall l2, StronglySorted range_le l1 -> StronglySorted range_le l2 ->
             Permutation l1 l2 -> l1 = l2.
Proof.
  induction l1 as [|a l1 IH]; intros l2 H1 H2 HP.
  - apply Permutation_nil in HP. symmetry. exact HP.
  - destruct l2 as [|b l2].
    + apply Permutation_sym in HP. apply Permutation_nil in HP. discriminate.
    + inversion H1 as [|a' l1' H1' Ha]; subst.
      inversion H2 as [|b' l2' H2' Hb]; subst.
      rewrite Forall_forall in Ha. rewrite Forall_forall in Hb.
      assert (Hab : a = b).
      { assert (Hina : In a (b :: l2)) by (eapply Permutation_in; [exact HP | left; reflexivity]).
        assert (Hinb : In b (a :: l1)).
        { eapply Permutation_in; [apply Permutation_sym; exact HP | left; reflexivity]. }
        destruct Hina as [Hina|Hina]; [symmetry; exact Hina|].
        destruct Hinb as [Hinb|Hinb]; [exact Hinb|].
        apply range_le_antisym; [apply Ha; exact Hinb | apply Hb; exact Hina]. }
      subst b. f_equal. apply IH; [exact H1' | exact H2' |].
      eapply Permutation_cons_inv. exact HP.
Qed.

Lemma sort_ranges_unique l rs :
  Permutation l rs -> StronglySorted range_le l -> l = sort_ranges rs.
Proof.
  intros HP Hs. apply sorted_perm_unique; [exact Hs | apply sort_ranges_sorted |].
  eapply Permutation_trans; [exact HP | apply Permutation_sym; apply sort_ranges_perm].
Qed.

Lemma sort_ranges_id l : StronglySorted range_le l -> sort_ranges l = l.
Proof.
  intros Hs. symmetry. apply sort_ranges_unique; [apply Permutation_refl | exact Hs].
Qed.

(* ------------------------------------------------------------------ *)
(* The merge loop: line membership (no hypothesis at all) *)

Lemma merge_loop_same_set rest :
  forall next l, U (merge_loop next rest) l <-> inr next l \/ U rest l.
Proof.
  induction rest as [|peek rest IH]; intros next l; cbn [merge_loop].
  - rewrite U_cons, U_nil. tauto.
  - destruct (merge next peek) as [m|] eqn:E.
    + rewrite IH, U_cons. pose proof (merge_spec_l _ _ _ E l) as Hm. tauto.
    + rewrite U_cons, IH, U_cons. tauto.
Qed.

Lemma merge_sorted_same_set rs l : U (merge_sorted rs) l <-> U rs l.
Proof.
  destruct rs as [|a rs]; cbn [merge_sorted].
  - reflexivity.
  - rewrite merge_loop_same_set, U_cons. reflexivity.
Qed.

Lemma normalize_same_set_raw rs l : U (normalize rs) l <-> U rs l.
Proof.
  unfold normalize. rewrite merge_sorted_same_set.
  apply U_perm. apply sort_ranges_perm.
Qed.

(* ------------------------------------------------------------------ *)
(* The merge loop on a sorted vector (empty ranges allowed) *)

Lemma sorted_head_lo p rest :
  StronglySorted range_le (p :: rest) -> forall b, In b rest -> lo p <= lo b.
Proof.
  intros Hs b Hb. inversion Hs as [|p' r' _ Hall]; subst.
  rewrite Forall_forall in Hall. apply range_le_lo. apply Hall. exact Hb.
Qed.

Lemma merge_keeps_sorted next peek rest m :
  StronglySorted range_le (next :: peek :: rest) -> merge next peek = Some m ->
  StronglySorted range_le (m :: rest).
Proof.
  intros Hs Hm. apply merge_some_arith in Hm. destruct Hm as (_ & Hlo & Hhi).
  inversion Hs as [|n' r' Hs1 Hall1]; subst.
  inversion Hs1 as [|p' r'' Hs2 Hall2]; subst.
  constructor; [exact Hs2|].
  rewrite Forall_forall in Hall1. rewrite Forall_forall in Hall2.
  apply Forall_forall. intros x Hx.
  pose proof (Hall1 peek (or_introl eq_refl)) as H1.
  pose proof (Hall1 x (or_intror Hx)) as H2.
  pose proof (Hall2 x Hx) as H3.
  unfold range_le in *. rewrite Hlo, Hhi. lia.
Qed.

(* what the first pushed range looks like *)
Lemma merge_loop_head rest :
  forall next, (forall b, In b rest -> lo next <= lo b) ->
  exists h t, merge_loop next rest = h :: t /\ lo h = lo next /\ hi next <= hi h
              /\ (hi next < lo next -> h = next).
Proof.
  induction rest as [|peek rest IH]; intros next Hlo; cbn [merge_loop].
  - exists next, []. repeat split; auto. lia.
  - destruct (merge next peek) as [m|] eqn:E.
    + pose proof (merge_some_arith _ _ _ E) as (Hm & Hml & Hmh).
      pose proof (Hlo peek (or_introl eq_refl)) as Hp.
      destruct (IH m) as (h & t & Heq & Hh1 & Hh2 & _).
      { intros b Hb. pose proof (Hlo b (or_intror Hb)). lia. }
      exists h, t. split; [exact Heq|]. unfold mergeable in Hm.
      split; [lia|]. split; [lia|]. intros He. exfalso. lia.
    + exists next, (merge_loop peek rest). repeat split; auto. lia.
Qed.

(* every pushed range starts where some input range starts and ends no earlier *)
Lemma merge_loop_elems rest :
  forall p, StronglySorted range_le (p :: rest) ->
  forall o, In o (merge_loop p rest) ->
  exists x, In x (p :: rest) /\ lo o = lo x /\ hi x <= hi o.
Proof.
  induction rest as [|peek rest IH]; intros p Hs o Ho; cbn [merge_loop] in Ho.
  - destruct Ho as [<-|[]]. exists p. split; [left; reflexivity | lia].
  - destruct (merge p peek) as [m|] eqn:E.
    + pose proof (merge_keeps_sorted _ _ _ _ Hs E) as Hs'.
      destruct (IH m Hs' o Ho) as (x & Hx & H1 & H2).
      destruct Hx as [<-|Hx].
      * pose proof (merge_some_arith _ _ _ E) as (_ & Hml & Hmh).
        pose proof (sorted_head_lo _ _ Hs peek (or_introl eq_refl)) as Hp.
        exists p. split; [left; reflexivity | lia].
      * exists x. split; [right; right; exact Hx | lia].
    + destruct Ho as [<-|Ho].
      * exists p. split; [left; reflexivity | lia].
      * inversion Hs as [|p' r' Hs' _]; subst.
        destruct (IH peek Hs' o Ho) as (x & Hx & H1 & H2).
        exists x. split; [right; exact Hx | lia].
Qed.

Lemma merge_loop_sorted rest :
  forall p, StronglySorted range_le (p :: rest) ->
            StronglySorted range_le (merge_loop p rest).
Proof.
  induction rest as [|peek rest IH]; intros p Hs; cbn [merge_loop].
  - exact Hs.
  - destruct (merge p peek) as [m|] eqn:E.
    + apply IH. eapply merge_keeps_sorted; eauto.
    + inversion Hs as [|p' r' Hs' Hall]; subst.
      constructor; [apply IH; exact Hs'|].
      rewrite Forall_forall in Hall. apply Forall_forall. intros o Ho.
      destruct (merge_loop_elems _ _ Hs' o Ho) as (x & Hx & H1 & H2).
      pose proof (Hall x Hx) as Hpx. unfold range_le in *. lia.
Qed.

(* consecutive ranges cannot be merged *)
Fixpoint unmergeable (rs : list range) : Prop :=
  match rs with
  | a :: rs' =>
      match rs' with
      | b :: _ => merge a b = None /\ unmergeable rs'
      | [] => True
      end
  | [] => True
  end.

Lemma merge_none_stable a b h :
  range_le a b -> merge a b = None ->
  lo h = lo b -> hi b <= hi h -> (hi b < lo b -> h = b) ->
  merge a h = None.
Proof.
  intros Hab Hm Hl Hh He.
  destruct (N.lt_ge_cases (hi b) (lo b)) as [Hb|Hb].
  - rewrite (He Hb). exact Hm.
  - rewrite merge_none_arith in *. unfold mergeable, range_le in *. lia.
Qed.

Lemma merge_loop_unmergeable rest :
  forall p, StronglySorted range_le (p :: rest) -> unmergeable (merge_loop p rest).
Proof.
  induction rest as [|peek rest IH]; intros p Hs; cbn [merge_loop].
  - exact I.
  - destruct (merge p peek) as [m|] eqn:E.
    + apply IH. eapply merge_keeps_sorted; eauto.
    + inversion Hs as [|p' r' Hs' Hall]; subst.
      destruct (merge_loop_head rest peek (sorted_head_lo _ _ Hs'))
        as (h & t & Heq & H1 & H2 & H3).
      pose proof (IH peek Hs') as Hu. rewrite Heq in *.
      cbn [unmergeable]. split; [|exact Hu].
      rewrite Forall_forall in Hall.
      apply (merge_none_stable p peek h); auto.
      apply Hall. left. reflexivity.
Qed.

Lemma merge_loop_id rest :
  forall p, unmergeable (p :: rest) -> merge_loop p rest = p :: rest.
Proof.
  induction rest as [|peek rest IH]; intros p Hu; cbn [merge_loop].
  - reflexivity.
  - cbn [unmergeable] in Hu. destruct Hu as [Hm Hu]. rewrite Hm. f_equal.
    apply IH. exact Hu.
Qed.

(* the normal form reached on every input: sorted by the derived order and
   no two consecutive ranges mergeable *)
Definition NFgen (rs : list range) : Prop :=
  StronglySorted range_le rs /\ unmergeable rs.

Lemma normalize_nfgen rs : NFgen (normalize rs).
Proof.
  unfold normalize, NFgen. pose proof (sort_ranges_sorted rs) as Hs.
  destruct (sort_ranges rs) as [|a l]; cbn [merge_sorted].
  - split; [constructor | exact I].
  - split; [apply merge_loop_sorted | apply merge_loop_unmergeable]; exact Hs.
Qed.

Lemma nfgen_fixpoint rs : NFgen rs -> normalize rs = rs.
Proof.
  intros [Hs Hu]. unfold normalize. rewrite (sort_ranges_id _ Hs).
  destruct rs as [|a l]; cbn [merge_sorted]; [reflexivity|].
  apply merge_loop_id. exact Hu.
Qed.

Lemma normalize_idem_raw rs : normalize (normalize rs) = normalize rs.
Proof. apply nfgen_fixpoint. apply normalize_nfgen. Qed.

Lemma normalize_elems rs o :
  In o (normalize rs) -> exists x, In x rs /\ lo o = lo x /\ hi x <= hi o.
Proof.
  unfold normalize. pose proof (sort_ranges_sorted rs) as Hs.
  pose proof (sort_ranges_perm rs) as HP.
  destruct (sort_ranges rs) as [|a l]; cbn [merge_sorted]; [intros []|].
  intros Ho. destruct (merge_loop_elems _ _ Hs o Ho) as (x & Hx & H1 & H2).
  exists x. split; [eapply Permutation_in; eauto | lia].
Qed.

Lemma normalize_no_empty rs : no_empty rs -> no_empty (normalize rs).
Proof.
  intros Hne o Ho. destruct (normalize_elems _ _ Ho) as (x & Hx & H1 & H2).
  pose proof (Hne x Hx). lia.
Qed.

(* ------------------------------------------------------------------ *)
(* Without empty ranges: the documented normal form *)

Lemma nfgen_sdna rs :
  StronglySorted range_le rs -> unmergeable rs -> no_empty rs ->
  SortedDisjointNonAdjacent rs.
Proof.
  induction rs as [|a rs IH]; intros Hs Hu Hne; cbn [SortedDisjointNonAdjacent].
  - exact I.
  - inversion Hs as [|a' r' Hs' Hall]; subst.
    assert (Hne' : no_empty rs) by (intros r Hr; apply Hne; right; exact Hr).
    pose proof (Hne a (or_introl eq_refl)) as Ha.
    destruct rs as [|b rs].
    + split; [exact Ha|]. split; exact I.
    + cbn [unmergeable] in Hu. destruct Hu as [Hm Hu].
      split; [exact Ha|]. split; [|apply IH; assumption].
      pose proof (Hne b (or_intror (or_introl eq_refl))) as Hb.
      rewrite Forall_forall in Hall. pose proof (Hall b (or_introl eq_refl)) as Hab.
      rewrite merge_none_arith in Hm. unfold mergeable, range_le in *. lia.
Qed.

Lemma normalize_nf_raw rs : no_empty rs -> SortedDisjointNonAdjacent (normalize rs).
Proof.
  intros Hne. destruct (normalize_nfgen rs) as [Hs Hu].
  apply nfgen_sdna; [exact Hs | exact Hu | apply normalize_no_empty; exact Hne].
Qed.

Lemma SDNA_tail a rs :
  SortedDisjointNonAdjacent (a :: rs) -> SortedDisjointNonAdjacent rs.
Proof. cbn [SortedDisjointNonAdjacent]. tauto. Qed.

Lemma SDNA_after rs :
  forall a, SortedDisjointNonAdjacent (a :: rs) -> forall r, In r rs -> hi a + 1 < lo r.
Proof.
  induction rs as [|b rs IH]; intros a Hs r Hr.
  - destruct Hr.
  - cbn [SortedDisjointNonAdjacent] in Hs. destruct Hs as (Ha & Hab & Hb & Hnext & Hs').
    destruct Hr as [<-|Hr]; [exact Hab|].
    assert (Hbs : SortedDisjointNonAdjacent (b :: rs)).
    { cbn [SortedDisjointNonAdjacent]. tauto. }
    pose proof (IH b Hbs r Hr). lia.
Qed.

Lemma SDNA_no_empty rs : SortedDisjointNonAdjacent rs -> no_empty rs.
Proof.
  induction rs as [|a rs IH]; intros Hs r Hr.
  - destruct Hr.
  - destruct Hr as [<-|Hr].
    + cbn [SortedDisjointNonAdjacent] in Hs. tauto.
    + apply IH; [eapply SDNA_tail; exact Hs | exact Hr].
Qed.

Lemma SDNA_pairwise rs :
  SortedDisjointNonAdjacent rs ->
  forall r r', In r rs -> In r' rs -> r = r' \/ hi r + 1 < lo r' \/ hi r' + 1 < lo r.
Proof.
  induction rs as [|a rs IH]; intros Hs r r' Hr Hr'.
  - destruct Hr.
  - destruct Hr as [<-|Hr]; destruct Hr' as [<-|Hr'].
    + left. reflexivity.
    + right. left. eapply SDNA_after; eauto.
    + right. right. eapply SDNA_after; eauto.
    + apply IH; [eapply SDNA_tail; exact Hs | exact Hr | exact Hr'].
Qed.

(* the documented invariant proper: distinct ranges share no line *)
Lemma SDNA_disjoint rs :
  SortedDisjointNonAdjacent rs ->
  forall r r' l, In r rs -> In r' rs -> inr r l -> inr r' l -> r = r'.
Proof.
  intros Hs r r' l Hr Hr' H H'.
  destruct (SDNA_pairwise _ Hs r r' Hr Hr') as [E|E]; [exact E|].
  unfold inr in *. exfalso. lia.
Qed.

Lemma SDNA_sorted rs :
  SortedDisjointNonAdjacent rs -> StronglySorted range_le rs.
Proof.
  induction rs as [|a rs IH]; intros Hs.
  - constructor.
  - constructor; [apply IH; eapply SDNA_tail; exact Hs|].
    apply Forall_forall. intros r Hr.
    pose proof (SDNA_after _ _ Hs r Hr) as H1.
    pose proof (SDNA_no_empty _ Hs a (or_introl eq_refl)) as H2.
    unfold range_le. lia.
Qed.

(* a contiguous block of selected lines lies inside ONE range *)
Lemma SDNA_interval ns a b :
  SortedDisjointNonAdjacent ns -> a <= b ->
  (forall l, a <= l <= b -> U ns l) ->
  exists r, In r ns /\ lo r <= a /\ b <= hi r.
Proof.
  intros Hs Hab H.
  destruct (H a) as (r & Hr & Hra); [lia|].
  exists r. split; [exact Hr|]. unfold inr in Hra. split; [lia|].
  destruct (N.le_gt_cases b (hi r)) as [Hle|Hgt]; [exact Hle|]. exfalso.
  destruct (H (hi r + 1)) as (r' & Hr' & Hr'a); [lia|]. unfold inr in Hr'a.
  destruct (SDNA_pairwise _ Hs r r' Hr Hr') as [E|[E|E]]; [subst r'; lia | lia | lia].
Qed.

(* ------------------------------------------------------------------ *)
(* The queries on one file's vector *)

Lemma contains_line_spec ns l : contains_line ns l = true <-> U ns l.
Proof.
  unfold contains_line, U. rewrite existsb_exists.
  split; intros (r & Hr & H); exists r; (split; [exact Hr|]).
  - unfold q_line in H. rewrite andb_true_iff, !N.leb_le in H. exact H.
  - unfold q_line. rewrite andb_true_iff, !N.leb_le. exact H.
Qed.

Lemma intersects_q_spec ns a b :
  intersects_q ns a b = true <-> exists l, a <= l <= b /\ U ns l.
Proof.
  unfold intersects_q, U, q_intersects. rewrite existsb_exists. split.
  - intros (r & Hr & H). apply intersects_spec_l in H. destruct H as (l & H1 & H2).
    unfold inr in H2. cbn [lo hi] in H2. exists l. split; [exact H2|]. exists r. auto.
  - intros (l & Hl & r & Hr & H). exists r. split; [exact Hr|].
    apply intersects_spec_l. exists l. split; [exact H|]. unfold inr. cbn [lo hi]. exact Hl.
Qed.

Lemma contains_range_exists ns a b :
  contains_range ns a b = true <->
  exists r, In r ns /\ (b < a \/ (lo r <= hi r /\ lo r <= a /\ b <= hi r)).
Proof.
  unfold contains_range, q_range. rewrite existsb_exists.
  split; intros (r & Hr & H); exists r; (split; [exact Hr|]).
  - apply contains_arith in H. cbn [lo hi] in H. exact H.
  - apply contains_arith. cbn [lo hi]. exact H.
Qed.

(* on a vector in normal form a range query is a query on the union; an
   empty query range (b < a) is answered true iff the vector is not empty *)
Lemma contains_range_nf ns a b :
  SortedDisjointNonAdjacent ns ->
  (contains_range ns a b = true <->
   (exists l, U ns l) /\ forall l, a <= l <= b -> U ns l).
Proof.
  intros Hs. rewrite contains_range_exists. split.
  - intros (r & Hr & H). pose proof (SDNA_no_empty _ Hs r Hr) as Hne. split.
    + exists (lo r), r. split; [exact Hr|]. unfold inr. lia.
    + intros l Hl. destruct H as [H|H]; [exfalso; lia|].
      exists r. split; [exact Hr|]. unfold inr. lia.
  - intros [(l0 & r0 & Hr0 & _) H].
    destruct (N.lt_ge_cases b a) as [Hlt|Hge].
    + exists r0. split; [exact Hr0 | left; exact Hlt].
    + destruct (SDNA_interval ns a b Hs Hge H) as (r & Hr & H1 & H2).
      exists r. split; [exact Hr|]. right. lia.
Qed.

Lemma contains_range_union_raw rs a b :
  no_empty rs ->
  (contains_range (normalize rs) a b = true <->
   (exists l, U rs l) /\ forall l, a <= l <= b -> U rs l).
Proof.
  intros Hne. rewrite (contains_range_nf _ a b (normalize_nf_raw rs Hne)). split.
  - intros [(l0 & H0) H]. split.
    + exists l0. apply normalize_same_set_raw. exact H0.
    + intros l Hl. apply normalize_same_set_raw. apply H. exact Hl.
  - intros [(l0 & H0) H]. split.
    + exists l0. apply normalize_same_set_raw. exact H0.
    + intros l Hl. apply normalize_same_set_raw. apply H. exact Hl.
Qed.

Lemma intersects_union_raw rs a b :
  intersects_q (normalize rs) a b = true <-> exists l, a <= l <= b /\ U rs l.
Proof.
  rewrite intersects_q_spec. split; intros (l & Hl & H); exists l; (split; [exact Hl|]);
    apply normalize_same_set_raw; exact H.
Qed.

Lemma contains_line_union_raw rs l :
  contains_line (normalize rs) l = true <-> U rs l.
Proof. rewrite contains_line_spec. apply normalize_same_set_raw. Qed.

(* ------------------------------------------------------------------ *)
(* The repaired variant: retain(|r| !r.is_empty()) first *)

Lemma filter_nonempty_In rs r :
  In r (filter (fun r => negb (is_empty r)) rs) <-> In r rs /\ lo r <= hi r.
Proof. rewrite filter_In, negb_true_iff, is_empty_false. reflexivity. Qed.

Lemma filter_nonempty_U rs l : U (filter (fun r => negb (is_empty r)) rs) l <-> U rs l.
Proof.
  unfold U. split; intros (r & Hr & H); exists r; (split; [|exact H]).
  - apply filter_nonempty_In in Hr. apply Hr.
  - apply filter_nonempty_In. split; [exact Hr|]. unfold inr in H. lia.
Qed.

Lemma filter_nonempty_no_empty rs : no_empty (filter (fun r => negb (is_empty r)) rs).
Proof. intros r Hr. apply filter_nonempty_In in Hr. apply Hr. Qed.

Lemma filter_nonempty_id rs : no_empty rs -> filter (fun r => negb (is_empty r)) rs = rs.
Proof.
  induction rs as [|a rs IH]; intros Hne; cbn [filter]; [reflexivity|].
  pose proof (Hne a (or_introl eq_refl)) as Ha. apply is_empty_false in Ha. rewrite Ha.
  cbn [negb]. f_equal. apply IH. intros r Hr. apply Hne. right. exact Hr.
Qed.

Lemma fixed_same_set_l rs l : U (normalize_fixed rs) l <-> U rs l.
Proof. unfold normalize_fixed. rewrite normalize_same_set_raw. apply filter_nonempty_U. Qed.

Lemma fixed_nf_l rs : SortedDisjointNonAdjacent (normalize_fixed rs).
Proof. unfold normalize_fixed. apply normalize_nf_raw. apply filter_nonempty_no_empty. Qed.

Lemma fixed_contains_range_union_l rs a b :
  contains_range (normalize_fixed rs) a b = true <->
  (exists l, U rs l) /\ forall l, a <= l <= b -> U rs l.
Proof.
  rewrite (contains_range_nf _ a b (fixed_nf_l rs)). split.
  - intros [(l0 & H0) H]. split.
    + exists l0. apply fixed_same_set_l. exact H0.
    + intros l Hl. apply fixed_same_set_l. apply H. exact Hl.
  - intros [(l0 & H0) H]. split.
    + exists l0. apply fixed_same_set_l. exact H0.
    + intros l Hl. apply fixed_same_set_l. apply H. exact Hl.
Qed.

Lemma fixed_intersects_union_l rs a b :
  intersects_q (normalize_fixed rs) a b = true <-> exists l, a <= l <= b /\ U rs l.
Proof.
  rewrite intersects_q_spec. split; intros (l & Hl & H); exists l; (split; [exact Hl|]);
    apply fixed_same_set_l; exact H.
Qed.

Lemma fixed_contains_line_union_l rs l :
  contains_line (normalize_fixed rs) l = true <-> U rs l.
Proof. rewrite contains_line_spec. apply fixed_same_set_l. Qed.

Lemma fixed_idem_l rs : normalize_fixed (normalize_fixed rs) = normalize_fixed rs.
Proof.
  unfold normalize_fixed at 1.
  rewrite (filter_nonempty_id _ (SDNA_no_empty _ (fixed_nf_l rs))).
  unfold normalize_fixed. apply normalize_idem_raw.
Qed.

(* on inputs without empty ranges the repair changes nothing *)
Lemma fixed_agrees_l rs : no_empty rs -> normalize_fixed rs = normalize rs.
Proof. intros Hne. unfold normalize_fixed. rewrite (filter_nonempty_id _ Hne). reflexivity. Qed.

(* ------------------------------------------------------------------ *)
(* Statements about [normalize_ranges], proved so that they survive the
   switch in Model.v: each proof tries the lemma about [normalize] and then
   the one about [normalize_fixed]. *)

Lemma nr_same_set : forall rs l, U (normalize_ranges rs) l <-> U rs l.
Proof. first [exact normalize_same_set_raw | exact fixed_same_set_l]. Qed.

Lemma nr_nf : forall rs, no_empty rs -> SortedDisjointNonAdjacent (normalize_ranges rs).
Proof. first [exact normalize_nf_raw | exact (fun rs _ => fixed_nf_l rs)]. Qed.

Lemma nr_contains_range_union : forall rs a b,
  no_empty rs ->
  (contains_range (normalize_ranges rs) a b = true <->
   (exists l, U rs l) /\ forall l, a <= l <= b -> U rs l).
Proof.
  first [exact contains_range_union_raw
        | exact (fun rs a b _ => fixed_contains_range_union_l rs a b)].
Qed.

Lemma nr_intersects_union : forall rs a b,
  intersects_q (normalize_ranges rs) a b = true <-> exists l, a <= l <= b /\ U rs l.
Proof. first [exact intersects_union_raw | exact fixed_intersects_union_l]. Qed.

Lemma nr_contains_line_union : forall rs l,
  contains_line (normalize_ranges rs) l = true <-> U rs l.
Proof. first [exact contains_line_union_raw | exact fixed_contains_line_union_l]. Qed.

Lemma nr_idem : forall rs, normalize_ranges (normalize_ranges rs) = normalize_ranges rs.
Proof. first [exact normalize_idem_raw | exact fixed_idem_l]. Qed.

(* corollaries in the shape of the property text *)
Lemma nr_contains_range_nonempty_query rs a b :
  no_empty rs -> a <= b ->
  (contains_range (normalize_ranges rs) a b = true <-> forall l, a <= l <= b -> U rs l).
Proof.
  intros Hne Hab. rewrite (nr_contains_range_union rs a b Hne). split.
  - intros [_ H]. exact H.
  - intros H. split; [|exact H]. exists a. apply H. lia.
Qed.

Lemma nr_contains_range_empty_query rs a b :
  no_empty rs -> b < a ->
  (contains_range (normalize_ranges rs) a b = true <-> rs <> []).
Proof.
  intros Hne Hab. rewrite (nr_contains_range_union rs a b Hne). split.
  - intros [(l & r & Hr & _) _] ->. destruct Hr.
  - intros Hnil. split; [|intros l Hl; exfalso; lia].
    destruct rs as [|r rs]; [congruence|].
    exists (lo r), r. split; [left; reflexivity|].
    pose proof (Hne r (or_introl eq_refl)). unfold inr. lia.
Qed.

(* overlapping or adjacent ranges behave as their union: two selections with
   the same set of lines answer every query alike *)
Lemma nr_union_extensional rs rs' :
  no_empty rs -> no_empty rs' -> (forall l, U rs l <-> U rs' l) ->
  forall a b,
    contains_range (normalize_ranges rs) a b = contains_range (normalize_ranges rs') a b
    /\ intersects_q (normalize_ranges rs) a b = intersects_q (normalize_ranges rs') a b
    /\ contains_line (normalize_ranges rs) a = contains_line (normalize_ranges rs') a.
Proof.
  intros Hne Hne' HU a b.
  assert (Hbool : forall x y : bool, (x = true <-> y = true) -> x = y).
  { intros x y H. destruct x; destruct y; try reflexivity.
    - symmetry. apply H. reflexivity.
    - apply H. reflexivity. }
  split; [|split]; apply Hbool.
  - rewrite (nr_contains_range_union rs a b Hne), (nr_contains_range_union rs' a b Hne').
    split; intros [(l0 & H0) H]; (split; [exists l0; apply HU; exact H0|]);
      intros l Hl; apply HU; apply H; exact Hl.
  - rewrite !nr_intersects_union.
    split; intros (l & Hl & H); exists l; (split; [exact Hl|]); apply HU; exact H.
  - rewrite !nr_contains_line_union. apply HU.
Qed.

(* ------------------------------------------------------------------ *)
(* FileLines *)

Lemma map_get_from_ranges m f :
  map_get (map (fun p => (fst p, normalize_ranges (snd p))) m) f
  = option_map normalize_ranges (map_get m f).
Proof.
  induction m as [|[g rs] m IH]; cbn [map map_get fst snd]; [reflexivity|].
  destruct (g =? f) eqn:E; [reflexivity | exact IH].
Qed.

Lemma fl_all_everything : forall canon l a b q,
  fl_is_all fl_all = true
  /\ fl_contains_line fl_all canon l = true
  /\ fl_contains_range fl_all canon a b = true
  /\ fl_intersects fl_all canon q = true
  /\ fl_contains fl_all canon q = true.
Proof. intros canon l a b q. repeat split. Qed.

Lemma fl_no_files_nothing : forall canon l a b q,
  fl_is_all (from_ranges []) = false
  /\ fl_contains_line (from_ranges []) canon l = false
  /\ fl_contains_range (from_ranges []) canon a b = false
  /\ fl_intersects (from_ranges []) canon q = false
  /\ fl_contains (from_ranges []) canon q = false.
Proof. intros [f|] l a b q; repeat split. Qed.

Lemma fl_absent_file_nothing : forall m f l a b q,
  map_get m f = None ->
  fl_contains_line (from_ranges m) (Some f) l = false
  /\ fl_contains_range (from_ranges m) (Some f) a b = false
  /\ fl_intersects (from_ranges m) (Some f) q = false
  /\ fl_contains (from_ranges m) (Some f) q = false.
Proof.
  intros m f l a b q H.
  unfold fl_contains_line, fl_contains_range, fl_intersects, fl_contains,
    file_range_matches, from_ranges.
  rewrite map_get_from_ranges, H. cbn [option_map]. repeat split.
Qed.

Lemma fl_uncanonical_nothing : forall m l a b q,
  fl_contains_line (from_ranges m) None l = false
  /\ fl_contains_range (from_ranges m) None a b = false
  /\ fl_intersects (from_ranges m) None q = false
  /\ fl_contains (from_ranges m) None q = false.
Proof. intros m l a b q. repeat split. Qed.

Lemma fl_present m f rs p :
  map_get m f = Some rs ->
  file_range_matches (from_ranges m) (Some f) p = existsb p (normalize_ranges rs).
Proof.
  intros H. unfold file_range_matches, from_ranges.
  rewrite map_get_from_ranges, H. reflexivity.
Qed.

(* a file whose selection has no line (no range, or only empty ranges) *)
Lemma fl_empty_ranges_nothing : forall m f rs l a b,
  map_get m f = Some rs -> (forall l', ~ U rs l') ->
  fl_contains_line (from_ranges m) (Some f) l = false
  /\ fl_intersects (from_ranges m) (Some f) (MkRange a b) = false
  /\ (a <= b -> fl_contains_range (from_ranges m) (Some f) a b = false).
Proof.
  intros m f rs l a b Hget Hno.
  unfold fl_contains_line, fl_intersects, fl_contains_range.
  rewrite !(fl_present _ _ _ _ Hget).
  split; [|split].
  - apply not_true_iff_false. intros H. apply (Hno l).
    apply nr_contains_line_union. exact H.
  - apply not_true_iff_false. intros H.
    apply (nr_intersects_union rs a b) in H. destruct H as (l' & _ & H'). exact (Hno l' H').
  - intros Hab. apply not_true_iff_false. intros H.
    apply (contains_range_exists (normalize_ranges rs) a b) in H.
    destruct H as (r & Hr & [H|H]); [lia|].
    apply (Hno a). apply nr_same_set. exists r. split; [exact Hr|]. unfold inr. lia.
Qed.

Lemma fl_queries_union : forall m f rs,
  map_get m f = Some rs ->
  (forall l, fl_contains_line (from_ranges m) (Some f) l = true <-> U rs l)
  /\ (forall a b, fl_intersects (from_ranges m) (Some f) (MkRange a b) = true
                  <-> exists l, a <= l <= b /\ U rs l)
  /\ (no_empty rs -> forall a b,
        fl_contains_range (from_ranges m) (Some f) a b = true
        <-> (exists l, U rs l) /\ forall l, a <= l <= b -> U rs l).
Proof.
  intros m f rs Hget.
  unfold fl_contains_line, fl_intersects, fl_contains_range.
  split; [|split].
  - intros l. rewrite (fl_present _ _ _ _ Hget). apply nr_contains_line_union.
  - intros a b. rewrite (fl_present _ _ _ _ Hget). apply nr_intersects_union.
  - intros Hne a b. rewrite (fl_present _ _ _ _ Hget).
    apply nr_contains_range_union. exact Hne.
Qed.

(* ------------------------------------------------------------------ *)
(* Refutations: the code as it is, with an empty range sorted between two
   overlapping ones *)

Definition witness : list range := [MkRange 1 5; MkRange 3 2; MkRange 4 8].

Lemma witness_normalize : normalize witness = witness.
Proof. vm_compute. reflexivity. Qed.

Lemma normalize_nf_refuted_l : exists rs, ~ SortedDisjointNonAdjacent (normalize rs).
Proof.
  exists witness. rewrite witness_normalize. unfold witness.
  cbn [SortedDisjointNonAdjacent lo hi]. intros (_ & H & _). lia.
Qed.

Lemma normalize_overlap_refuted_l :
  exists rs r r' l, In r (normalize rs) /\ In r' (normalize rs) /\ r <> r'
                    /\ inr r l /\ inr r' l.
Proof.
  exists witness, (MkRange 1 5), (MkRange 4 8), 4. rewrite witness_normalize.
  unfold witness, inr. cbn [In lo hi]. repeat split; auto; try lia. discriminate.
Qed.

Lemma witness_lines l : 1 <= l <= 8 -> U witness l.
Proof.
  intros Hl. destruct (N.le_gt_cases l 5) as [H|H].
  - exists (MkRange 1 5). split; [left; reflexivity|]. unfold inr. cbn [lo hi]. lia.
  - exists (MkRange 4 8). split; [right; right; left; reflexivity|]. unfold inr. cbn [lo hi]. lia.
Qed.

Lemma contains_range_union_refuted_l :
  exists rs a b, a <= b /\ (forall l, a <= l <= b -> U rs l)
                 /\ contains_range (normalize rs) a b = false.
Proof.
  exists witness, 2, 7. split; [lia|]. split.
  - intros l Hl. apply witness_lines. lia.
  - vm_compute. reflexivity.
Qed.

(* ------------------------------------------------------------------ *)
(* Combined statements used by Props.v *)

Lemma sort_model_harmless_l : forall rs,
  Permutation (sort_ranges rs) rs
  /\ StronglySorted range_le (sort_ranges rs)
  /\ forall l, Permutation l rs -> StronglySorted range_le l -> l = sort_ranges rs.
Proof.
  intros rs. split; [apply sort_ranges_perm|]. split; [apply sort_ranges_sorted|].
  intros l HP Hs. apply sort_ranges_unique; assumption.
Qed.

Lemma empty_selects_nothing_l :
  (forall canon l a b q,
      fl_contains_line fl_all canon l = true
      /\ fl_contains_range fl_all canon a b = true
      /\ fl_intersects fl_all canon q = true)
  /\ (forall canon l a b q,
      fl_contains_line (from_ranges []) canon l = false
      /\ fl_contains_range (from_ranges []) canon a b = false
      /\ fl_intersects (from_ranges []) canon q = false)
  /\ (forall m f l a b q,
      map_get m f = None ->
      fl_contains_line (from_ranges m) (Some f) l = false
      /\ fl_contains_range (from_ranges m) (Some f) a b = false
      /\ fl_intersects (from_ranges m) (Some f) q = false)
  /\ (forall m l a b q,
      fl_contains_line (from_ranges m) None l = false
      /\ fl_contains_range (from_ranges m) None a b = false
      /\ fl_intersects (from_ranges m) None q = false).
Proof.
  split; [|split; [|split]].
  - intros canon l a b q. destruct (fl_all_everything canon l a b q) as (_ & H1 & H2 & H3 & _).
    auto.
  - intros canon l a b q. destruct (fl_no_files_nothing canon l a b q) as (_ & H1 & H2 & H3 & _).
    auto.
  - intros m f l a b q H. destruct (fl_absent_file_nothing m f l a b q H) as (H1 & H2 & H3 & _).
    auto.
  - intros m l a b q. destruct (fl_uncanonical_nothing m l a b q) as (H1 & H2 & H3 & _). auto.
Qed.
