(* C17/Model.v — executable model of rustfmt's --file-lines range algebra.
   Sources modelled (all in src/config/file_lines.rs):
     :85-88    struct Range {lo, hi}, derived Ord     (range, range_leb)
     :103-105  Range::new                             (MkRange)
     :107-109  Range::is_empty                        (is_empty)
     :112-118  Range::contains                        (contains)
     :120-127  Range::intersects                      (intersects)
     :129-135  Range::adjacent_to                     (adjacent_to)
     :139-148  Range::merge                           (merge)
     :157      struct FileLines(Option<HashMap<..>>)  (file_lines)
     :176-195  normalize_ranges                       (sort_ranges, merge_loop, merge_sorted, normalize)
     :199-211  FileLines::all / is_all / from_ranges  (fl_all, fl_is_all, from_ranges)
     :235-249  FileLines::file_range_matches          (file_range_matches)
     :253-270  FileLines::contains / intersects / contains_line / contains_range
                                                      (fl_contains, fl_intersects, fl_contains_line, fl_contains_range)
   Line numbers are usize in the code and N here.  The only arithmetic that can
   overflow is `self.hi + 1` / `other.hi + 1` in adjacent_to (:133), reached
   only when both ranges are non-empty: with hi = usize::MAX a debug build
   panics (attempt to add with overflow) and a release build wraps to 0, so
   that (x, MAX) would be adjacent to (0, y).  The model is exact for every
   hi < 2^64 - 1; line numbers come from JSON integers / real files, so the
   boundary value is not modelled.
   Definitions only; proofs are in Lemmas.v. *)
From V Require Import Base.Text.
Local Open Scope N_scope.

Arguments N.add : simpl never.
Arguments N.sub : simpl never.
Arguments N.mul : simpl never.
Arguments N.ltb : simpl never.
Arguments N.leb : simpl never.
Arguments N.eqb : simpl never.
Arguments N.min : simpl never.
Arguments N.max : simpl never.

(* ------------------------------------------------------------------ *)
(* :85 Range *)
Record range : Type := MkRange { lo : N; hi : N }.

(* :107 Range::is_empty   self.lo > self.hi *)
Definition is_empty (r : range) : bool := hi r <? lo r.

(* :112 Range::contains *)
Definition contains (self other : range) : bool :=
  if is_empty other then true
  else negb (is_empty self) && (lo self <=? lo other) && (hi other <=? hi self).

(* :120 Range::intersects *)
Definition intersects (self other : range) : bool :=
  if is_empty self || is_empty other then false
  else ((lo self <=? hi other) && (hi other <=? hi self))
       || ((lo other <=? hi self) && (hi self <=? hi other)).

(* :129 Range::adjacent_to  (hi + 1: see the overflow note in the header) *)
Definition adjacent_to (self other : range) : bool :=
  if is_empty self || is_empty other then false
  else (hi self + 1 =? lo other) || (hi other + 1 =? lo self).

(* :139 Range::merge *)
Definition merge (self other : range) : option range :=
  if adjacent_to self other || intersects self other
  then Some (MkRange (N.min (lo self) (lo other)) (N.max (hi self) (hi other)))
  else None.

(* ------------------------------------------------------------------ *)
(* :178 ranges.sort()
   #[derive(PartialOrd, Ord)] on struct Range {lo, hi} is the lexicographic
   order on (lo, hi).  Vec::sort is a stable sort; the order is total and
   antisymmetric (a <= b <= a implies a = b as records), so the sorted vector
   is unique and any correct sort models it.  Insertion sort is used here;
   Lemmas.v proves it returns a sorted permutation and that a sorted
   permutation is unique (sort_ranges_perm, sort_ranges_sorted, sorted_perm_unique). *)
Definition range_leb (a b : range) : bool :=
  (lo a <? lo b) || ((lo a =? lo b) && (hi a <=? hi b)).

Fixpoint insert_range (a : range) (rs : list range) : list range :=
  match rs with
  | [] => [a]
  | b :: rs' => if range_leb a b then a :: rs else b :: insert_range a rs'
  end.
Fixpoint sort_ranges (rs : list range) : list range :=
  match rs with
  | [] => []
  | a :: rs' => insert_range a (sort_ranges rs')
  end.

(* :179-192 the peek / merge loop.  [merge_loop next rest] is the state in
   which the outer `while let Some(next) = iter.next()` has taken [next] and
   [rest] is what the peekable iterator still holds.  Inner loop: if
   next.merge(peek) is Some(merged), consume peek and continue with merged;
   otherwise break, push next, and the outer loop takes peek as the new next.
   An empty range never merges (adjacent_to and intersects are both false), so
   it is pushed unchanged and also stops the absorption of what follows it. *)
Fixpoint merge_loop (next : range) (rest : list range) : list range :=
  match rest with
  | [] => [next]
  | peek :: rest' =>
      match merge next peek with
      | Some merged => merge_loop merged rest'
      | None => next :: merge_loop peek rest'
      end
  end.
Definition merge_sorted (rs : list range) : list range :=
  match rs with
  | [] => []
  | next :: rest => merge_loop next rest
  end.

(* :176 normalize_ranges, body of the per-file loop, as the code is today *)
Definition normalize (rs : list range) : list range := merge_sorted (sort_ranges rs).

(* the candidate repair: `ranges.retain(|r| !r.is_empty());` as the first
   statement of the per-file loop *)
Definition normalize_fixed (rs : list range) : list range :=
  normalize (filter (fun r => negb (is_empty r)) rs).

(* THE SWITCH.  Exactly one of the two lines below is active; every theorem
   named normalize_* in Props.v and the functions of Run.v are about
   [normalize_ranges].  The *_refuted theorems are about [normalize] and the
   fixed_* theorems about [normalize_fixed], whatever the switch says. *)
(* since the repair (fix: drop empty ranges before normalising) the code is normalize_fixed;
   the pre-repair code is [normalize] *)
Definition normalize_ranges : list range -> list range := normalize_fixed.

(* ------------------------------------------------------------------ *)
(* :157 FileLines.  File names are opaque identifiers; the HashMap is an
   association list looked up by first match (from_ranges receives a HashMap,
   so keys are distinct). *)
Definition fileid := N.
Definition file_map := list (fileid * list range).
Definition file_lines := option file_map.

(* :199 FileLines::all, :204 is_all *)
Definition fl_all : file_lines := None.
Definition fl_is_all (fl : file_lines) : bool :=
  match fl with None => true | Some _ => false end.

(* :208 FileLines::from_ranges *)
Definition from_ranges (m : file_map) : file_lines :=
  Some (map (fun p => (fst p, normalize_ranges (snd p))) m).

(* HashMap::get *)
Fixpoint map_get (m : file_map) (f : fileid) : option (list range) :=
  match m with
  | [] => None
  | (g, rs) :: m' => if g =? f then Some rs else map_get m' f
  end.

(* :235 FileLines::file_range_matches.  [canon] is the result of
   canonicalize_path_string(file_name) (:284): None when the path of a Real
   file cannot be canonicalised. *)
Definition file_range_matches (fl : file_lines) (canon : option fileid)
           (f : range -> bool) : bool :=
  match fl with
  | None => true
  | Some m =>
      match canon with
      | None => false
      | Some file =>
          match map_get m file with
          | Some ranges => existsb f ranges
          | None => false
          end
      end
  end.

(* the closures passed at :254, :259, :264, :269 *)
Definition q_contains (q : range) (r : range) : bool := contains r q.
Definition q_intersects (q : range) (r : range) : bool := intersects r q.
Definition q_line (line : N) (r : range) : bool := (lo r <=? line) && (line <=? hi r).
Definition q_range (a b : N) (r : range) : bool := contains r (MkRange a b).

(* :253 contains, :258 intersects, :263 contains_line, :268 contains_range *)
Definition fl_contains (fl : file_lines) (canon : option fileid) (q : range) : bool :=
  file_range_matches fl canon (q_contains q).
Definition fl_intersects (fl : file_lines) (canon : option fileid) (q : range) : bool :=
  file_range_matches fl canon (q_intersects q).
Definition fl_contains_line (fl : file_lines) (canon : option fileid) (line : N) : bool :=
  file_range_matches fl canon (q_line line).
Definition fl_contains_range (fl : file_lines) (canon : option fileid) (a b : N) : bool :=
  file_range_matches fl canon (q_range a b).

(* the same queries on the range vector of one file (`ranges.iter().any(f)`) *)
Definition contains_q (rs : list range) (q : range) : bool := existsb (q_contains q) rs.
Definition intersects_q (rs : list range) (a b : N) : bool := existsb (q_intersects (MkRange a b)) rs.
Definition contains_line (rs : list range) (line : N) : bool := existsb (q_line line) rs.
Definition contains_range (rs : list range) (a b : N) : bool := existsb (q_range a b) rs.

(* ------------------------------------------------------------------ *)
(* Specification vocabulary (Props, not executable) *)

(* line l lies in range r *)
Definition inr (r : range) (l : N) : Prop := lo r <= l /\ l <= hi r.
(* line l lies in the union of the ranges *)
Definition U (rs : list range) (l : N) : Prop := exists r, In r rs /\ inr r l.
(* no range is empty *)
Definition no_empty (rs : list range) : Prop := forall r, In r rs -> lo r <= hi r.
(* derived Ord as a relation *)
Definition range_le (a b : range) : Prop := lo a < lo b \/ (lo a = lo b /\ hi a <= hi b).

(* the normal form the doc comment of FileLines promises, and a little more:
   every range non-empty, and each range starts at least two lines after the
   previous one ends (sorted, disjoint, not adjacent) *)
Fixpoint SortedDisjointNonAdjacent (rs : list range) : Prop :=
  match rs with
  | [] => True
  | a :: rs' =>
      lo a <= hi a
      /\ match rs' with [] => True | b :: _ => hi a + 1 < lo b end
      /\ SortedDisjointNonAdjacent rs'
  end.
