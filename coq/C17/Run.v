(* C17/Run.v — encodings of model results for the correspondence run *)
From V Require Import Base.Text C17.Model.
Open Scope N_scope.

Definition dec_range (p : N * N) : range := MkRange (fst p) (snd p).
Definition enc_range (r : range) : N * N := (lo r, hi r).

(* normalize_ranges on one file's vector of (lo, hi) *)
Definition run_normalize (rs : list (N * N)) : list (N * N) :=
  map enc_range (normalize_ranges (map dec_range rs)).

(* for each query (a, b): (contains_range a b, intersects (a, b), contains_line a)
   on the normalised vector *)
Definition run_queries (rs : list (N * N)) (qs : list (N * N)) : list (bool * bool * bool) :=
  let ns := normalize_ranges (map dec_range rs) in
  map (fun q => (contains_range ns (fst q) (snd q),
                 intersects_q ns (fst q) (snd q),
                 contains_line ns (fst q))) qs.

(* Range-level functions: (is_empty a, contains a b, intersects a b, adjacent_to a b, merge a b) *)
Definition run_range_ops (a b : N * N) : bool * bool * bool * bool * option (N * N) :=
  let x := dec_range a in
  let y := dec_range b in
  (is_empty x, contains x y, intersects x y, adjacent_to x y,
   match merge x y with Some m => Some (enc_range m) | None => None end).

(* FileLines-level: from_ranges on a map, then the three queries for file f;
   f_canon = false models a file name that cannot be canonicalised *)
Definition run_file_queries (m : list (N * list (N * N))) (f : N) (f_canon : bool)
           (qs : list (N * N)) : list (bool * bool * bool) :=
  let fl := from_ranges (map (fun p => (fst p, map dec_range (snd p))) m) in
  let c := if f_canon then Some f else None in
  map (fun q => (fl_contains_range fl c (fst q) (snd q),
                 fl_intersects fl c (dec_range q),
                 fl_contains_line fl c (fst q))) qs.
