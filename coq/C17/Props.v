(* C17/Props.v — property C17 (--file-lines), range algebra.
   [normalize_ranges] is the switchable definition of Model.v (today: the code
   as it is, [normalize]); fixed_* are about the candidate repair
   [normalize_fixed]; *_refuted are about [normalize], the code as it is.
   inr r l := lo r <= l <= hi r;  U rs l := exists r, In r rs /\ inr r l. *)
From V Require Import Base.Text C17.Model C17.Lemmas.
From Coq Require Import Permutation Sorted.
Local Open Scope N_scope.

(* Range::intersects is true exactly when the two ranges share a line (false whenever one is empty) *)
Theorem intersects_spec : forall a b,
  intersects a b = true <-> exists l, inr a l /\ inr b l.
Proof. exact intersects_spec_l. Qed.
Print Assumptions intersects_spec.

(* Range::contains is true exactly when every line of other is a line of self (true for an empty other) *)
Theorem contains_spec : forall a b,
  contains a b = true <-> forall l, inr b l -> inr a l.
Proof. exact contains_spec_l. Qed.
Print Assumptions contains_spec.

(* Range::adjacent_to: both non-empty and one starts on the line after the other ends *)
Theorem adjacent_spec : forall a b,
  adjacent_to a b = true <->
  lo a <= hi a /\ lo b <= hi b /\ (hi a + 1 = lo b \/ hi b + 1 = lo a).
Proof. exact adjacent_spec_l. Qed.
Print Assumptions adjacent_spec.

(* Range::merge, when it returns a range, returns exactly the union of the two *)
Theorem merge_spec : forall a b c,
  merge a b = Some c -> forall l, inr c l <-> inr a l \/ inr b l.
Proof. exact merge_spec_l. Qed.
Print Assumptions merge_spec.

(* Range::merge returns a range exactly under the guard the code checks: adjacent or intersecting *)
Theorem merge_defined : forall a b,
  (exists c, merge a b = Some c) <-> adjacent_to a b = true \/ intersects a b = true.
Proof. exact merge_defined_l. Qed.
Print Assumptions merge_defined.

(* modelling Vec::sort by insertion sort is harmless: a sorted permutation, and the only one *)
Theorem sort_model_harmless : forall rs,
  Permutation (sort_ranges rs) rs
  /\ StronglySorted range_le (sort_ranges rs)
  /\ forall l, Permutation l rs -> StronglySorted range_le l -> l = sort_ranges rs.
Proof. exact sort_model_harmless_l. Qed.
Print Assumptions sort_model_harmless.

(* normalisation preserves the set of selected lines, for ALL inputs (empty ranges included) *)
Theorem normalize_same_set : forall rs l, U (normalize_ranges rs) l <-> U rs l.
Proof. exact nr_same_set. Qed.
Print Assumptions normalize_same_set.

(* without empty ranges the result is sorted, disjoint and non-adjacent (overlapping or adjacent ranges are merged) *)
Theorem normalize_nf : forall rs,
  no_empty rs -> SortedDisjointNonAdjacent (normalize_ranges rs).
Proof. exact nr_nf. Qed.
Print Assumptions normalize_nf.

(* REFUTED without no_empty: an empty range sorted between two overlapping ones blocks their merge; witness [(1,5);(3,2);(4,8)] *)
Theorem normalize_nf_refuted : exists rs, ~ SortedDisjointNonAdjacent (normalize rs).
Proof. exact normalize_nf_refuted_l. Qed.
Print Assumptions normalize_nf_refuted.

(* REFUTED: the documented invariant (non-overlapping ranges) itself fails on the same witness: (1,5) and (4,8) both survive and share line 4 *)
Theorem normalize_overlap_refuted :
  exists rs r r' l, In r (normalize rs) /\ In r' (normalize rs) /\ r <> r'
                    /\ inr r l /\ inr r' l.
Proof. exact normalize_overlap_refuted_l. Qed.
Print Assumptions normalize_overlap_refuted.

(* a range query after normalisation is answered as by the UNION of the ranges; exact form: true iff some line is selected and every line of [a,b] is selected (so an empty query a > b is true iff the selection is not empty) *)
Theorem contains_range_union : forall rs a b,
  no_empty rs ->
  (contains_range (normalize_ranges rs) a b = true <->
   (exists l, U rs l) /\ forall l, a <= l <= b -> U rs l).
Proof. exact nr_contains_range_union. Qed.
Print Assumptions contains_range_union.

(* the same for a non-empty query range, in the shape of the property text *)
Theorem contains_range_union_nonempty_query : forall rs a b,
  no_empty rs -> a <= b ->
  (contains_range (normalize_ranges rs) a b = true <-> forall l, a <= l <= b -> U rs l).
Proof. exact nr_contains_range_nonempty_query. Qed.
Print Assumptions contains_range_union_nonempty_query.

(* what the code answers for an empty query range: true unless the file has no range at all *)
Theorem contains_range_empty_query : forall rs a b,
  no_empty rs -> b < a ->
  (contains_range (normalize_ranges rs) a b = true <-> rs <> []).
Proof. exact nr_contains_range_empty_query. Qed.
Print Assumptions contains_range_empty_query.

(* REFUTED without no_empty: same witness, query (2,7): every line is selected yet contains_range is false *)
Theorem contains_range_union_refuted :
  exists rs a b, a <= b /\ (forall l, a <= l <= b -> U rs l)
                 /\ contains_range (normalize rs) a b = false.
Proof. exact contains_range_union_refuted_l. Qed.
Print Assumptions contains_range_union_refuted.

(* an intersection query is answered as by the union, for ALL inputs (no_empty not needed) *)
Theorem intersects_union : forall rs a b,
  intersects_q (normalize_ranges rs) a b = true <-> exists l, a <= l <= b /\ U rs l.
Proof. exact nr_intersects_union. Qed.
Print Assumptions intersects_union.

(* a line query is answered as by the union, for ALL inputs *)
Theorem contains_line_union : forall rs l,
  contains_line (normalize_ranges rs) l = true <-> U rs l.
Proof. exact nr_contains_line_union. Qed.
Print Assumptions contains_line_union.

(* overlapping or adjacent ranges behave as their union: selections with the same lines answer all three queries alike *)
Theorem union_extensional : forall rs rs',
  no_empty rs -> no_empty rs' -> (forall l, U rs l <-> U rs' l) ->
  forall a b,
    contains_range (normalize_ranges rs) a b = contains_range (normalize_ranges rs') a b
    /\ intersects_q (normalize_ranges rs) a b = intersects_q (normalize_ranges rs') a b
    /\ contains_line (normalize_ranges rs) a = contains_line (normalize_ranges rs') a.
Proof. exact nr_union_extensional. Qed.
Print Assumptions union_extensional.

(* normalisation is idempotent, for ALL inputs *)
Theorem normalize_idem : forall rs,
  normalize_ranges (normalize_ranges rs) = normalize_ranges rs.
Proof. exact nr_idem. Qed.
Print Assumptions normalize_idem.

(* FileLines::all answers every query true; no files, a file not named in the selection, or a name that cannot be canonicalised: every query false *)
Theorem empty_selects_nothing :
  (forall canon l a b q,
      fl_contains_line fl_all canon l = true
      /\ fl_contains_range fl_all canon a b = true
      /\ fl_intersects fl_all canon q = true)
  /\ (forall canon l a b q,
      fl_contains_line (from_ranges []) canon l = false
      /\ fl_contains_range (from_ranges []) canon a b = false
      /\ fl_intersects (from_ranges []) canon q = false)
  /\ (forall m f l a b q,
      map_get m f = None ->
      fl_contains_line (from_ranges m) (Some f) l = false
      /\ fl_contains_range (from_ranges m) (Some f) a b = false
      /\ fl_intersects (from_ranges m) (Some f) q = false)
  /\ (forall m l a b q,
      fl_contains_line (from_ranges m) None l = false
      /\ fl_contains_range (from_ranges m) None a b = false
      /\ fl_intersects (from_ranges m) None q = false).
Proof. exact empty_selects_nothing_l. Qed.
Print Assumptions empty_selects_nothing.

(* a named file whose ranges hold no line (no range, or only EMPTY lo > hi ranges) selects nothing (range query: for a non-empty query) *)
Theorem empty_ranges_select_nothing : forall m f rs l a b,
  map_get m f = Some rs -> (forall l', ~ U rs l') ->
  fl_contains_line (from_ranges m) (Some f) l = false
  /\ fl_intersects (from_ranges m) (Some f) (MkRange a b) = false
  /\ (a <= b -> fl_contains_range (from_ranges m) (Some f) a b = false).
Proof. exact fl_empty_ranges_nothing. Qed.
Print Assumptions empty_ranges_select_nothing.

(* the FileLines-level queries for a named file are the union queries on the ranges given for that file *)
Theorem file_queries_union : forall m f rs,
  map_get m f = Some rs ->
  (forall l, fl_contains_line (from_ranges m) (Some f) l = true <-> U rs l)
  /\ (forall a b, fl_intersects (from_ranges m) (Some f) (MkRange a b) = true
                  <-> exists l, a <= l <= b /\ U rs l)
  /\ (no_empty rs -> forall a b,
        fl_contains_range (from_ranges m) (Some f) a b = true
        <-> (exists l, U rs l) /\ forall l, a <= l <= b -> U rs l).
Proof. exact fl_queries_union. Qed.
Print Assumptions file_queries_union.

(* repair (drop empty ranges first): line membership preserved, ALL inputs *)
Theorem fixed_same_set : forall rs l, U (normalize_fixed rs) l <-> U rs l.
Proof. exact fixed_same_set_l. Qed.
Print Assumptions fixed_same_set.

(* repair: the normal form holds for ALL inputs *)
Theorem fixed_nf : forall rs, SortedDisjointNonAdjacent (normalize_fixed rs).
Proof. exact fixed_nf_l. Qed.
Print Assumptions fixed_nf.

(* repair: range queries are union queries for ALL inputs *)
Theorem fixed_contains_range_union : forall rs a b,
  contains_range (normalize_fixed rs) a b = true <->
  (exists l, U rs l) /\ forall l, a <= l <= b -> U rs l.
Proof. exact fixed_contains_range_union_l. Qed.
Print Assumptions fixed_contains_range_union.

(* repair: intersection queries are union queries for ALL inputs *)
Theorem fixed_intersects_union : forall rs a b,
  intersects_q (normalize_fixed rs) a b = true <-> exists l, a <= l <= b /\ U rs l.
Proof. exact fixed_intersects_union_l. Qed.
Print Assumptions fixed_intersects_union.

(* repair: line queries are union queries for ALL inputs *)
Theorem fixed_contains_line_union : forall rs l,
  contains_line (normalize_fixed rs) l = true <-> U rs l.
Proof. exact fixed_contains_line_union_l. Qed.
Print Assumptions fixed_contains_line_union.

(* repair: idempotent for ALL inputs *)
Theorem fixed_idem : forall rs, normalize_fixed (normalize_fixed rs) = normalize_fixed rs.
Proof. exact fixed_idem_l. Qed.
Print Assumptions fixed_idem.

(* repair: changes nothing on inputs without empty ranges *)
Theorem fixed_agrees : forall rs, no_empty rs -> normalize_fixed rs = normalize rs.
Proof. exact fixed_agrees_l. Qed.
Print Assumptions fixed_agrees.
