(* C17/Examples.v — non-vacuity of the hypotheses used in Props.v, and the
   refutation witnesses evaluated. *)
From V Require Import Base.Text C17.Model C17.Lemmas C17.Run.
From Coq Require Import Permutation Sorted.
Local Open Scope N_scope.

Notation R := MkRange.

(* ---- Range-level: both directions of each specification are inhabited *)
Example ex_intersects_true : intersects (R 1 5) (R 4 8) = true /\ inr (R 1 5) 4 /\ inr (R 4 8) 4.
Proof. split; [vm_compute; reflexivity|]. unfold inr; cbn [lo hi]. lia. Qed.
Example ex_intersects_touch : intersects (R 1 5) (R 5 5) = true.
Proof. vm_compute. reflexivity. Qed.
Example ex_intersects_false : intersects (R 1 5) (R 6 8) = false.
Proof. vm_compute. reflexivity. Qed.
Example ex_intersects_empty : intersects (R 1 5) (R 3 2) = false /\ intersects (R 3 2) (R 1 5) = false.
Proof. vm_compute. split; reflexivity. Qed.
Example ex_contains_true : contains (R 1 8) (R 2 7) = true.
Proof. vm_compute. reflexivity. Qed.
Example ex_contains_empty_other : contains (R 9 9) (R 3 2) = true /\ contains (R 5 4) (R 3 2) = true.
Proof. vm_compute. split; reflexivity. Qed.
Example ex_contains_false : contains (R 1 5) (R 2 7) = false /\ contains (R 5 4) (R 5 5) = false.
Proof. vm_compute. split; reflexivity. Qed.
Example ex_adjacent_true : adjacent_to (R 1 3) (R 4 6) = true /\ adjacent_to (R 4 6) (R 1 3) = true.
Proof. vm_compute. split; reflexivity. Qed.
Example ex_adjacent_false : adjacent_to (R 1 3) (R 5 6) = false /\ adjacent_to (R 1 3) (R 3 6) = false
                            /\ adjacent_to (R 3 2) (R 3 6) = false.
Proof. vm_compute. repeat split; reflexivity. Qed.

(* merge_spec: hypothesis merge a b = Some c met by adjacency and by overlap *)
Example ex_merge_adjacent : merge (R 1 3) (R 4 6) = Some (R 1 6).
Proof. vm_compute. reflexivity. Qed.
Example ex_merge_overlap : merge (R 1 5) (R 3 8) = Some (R 1 8).
Proof. vm_compute. reflexivity. Qed.
Example ex_merge_nested : merge (R 1 9) (R 3 4) = Some (R 1 9).
Proof. vm_compute. reflexivity. Qed.
Example ex_merge_none : merge (R 1 3) (R 5 6) = None /\ merge (R 1 5) (R 3 2) = None.
Proof. vm_compute. split; reflexivity. Qed.

(* ---- sort: a non-trivial instance, ties on lo broken by hi, duplicates kept *)
Example ex_sort :
  sort_ranges [R 4 8; R 1 9; R 4 2; R 1 2; R 4 8] = [R 1 2; R 1 9; R 4 2; R 4 8; R 4 8].
Proof. vm_compute. reflexivity. Qed.
Example ex_sort_unique_hyp :
  Permutation [R 1 2; R 4 8] [R 4 8; R 1 2] /\ StronglySorted range_le [R 1 2; R 4 8].
Proof.
  split; [apply perm_swap|].
  apply SSorted_cons; [apply SSorted_cons; [apply SSorted_nil | apply Forall_nil]|].
  apply Forall_cons; [|apply Forall_nil]. unfold range_le; cbn [lo hi]. lia.
Qed.

(* ---- normalize_nf / contains_range_union / union_extensional: no_empty is
   met by a selection with aligned, overlapping, adjacent and nested ranges,
   and normalisation is not the identity on it *)
Definition sel : list range := [R 10 12; R 4 8; R 1 2; R 3 3; R 11 20; R 30 31].

Example ex_no_empty : no_empty sel.
Proof.
  intros r Hr. unfold sel in Hr. cbn [In] in Hr.
  destruct Hr as [<-|[<-|[<-|[<-|[<-|[<-|[]]]]]]]; cbn [lo hi]; lia.
Qed.
Example ex_normalize : normalize_ranges sel = [R 1 8; R 10 20; R 30 31].
Proof. vm_compute. reflexivity. Qed.
Example ex_nf : SortedDisjointNonAdjacent [R 1 8; R 10 20; R 30 31].
Proof. cbn [SortedDisjointNonAdjacent lo hi]. lia. Qed.
Example ex_not_nf_overlap : ~ SortedDisjointNonAdjacent [R 1 5; R 4 8].
Proof. cbn [SortedDisjointNonAdjacent lo hi]. lia. Qed.
Example ex_not_nf_adjacent : ~ SortedDisjointNonAdjacent [R 1 3; R 4 8].
Proof. cbn [SortedDisjointNonAdjacent lo hi]. lia. Qed.

(* a query cutting through three input ranges that were merged: true, and
   the right-hand side of contains_range_union holds for it *)
Example ex_contains_range_merged : contains_range (normalize_ranges sel) 2 7 = true.
Proof. vm_compute. reflexivity. Qed.
Example ex_contains_range_rhs : (exists l, U sel l) /\ forall l, 2 <= l <= 7 -> U sel l.
Proof.
  apply (nr_contains_range_union sel 2 7 ex_no_empty). exact ex_contains_range_merged.
Qed.
(* a query over a gap (line 9 is not selected): false *)
Example ex_contains_range_gap : contains_range (normalize_ranges sel) 8 10 = false.
Proof. vm_compute. reflexivity. Qed.
(* empty query: true on a non-empty selection, false on no ranges *)
Example ex_contains_range_empty_query :
  contains_range (normalize_ranges sel) 9 8 = true /\ contains_range (normalize_ranges []) 9 8 = false.
Proof. vm_compute. split; reflexivity. Qed.
Example ex_intersects_q : intersects_q (normalize_ranges sel) 9 10 = true
                          /\ intersects_q (normalize_ranges sel) 21 29 = false
                          /\ intersects_q (normalize_ranges sel) 40 50 = false.
Proof. vm_compute. repeat split; reflexivity. Qed.
Example ex_contains_line : contains_line (normalize_ranges sel) 3 = true
                           /\ contains_line (normalize_ranges sel) 9 = false.
Proof. vm_compute. split; reflexivity. Qed.

(* union_extensional: two different selections with the same lines *)
Definition sel' : list range := [R 30 31; R 1 8; R 10 20].
Example ex_same_lines_hyp : no_empty sel' /\ normalize_ranges sel' = normalize_ranges sel.
Proof.
  split; [|vm_compute; reflexivity].
  intros r Hr. unfold sel' in Hr. cbn [In] in Hr.
  destruct Hr as [<-|[<-|[<-|[]]]]; cbn [lo hi]; lia.
Qed.
Example ex_same_lines : forall l, U sel l <-> U sel' l.
Proof.
  intros l. rewrite <- (nr_same_set sel l), <- (nr_same_set sel' l).
  destruct ex_same_lines_hyp as [_ ->]. reflexivity.
Qed.

(* ---- the refutation witness, evaluated *)
Example ex_witness_fixpoint : normalize [R 1 5; R 3 2; R 4 8] = [R 1 5; R 3 2; R 4 8].
Proof. vm_compute. reflexivity. Qed.
Example ex_witness_without_empty : normalize [R 1 5; R 4 8] = [R 1 8].
Proof. vm_compute. reflexivity. Qed.
Example ex_witness_queries :
  let ns := normalize [R 1 5; R 3 2; R 4 8] in
  map (fun q => (contains_range ns (fst q) (snd q), intersects_q ns (fst q) (snd q),
                 contains_line ns (fst q))) [(1,8);(2,7);(6,6)]
  = [(false,true,true);(false,true,true);(true,true,true)].
Proof. vm_compute. reflexivity. Qed.
Example ex_witness_fixed : normalize_fixed [R 1 5; R 3 2; R 4 8] = [R 1 8]
  /\ contains_range (normalize_fixed [R 1 5; R 3 2; R 4 8]) 2 7 = true.
Proof. vm_compute. split; reflexivity. Qed.
(* an all-empty vector still answers an empty query range true (code as it is) *)
Example ex_empty_vs_empty : contains_range (normalize [R 3 2]) 5 4 = true
  /\ contains_range (normalize_fixed [R 3 2]) 5 4 = false.
Proof. vm_compute. split; reflexivity. Qed.
(* an empty range elsewhere is harmless for merging but stays in the vector *)
Example ex_empty_kept : normalize [R 9 2; R 1 5; R 4 8] = [R 1 8; R 9 2].
Proof. vm_compute. reflexivity. Qed.
(* fixed_agrees: its hypothesis is met by sel, and the two variants differ elsewhere *)
Example ex_fixed_differs : normalize_fixed [R 9 2; R 1 5] <> normalize [R 9 2; R 1 5].
Proof. vm_compute. discriminate. Qed.

(* ---- FileLines: hypotheses of empty_selects_nothing, empty_ranges_select_nothing,
   file_queries_union *)
Definition fm : file_map := [(7, sel); (8, [R 3 2; R 9 1]); (9, [])].
Example ex_absent : map_get fm 5 = None.
Proof. vm_compute. reflexivity. Qed.
Example ex_present : map_get fm 7 = Some sel.
Proof. vm_compute. reflexivity. Qed.
Example ex_only_empty : map_get fm 8 = Some [R 3 2; R 9 1] /\ forall l, ~ U [R 3 2; R 9 1] l.
Proof.
  split; [vm_compute; reflexivity|].
  intros l (r & Hr & H). cbn [In] in Hr. unfold inr in H.
  destruct Hr as [<-|[<-|[]]]; cbn [lo hi] in H; lia.
Qed.
Example ex_file_queries :
  run_file_queries [(7, [(10,12);(4,8);(1,2);(3,3)]); (8, [(3,2)])] 7 true [(2,7);(9,9);(8,10)]
  = [(true,true,true);(false,false,false);(false,true,true)]
  /\ run_file_queries [(7, [(10,12);(4,8);(1,2);(3,3)]); (8, [(3,2)])] 8 true [(2,7);(3,3)]
  = [(false,false,false);(false,false,false)]
  /\ run_file_queries [(7, [(10,12);(4,8)])] 5 true [(2,7);(3,2)] = [(false,false,false);(false,false,false)]
  /\ run_file_queries [(7, [(10,12);(4,8)])] 7 false [(4,8)] = [(false,false,false)].
Proof. vm_compute. repeat split; reflexivity. Qed.
