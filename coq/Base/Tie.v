(* Base/Tie.v — tactics for the tie theorems between the definitions REGENERATED from /repo/src by checks/rs2coq.py
   (coq/Gen/<property>/*.v) and the hand-written models: case analysis on every conditional, then linear arithmetic
   over N with boolean comparisons (ZifyBool). *)
From Coq Require Export NArith Bool List Lia ZifyBool ZifyN.
Open Scope N_scope.

Ltac tie_split :=
  repeat match goal with
  | |- context [if ?c then _ else _] => let E := fresh "E" in destruct c eqn:E
  | |- context [match ?c with Some _ => _ | None => _ end] => let E := fresh "E" in destruct c eqn:E
  | H : context [if ?c then _ else _] |- _ => let E := fresh "E" in destruct c eqn:E
  end.
Ltac tie_done := first [ reflexivity | discriminate | lia | (f_equal; lia) | (f_equal; f_equal; lia) | (repeat f_equal; lia) ].
Ltac tie := intros; cbv beta zeta in *; cbn [implb negb fst snd] in *; tie_split; cbn [implb negb] in *; try tie_done.
