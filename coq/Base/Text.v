(* Base/Text.v — texts as lists of Unicode scalar values, and the pieces of the
   Rust standard library's string API that the models use.  Executable
   definitions only; their agreement with the real functions is checked by the
   correspondence runs of the properties that use them. *)
From Coq Require Export List NArith Bool Arith Lia.
Export ListNotations.
Open Scope N_scope.
Open Scope list_scope.

Definition char := N.
Definition text := list char.

Definition LF : char := 10.
Definition CR : char := 13.
Definition TAB : char := 9.
Definition SP : char := 32.

Definition is_lf (c : char) : bool := N.eqb c LF.
Definition is_cr (c : char) : bool := N.eqb c CR.

(* char::is_whitespace (Unicode White_Space) *)
Definition is_whitespace (c : char) : bool :=
  ((9 <=? c) && (c <=? 13)) || (c =? 32) || (c =? 133) || (c =? 160) || (c =? 5760)
  || ((8192 <=? c) && (c <=? 8202)) || (c =? 8232) || (c =? 8233) || (c =? 8239)
  || (c =? 8287) || (c =? 12288).

(* str::split_inclusive('\n'): pieces keep their terminating LF; no empty
   final piece. *)
Fixpoint split_incl_aux (cur : text) (t : text) : list text :=
  match t with
  | [] => match cur with [] => [] | _ => [rev cur] end
  | c :: t' => if is_lf c then rev (c :: cur) :: split_incl_aux [] t'
               else split_incl_aux (c :: cur) t'
  end.
Definition split_inclusive (t : text) : list text := split_incl_aux [] t.

(* strip_suffix on the reversed piece *)
Definition strip_line_rev (r : text) : text :=
  match r with
  | c :: r' => if is_lf c then
                 match r' with
                 | d :: r'' => if is_cr d then r'' else r'
                 | [] => r'
                 end
               else r
  | [] => []
  end.
Definition strip_line (l : text) : text := rev (strip_line_rev (rev l)).

(* str::lines (Rust >= 1.64): split at LF, strip the LF and one CR directly
   before it; a line without LF keeps a trailing CR. *)
Definition str_lines (t : text) : list text := map strip_line (split_inclusive t).

Definition ends_with_lf (t : text) : bool :=
  match rev t with c :: _ => is_lf c | [] => false end.

(* join lines with a separator after each (writeln!) *)
Definition unlines (ls : list text) : text := concat (map (fun l => l ++ [LF]) ls).

Fixpoint eqb_text (a b : text) : bool :=
  match a, b with
  | [], [] => true
  | x :: a', y :: b' => (x =? y) && eqb_text a' b'
  | _, _ => false
  end.

Lemma eqb_text_spec a b : eqb_text a b = true <-> a = b.
Proof.
  revert b; induction a as [|x a IH]; intros [|y b]; cbn [eqb_text].
  - split; reflexivity.
  - split; discriminate.
  - split; discriminate.
  - rewrite andb_true_iff, N.eqb_eq, IH. split.
    + intros [-> ->]; reflexivity.
    + intros H; inversion H; auto.
Qed.
