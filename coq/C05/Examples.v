(* C05/Examples.v — non-vacuity for the C05 theorems and the _refuted witnesses *)
From V Require Import Base.Text C20.Model C06.Model C06.Lemmas C05.Model C05.Lemmas.
Local Open Scope N_scope.

Definition ok_res : fres := MkFres flags_zero false false.
Definition diff_res : fres := MkFres flags_zero true false.
Definition leaf (p : path) (o : outcome) : mtree := Node (MkInfo p o false false false ok_res) [].
(* lib.rs (5) declares a (2), b (9); b declares c (4) *)
Definition crate_ok : mtree :=
  Node (MkInfo 5 POk false false false diff_res) [leaf 2 POk; Node (MkInfo 9 POk false false false ok_res) [leaf 4 POk]].
(* the same, but c has a syntax error *)
Definition crate_bad : mtree :=
  Node (MkInfo 5 POk false false false diff_res) [leaf 2 POk; Node (MkInfo 9 POk false false false ok_res) [leaf 4 PRecoverable]].
(* a child is missing but declared under #[rustfmt::skip] *)
Definition crate_skipped_missing : mtree :=
  Node (MkInfo 5 POk false false false ok_res) [Node (MkInfo 2 PMissing true false false ok_res) []].

(* a good crate: everything parsed first, then files in path order *)
Example good_trace :
  run_root cfg_ok false crate_ok =
  ([Parsed 5; Parsed 2; Parsed 9; Parsed 4;
    Formatted 2; Emitted 2; Formatted 4; Emitted 4; Formatted 5; Emitted 5; Formatted 9; Emitted 9],
   diff_flag true).
Proof. vm_compute. reflexivity. Qed.

(* no_emit_on_early_failure / exit_one_on_failure: hypotheses met by crate_bad *)
Example crate_bad_is_bad : root_bad cfg_ok false crate_bad.
Proof.
  right. split; [reflexivity|]. eexists. split; [right; left; reflexivity|].
  eapply rb_below; try reflexivity; [left; reflexivity|]. apply rb_here; [reflexivity|discriminate].
Qed.
Example bad_trace :
  run_root cfg_ok false crate_bad = ([Parsed 5; Parsed 2; Parsed 9; ResolveErr], operational_flag).
Proof. vm_compute. reflexivity. Qed.
Example bad_not_looked_at : not_looked_at cfg_ok crate_bad = false.
Proof. reflexivity. Qed.
Example version_trace :
  run_root (MkCfg false false true false) false crate_ok = ([VersionMismatch], operational_flag).
Proof. vm_compute. reflexivity. Qed.
Example ignore_glob_trace :
  run_root (MkCfg true false false false) false crate_ok = ([ConfigErr], operational_flag).
Proof. vm_compute. reflexivity. Qed.
Example root_syntax_error : run_root cfg_ok false (leaf 5 PRecoverable) = ([ParseRootErr], parsing_flag).
Proof. vm_compute. reflexivity. Qed.

(* what is NOT a failure: skipped declaration of a missing module; stdin / skip_children do not visit children *)
Example skipped_missing_ok : run_root cfg_ok false crate_skipped_missing = ([Parsed 5; Formatted 5; Emitted 5], flags_zero).
Proof. vm_compute. reflexivity. Qed.
Example stdin_does_not_resolve : run_root cfg_ok true crate_bad = ([Parsed 5; Formatted 5; Emitted 5], diff_flag true).
Proof. vm_compute. reflexivity. Qed.
Example skip_children_does_not_resolve :
  run_root (MkCfg true false true true) false crate_bad = ([Parsed 5; Formatted 5; Emitted 5], diff_flag true).
Proof. vm_compute. reflexivity. Qed.

(* emit_after_all_resolve: a trace that does contain an emission *)
Example has_emission : exists pre post, fst (run_root cfg_ok false crate_ok) = pre ++ Emitted 2 :: post /\ post <> [].
Proof. exists [Parsed 5; Parsed 2; Parsed 9; Parsed 4; Formatted 2]. eexists. split; [vm_compute; reflexivity|discriminate]. Qed.

(* an I/O error of the emitter on the second file: the first file has already been emitted, the report's flags
   (has_diff of file 2) are dropped, the operational flag is set *)
Definition crate_io : mtree :=
  Node (MkInfo 5 POk false false false (MkFres flags_zero false true)) [Node (MkInfo 2 POk false false false diff_res) []].
Example io_error_trace :
  run_root cfg_ok false crate_io = ([Parsed 5; Parsed 2; Formatted 2; Emitted 2; Formatted 5; EmitIoErr 5], operational_flag).
Proof. vm_compute. reflexivity. Qed.

(* filter: ignored file and inner skip attribute *)
Definition crate_filtered : mtree :=
  Node (MkInfo 5 POk false false false ok_res)
       [Node (MkInfo 2 POk false false true ok_res) []; Node (MkInfo 9 POk false true false ok_res) [leaf 4 PMissing]].
Example filtered_trace :
  run_root cfg_ok false crate_filtered = ([Parsed 5; Parsed 2; Parsed 9; Filtered 2; Formatted 5; Emitted 5], flags_zero).
Proof. vm_compute. reflexivity. Qed.

(* panic_contained: hypotheses met *)
Example panic_root : run_root cfg_ok false (leaf 5 PPanic) = ([ParsePanic], parsing_flag).
Proof. vm_compute. reflexivity. Qed.
Example panic_child :
  run_root cfg_ok false (Node (MkInfo 5 POk false false false ok_res) [leaf 2 PPanic]) = ([Parsed 5; ResolveErr], operational_flag).
Proof. vm_compute. reflexivity. Qed.

(* roots: missing path, directory, good root, bad root; the bad one does not stop the others *)
Definition r_missing : root := MkRoot false false UseSession (leaf 1 POk).
Definition r_good : root := MkRoot true false UseSession crate_ok.
Definition r_bad : root := MkRoot true false (LocalOk cfg_ok) crate_bad.
Definition r_cfgerr : root := MkRoot true false LocalErr (leaf 3 POk).
Example three_roots_no_abort : existsb aborts [r_bad; r_missing; r_good] = false.
Proof. reflexivity. Qed.
Example three_roots :
  run_main (Some cfg_ok) false [r_bad; r_missing; r_good] =
  ([[Parsed 5; Parsed 2; Parsed 9; ResolveErr]; [BadPath];
    [Parsed 5; Parsed 2; Parsed 9; Parsed 4;
     Formatted 2; Emitted 2; Formatted 4; Emitted 4; Formatted 5; Emitted 5; Formatted 9; Emitted 9]], 1).
Proof. vm_compute. reflexivity. Qed.
Example good_alone_exit0 : snd (run_main (Some cfg_ok) false [r_good]) = 0 /\ snd (run_main (Some cfg_ok) true [r_good]) = 1.
Proof. vm_compute. split; reflexivity. Qed.
Example cfgerr_aborts : run_main (Some cfg_ok) false [r_cfgerr; r_good] = ([[ConfigErr]], 1).
Proof. vm_compute. reflexivity. Qed.
Example global_cfgerr : run_main None false [r_good] = ([[ConfigErr]], 1).
Proof. reflexivity. Qed.

(* monitor *)
Example monitor_accepts_good : accepts (fst (run_root cfg_ok false crate_ok)) = true.
Proof. vm_compute. reflexivity. Qed.
Example monitor_failure_premise : existsb is_failure (fst (run_root cfg_ok false crate_bad)) = true.
Proof. vm_compute. reflexivity. Qed.
Example monitor_rejects : accepts [Parsed 1; ResolveErr; Formatted 1; Emitted 1] = false /\ accepts [Parsed 1; Emitted 1] = false.
Proof. split; reflexivity. Qed.

(* fatal lexer error: a parse error in the root (repaired code), status 101 before the repair; a module
   resolution error in a child *)
Example lex_fatal_root :
  run_main (Some cfg_ok) false [MkRoot true false UseSession (leaf 3 PLexFatal); r_good] =
  ([[ParseRootErr];
    [Parsed 5; Parsed 2; Parsed 9; Parsed 4;
     Formatted 2; Emitted 2; Formatted 4; Emitted 4; Formatted 5; Emitted 5; Formatted 9; Emitted 9]], 1).
Proof. vm_compute. reflexivity. Qed.
Example lex_fatal_root_pre :
  run_main_pre (Some cfg_ok) false [MkRoot true false UseSession (leaf 3 PLexFatal); r_good] = ([[ParseRootErr]], 101).
Proof. vm_compute. reflexivity. Qed.
Example lex_fatal_stdin : run_stdin cfg_ok (leaf 3 PLexFatal) = ([ParseRootErr], 1) /\ run_stdin_pre cfg_ok (leaf 3 PLexFatal) = ([ParseRootErr], 101).
Proof. vm_compute. split; reflexivity. Qed.
Example lex_fatal_child :
  run_root cfg_ok false (Node (MkInfo 5 POk false false false ok_res) [leaf 2 PLexFatal]) = ([Parsed 5; ResolveErr], operational_flag).
Proof. vm_compute. reflexivity. Qed.
Example lex_fatal_premises : c_version_ok cfg_ok = true /\ c_disable_all cfg_ok = false /\ c_ignore_ok cfg_ok = true.
Proof. repeat split. Qed.
