(* C05/Props.v — C05: "If the input cannot be processed (syntax error in the root file or in any out-of-line module
   it reaches, unresolvable module, malformed or version-mismatched configuration, missing path), rustfmt writes
   nothing for that crate root: every file it reaches keeps its exact bytes, a diagnostic is printed and the exit
   status is 1. Other roots named on the same command line are still formatted, and a file is only ever replaced
   by its complete formatted text."
   Scope: the order of events in format_input_inner / format_project / main.rs's loop, for every module tree
   (rose tree, no bound), every configuration and every per-file outcome.  File-system operations happen only
   inside emit_formatted_file, i.e. at Emitted / EmitIoErr events (C06 only_files_write, files_touch_iff: the
   operation is one write of the complete formatted text). *)
From V Require Import Base.Text C20.Model C06.Model C06.Lemmas C05.Model C05.Lemmas.
Local Open Scope N_scope.

(* clause 1: version mismatch, bad ignore pattern, a root that does not parse, or a reached child that is
   missing / ambiguous / unparsable: no file of that root is formatted, none is handed to the emitter *)
Theorem no_emit_on_early_failure : forall (c : cfg) (stdin : bool) (t : mtree),
  c_version_ok c = false \/ c_ignore_ok c = false \/ root_bad c stdin t ->
  no_emitted (fst (run_root c stdin t)) /\ no_formatted (fst (run_root c stdin t)).
Proof. exact no_emit_on_early_failure_lemma. Qed.
Print Assumptions no_emit_on_early_failure.

(* clause 1, exit status: such a root sets has_operational_errors or has_parsing_errors, both exit-code
   expressions give 1, and the trace contains a failure event (the diagnostic) — unless formatting is disabled
   or the root is ignored under skip_children *)
Theorem exit_one_on_failure : forall (c : cfg) (stdin : bool) (t : mtree) (check : bool),
  c_version_ok c = false \/
  (c_disable_all c = false /\
   (c_ignore_ok c = false \/ (not_looked_at c t = false /\ root_bad c stdin t))) ->
  let f := snd (run_root c stdin t) in
  (f_operational f = true \/ f_parsing f = true) /\ exit_file f check = 1 /\ exit_stdin f = 1 /\
  existsb is_failure (fst (run_root c stdin t)) = true.
Proof. exact exit_one_on_failure_lemma. Qed.
Print Assumptions exit_one_on_failure.

(* the exception: disable_all_formatting = true returns before anything is parsed: a syntax error gives no
   diagnostic and no flag (exit 0) *)
Theorem exit_one_on_failure_disabled_refuted :
  exists c t, n_outcome (t_info t) = PRecoverable /\ run_root c false t = ([], flags_zero).
Proof. exact disabled_exit_zero_lemma. Qed.
Print Assumptions exit_one_on_failure_disabled_refuted.

(* REPAIRED (ParserBuilder::build now runs the parser creation under catch_unwind): BEFORE the repair, exit status
   1 and "other roots are still formatted" failed for a fatal lexer error (unterminated string, raw string or
   block comment) in a ROOT file or on standard input: rustc's FatalError unwound through main, the process ended
   with status 101 and the roots named after it were not processed.  Stated about the pre-repair definitions *)
Theorem root_fatal_lexer_error_exit101_refuted :
  exists (scfg : cfg) (r1 r2 : root),
    n_outcome (t_info (r_tree r1)) = PLexFatal /\
    In (Emitted 7) (fst (run_one scfg r2)) /\
    run_main_pre (Some scfg) false [r1; r2] = ([[ParseRootErr]], 101) /\
    run_main_pre (Some scfg) false [r2; r1] = ([[Parsed 7; Formatted 7; Emitted 7]; [ParseRootErr]], 101) /\
    run_stdin_pre scfg (r_tree r1) = ([ParseRootErr], 101).
Proof. exact root_lex_fatal_refuted_lemma. Qed.
Print Assumptions root_fatal_lexer_error_exit101_refuted.

(* the repaired code: a fatal lexer error in the root is a parse error (diagnostic, parsing flag, exit 1, on
   standard input too) and the other roots are formatted; in a child module it is a module resolution error *)
Theorem root_fatal_lexer_error_repaired :
  (forall c stdin t, c_version_ok c = true -> c_disable_all c = false -> c_ignore_ok c = true ->
     (c_skip_children c && n_ignored (t_info t)) = false -> n_outcome (t_info t) = PLexFatal ->
     run_root c stdin t = ([ParseRootErr], parsing_flag) /\ snd (run_stdin c t) = 1) /\
  run_main (Some cfg_ok) false [MkRoot true false UseSession (Node (lex_info 3) []);
                                MkRoot true false (LocalOk cfg_ok) (Node (clean_info 7) [])] =
    ([[ParseRootErr]; [Parsed 7; Formatted 7; Emitted 7]], 1) /\
  run_main (Some cfg_ok) false [MkRoot true false UseSession (Node (clean_info 5) [Node (lex_info 3) []]);
                                MkRoot true false (LocalOk cfg_ok) (Node (clean_info 7) [])] =
    ([[Parsed 5; ResolveErr]; [Parsed 7; Formatted 7; Emitted 7]], 1).
Proof. exact root_lex_fatal_repaired_lemma. Qed.
Print Assumptions root_fatal_lexer_error_repaired.

(* clause 1, ordering: in every trace of a root, no parse / resolve event follows an emission: every file is
   parsed and every module resolved before the first file is formatted or written *)
Theorem emit_after_all_resolve : forall (c : cfg) (stdin : bool) (t : mtree) pre p post,
  fst (run_root c stdin t) = pre ++ Emitted p :: post ->
  Forall (fun e => is_parse_ev e = false) post.
Proof. exact emit_after_all_resolve_lemma. Qed.
Print Assumptions emit_after_all_resolve.

(* a panic of the rustc parser in the root file: parsing-error flag, exit 1, nothing else happens *)
Theorem panic_contained : forall (c : cfg) (stdin : bool) (t : mtree),
  c_version_ok c = true -> c_disable_all c = false -> c_ignore_ok c = true ->
  (c_skip_children c && n_ignored (t_info t)) = false ->
  n_outcome (t_info t) = PPanic ->
  run_root c stdin t = ([ParsePanic], parsing_flag).
Proof. exact panic_root_lemma. Qed.
Print Assumptions panic_contained.

(* a panic in an out-of-line module: reported as a module resolution error, i.e. the OPERATIONAL flag (not the
   parsing flag), exit 1, nothing emitted *)
Theorem panic_contained_child : forall (c : cfg) (t k : mtree) (check : bool),
  c_version_ok c = true -> c_disable_all c = false -> c_ignore_ok c = true ->
  not_looked_at c t = false -> c_skip_children c = false ->
  n_outcome (t_info t) = POk -> In k (t_kids t) -> n_decl_skip (t_info k) = false -> n_outcome (t_info k) = PPanic ->
  snd (run_root c false t) = operational_flag /\ exit_file (snd (run_root c false t)) check = 1 /\
  no_emitted (fst (run_root c false t)).
Proof. exact panic_child_lemma. Qed.
Print Assumptions panic_contained_child.

(* clause 2: as long as no root's local configuration fails to load, the events and flags of each root are
   those of that root alone (run_one does not mention the other roots) *)
Theorem roots_independent_partial : forall (scfg : cfg) (rs : list root),
  existsb aborts rs = false ->
  fst (run_roots scfg rs) = map (run_one scfg) rs /\ snd (run_roots scfg rs) = false.
Proof. exact roots_independent_lemma. Qed.
Print Assumptions roots_independent_partial.

(* in general only a prefix of the roots is processed, each as if alone *)
Theorem roots_prefix : forall (scfg : cfg) (rs : list root),
  exists k, fst (run_roots scfg rs) = map (run_one scfg) (firstn k rs) /\
            (existsb aborts rs = false -> k = length rs).
Proof. exact roots_prefix_lemma. Qed.
Print Assumptions roots_prefix.

(* clause 2 REFUTED: a root whose directory holds a malformed rustfmt.toml ends the loop (`?` in main.rs:360):
   roots named after it are not formatted, roots named before it are (confirmed on the binary) *)
Theorem other_roots_still_formatted_refuted :
  exists (scfg : cfg) (r1 r2 : root),
    In (Emitted 7) (fst (run_one scfg r2)) /\
    run_main (Some scfg) false [r1; r2] = ([[ConfigErr]], 1) /\
    run_main (Some scfg) false [r2; r1] = ([[Parsed 7; Formatted 7; Emitted 7]; [ConfigErr]], 1).
Proof. exact other_roots_refuted_lemma. Qed.
Print Assumptions other_roots_still_formatted_refuted.

(* exit status of the invocation: 1 as soon as one root fails *)
Theorem multi_exit_one : forall (scfg : cfg) (check : bool) (rs : list root) (r : root),
  In r rs ->
  (f_operational (snd (run_one scfg r)) = true \/ f_parsing (snd (run_one scfg r)) = true \/ aborts r = true) ->
  snd (run_main (Some scfg) check rs) = 1.
Proof. exact run_main_exit_one. Qed.
Print Assumptions multi_exit_one.

(* the trace monitor accepts every trace of the model ... *)
Theorem accepts_spec : forall (c : cfg) (stdin : bool) (t : mtree), accepts (fst (run_root c stdin t)) = true.
Proof. exact accepts_complete_lemma. Qed.
Print Assumptions accepts_spec.

(* ... and an accepted trace with a failure event contains no emission *)
Theorem accepts_sound : forall tr : list Ev,
  accepts tr = true -> existsb is_failure tr = true -> existsb is_emitted tr = false.
Proof. exact accepts_sound_lemma. Qed.
Print Assumptions accepts_sound.
