(* C05/Model.v — the order of events of one crate root and of the command-line loop, as executable definitions.
   Sources modelled:
     src/formatting.rs:29-56     Session::format_input_inner           (format_input_inner)
     src/formatting.rs:102-172   format_project                        (format_project, fmt_loop, should_skip)
     src/parse/parser.rs:102-152 parse_file_as_module, parse_crate     (the [outcome] each returns)
     src/modules.rs:117-150      ModResolver::visit_crate              (visit_kids, file_map)
     src/modules.rs:247-296      visit_sub_mod, peek_sub_mod, insert_sub_mod   (visit)
     src/modules.rs:344-470      find_external_module                  (visit: the error cases)
     src/formatting.rs:275-306   handle_formatted_file                 (fmt_loop: Emitted / EmitIoErr)
     src/bin/main.rs:397-415     format_and_emit_report                (run_root)
     src/bin/main.rs:331-396     format: the loop over the files       (run_roots, run_main)
     src/bin/main.rs:38-44       main: Err => exit code 1              (run_main)
   A crate is a rose tree of modules; [outcome] is what Parser::parse_crate / parse_file_as_module return for
   the file (after the ignore-list error reset), or the failure of the path lookup.  A file reached twice
   (is_file_parsed) is not modelled: the tree has no sharing.
   Definitions only; proofs are in Lemmas.v. *)
From V Require Import Base.Text C20.Model C06.Model.
Local Open Scope N_scope.

Inductive outcome : Type :=
| POk              (* parsed                                                           *)
| PRecoverable     (* parser recovered but reported errors: ParserError::ParseError    *)
| PFatal           (* parse_mod / parse_crate_mod returned Err(diagnostic)             *)
| PPanic           (* the rustc parser panicked (caught by catch_unwind)               *)
| PMissing         (* default_submod_path: FileNotFound                                *)
| PAmbiguous       (* default_submod_path: MultipleCandidates                          *)
| PLexFatal.       (* fatal lexer error (unterminated string, raw string or block comment): rustc raises
                      FatalError (unwinding) inside new_parser_from_file.  parse_file_as_module runs it under
                      catch_unwind; for the root, ParserBuilder::build (parser.rs:47-63) now does too and returns
                      Err(ParserError::ParseError): an ordinary parse error.  Before the repair build ran it
                      OUTSIDE catch_unwind and the process ended with status 101: see [run_main_pre]. *)

(* what formatting + emitting this file does: flags the formatter adds to the report, the emitter's has_diff,
   whether emit_formatted_file returns Err (io error) *)
Record fres : Type := MkFres { fr_flags : flags; fr_has_diff : bool; fr_io_err : bool }.

Record ninfo : Type := MkInfo {
  n_path : path;
  n_outcome : outcome;
  n_decl_skip : bool;     (* #[rustfmt::skip] on the `mod x;` item: peek_sub_mod returns None      *)
  n_inner_skip : bool;    (* #![rustfmt::skip] inside the file                                     *)
  n_ignored : bool;       (* matched by `ignore`, or generated-file marker with format_generated_files = false *)
  n_res : fres
}.

Inductive mtree : Type := Node (i : ninfo) (kids : list mtree).
Definition t_info (t : mtree) : ninfo := match t with Node i _ => i end.
Definition t_kids (t : mtree) : list mtree := match t with Node _ k => k end.

Inductive Ev : Type :=
| ConfigErr            (* configuration could not be loaded / ParseSess::new failed (bad ignore glob) *)
| VersionMismatch      (* required_version check                                                      *)
| BadPath              (* main.rs: file does not exist / is a directory                               *)
| Parsed (p : path)    (* the file was read and parsed successfully                                   *)
| ParseRootErr         (* parse_crate: ParseError / parser could not be created                       *)
| ParsePanic           (* parse_crate: ParsePanicError                                                *)
| ResolveErr           (* ModuleResolutionError (child not found, ambiguous, or unparsable)           *)
| Filtered (p : path)  (* should_skip_module                                                          *)
| Formatted (p : path) (* format_file ran                                                             *)
| Emitted (p : path)   (* emit_formatted_file returned Ok                                             *)
| EmitIoErr (p : path). (* emit_formatted_file returned Err                                            *)

Record cfg : Type := MkCfg {
  c_version_ok : bool;      (* version_meets_requirement()            *)
  c_disable_all : bool;     (* disable_all_formatting                 *)
  c_ignore_ok : bool;       (* ParseSess::new(config) succeeds        *)
  c_skip_children : bool    (* skip_children                          *)
}.

Inductive result : Type := ROk (f : flags) | RErr.

Definition parsing_flag : flags := MkFlags false true false false false false false.
Definition operational_flag : flags := MkFlags true false false false false false false.

(* ------------------------------------------------------------------ *)
(* modules.rs:247-296 + 344-470: visit_sub_mod on one declared child.  Events, and the files inserted into
   file_map in insertion order (None = Err(ModuleResolutionError), propagated by `?`) *)
Fixpoint visit (t : mtree) : list Ev * option (list ninfo) :=
  match t with
  | Node i kids =>
      if n_decl_skip i then ([], Some [])                              (* peek_sub_mod: contains_skip(item.attrs) *)
      else match n_outcome i with
           | POk =>
               if n_inner_skip i then ([Parsed (n_path i)], Some [])    (* Ok((ref attrs,..)) if contains_skip *)
               else
                 let r := (fix vk (ks : list mtree) : list Ev * option (list ninfo) :=
                             match ks with
                             | [] => ([], Some [])
                             | k :: ks' =>
                                 match visit k with
                                 | (e1, None) => (e1, None)
                                 | (e1, Some l1) =>
                                     let r2 := vk ks' in (e1 ++ fst r2, option_map (app l1) (snd r2))
                                 end
                             end) kids in
                 (Parsed (n_path i) :: fst r, option_map (cons i) (snd r))
           | _ => ([ResolveErr], None)
           end
  end.

(* visit_mod_from_ast: the items of one module in source order *)
Fixpoint visit_kids (ks : list mtree) : list Ev * option (list ninfo) :=
  match ks with
  | [] => ([], Some [])
  | k :: ks' =>
      match visit k with
      | (e1, None) => (e1, None)
      | (e1, Some l1) => let r2 := visit_kids ks' in (e1 ++ fst r2, option_map (app l1) (snd r2))
      end
  end.

(* BTreeMap<FileName, Module>: sorted by path; entry().or_insert (over = false) or insert (over = true) *)
Fixpoint bt_insert (over : bool) (i : ninfo) (m : list ninfo) : list ninfo :=
  match m with
  | [] => [i]
  | j :: m' =>
      if n_path i <? n_path j then i :: m
      else if n_path i =? n_path j then (if over then i :: m' else m)
      else j :: bt_insert over i m'
  end.

(* modules.rs:117-150 visit_crate: children first (or_insert), the root last (insert) *)
Definition file_map (root : ninfo) (children : list ninfo) : list ninfo :=
  bt_insert true root (fold_left (fun m i => bt_insert false i m) children []).

(* formatting.rs:59-91 should_skip_module *)
Definition should_skip (c : cfg) (main : path) (i : ninfo) : bool :=
  n_inner_skip i || (c_skip_children c && negb (n_path i =? main)) || n_ignored i.

(* formatting.rs:143-150 the loop over the files; [acc] = flags in the report so far.
   stdin with an inner skip attribute: echo_back_stdin returns a NEW empty report.
   io error of the emitter: `?` returns Err, the report (and its flags) is dropped. *)
Fixpoint fmt_loop (stdin : bool) (files : list ninfo) (acc : flags) : list Ev * option flags :=
  match files with
  | [] => ([], Some acc)
  | i :: rest =>
      if stdin && n_inner_skip i then ([], Some flags_zero)
      else
        let r := n_res i in
        if fr_io_err r then ([Formatted (n_path i); EmitIoErr (n_path i)], None)
        else
          let acc' := flags_add acc (flags_add (fr_flags r) (diff_flag (fr_has_diff r))) in
          let rr := fmt_loop stdin rest acc' in
          (Formatted (n_path i) :: Emitted (n_path i) :: fst rr, snd rr)
  end.

(* formatting.rs:102-172 format_project *)
Definition format_project (c : cfg) (stdin : bool) (t : mtree) : list Ev * result :=
  let root := t_info t in
  if negb (c_ignore_ok c) then ([ConfigErr], RErr)                       (* ParseSess::new(config)? *)
  else if c_skip_children c && n_ignored root then ([], ROk flags_zero)
  else
    match n_outcome root with
    | POk =>
        let recursive := negb stdin && negb (c_skip_children c) in
        let rv := if recursive then visit_kids (t_kids t) else ([], Some []) in
        match snd rv with
        | None => (Parsed (n_path root) :: fst rv, RErr)                 (* visit_crate(..)? *)
        | Some children =>
            let fm := file_map root children in
            let skip := fun i => negb stdin && should_skip c (n_path root) i in
            let kept := filter (fun i => negb (skip i)) fm in
            let fev := map (fun i => Filtered (n_path i)) (filter skip fm) in
            let rl := fmt_loop stdin kept flags_zero in
            (Parsed (n_path root) :: fst rv ++ fev ++ fst rl,
             match snd rl with Some f => ROk f | None => RErr end)
        end
    | PRecoverable | PMissing | PAmbiguous => ([ParseRootErr], ROk parsing_flag)   (* report.add_parsing_error(); Ok(report) *)
    | PLexFatal => ([ParseRootErr], ROk parsing_flag)    (* build: Err(..) => Err(ParserError::ParseError) *)
    | PFatal | PPanic => ([ParsePanic], ROk parsing_flag)
    end.

(* formatting.rs:29-56 format_input_inner *)
Definition format_input_inner (c : cfg) (stdin : bool) (t : mtree) : list Ev * result :=
  if negb (c_version_ok c) then ([VersionMismatch], RErr)
  else if c_disable_all c then ([], ROk flags_zero)
  else format_project c stdin t.

(* main.rs:397-415 format_and_emit_report: Err => add_operational_error.  Result: the events of this root and
   the flags it adds to session.errors *)
Definition run_root (c : cfg) (stdin : bool) (t : mtree) : list Ev * flags :=
  let r := format_input_inner c stdin t in
  (fst r, match snd r with ROk f => f | RErr => operational_flag end).

(* ------------------------------------------------------------------ *)
(* main.rs:331-396 format *)
Inductive cfg_load : Type :=
| UseSession            (* a configuration file was found for the invocation: no per-file lookup *)
| LocalOk (c : cfg)     (* load_config(file.parent()) succeeded                                  *)
| LocalErr.             (* load_config(file.parent())? failed: `?` leaves the function            *)

Record root : Type := MkRoot { r_exists : bool; r_is_dir : bool; r_load : cfg_load; r_tree : mtree }.

(* per root its events and flags; the boolean says that a `?` aborted the loop *)
Fixpoint run_roots (scfg : cfg) (rs : list root) : list (list Ev * flags) * bool :=
  match rs with
  | [] => ([], false)
  | r :: rs' =>
      if negb (r_exists r) || r_is_dir r then
        let rr := run_roots scfg rs' in (([BadPath], operational_flag) :: fst rr, snd rr)
      else
        match r_load r with
        | LocalErr => ([([ConfigErr], flags_zero)], true)
        | UseSession => let rr := run_roots scfg rs' in (run_root scfg false (r_tree r) :: fst rr, snd rr)
        | LocalOk c => let rr := run_roots scfg rs' in (run_root c false (r_tree r) :: fst rr, snd rr)
        end
  end.

(* [global] = the result of the first load_config (None: `?`); the exit status *)
Definition run_main (global : option cfg) (check : bool) (rs : list root) : list (list Ev) * N :=
  match global with
  | None => ([[ConfigErr]], 1)
  | Some scfg =>
      let rr := run_roots scfg rs in
      (map fst (fst rr), if snd rr then 1 else exit_file (flags_sum (map snd (fst rr))) check)
  end.

(* format_string (main.rs:278-329): one input on standard input *)
Definition run_stdin (c : cfg) (t : mtree) : list Ev * N :=
  let r := run_root c true t in (fst r, exit_stdin (snd r)).

(* ------------------------------------------------------------------ *)
(* THE CODE BEFORE THE REPAIR of ParserBuilder::build (kept for the record; nothing above uses it).
   The root's parser could not be created because of a fatal lexer error, and the code reached that point:
   FatalError unwound through format_project, Session::format and main *)
Definition unwinds (c : cfg) (t : mtree) : bool :=
  c_version_ok c && negb (c_disable_all c) && c_ignore_ok c &&
  negb (c_skip_children c && n_ignored (t_info t)) &&
  match n_outcome (t_info t) with PLexFatal => true | _ => false end.

(* Some code = the loop was left early and the process ended with that status
   (1: `?` on load_config; 101: unwinding FatalError) *)
Fixpoint run_roots_pre (scfg : cfg) (rs : list root) : list (list Ev * flags) * option N :=
  match rs with
  | [] => ([], None)
  | r :: rs' =>
      if negb (r_exists r) || r_is_dir r then
        let rr := run_roots_pre scfg rs' in (([BadPath], operational_flag) :: fst rr, snd rr)
      else
        match r_load r with
        | LocalErr => ([([ConfigErr], flags_zero)], Some 1)
        | UseSession =>
            if unwinds scfg (r_tree r) then ([run_root scfg false (r_tree r)], Some 101)
            else let rr := run_roots_pre scfg rs' in (run_root scfg false (r_tree r) :: fst rr, snd rr)
        | LocalOk c =>
            if unwinds c (r_tree r) then ([run_root c false (r_tree r)], Some 101)
            else let rr := run_roots_pre scfg rs' in (run_root c false (r_tree r) :: fst rr, snd rr)
        end
  end.

Definition run_main_pre (global : option cfg) (check : bool) (rs : list root) : list (list Ev) * N :=
  match global with
  | None => ([[ConfigErr]], 1)
  | Some scfg =>
      let rr := run_roots_pre scfg rs in
      (map fst (fst rr),
       match snd rr with Some code => code | None => exit_file (flags_sum (map snd (fst rr))) check end)
  end.

Definition run_stdin_pre (c : cfg) (t : mtree) : list Ev * N :=
  let r := run_root c true t in
  (fst r, if unwinds c t then 101 else exit_stdin (snd r)).

(* ------------------------------------------------------------------ *)
(* monitor for an observed trace of one root: phases
     0 start, 1 resolving, 2 filtering, 3 p: formatted p awaiting its emission, 4 between files, 5 ended *)
Inductive mstate : Type := S0 | S1 | S2 | S3 (p : path) | S4 | S5 | SBad.

Definition mstep (s : mstate) (e : Ev) : mstate :=
  match s, e with
  | S0, ConfigErr | S0, VersionMismatch | S0, BadPath | S0, ParseRootErr | S0, ParsePanic => S5
  | S0, Parsed _ => S1
  | S1, Parsed _ => S1
  | S1, ResolveErr => S5
  | S1, Filtered _ | S2, Filtered _ => S2
  | S1, Formatted p | S2, Formatted p | S4, Formatted p => S3 p
  | S3 p, Emitted q => if p =? q then S4 else SBad
  | S3 p, EmitIoErr q => if p =? q then S5 else SBad
  | _, _ => SBad
  end.

Definition mfinal (s : mstate) : bool :=
  match s with S0 | S1 | S2 | S4 | S5 => true | S3 _ | SBad => false end.

Definition accepts (tr : list Ev) : bool := mfinal (fold_left mstep tr S0).

Definition is_emitted (e : Ev) : bool := match e with Emitted _ => true | _ => false end.
Definition is_failure (e : Ev) : bool :=
  match e with ConfigErr | VersionMismatch | BadPath | ParseRootErr | ParsePanic | ResolveErr => true | _ => false end.
(* events of the parse / resolve phase *)
Definition is_parse_ev (e : Ev) : bool :=
  match e with Parsed _ | ParseRootErr | ParsePanic | ResolveErr => true | _ => false end.
