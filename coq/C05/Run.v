(* C05/Run.v — encoders for the correspondence run.
   Events as (code, path): 0 ConfigErr, 1 VersionMismatch, 2 BadPath, 3 Parsed p, 4 ParseRootErr, 5 ParsePanic,
   6 ResolveErr, 7 Filtered p, 8 Formatted p, 9 Emitted p, 10 EmitIoErr p (path 0 when the event has none).
   Outcomes: 0 POk, 1 PRecoverable, 2 PFatal, 3 PPanic, 4 PMissing, 5 PAmbiguous, 6 PLexFatal.
   A file: (path, outcome, (decl_skip, inner_skip, ignored), (has_diff, io_err)). *)
From V Require Import Base.Text C20.Model C06.Model C05.Model.
Open Scope N_scope.

Definition ev_of (x : N * N) : Ev :=
  match fst x with
  | 0 => ConfigErr | 1 => VersionMismatch | 2 => BadPath | 3 => Parsed (snd x) | 4 => ParseRootErr
  | 5 => ParsePanic | 6 => ResolveErr | 7 => Filtered (snd x) | 8 => Formatted (snd x) | 9 => Emitted (snd x)
  | _ => EmitIoErr (snd x)
  end.
Definition enc_ev (e : Ev) : N * N :=
  match e with
  | ConfigErr => (0, 0) | VersionMismatch => (1, 0) | BadPath => (2, 0) | Parsed p => (3, p) | ParseRootErr => (4, 0)
  | ParsePanic => (5, 0) | ResolveErr => (6, 0) | Filtered p => (7, p) | Formatted p => (8, p) | Emitted p => (9, p)
  | EmitIoErr p => (10, p)
  end.

(* the monitor on an observed trace *)
Definition run_accepts (tr : list (N * N)) : bool := accepts (map ev_of tr).
(* does an accepted trace with a failure contain an emission (must be false) *)
Definition run_failure_and_emit (tr : list (N * N)) : bool :=
  existsb is_failure (map ev_of tr) && existsb is_emitted (map ev_of tr).

Definition outcome_of (n : N) : outcome :=
  match n with 0 => POk | 1 => PRecoverable | 2 => PFatal | 3 => PPanic | 4 => PMissing | 5 => PAmbiguous | _ => PLexFatal end.
Definition file_enc := (N * N * (bool * bool * bool) * (bool * bool))%type.
Definition info_of (x : file_enc) : ninfo :=
  match x with
  | (p, o, (ds, is, ig), (hd, io)) => MkInfo p (outcome_of o) ds is ig (MkFres flags_zero hd io)
  end.
Definition enc_flags (f : flags) : list bool :=
  [f_operational f; f_parsing f; f_formatting f; f_macro f; f_check f; f_diff f; f_unformatted f].

(* a crate whose root declares the given files directly (depth 1) *)
Definition run_flat (version_ok disable_all ignore_ok skip_children stdin : bool)
                    (root : file_enc) (kids : list file_enc) : list (N * N) * list bool :=
  let r := run_root (MkCfg version_ok disable_all ignore_ok skip_children) stdin
                    (Node (info_of root) (map (fun k => Node (info_of k) []) kids)) in
  (map enc_ev (fst r), enc_flags (snd r)).

(* a chain root -> k1 -> k2 -> ... (depth n) *)
Fixpoint chain (ks : list file_enc) : list mtree :=
  match ks with [] => [] | k :: ks' => [Node (info_of k) (chain ks')] end.
Definition run_chain (version_ok disable_all ignore_ok skip_children stdin : bool)
                     (root : file_enc) (ks : list file_enc) : list (N * N) * list bool :=
  let r := run_root (MkCfg version_ok disable_all ignore_ok skip_children) stdin (Node (info_of root) (chain ks)) in
  (map enc_ev (fst r), enc_flags (snd r)).
