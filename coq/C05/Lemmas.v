(* C05/Lemmas.v — proofs for C05 *)
From V Require Import Base.Text C20.Model C06.Model C06.Lemmas C05.Model.
Local Open Scope N_scope.

(* ------------------------------------------------------------------ *)
(* specification-side predicates *)

(* a declared child module whose lookup or parse fails is reached: the chain from t goes through declarations
   that are not skipped and files that parse and carry no inner skip attribute *)
Inductive reach_bad : mtree -> Prop :=
| rb_here i kids : n_decl_skip i = false -> n_outcome i <> POk -> reach_bad (Node i kids)
| rb_below i kids k : n_decl_skip i = false -> n_outcome i = POk -> n_inner_skip i = false ->
    In k kids -> reach_bad k -> reach_bad (Node i kids).

(* out-of-line modules are visited at all *)
Definition recursive (c : cfg) (stdin : bool) : bool := negb stdin && negb (c_skip_children c).

(* the crate cannot be processed: its root file does not parse, or a bad child is reached *)
Definition root_bad (c : cfg) (stdin : bool) (t : mtree) : Prop :=
  n_outcome (t_info t) <> POk \/
  (recursive c stdin = true /\ exists k, In k (t_kids t) /\ reach_bad k).

(* the cases in which rustfmt does not look at the input at all *)
Definition not_looked_at (c : cfg) (t : mtree) : bool :=
  c_disable_all c || (c_skip_children c && n_ignored (t_info t)).

Definition no_emitted (tr : list Ev) : Prop := forall p, ~ In (Emitted p) tr.
Definition no_formatted (tr : list Ev) : Prop := forall p, ~ In (Formatted p) tr.

(* what main.rs does for one root on its own *)
Definition run_one (scfg : cfg) (r : root) : list Ev * flags :=
  match fst (run_roots scfg [r]) with x :: _ => x | [] => ([], flags_zero) end.

(* ------------------------------------------------------------------ *)
(* induction on rose trees *)
Fixpoint mtree_ind' (P : mtree -> Prop) (H : forall i kids, Forall P kids -> P (Node i kids)) (t : mtree) : P t :=
  match t with
  | Node i kids =>
      H i kids ((fix f (ks : list mtree) : Forall P ks :=
                   match ks with
                   | [] => Forall_nil P
                   | k :: ks' => Forall_cons k (mtree_ind' P H k) (f ks')
                   end) kids)
  end.

Lemma visit_unfold i kids :
  visit (Node i kids) =
  if n_decl_skip i then ([], Some [])
  else match n_outcome i with
       | POk => if n_inner_skip i then ([Parsed (n_path i)], Some [])
                else (Parsed (n_path i) :: fst (visit_kids kids), option_map (cons i) (snd (visit_kids kids)))
       | _ => ([ResolveErr], None)
       end.
Proof.
  assert (H : forall ks,
    (fix vk (ks : list mtree) : list Ev * option (list ninfo) :=
       match ks with
       | [] => ([], Some [])
       | k :: ks' =>
           match visit k with
           | (e1, None) => (e1, None)
           | (e1, Some l1) => let r2 := vk ks' in (e1 ++ fst r2, option_map (app l1) (snd r2))
           end
       end) ks = visit_kids ks).
  { induction ks as [|k ks IH]; [reflexivity|]. cbn [visit_kids]. rewrite <- IH. reflexivity. }
  cbn [visit]. rewrite H. reflexivity.
Qed.

Lemma visit_kids_cons k ks :
  visit_kids (k :: ks) =
  match snd (visit k) with
  | None => (fst (visit k), None)
  | Some l1 => (fst (visit k) ++ fst (visit_kids ks), option_map (app l1) (snd (visit_kids ks)))
  end.
Proof. cbn [visit_kids]. destruct (visit k) as [e1 [l1|]]; reflexivity. Qed.

(* ------------------------------------------------------------------ *)
(* the resolve phase produces only Parsed / ResolveErr events *)
Definition resolve_ev (e : Ev) : bool := match e with Parsed _ | ResolveErr => true | _ => false end.

Lemma visit_kids_events ks :
  Forall (fun k => Forall (fun e => resolve_ev e = true) (fst (visit k))) ks ->
  Forall (fun e => resolve_ev e = true) (fst (visit_kids ks)).
Proof.
  induction ks as [|k ks IH]; intros HF; [constructor|].
  inversion HF as [|k' ks' Hk Hks]; subst. rewrite visit_kids_cons.
  destruct (snd (visit k)); cbn [fst]; [|exact Hk].
  apply Forall_app. split; [exact Hk|apply IH; exact Hks].
Qed.

Lemma visit_events t : Forall (fun e => resolve_ev e = true) (fst (visit t)).
Proof.
  induction t as [i kids IH] using mtree_ind'. rewrite visit_unfold.
  destruct (n_decl_skip i); [constructor|].
  destruct (n_outcome i); try (constructor; [reflexivity|constructor]).
  destruct (n_inner_skip i); [constructor; [reflexivity|constructor]|].
  cbn [fst]. constructor; [reflexivity|]. apply visit_kids_events. exact IH.
Qed.

Lemma visit_kids_events' ks : Forall (fun e => resolve_ev e = true) (fst (visit_kids ks)).
Proof. apply visit_kids_events. apply Forall_forall. intros k _. apply visit_events. Qed.

(* a reached bad child makes the resolver fail *)
Lemma visit_kids_none ks : (exists k, In k ks /\ snd (visit k) = None) -> snd (visit_kids ks) = None.
Proof.
  induction ks as [|k0 ks IH]; intros (k & Hin & Hk); [destruct Hin|].
  rewrite visit_kids_cons. destruct (snd (visit k0)) as [l1|] eqn:E0; [|reflexivity].
  cbn [snd]. destruct Hin as [Heq|Hin].
  - subst. congruence.
  - rewrite IH; [reflexivity|]. exists k. auto.
Qed.

Lemma reach_bad_none t : reach_bad t -> snd (visit t) = None.
Proof.
  intros H. induction H as [i kids Hd Ho|i kids k Hd Ho Hs Hin Hk IH]; rewrite visit_unfold, Hd.
  - destruct (n_outcome i); try reflexivity. contradiction.
  - rewrite Ho, Hs. cbn [snd]. rewrite (visit_kids_none kids); [reflexivity|]. exists k. auto.
Qed.

(* ------------------------------------------------------------------ *)
(* the formatting loop produces no parse event *)
Lemma fmt_loop_events stdin files : forall acc,
  Forall (fun e => is_parse_ev e = false) (fst (fmt_loop stdin files acc)).
Proof.
  induction files as [|i rest IH]; intros acc; cbn [fmt_loop]; [constructor|].
  destruct (stdin && n_inner_skip i); [constructor|].
  destruct (fr_io_err (n_res i)); cbn [fst].
  - repeat constructor.
  - constructor; [reflexivity|]. constructor; [reflexivity|]. apply IH.
Qed.

Lemma resolve_not_emitted e : resolve_ev e = true -> is_emitted e = false.
Proof. destruct e; cbn; intros H; try reflexivity; discriminate. Qed.

Lemma resolve_not_formatted e p : resolve_ev e = true -> e <> Formatted p /\ e <> Emitted p.
Proof. destruct e; cbn; intros H; split; intros Heq; try discriminate. Qed.

(* shape of a trace: a part without Emitted, then a part without parse events *)
Definition two_phase (tr : list Ev) : Prop :=
  exists A B, tr = A ++ B /\ Forall (fun e => is_emitted e = false) A /\ Forall (fun e => is_parse_ev e = false) B.

Lemma two_phase_nil_l tr : Forall (fun e => is_emitted e = false) tr -> two_phase tr.
Proof. intros H. exists tr, []. rewrite app_nil_r. repeat split; [exact H|constructor]. Qed.

Lemma Forall_impl' {A} (P Q : A -> Prop) l : (forall x, P x -> Q x) -> Forall P l -> Forall Q l.
Proof. intros H HF. eapply Forall_impl; [exact H|exact HF]. Qed.

Lemma format_project_two_phase c stdin t : two_phase (fst (format_project c stdin t)).
Proof.
  unfold format_project.
  destruct (negb (c_ignore_ok c)); [apply two_phase_nil_l; repeat constructor|].
  destruct (c_skip_children c && n_ignored (t_info t)); [apply two_phase_nil_l; constructor|].
  destruct (n_outcome (t_info t)); try solve [apply two_phase_nil_l; repeat constructor].
  set (rv := if negb stdin && negb (c_skip_children c) then visit_kids (t_kids t) else ([], Some [])).
  assert (Hrv : Forall (fun e => resolve_ev e = true) (fst rv)).
  { unfold rv. destruct (negb stdin && negb (c_skip_children c)); [apply visit_kids_events'|constructor]. }
  destruct (snd rv) as [children|].
  - cbn [fst].
    match goal with |- two_phase (_ :: _ ++ ?fev ++ ?lp) =>
      exists (Parsed (n_path (t_info t)) :: fst rv ++ fev), lp end.
    split; [cbn [app]; rewrite <- app_assoc; reflexivity|]. split.
    + constructor; [reflexivity|]. apply Forall_app. split.
      * eapply Forall_impl'; [apply resolve_not_emitted|exact Hrv].
      * apply Forall_forall. intros e He. apply in_map_iff in He. destruct He as (i & <- & _). reflexivity.
    + apply fmt_loop_events.
  - cbn [fst]. apply two_phase_nil_l. constructor; [reflexivity|].
    eapply Forall_impl'; [apply resolve_not_emitted|exact Hrv].
Qed.

Lemma run_root_two_phase c stdin t : two_phase (fst (run_root c stdin t)).
Proof.
  unfold run_root, format_input_inner. cbn [fst].
  destruct (negb (c_version_ok c)); [apply two_phase_nil_l; repeat constructor|].
  destruct (c_disable_all c); [apply two_phase_nil_l; constructor|].
  apply format_project_two_phase.
Qed.

Lemma two_phase_split tr : two_phase tr ->
  forall pre p post, tr = pre ++ Emitted p :: post -> Forall (fun e => is_parse_ev e = false) post.
Proof.
  intros (A & B & -> & HA & HB). induction A as [|a A IH]; intros pre p post Heq.
  - cbn [app] in Heq. rewrite Heq in HB. apply Forall_app in HB. destruct HB as [_ HB].
    inversion HB; assumption.
  - inversion HA as [|a' A' Ha HA']; subst. destruct pre as [|x pre].
    + cbn in Heq. inversion Heq; subst. discriminate Ha.
    + cbn in Heq. inversion Heq; subst. eapply IH; [exact HA'|eassumption].
Qed.

Lemma emit_after_all_resolve_lemma c stdin t pre p post :
  fst (run_root c stdin t) = pre ++ Emitted p :: post ->
  Forall (fun e => is_parse_ev e = false) post.
Proof. intros H. eapply two_phase_split; [apply run_root_two_phase|exact H]. Qed.

(* ------------------------------------------------------------------ *)
(* early failure: nothing formatted, nothing emitted *)
Lemma no_fe_resolve l : Forall (fun e => resolve_ev e = true) l -> no_emitted l /\ no_formatted l.
Proof.
  intros H. split; intros p Hin; rewrite Forall_forall in H; apply H in Hin; discriminate Hin.
Qed.

Lemma root_bad_resolve_none c stdin t :
  n_outcome (t_info t) = POk -> root_bad c stdin t ->
  snd (if negb stdin && negb (c_skip_children c) then visit_kids (t_kids t) else ([], Some [])) = None.
Proof.
  intros Ho [Hbad|(Hrec & k & Hin & Hk)]; [contradiction|].
  unfold recursive in Hrec. rewrite Hrec. apply visit_kids_none. exists k. split; [exact Hin|].
  apply reach_bad_none. exact Hk.
Qed.

Lemma early_failure_events c stdin t :
  c_version_ok c = false \/ c_ignore_ok c = false \/ root_bad c stdin t ->
  Forall (fun e => e = VersionMismatch \/ e = ConfigErr \/ is_parse_ev e = true) (fst (run_root c stdin t)).
Proof.
  intros H. unfold run_root, format_input_inner. cbn [fst].
  destruct (c_version_ok c) eqn:Ev; cbn [negb]; [|constructor; [auto|constructor]].
  destruct (c_disable_all c); [constructor|].
  unfold format_project.
  destruct (c_ignore_ok c) eqn:Ei; cbn [negb]; [|constructor; [auto|constructor]].
  destruct (c_skip_children c && n_ignored (t_info t)); [constructor|].
  destruct H as [H|[H|H]]; try discriminate.
  destruct (n_outcome (t_info t)) eqn:Eo; try solve [constructor; [auto|constructor]].
  rewrite (root_bad_resolve_none c stdin t Eo H). cbn [fst].
  constructor; [auto|].
  eapply Forall_impl'; [|destruct (negb stdin && negb (c_skip_children c)); [apply visit_kids_events'|constructor]].
  intros e He. right; right. destruct e; cbn in *; try reflexivity; discriminate.
Qed.

Lemma no_emit_on_early_failure_lemma c stdin t :
  c_version_ok c = false \/ c_ignore_ok c = false \/ root_bad c stdin t ->
  no_emitted (fst (run_root c stdin t)) /\ no_formatted (fst (run_root c stdin t)).
Proof.
  intros H. apply early_failure_events in H. rewrite Forall_forall in H.
  split; intros p Hin; apply H in Hin; destruct Hin as [Hin|[Hin|Hin]]; discriminate Hin.
Qed.

Lemma exit_one_on_failure_lemma c stdin t check :
  c_version_ok c = false \/
  (c_disable_all c = false /\
   (c_ignore_ok c = false \/ (not_looked_at c t = false /\ root_bad c stdin t))) ->
  let f := snd (run_root c stdin t) in
  (f_operational f = true \/ f_parsing f = true) /\ exit_file f check = 1 /\ exit_stdin f = 1 /\
  existsb is_failure (fst (run_root c stdin t)) = true.
Proof.
  intros H.
  assert (G : (f_operational (snd (run_root c stdin t)) = true \/ f_parsing (snd (run_root c stdin t)) = true) /\
              existsb is_failure (fst (run_root c stdin t)) = true).
  { unfold run_root, format_input_inner. cbn [fst snd].
    destruct (c_version_ok c) eqn:Ev; cbn [negb]; [|cbn; auto].
    destruct H as [H|(Hd & H)]; [discriminate|]. rewrite Hd.
    unfold format_project.
    destruct (c_ignore_ok c) eqn:Ei; cbn [negb]; [|cbn; auto].
    destruct H as [H|(Hn & H)]; [discriminate|].
    unfold not_looked_at in Hn. rewrite Hd in Hn. cbn [orb] in Hn. rewrite Hn.
    destruct (n_outcome (t_info t)) eqn:Eo; try (cbn; auto; fail).
    rewrite (root_bad_resolve_none c stdin t Eo H). cbn [fst snd]. split; [left; reflexivity|].
    cbn [existsb is_failure orb].
    assert (Hk : exists k, In k (t_kids t) /\ snd (visit k) = None /\ recursive c stdin = true).
    { destruct H as [H|(Hrec & k & Hin & Hk)]; [contradiction|]. exists k. repeat split; auto. apply reach_bad_none; exact Hk. }
    destruct Hk as (k & Hin & Hk & Hrec). unfold recursive in Hrec. rewrite Hrec.
    clear - Hin Hk. revert Hin. generalize (t_kids t). intros ks. induction ks as [|k0 ks IH]; intros Hin; [destruct Hin|].
    rewrite visit_kids_cons.
    assert (Hnone : forall t0, snd (visit t0) = None -> existsb is_failure (fst (visit t0)) = true).
    { clear. intros t0. induction t0 as [i kids IHk] using mtree_ind'. rewrite visit_unfold.
      destruct (n_decl_skip i); [discriminate|].
      destruct (n_outcome i); try reflexivity.
      destruct (n_inner_skip i); [discriminate|]. cbn [fst snd existsb is_failure orb].
      induction kids as [|k1 kids IH2]; [discriminate|].
      inversion IHk as [|k1' kids' Hk1 Hkids]; subst. rewrite visit_kids_cons.
      destruct (snd (visit k1)) as [l1|] eqn:E1; cbn [fst snd].
      - intros Hs. rewrite existsb_app. rewrite (IH2 Hkids); [apply orb_true_r|].
        destruct (snd (visit_kids kids)); [discriminate|reflexivity].
      - intros _. apply Hk1. reflexivity. }
    destruct (snd (visit k0)) as [l1|] eqn:E0; cbn [fst].
    - destruct Hin as [Heq|Hin]; [subst; congruence|]. rewrite existsb_app, (IH Hin). apply orb_true_r.
    - apply Hnone. exact E0. }
  destruct G as (G1 & G2). cbv zeta. split; [exact G1|].
  destruct (error_exit_one _ check G1) as (E1 & E2). auto.
Qed.

(* the exception: with disable_all_formatting (or an ignored root under skip_children) nothing is reported *)
Lemma disabled_exit_zero_lemma :
  exists c t, n_outcome (t_info t) = PRecoverable /\ run_root c false t = ([], flags_zero).
Proof.
  exists (MkCfg true true true false),
         (Node (MkInfo 1 PRecoverable false false false (MkFres flags_zero false false)) []).
  split; reflexivity.
Qed.

(* panics of the rustc parser are contained *)
Lemma panic_root_lemma c stdin t :
  c_version_ok c = true -> c_disable_all c = false -> c_ignore_ok c = true ->
  (c_skip_children c && n_ignored (t_info t)) = false ->
  n_outcome (t_info t) = PPanic ->
  run_root c stdin t = ([ParsePanic], parsing_flag).
Proof.
  intros Hv Hd Hi Hs Ho. unfold run_root, format_input_inner, format_project.
  rewrite Hv, Hd, Hi, Hs, Ho. reflexivity.
Qed.

Lemma panic_child_lemma c t k check :
  c_version_ok c = true -> c_disable_all c = false -> c_ignore_ok c = true ->
  not_looked_at c t = false -> c_skip_children c = false ->
  n_outcome (t_info t) = POk -> In k (t_kids t) -> n_decl_skip (t_info k) = false -> n_outcome (t_info k) = PPanic ->
  snd (run_root c false t) = operational_flag /\ exit_file (snd (run_root c false t)) check = 1 /\
  no_emitted (fst (run_root c false t)).
Proof.
  intros Hv Hd Hi Hn Hs Ho Hin Hk1 Hk2.
  assert (Hrb : reach_bad k).
  { destruct k as [ik kk]. cbn in Hk1, Hk2. apply rb_here; [exact Hk1|]. rewrite Hk2. discriminate. }
  assert (Hbad : root_bad c false t).
  { right. split; [unfold recursive; rewrite Hs; reflexivity|]. exists k. split; [exact Hin|exact Hrb]. }
  split; [|split].
  - unfold run_root, format_input_inner, format_project. rewrite Hv, Hd, Hi, Hs, Ho. cbn [negb andb snd fst].
    rewrite (visit_kids_none (t_kids t)); [reflexivity|]. exists k. split; [exact Hin|]. apply reach_bad_none. exact Hrb.
  - apply exit_one_on_failure_lemma. right. split; [exact Hd|]. right. split; [exact Hn|exact Hbad].
  - apply no_emit_on_early_failure_lemma. right; right. exact Hbad.
Qed.

(* ------------------------------------------------------------------ *)
(* the loop over the roots *)
Lemma run_one_eq scfg r :
  run_one scfg r =
  if negb (r_exists r) || r_is_dir r then ([BadPath], operational_flag)
  else match r_load r with
       | LocalErr => ([ConfigErr], flags_zero)
       | UseSession => run_root scfg false (r_tree r)
       | LocalOk c => run_root c false (r_tree r)
       end.
Proof.
  unfold run_one. cbn [run_roots]. destruct (negb (r_exists r) || r_is_dir r); [reflexivity|].
  destruct (r_load r); reflexivity.
Qed.

Definition aborts (r : root) : bool :=
  negb (negb (r_exists r) || r_is_dir r) && match r_load r with LocalErr => true | _ => false end.

(* the roots processed: up to and including the first whose local configuration fails to load *)
Fixpoint processed (rs : list root) : list root :=
  match rs with
  | [] => []
  | r :: rs' => if aborts r then [r] else r :: processed rs'
  end.

Lemma run_roots_spec scfg rs :
  fst (run_roots scfg rs) = map (run_one scfg) (processed rs) /\
  snd (run_roots scfg rs) = existsb aborts rs.
Proof.
  induction rs as [|r rs [IH1 IH2]]; [split; reflexivity|].
  pose proof (run_one_eq scfg r) as Hr. cbn [run_roots processed existsb]. unfold aborts at 1 2.
  destruct (negb (r_exists r) || r_is_dir r); cbn [negb andb orb].
  - cbn [map fst snd]. rewrite Hr, IH1, IH2. split; reflexivity.
  - destruct (r_load r); cbn [map fst snd orb]; rewrite Hr, ?IH1, ?IH2; split; reflexivity.
Qed.

Lemma processed_all rs : existsb aborts rs = false -> processed rs = rs.
Proof.
  induction rs as [|r rs IH]; [reflexivity|]. cbn [existsb processed]. intros H.
  apply orb_false_iff in H. destruct H as [H1 H2]. rewrite H1, (IH H2). reflexivity.
Qed.

Lemma roots_independent_lemma scfg rs :
  existsb aborts rs = false ->
  fst (run_roots scfg rs) = map (run_one scfg) rs /\ snd (run_roots scfg rs) = false.
Proof.
  intros H. destruct (run_roots_spec scfg rs) as [H1 H2]. rewrite H1, H2, (processed_all rs H). auto.
Qed.

Lemma roots_prefix_lemma scfg rs :
  exists k, fst (run_roots scfg rs) = map (run_one scfg) (firstn k rs) /\
            (existsb aborts rs = false -> k = length rs).
Proof.
  destruct (run_roots_spec scfg rs) as [H1 _]. rewrite H1. clear H1.
  induction rs as [|r rs (k & IH1 & IH2)].
  - exists 0%nat. split; [reflexivity|auto].
  - cbn [processed existsb]. destruct (aborts r).
    + exists 1%nat. split; [reflexivity|]. cbn. discriminate.
    + exists (S k). cbn [firstn map orb]. rewrite IH1. split; [reflexivity|]. intros H. cbn [length]. rewrite IH2; auto.
Qed.

(* the exit status of the whole invocation: 1 as soon as one root fails *)
Lemma run_main_exit_one scfg check rs r :
  In r rs -> (f_operational (snd (run_one scfg r)) = true \/ f_parsing (snd (run_one scfg r)) = true \/ aborts r = true) ->
  snd (run_main (Some scfg) check rs) = 1.
Proof.
  intros Hin H. unfold run_main. cbn [snd].
  destruct (run_roots_spec scfg rs) as [H1 H2]. rewrite H2.
  destruct (existsb aborts rs) eqn:Ea; [reflexivity|].
  rewrite H1, (processed_all rs Ea), map_map.
  destruct H as [H|[H|H]].
  - apply error_exit_one. left. rewrite sum_operational. apply existsb_exists.
    exists (snd (run_one scfg r)). split; [|exact H]. apply in_map_iff. exists r. auto.
  - apply error_exit_one. right. rewrite sum_parsing. apply existsb_exists.
    exists (snd (run_one scfg r)). split; [|exact H]. apply in_map_iff. exists r. auto.
  - exfalso. assert (existsb aborts rs = true) by (apply existsb_exists; exists r; auto). congruence.
Qed.

(* a malformed local configuration stops the loop: later roots are not formatted *)
Definition clean_info (p : path) : ninfo := MkInfo p POk false false false (MkFres flags_zero false false).
Definition cfg_ok : cfg := MkCfg true false true false.

Lemma other_roots_refuted_lemma :
  exists (scfg : cfg) (r1 r2 : root),
    In (Emitted 7) (fst (run_one scfg r2)) /\
    run_main (Some scfg) false [r1; r2] = ([[ConfigErr]], 1) /\
    run_main (Some scfg) false [r2; r1] = ([[Parsed 7; Formatted 7; Emitted 7]; [ConfigErr]], 1).
Proof.
  exists cfg_ok, (MkRoot true false LocalErr (Node (clean_info 3) [])),
         (MkRoot true false (LocalOk cfg_ok) (Node (clean_info 7) [])).
  split; [vm_compute; auto 10|]. split; vm_compute; reflexivity.
Qed.

(* BEFORE THE REPAIR a fatal lexer error in a ROOT file ended the process with status 101 and the roots after it
   were not processed (run_main_pre); the repaired code (run_main) treats it as a parse error; in a child module
   it always was an ordinary module resolution error *)
Definition lex_info (p : path) : ninfo := MkInfo p PLexFatal false false false (MkFres flags_zero false false).

Lemma root_lex_fatal_refuted_lemma :
  exists (scfg : cfg) (r1 r2 : root),
    n_outcome (t_info (r_tree r1)) = PLexFatal /\
    In (Emitted 7) (fst (run_one scfg r2)) /\
    run_main_pre (Some scfg) false [r1; r2] = ([[ParseRootErr]], 101) /\
    run_main_pre (Some scfg) false [r2; r1] = ([[Parsed 7; Formatted 7; Emitted 7]; [ParseRootErr]], 101) /\
    run_stdin_pre scfg (r_tree r1) = ([ParseRootErr], 101).
Proof.
  exists cfg_ok, (MkRoot true false UseSession (Node (lex_info 3) [])),
         (MkRoot true false (LocalOk cfg_ok) (Node (clean_info 7) [])).
  split; [reflexivity|]. split; [vm_compute; auto 10|]. repeat split; vm_compute; reflexivity.
Qed.

(* the repaired code on the same inputs, and on every root with a fatal lexer error *)
Lemma root_lex_fatal_repaired_lemma :
  (forall c stdin t, c_version_ok c = true -> c_disable_all c = false -> c_ignore_ok c = true ->
     (c_skip_children c && n_ignored (t_info t)) = false -> n_outcome (t_info t) = PLexFatal ->
     run_root c stdin t = ([ParseRootErr], parsing_flag) /\ snd (run_stdin c t) = 1) /\
  run_main (Some cfg_ok) false [MkRoot true false UseSession (Node (lex_info 3) []);
                                MkRoot true false (LocalOk cfg_ok) (Node (clean_info 7) [])] =
    ([[ParseRootErr]; [Parsed 7; Formatted 7; Emitted 7]], 1) /\
  run_main (Some cfg_ok) false [MkRoot true false UseSession (Node (clean_info 5) [Node (lex_info 3) []]);
                                MkRoot true false (LocalOk cfg_ok) (Node (clean_info 7) [])] =
    ([[Parsed 5; ResolveErr]; [Parsed 7; Formatted 7; Emitted 7]], 1).
Proof.
  split; [|split; vm_compute; reflexivity].
  intros c stdin t Hv Hd Hi Hs Ho.
  assert (H : forall b, run_root c b t = ([ParseRootErr], parsing_flag)).
  { intros b. unfold run_root, format_input_inner, format_project. rewrite Hv, Hd, Hi, Hs, Ho. reflexivity. }
  split; [apply H|]. unfold run_stdin. rewrite H. reflexivity.
Qed.

(* ------------------------------------------------------------------ *)
(* the monitor *)
Lemma sbad_absorbing tr : fold_left mstep tr SBad = SBad.
Proof. induction tr as [|e tr IH]; [reflexivity|]. cbn [fold_left]. destruct e; exact IH. Qed.

Lemma s5_final tr : mfinal (fold_left mstep tr S5) = true -> tr = [].
Proof.
  destruct tr as [|e tr]; [reflexivity|]. cbn [fold_left].
  replace (mstep S5 e) with SBad by (destruct e; reflexivity). rewrite sbad_absorbing. discriminate.
Qed.

Definition can_fail (s : mstate) : bool := match s with S0 | S1 => true | _ => false end.

Lemma monitor_inv tr : forall s, mfinal (fold_left mstep tr s) = true ->
  existsb is_failure tr = true -> can_fail s = true /\ existsb is_emitted tr = false.
Proof.
  induction tr as [|e tr IH]; intros s Hfin Hf; [discriminate|].
  cbn [fold_left] in Hfin. cbn [existsb] in Hf |- *.
  destruct (is_failure e) eqn:Efe.
  - (* the failure event itself: next state is S5 or SBad *)
    assert (Hnext : (can_fail s = true /\ mstep s e = S5) \/ mstep s e = SBad).
    { destruct s; destruct e; cbn in Efe |- *; try discriminate; auto. }
    destruct Hnext as [[Hc Hs]|Hs]; rewrite Hs in Hfin.
    + apply s5_final in Hfin. subst. split; [exact Hc|]. destruct e; cbn in Efe |- *; try discriminate; reflexivity.
    + rewrite sbad_absorbing in Hfin. discriminate.
  - cbn [orb] in Hf. destruct (IH _ Hfin Hf) as [Hc He]. rewrite He, orb_false_r.
    destruct s; destruct e; cbn in Hc, Efe |- *; try discriminate; auto;
      try (destruct (p =? p0); cbn in Hc; discriminate).
Qed.

Lemma accepts_sound_lemma tr :
  accepts tr = true -> existsb is_failure tr = true -> existsb is_emitted tr = false.
Proof. intros Ha Hf. apply (monitor_inv tr S0 Ha Hf). Qed.

(* completeness: the model's traces are accepted *)
Lemma visit_monitor t :
  (forall l, snd (visit t) = Some l -> fold_left mstep (fst (visit t)) S1 = S1) /\
  (snd (visit t) = None -> fold_left mstep (fst (visit t)) S1 = S5).
Proof.
  induction t as [i kids IH] using mtree_ind'. rewrite visit_unfold.
  destruct (n_decl_skip i); [split; [reflexivity|discriminate]|].
  destruct (n_outcome i); try (split; [discriminate|reflexivity]).
  destruct (n_inner_skip i); [split; [reflexivity|discriminate]|].
  cbn [fst snd fold_left mstep].
  assert (Hk : (forall l, snd (visit_kids kids) = Some l -> fold_left mstep (fst (visit_kids kids)) S1 = S1) /\
               (snd (visit_kids kids) = None -> fold_left mstep (fst (visit_kids kids)) S1 = S5)).
  { clear i. induction kids as [|k kids IHk]; [split; [reflexivity|discriminate]|].
    inversion IH as [|k' kids' [Hk1 Hk2] Hkids]; subst. specialize (IHk Hkids). destruct IHk as [IHa IHb].
    rewrite visit_kids_cons. destruct (snd (visit k)) as [l1|] eqn:E1; cbn [fst snd].
    - rewrite fold_left_app, (Hk1 l1 eq_refl). split.
      + intros l Hl. destruct (snd (visit_kids kids)) as [l2|]; [|discriminate]. apply (IHa l2). reflexivity.
      + intros Hl. destruct (snd (visit_kids kids)) as [l2|]; [discriminate|]. apply IHb. reflexivity.
    - split; [discriminate|]. intros _. apply Hk2. reflexivity. }
  destruct Hk as [Ha Hb]. split.
  - intros l Hl. destruct (snd (visit_kids kids)) as [l2|]; [|discriminate]. apply (Ha l2). reflexivity.
  - intros Hl. destruct (snd (visit_kids kids)) as [l2|]; [discriminate|]. apply Hb. reflexivity.
Qed.

Lemma visit_kids_monitor ks :
  (forall l, snd (visit_kids ks) = Some l -> fold_left mstep (fst (visit_kids ks)) S1 = S1) /\
  (snd (visit_kids ks) = None -> fold_left mstep (fst (visit_kids ks)) S1 = S5).
Proof.
  induction ks as [|k ks [IHa IHb]]; [split; [reflexivity|discriminate]|].
  destruct (visit_monitor k) as [Hk1 Hk2].
  rewrite visit_kids_cons. destruct (snd (visit k)) as [l1|] eqn:E1; cbn [fst snd].
  - rewrite fold_left_app, (Hk1 l1 eq_refl). split.
    + intros l Hl. destruct (snd (visit_kids ks)) as [l2|]; [|discriminate]. apply (IHa l2). reflexivity.
    + intros Hl. destruct (snd (visit_kids ks)) as [l2|]; [discriminate|]. apply IHb. reflexivity.
  - split; [discriminate|]. intros _. apply Hk2. reflexivity.
Qed.

Definition pre_loop (s : mstate) : Prop := s = S1 \/ s = S2 \/ s = S4.

Lemma fmt_loop_monitor stdin files : forall acc s, pre_loop s ->
  mfinal (fold_left mstep (fst (fmt_loop stdin files acc)) s) = true.
Proof.
  induction files as [|i rest IH]; intros acc s Hs; cbn [fmt_loop].
  - cbn. destruct Hs as [->|[->| ->]]; reflexivity.
  - destruct (stdin && n_inner_skip i); [cbn; destruct Hs as [->|[->| ->]]; reflexivity|].
    destruct (fr_io_err (n_res i)); cbn [fst fold_left].
    + assert (H3 : mstep s (Formatted (n_path i)) = S3 (n_path i)) by (destruct Hs as [->|[->| ->]]; reflexivity).
      rewrite H3. cbn [mstep]. rewrite N.eqb_refl. reflexivity.
    + assert (H3 : mstep s (Formatted (n_path i)) = S3 (n_path i)) by (destruct Hs as [->|[->| ->]]; reflexivity).
      rewrite H3. cbn [mstep]. rewrite N.eqb_refl. apply IH. right; right; reflexivity.
Qed.

Lemma filtered_monitor (ps : list ninfo) : forall s, s = S1 \/ s = S2 ->
  let s' := fold_left mstep (map (fun i => Filtered (n_path i)) ps) s in s' = S1 \/ s' = S2.
Proof.
  induction ps as [|i ps IH]; intros s Hs; [exact Hs|]. cbn [map fold_left]. apply IH.
  right. destruct Hs as [->| ->]; reflexivity.
Qed.

Lemma accepts_complete_lemma c stdin t : accepts (fst (run_root c stdin t)) = true.
Proof.
  unfold accepts, run_root, format_input_inner. cbn [fst].
  destruct (negb (c_version_ok c)); [reflexivity|].
  destruct (c_disable_all c); [reflexivity|].
  unfold format_project.
  destruct (negb (c_ignore_ok c)); [reflexivity|].
  destruct (c_skip_children c && n_ignored (t_info t)); [reflexivity|].
  destruct (n_outcome (t_info t)); try reflexivity.
  set (rv := if negb stdin && negb (c_skip_children c) then visit_kids (t_kids t) else ([], Some [])).
  assert (Hrv : (forall l, snd rv = Some l -> fold_left mstep (fst rv) S1 = S1) /\
                (snd rv = None -> fold_left mstep (fst rv) S1 = S5)).
  { unfold rv. destruct (negb stdin && negb (c_skip_children c)); [apply visit_kids_monitor|].
    split; [reflexivity|discriminate]. }
  destruct Hrv as [Ha Hb]. destruct (snd rv) as [children|] eqn:Er.
  - cbn [fst fold_left mstep]. rewrite !fold_left_app, (Ha children eq_refl).
    apply fmt_loop_monitor.
    match goal with |- pre_loop (fold_left mstep (map _ ?ps) S1) =>
      destruct (filtered_monitor ps S1 (or_introl eq_refl)) as [H|H] end; rewrite H; [left|right; left]; reflexivity.
  - cbn [fst fold_left mstep]. rewrite (Hb eq_refl). reflexivity.
Qed.

Lemma accepts_run_one scfg r : accepts (fst (run_one scfg r)) = true.
Proof.
  rewrite run_one_eq. destruct (negb (r_exists r) || r_is_dir r); [reflexivity|].
  destruct (r_load r); try reflexivity; apply accepts_complete_lemma.
Qed.

(* the monitor is not trivial: it rejects an emission that follows a failure, and one without formatting *)
Lemma accepts_rejects :
  accepts [Parsed 1; ResolveErr; Formatted 1; Emitted 1] = false /\
  accepts [Parsed 1; Emitted 1] = false /\
  accepts [Parsed 1; Formatted 1; Emitted 2] = false /\
  accepts [Parsed 1; Formatted 1; Emitted 1; Parsed 2] = false.
Proof. repeat split. Qed.
