(* C14/Examples.v — non-vacuity: concrete values meeting the hypotheses of the implications of Props.v *)
From V Require Import Base.Text C14.Model C14.Lemmas C14.Run.
Open Scope N_scope.

(* a three-level layout: /rustfmt.toml ; /a/.rustfmt.toml and /a/rustfmt.toml ; /a/b (nothing) ;
   /a/b/c/rustfmt.toml is a DIRECTORY ; /home/rustfmt.toml ; /xdg/rustfmt/.rustfmt.toml ; /cp/rustfmt.toml
   (components: a 10, b 11, c 12, home 20, xdg 30, cp 40) *)
Definition T_ROOT : list (opt * N) := [(MaxWidth, 110)].
Definition T_A_DOT : list (opt * N) := [(MaxWidth, 120); (TabSpaces, 2)].
Definition T_A_PLAIN : list (opt * N) := [(MaxWidth, 130)].
Definition T_CP : list (opt * N) := [(MaxWidth, 80)].
Definition ex_fs : fsys := fun p =>
  if eqb_text p [] then Some Dir
  else if eqb_text p [2] then Some (File (Table T_ROOT))
  else if eqb_text p [10] then Some Dir
  else if eqb_text p [10; 1] then Some (File (Table T_A_DOT))
  else if eqb_text p [10; 2] then Some (File (Table T_A_PLAIN))
  else if eqb_text p [10; 11] then Some Dir
  else if eqb_text p [10; 11; 12] then Some Dir
  else if eqb_text p [10; 11; 12; 2] then Some Dir
  else if eqb_text p [20] then Some Dir
  else if eqb_text p [20; 2] then Some (File (Table []))
  else if eqb_text p [30] then Some Dir
  else if eqb_text p [30; 3] then Some Dir
  else if eqb_text p [30; 3; 1] then Some (File (Table []))
  else if eqb_text p [40] then Some Dir
  else if eqb_text p [40; 2] then Some (File (Table T_CP))
  else None.
(* the same without any config file at or above /a/b/c *)
Definition ex_fs_bare (with_home : bool) : fsys := fun p =>
  if eqb_text p [2] || eqb_text p [10; 1] || eqb_text p [10; 2] then None
  else if eqb_text p [20; 2] then (if with_home then Some (File (Table [])) else None)
  else ex_fs p.

(* nearest_wins: the hypotheses hold for dir = /a/b/c, d = /a *)
Example ex_nearest_result :
  resolve_project_file ex_fs (Some [20]) (Some [30]) [10; 11; 12] = Ok (Some [10; 1]).
Proof. vm_compute; reflexivity. Qed.
Example ex_nearest_hyps :
  [10; 11; 12] = [10] ++ [11; 12] /\ has_cfg ex_fs [10] = true /\
  (forall d' rest', [10; 11; 12] = d' ++ rest' -> (length [10] < length d')%nat -> has_cfg ex_fs d' = false) /\
  pick ex_fs [10] = [10; 1].
Proof.
  split; [reflexivity|]. split; [vm_compute; reflexivity|]. split; [|vm_compute; reflexivity].
  intros d' rest' E L.
  destruct d' as [|x1 [|x2 [|x3 [|x4 d']]]]; cbn [length app] in *; try lia;
    inversion E; subst; try (vm_compute; reflexivity).
Qed.

(* fallback_order: home, then config dir, then nothing *)
Example ex_fallback_home :
  resolve_project_file (ex_fs_bare true) (Some [20]) (Some [30]) [10; 11; 12] = Ok (Some [20; 2]) /\
  resolve_project_file (ex_fs_bare false) (Some [20]) (Some [30]) [10; 11; 12] = Ok (Some [30; 3; 1]) /\
  resolve_project_file (ex_fs_bare false) (Some [20]) None [10; 11; 12] = Ok None.
Proof. vm_compute; repeat split; reflexivity. Qed.
Example ex_fallback_hyps :
  (exists n, ex_fs_bare true [10; 11; 12] = Some n /\ n <> IOErr) /\
  (forall d, In d (candidates (Some [20]) (Some [30]) [10; 11; 12]) -> no_ioerr (ex_fs_bare true) d).
Proof.
  split; [exists Dir; split; [vm_compute; reflexivity | discriminate]|].
  intros d Hd. vm_compute in Hd.
  repeat (destruct Hd as [Hd|Hd]; [subst d; split; vm_compute; discriminate|]). contradiction.
Qed.

(* override_wholesale: two file systems that agree on /cp only; without --config-path they give different
   configurations, with it the same *)
Definition cli_cp : cli := mk_cli (Some [40]) None None false None false None false [].
Example ex_override_hyps :
  c_config_path cli_cp = Some [40] /\ ex_fs [40] = ex_fs_bare true [40] /\
  ex_fs (join [40] DOT_RUSTFMT_TOML) = ex_fs_bare true (join [40] DOT_RUSTFMT_TOML) /\
  ex_fs (join [40] RUSTFMT_TOML) = ex_fs_bare true (join [40] RUSTFMT_TOML).
Proof. vm_compute; repeat split; reflexivity. Qed.
Example ex_override_result :
  run_discover [([2], 0); ([10; 1], 0); ([40; 2], 0)] [[]; [10]; [10; 11]; [40]] None None (Some [40]) [10; 11]
  = (0, [40; 2]) /\
  run_discover [([2], 0); ([10; 1], 0); ([40; 2], 0)] [[]; [10]; [10; 11]; [40]] None None None [10; 11]
  = (0, [10; 1]) /\
  (* missing target, and a directory without a config file *)
  run_discover [([2], 0)] [[]; [10]] None None (Some [41]) [10] = (2, []) /\
  run_discover [([2], 0)] [[]; [10]] None None (Some [10]) [10] = (2, []).
Proof. vm_compute; repeat split; reflexivity. Qed.
Example ex_load_config :
  exists c, load_config true ex_fs (Some [20]) (Some [30]) (Some [10; 11; 12]) no_cli = Ok (c, Some [10; 1]) /\
            effective c MaxWidth = 120 /\ effective c TabSpaces = 2 /\ effective c FnCallWidth = 72.
Proof. eexists; split; [vm_compute; reflexivity|]. vm_compute; repeat split; reflexivity. Qed.
Example ex_config_path_effect :
  exists c, config_for_file true ex_fs (Some [20]) (Some [30]) [10; 11; 12] cli_cp = Ok (c, Some [40; 2]) /\
            effective c MaxWidth = 80.
Proof. eexists; split; [vm_compute; reflexivity|]. vm_compute; reflexivity. Qed.

(* precedence: file, flag and --config all present *)
Definition ex_cli : cli :=
  mk_cli None (Some 2) None true None false (Some 1) false [(TabSpaces, 8); (EmitMode, 0)].
Definition ex_file : list (opt * N) := [(TabSpaces, 2); (HardTabs, 1); (Edition, 1); (Color, 0)].
Example ex_precedence :
  nodup_opts (keys (c_inline ex_cli)) = true /\ table_ok ex_file = true /\ cli_ok ex_cli = true /\
  effective (resolve true (Some ex_file) ex_cli) TabSpaces = 8 /\     (* --config beats file *)
  effective (resolve true (Some ex_file) ex_cli) HardTabs = 1 /\      (* file beats default *)
  effective (resolve true (Some ex_file) ex_cli) Edition = 2 /\       (* flag beats file *)
  effective (resolve true (Some ex_file) ex_cli) Color = 1 /\
  effective (resolve true (Some ex_file) ex_cli) EmitMode = 0 /\      (* --config beats --check *)
  effective (resolve true (Some ex_file) ex_cli) NewlineStyle = 0.    (* default *)
Proof. vm_compute; repeat split; reflexivity. Qed.

(* style edition: the file's style_edition beats --config version=Two and --edition 2024;
   the file's version beats --edition; --edition 2024 alone selects the 2024 defaults *)
Example ex_style_edition :
  effective (resolve true (Some [(StyleEdition, SE2015)])
               (mk_cli None (Some 3) None false None false None false [(Version, V_TWO)])) StyleEdition = SE2015 /\
  effective (resolve true (Some [(Version, V_TWO)])
               (mk_cli None (Some 1) None false None false None false [])) StyleEdition = SE2024 /\
  effective (resolve true None (mk_cli None (Some 3) None false None false None false [])) StyleEdition = SE2024 /\
  effective (resolve true None (mk_cli None (Some 3) None false None false None false [])) Version = V_TWO /\
  effective (resolve true None (mk_cli None None (Some 2) false None false None false [(StyleEdition, SE2027)]))
    StyleEdition = SE2027.
Proof. vm_compute; repeat split; reflexivity. Qed.

(* aliases: successor given in the file wins over the alias given in --config; alias alone maps *)
Example ex_alias :
  effective (resolve true (Some [(ImportsGranularity, 2)]) (inl [(MergeImports, 1)])) ImportsGranularity = 2 /\
  effective (resolve true (Some [(MergeImports, 1)]) no_cli) ImportsGranularity = G_CRATE /\
  effective (resolve true (Some [(MergeImports, 0)]) (inl [(MergeImports, 1)])) ImportsGranularity = G_CRATE /\
  effective (resolve true (Some [(FnArgsLayout, 2)]) no_cli) FnParamsLayout = 2 /\
  effective (resolve true None (inl [(FnArgsLayout, 0); (FnParamsLayout, 2)])) FnParamsLayout = 2.
Proof. vm_compute; repeat split; reflexivity. Qed.

(* source_irrelevant_partial: an instance of all its hypotheses, with a clamped width *)
Example ex_source_irrelevant_hyps :
  let cl := inl [(UseSmallHeuristics, H_MAX)] in
  let l1 := [(UseSmallHeuristics, H_MAX)] in
  let l2 := @nil (opt * N) in
  c_inline cl = l1 ++ l2 /\
  nodup_opts (keys (c_inline (set_inline cl (l1 ++ (FnCallWidth, 130) :: l2)))) = true /\
  flag_value cl FnCallWidth = None /\
  is_stable_option_and_value false FnCallWidth 130 = true /\
  mem_opt MaxWidth (keys (c_inline (set_inline cl (l1 ++ (FnCallWidth, 130) :: l2)))) = false /\
  effective (resolve false (Some ((FnCallWidth, 130) :: [(MaxWidth, 120)])) cl) FnCallWidth = 120 /\
  effective (resolve false (Some [(MaxWidth, 120)]) (set_inline cl (l1 ++ (FnCallWidth, 130) :: l2))) FnCallWidth = 120.
Proof. vm_compute; repeat split; reflexivity. Qed.

(* widths *)
Example ex_explicit_width_clamped :
  is_width FnCallWidth = true /\
  was_set (resolve true (Some [(FnCallWidth, 150)]) no_cli FnCallWidth) = true /\
  effective (resolve true (Some [(FnCallWidth, 150)]) no_cli) FnCallWidth = 100 /\
  effective (resolve true (Some [(FnCallWidth, 150)]) no_cli) MaxWidth = 100.
Proof. vm_compute; repeat split; reflexivity. Qed.
Example ex_max_heuristics :
  let c := resolve true (Some [(UseSmallHeuristics, H_MAX); (MaxWidth, 77); (ChainWidth, 40)]) no_cli in
  was_set (c StructLitWidth) = false /\ effective c UseSmallHeuristics = H_MAX /\
  effective c StructLitWidth = 77 /\ effective c ChainWidth = 40.
Proof. vm_compute; repeat split; reflexivity. Qed.
Example ex_scaled :
  let c := resolve true None (inl [(MaxWidth, 65)]) in
  was_set (c FnCallWidth) = false /\ effective c UseSmallHeuristics = H_DEFAULT /\
  effective c FnCallWidth = 60 /\ effective c AttrFnLikeWidth = 70 /\ effective c MaxWidth = 65 /\
  run_scaled 137 = [84; 98; 25; 49; 84; 84; 70; 70] /\
  run_scaled 1000 = [600; 700; 180; 350; 600; 600; 500; 500] /\
  run_scaled 0 = [60; 70; 18; 35; 60; 60; 50; 50].
Proof. vm_compute; repeat split; reflexivity. Qed.
Example ex_width_precedence :
  let o := inl [(StructLitWidth, 300); (UseSmallHeuristics, H_DEFAULT)] in
  let f := Some [(MaxWidth, 200); (StructLitWidth, 20); (ArrayWidth, 90)] in
  nodup_opts (keys (c_inline o)) = true /\ mem_opt MaxWidth (keys (c_inline o)) = false /\
  effective (resolve true f o) StructLitWidth = 200 /\ effective (resolve true f o) ArrayWidth = 90 /\
  effective (resolve true f o) ChainWidth = 120.
Proof. vm_compute; repeat split; reflexivity. Qed.

(* API *)
Example ex_api :
  let d := resolve true (Some [(FnCallWidth, 90)]) no_cli in
  effective (setter MaxWidth 80 d) FnCallWidth = 80 /\ effective (override_value MaxWidth 80 d) FnCallWidth = 80 /\
  effective (setter MaxWidth 80 d) ChainWidth = 60 /\
  effective (setter TabSpaces 3 d) TabSpaces = 3.
Proof. vm_compute; repeat split; reflexivity. Qed.

(* --print-config: hypotheses of the two partial round-trip theorems hold for --config max_width=120 *)
Example ex_print_config_hyps :
  let c := resolve true None (inl [(MaxWidth, 120); (ImportsGranularity, 2)]) in
  (exists t, print_config c = Some t /\ length t = 23%nat /\
             effective (reparse true t) FnCallWidth = 72 /\ effective (reparse true t) ImportsGranularity = 2) /\
  (forall w, is_width w = true -> val (c w) <= val (c MaxWidth)) /\
  effective c UseSmallHeuristics = H_DEFAULT /\ 70 <= effective c MaxWidth.
Proof.
  cbv zeta. split; [|split].
  - destruct (print_config (resolve true None (inl [(MaxWidth, 120); (ImportsGranularity, 2)]))) as [t|] eqn:E;
      [|vm_compute in E; discriminate E].
    exists t. vm_compute in E. inversion E; subst t. vm_compute. repeat split; reflexivity.
  - intros w Hw; destruct w; try (vm_compute in Hw; discriminate Hw); vm_compute; discriminate.
  - vm_compute. split; [reflexivity | discriminate].
Qed.
