(* C14/Run.v — encodings of model results for the correspondence run.

   Options are numbered by [opt_id] (order of the create_config! invocation, restricted to the modelled ones):
     0 max_width, 1 hard_tabs, 2 tab_spaces, 3 newline_style, 4 use_small_heuristics, 5 fn_call_width,
     6 attr_fn_like_width, 7 struct_lit_width, 8 struct_variant_width, 9 array_width, 10 chain_width,
     11 single_line_if_else_max_width, 12 single_line_let_else_max_width, 13 imports_granularity,
     14 merge_imports, 15 fn_args_layout, 16 fn_params_layout, 17 edition, 18 style_edition, 19 version,
     20 color, 21 unstable_features, 22 hide_parse_errors, 23 show_parse_errors, 24 emit_mode, 25 make_backup.
   Values: bool false 0 / true 1; usize as is; NewlineStyle Auto 0, Windows 1, Unix 2, Native 3;
     Heuristics Off 0, Max 1, Default 2; ImportGranularity Preserve 0, Crate 1, Module 2, Item 3, One 4;
     Density Compressed 0, Tall 1, Vertical 2; Edition 2015 0, 2018 1, 2021 2, 2024 3; StyleEdition the same
     and 2027 4; Version One 0, Two 1; Color Always 0, Never 1, Auto 2;
     EmitMode Files 0, Stdout 1, Coverage 2, Checkstyle 3, Json 4, ModifiedLines 5, Diff 6.
   Path components: 1 = ".rustfmt.toml", 2 = "rustfmt.toml", 3 = "rustfmt" (below the config dir); any other
   number is an ordinary name. Root = [].
   Result codes of run_discover: (0, p) config file p chosen; (1, []) no config file (defaults);
     (2, []) --config-path target not found; (3, []) I/O error; (4, []) start directory does not exist;
     (5, []) the chosen file does not parse. *)
From V Require Import Base.Text C14.Model.
Open Scope N_scope.

Definition opt_of_id (n : N) : option opt := find (fun o => N.eqb (opt_id o) n) all_opts.

Fixpoint decode_table (l : list (N * N)) : list (opt * N) :=
  match l with
  | [] => []
  | (k, v) :: l' => match opt_of_id k with Some o => (o, v) :: decode_table l' | None => decode_table l' end
  end.

Definition encode_config (c : config) : list (N * N) := map (fun o => (opt_id o, val (c o))) all_opts.

(* files: (path, kind) with kind 0 = a config file that parses (empty table), 1 = a file that does not parse,
   2 = a path whose metadata fails with an error other than NotFound; dirs: the directories *)
Fixpoint find_file (files : list (list N * N)) (p : list N) : option node :=
  match files with
  | [] => None
  | (q, k) :: files' =>
      if eqb_text q p
      then Some (if k =? 0 then File (Table []) else if k =? 1 then File Invalid else IOErr)
      else find_file files' p
  end.
Definition mk_fs (files : list (list N * N)) (dirs : list (list N)) : fsys :=
  fun p => match find_file files p with
           | Some n => Some n
           | None => if existsb (fun d => eqb_text d p) dirs then Some Dir else None
           end.

Definition enc_error (e : error) : N :=
  match e with E_NotFound => 2 | E_Io => 3 | E_Canonicalize => 4 | E_InvalidData => 5 end.

(* load_config for a file in directory [dir] with the given --config-path; only the chosen path is reported *)
Definition run_discover (files : list (list N * N)) (dirs : list (list N)) (home cfgdir : option (list N))
           (config_path : option (list N)) (dir : list N) : N * list N :=
  match load_config true (mk_fs files dirs) home cfgdir (Some dir)
          (mk_cli config_path None None false None false None false []) with
  | Ok (_, Some p) => (0, p)
  | Ok (_, None) => (1, [])
  | Err e => (enc_error e, [])
  end.

(* the effective value of every modelled option for a parsed file (None = no config file found), the dedicated
   flags and the --config pairs in the given application order *)
Definition run_effective (nightly : bool) (file : option (list (N * N)))
           (edition style_edition : option N) (check : bool) (emit : option N) (backup : bool)
           (color : option N) (unstable : bool) (inline : list (N * N)) : list (N * N) :=
  encode_config
    (resolve nightly (option_map decode_table file)
       (mk_cli None edition style_edition check emit backup color unstable (decode_table inline))).

Definition width_opts : list opt :=
  [FnCallWidth; AttrFnLikeWidth; StructLitWidth; StructVariantWidth; ArrayWidth; ChainWidth;
   SingleLineIfElseMaxWidth; SingleLineLetElseMaxWidth].

(* WidthHeuristics::scaled(max_width): the eight widths in declaration order *)
Definition run_scaled (max_width : N) : list N := map (wh_scaled max_width) width_opts.

(* the eight effective widths for a rustfmt.toml holding use_small_heuristics, max_width and the explicit
   (option id, value) pairs *)
Definition run_widths (heuristics max_width : N) (explicit : list (N * N)) : list N :=
  let c := resolve true (Some ((UseSmallHeuristics, heuristics) :: (MaxWidth, max_width) :: decode_table explicit))
                   no_cli in
  map (fun o => val (c o)) width_opts.

(* --print-config of the configuration computed by run_effective: None if serialisation fails *)
Definition run_print_config (nightly : bool) (file : option (list (N * N)))
           (edition style_edition : option N) (check : bool) (emit : option N) (backup : bool)
           (color : option N) (unstable : bool) (inline : list (N * N)) : option (list (N * N)) :=
  option_map (map (fun kv => (opt_id (fst kv), snd kv)))
    (print_config
       (resolve nightly (option_map decode_table file)
          (mk_cli None edition style_edition check emit backup color unstable (decode_table inline)))).
