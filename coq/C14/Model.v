(* C14/Model.v — configuration resolution: discovery of the config file, and the option values that result
   from defaults + file + command line.

   Sources modelled (line numbers of the /repo snapshot):
     src/config/mod.rs:495-516   get_toml_path            (`.rustfmt.toml` then `rustfmt.toml`; must be a file)
     src/config/mod.rs:357-395   resolve_project_file     (directory -> root, then home dir, then config_dir/rustfmt)
     src/config/mod.rs:326-337   Config::from_toml_path
     src/config/mod.rs:348-405   Config::from_resolved_toml_path
     src/config/mod.rs:412-453   Config::from_toml_for_style_edition
     src/config/mod.rs:225-238   PartialConfig::to_parsed_config
     src/config/mod.rs:279-301   Config::default_for_possible_style_edition
     src/config/mod.rs:458-490   load_config
     src/config/mod.rs:518-547   config_path
     src/config/mod.rs:211-223   PartialConfig::to_toml
     src/config/config_type.rs   create_config!: ConfigSetter (117-141), CliConfigSetter (146-171),
                                 default_with_style_edition (211-225), fill_from_parsed_config (247-266),
                                 all_options (313-319), override_value (322-369), set_width_heuristics (426-511),
                                 set_heuristics (513-521), set_merge_imports (527-541), set_fn_args_layout (543-553),
                                 set_hide_parse_errors (555-565), set_version (567-589),
                                 is_stable_option_and_value (616-647)
     src/config/options.rs:269-318  WidthHeuristics::{null, set, scaled};  599-712 the per-option defaults
     src/config/style_edition.rs:22-39  style_edition_default! (Edition2024 | Edition2027 => new, else old)
     src/bin/main.rs:683-758     GetOptsOptions::{apply_to, edition, style_edition, version}
     src/bin/main.rs:331-377     format (config per file)       255-268 --print-config current

   Abstractions (stated, not proved):
   * the file system is a function from canonical absolute paths (lists of components, root = []) to nodes; symbolic
     links, relative paths and `canonicalize` are the identity; a node [IOErr] stands for a path whose `fs::metadata`
     fails with an error other than NotFound;
   * the content of a config file is an already parsed TOML table restricted to the modelled options
     ([Table], keys of type [opt]) or [Invalid] (not TOML / not a table); a table with a duplicate key or an
     ill-typed value is rejected as the TOML / serde layer does ([table_ok]);
   * values of every option type are encoded as N (encoding below); `usize` is 64 bit;
   * WidthHeuristics::scaled computes in f32; here the f32 operations are replaced by exact rational arithmetic
     with `round` = round half away from zero. The correspondence run validates this for max_width in [0, 10000]
     against the binary (for huge max_width, beyond 2^24, the f32 computation loses precision and the model is
     not claimed);
   * the `accessed` cell (component 0 of the per-option tuple; feeds only used_options / --dump-minimal-config),
     the `ignore` list prefix and the warnings on stderr are not modelled;
   * only the options listed in [opt] are modelled; the CLI flags that act on other options
     (--verbose/--quiet, --file-lines, --skip-children, --error-on-unformatted, --files-with-diff) are left out.
   * `inline_config` (the `--config k=v,...` pairs) is a HashMap in the source: its iteration order in apply_to
     is arbitrary; here it is a list with distinct keys, in the order in which apply_to happens to iterate.

   Encoding of values as N:
     bool: false 0, true 1                     usize: the number
     NewlineStyle: Auto 0, Windows 1, Unix 2, Native 3
     Heuristics (use_small_heuristics): Off 0, Max 1, Default 2
     ImportGranularity: Preserve 0, Crate 1, Module 2, Item 3, One 4
     Density (fn_args_layout, fn_params_layout): Compressed 0, Tall 1, Vertical 2
     Edition: 2015 0, 2018 1, 2021 2, 2024 3          StyleEdition: 2015 0, 2018 1, 2021 2, 2024 3, 2027 4
     Version: One 0, Two 1                            Color: Always 0, Never 1, Auto 2
     EmitMode: Files 0, Stdout 1, Coverage 2, Checkstyle 3, Json 4, ModifiedLines 5, Diff 6 *)
From V Require Import Base.Text.
Open Scope N_scope.

(* ------------------------------------------------------------------ *)
(* options                                                            *)
(* ------------------------------------------------------------------ *)

(* in the order of the create_config! invocation, src/config/mod.rs:33-204 *)
Inductive opt : Type :=
| MaxWidth | HardTabs | TabSpaces | NewlineStyle
| UseSmallHeuristics
| FnCallWidth | AttrFnLikeWidth | StructLitWidth | StructVariantWidth | ArrayWidth | ChainWidth
| SingleLineIfElseMaxWidth | SingleLineLetElseMaxWidth
| ImportsGranularity | MergeImports
| FnArgsLayout | FnParamsLayout
| Edition | StyleEdition | Version
| Color | UnstableFeatures | HideParseErrors | ShowParseErrors
| EmitMode | MakeBackup.

Definition all_opts : list opt :=
  [MaxWidth; HardTabs; TabSpaces; NewlineStyle; UseSmallHeuristics;
   FnCallWidth; AttrFnLikeWidth; StructLitWidth; StructVariantWidth; ArrayWidth; ChainWidth;
   SingleLineIfElseMaxWidth; SingleLineLetElseMaxWidth;
   ImportsGranularity; MergeImports; FnArgsLayout; FnParamsLayout;
   Edition; StyleEdition; Version;
   Color; UnstableFeatures; HideParseErrors; ShowParseErrors; EmitMode; MakeBackup].

Definition opt_id (o : opt) : N :=
  match o with
  | MaxWidth => 0 | HardTabs => 1 | TabSpaces => 2 | NewlineStyle => 3 | UseSmallHeuristics => 4
  | FnCallWidth => 5 | AttrFnLikeWidth => 6 | StructLitWidth => 7 | StructVariantWidth => 8
  | ArrayWidth => 9 | ChainWidth => 10 | SingleLineIfElseMaxWidth => 11 | SingleLineLetElseMaxWidth => 12
  | ImportsGranularity => 13 | MergeImports => 14 | FnArgsLayout => 15 | FnParamsLayout => 16
  | Edition => 17 | StyleEdition => 18 | Version => 19
  | Color => 20 | UnstableFeatures => 21 | HideParseErrors => 22 | ShowParseErrors => 23
  | EmitMode => 24 | MakeBackup => 25
  end.

Definition opt_eqb (a b : opt) : bool := N.eqb (opt_id a) (opt_id b).

Notation value := N (only parsing).

Definition usize_max : N := 18446744073709551615.      (* usize::MAX, 64 bit *)
Definition i64_max : N := 9223372036854775807.         (* largest integer a TOML document can hold *)

Definition H_OFF : N := 0.  Definition H_MAX : N := 1.  Definition H_DEFAULT : N := 2.
Definition G_PRESERVE : N := 0.  Definition G_CRATE : N := 1.
Definition SE2015 : N := 0.  Definition SE2018 : N := 1.  Definition SE2021 : N := 2.
Definition SE2024 : N := 3.  Definition SE2027 : N := 4.
Definition V_ONE : N := 0.  Definition V_TWO : N := 1.
Definition EMIT_DIFF : N := 6.

(* the eight widths derived from use_small_heuristics *)
Definition is_width (o : opt) : bool :=
  match o with
  | FnCallWidth | AttrFnLikeWidth | StructLitWidth | StructVariantWidth | ArrayWidth | ChainWidth
  | SingleLineIfElseMaxWidth | SingleLineLetElseMaxWidth => true
  | _ => false
  end.

Definition is_usize (o : opt) : bool :=
  match o with MaxWidth | TabSpaces => true | _ => is_width o end.

(* number of values of the option's type (exclusive bound of the encoding) *)
Definition type_bound (o : opt) : N :=
  match o with
  | NewlineStyle => 4
  | UseSmallHeuristics => 3
  | ImportsGranularity => 5
  | FnArgsLayout | FnParamsLayout => 3
  | Edition => 4
  | StyleEdition => 5
  | Version => 2
  | Color => 3
  | EmitMode => 7
  | HardTabs | MergeImports | UnstableFeatures | HideParseErrors | ShowParseErrors | MakeBackup => 2
  | _ => usize_max + 1
  end.

(* `val.parse::<T>()` succeeds (Config::is_valid_key_val, used for --config) *)
Definition valid_cli_value (o : opt) (v : value) : bool := v <? type_bound o.
(* serde deserialisation of a TOML value succeeds: TOML integers are i64 *)
Definition valid_file_value (o : opt) (v : value) : bool :=
  (v <? type_bound o) && (negb (is_usize o) || (v <=? i64_max)).

(* third component of the create_config! lines: is the option stable *)
Definition stable (o : opt) : bool :=
  match o with
  | ImportsGranularity | MergeImports | Version | Color | UnstableFeatures
  | HideParseErrors | ShowParseErrors | EmitMode | MakeBackup => false
  | _ => true
  end.
(* ConfigType::stable_variant: the only #[unstable_variant] among the modelled types is StyleEdition::Edition2027 *)
Definition stable_variant (o : opt) (v : value) : bool :=
  match o with StyleEdition => negb (v =? SE2027) | _ => true end.

(* src/config/config_type.rs:616 is_stable_option_and_value *)
Definition is_stable_option_and_value (nightly : bool) (o : opt) (v : value) : bool :=
  nightly || (stable o && stable_variant o v).

(* src/config/options.rs:599-712 with src/config/style_edition.rs:22-39.  Among ALL options of rustfmt only
   style_edition and version have a default that depends on the style edition. *)
Definition new_style (se : N) : bool := (se =? SE2024) || (se =? SE2027).
Definition default (se : N) (o : opt) : value :=
  match o with
  | MaxWidth => 100 | HardTabs => 0 | TabSpaces => 4 | NewlineStyle => 0
  | UseSmallHeuristics => H_DEFAULT
  | FnCallWidth => 60 | AttrFnLikeWidth => 70 | StructLitWidth => 18 | StructVariantWidth => 35
  | ArrayWidth => 60 | ChainWidth => 60 | SingleLineIfElseMaxWidth => 50 | SingleLineLetElseMaxWidth => 50
  | ImportsGranularity => G_PRESERVE | MergeImports => 0
  | FnArgsLayout => 1 | FnParamsLayout => 1
  | Edition => 0
  | StyleEdition => if new_style se then SE2024 else SE2015
  | Version => if new_style se then V_TWO else V_ONE
  | Color => 2 | UnstableFeatures => 0 | HideParseErrors => 0 | ShowParseErrors => 1
  | EmitMode => 0 | MakeBackup => 0
  end.

(* ------------------------------------------------------------------ *)
(* the Config structure                                               *)
(* ------------------------------------------------------------------ *)

(* components 1, 2, 4 of the per-option tuple (component 3 is [stable], component 0 is not modelled) *)
Record entry : Type := mk_entry { was_set : bool; val : value; was_set_cli : bool }.
Definition config := opt -> entry.

Definition upd (c : config) (o : opt) (e : entry) : config :=
  fun o' => if opt_eqb o' o then e else c o'.

(* the formatter reads an option through its getter: component 2 *)
Definition effective (c : config) (o : opt) : value := val (c o).

(* config_type.rs:211 default_with_style_edition *)
Definition default_with_style_edition (se : N) : config :=
  fun o => mk_entry false (default se o) false.

(* mod.rs:279 default_for_possible_style_edition; From<Edition> for StyleEdition is the identity on the encoding *)
Definition base_style_edition (se ver ed : option N) : N :=
  match se, ver, ed with
  | Some s, _, _ => s
  | None, Some v, _ => if v =? V_TWO then SE2024 else SE2015
  | None, None, Some e => e
  | None, None, None => SE2015
  end.
Definition default_for_possible_style_edition (se ed ver : option N) : config :=
  default_with_style_edition (base_style_edition se ver ed).

(* options.rs:271-318 *)
Definition default_width (o : opt) : N :=
  match o with
  | FnCallWidth => 60 | AttrFnLikeWidth => 70 | StructLitWidth => 18 | StructVariantWidth => 35
  | ArrayWidth => 60 | ChainWidth => 60 | SingleLineIfElseMaxWidth => 50 | SingleLineLetElseMaxWidth => 50
  | _ => 0
  end.
(* f32::round of the non-negative rational a/b: half away from zero *)
Definition round_div (a b : N) : N := (2 * a + b) / (2 * b).
(* ten times max_width_ratio: `if max_width > 100 { (max_width/100 * 10.0).round() / 10.0 } else { 1.0 }` *)
Definition ratio10 (mw : N) : N := if 100 <? mw then round_div (mw * 10) 100 else 10.
(* `(D * max_width_ratio).round() as usize` *)
Definition wh_scaled (mw : N) (o : opt) : N := round_div (default_width o * ratio10 mw) 10.
Definition wh_set (mw : N) (o : opt) : N := mw.
Definition wh_null (o : opt) : N :=
  match o with
  | FnCallWidth | AttrFnLikeWidth | ArrayWidth | ChainWidth => usize_max
  | _ => 0
  end.

(* config_type.rs:513 set_heuristics: the WidthHeuristics chosen by use_small_heuristics *)
Definition heuristic_value (h mw : N) (o : opt) : N :=
  if h =? H_DEFAULT then wh_scaled mw o else if h =? H_MAX then wh_set mw o else wh_null o.

(* config_type.rs:428 the get_width_value closure *)
Definition get_width_value (max_width : N) (ws : bool) (override_value heuristic : N) : N :=
  if negb ws then heuristic
  else if max_width <? override_value then max_width
  else override_value.

Definition set_val (e : entry) (v : value) : entry := mk_entry (was_set e) v (was_set_cli e).

(* config_type.rs:426 set_width_heuristics: the eight assignments are independent of each other *)
Definition set_width_heuristics (h : opt -> N) (c : config) : config :=
  let max_width := val (c MaxWidth) in
  fun o => if is_width o
           then set_val (c o) (get_width_value max_width (was_set (c o)) (val (c o)) (h o))
           else c o.

Definition set_heuristics (c : config) : config :=
  set_width_heuristics (heuristic_value (val (c UseSmallHeuristics)) (val (c MaxWidth))) c.

(* the three deprecated-alias hooks have one shape: if the old option was set and the new one was not, the new
   one takes a value computed from the old one (its was_set flag stays false) *)
Definition set_alias (old new : opt) (conv : value -> value) (c : config) : config :=
  if was_set (c old) then
    if negb (was_set (c new)) then upd c new (set_val (c new) (conv (val (c old)))) else c
  else c.

(* config_type.rs:527: merge_imports = true -> Crate, false -> Preserve *)
Definition conv_merge_imports (v : value) : value := if v =? 0 then G_PRESERVE else G_CRATE.
Definition set_merge_imports : config -> config := set_alias MergeImports ImportsGranularity conv_merge_imports.
(* config_type.rs:543 *)
Definition set_fn_args_layout : config -> config := set_alias FnArgsLayout FnParamsLayout (fun v => v).
(* config_type.rs:555: `self.show_parse_errors.2 = self.hide_parse_errors();` — the value is copied, NOT negated *)
Definition set_hide_parse_errors : config -> config := set_alias HideParseErrors ShowParseErrors (fun v => v).
(* config_type.rs:567: only prints warnings *)
Definition set_version (c : config) : config := c.

(* the `match stringify!($i)` / `match key` after each assignment (config_type.rs:122, 152, 352) *)
Definition hook (k : opt) (c : config) : config :=
  match k with
  | MaxWidth | UseSmallHeuristics
  | FnCallWidth | AttrFnLikeWidth | StructLitWidth | StructVariantWidth | ArrayWidth | ChainWidth
  | SingleLineIfElseMaxWidth | SingleLineLetElseMaxWidth => set_heuristics c
  | MergeImports => set_merge_imports c
  | FnArgsLayout => set_fn_args_layout c
  | HideParseErrors => set_hide_parse_errors c
  | Version => set_version c
  | _ => c
  end.

(* config_type.rs:117 ConfigSetter: `config.set().k(v)` — assigns component 2 only *)
Definition setter (k : opt) (v : value) (c : config) : config :=
  hook k (upd c k (mk_entry (was_set (c k)) v (was_set_cli (c k)))).
(* config_type.rs:146 CliConfigSetter: `config.set_cli().k(v)` — components 2 and 4 *)
Definition cli_setter (k : opt) (v : value) (c : config) : config :=
  hook k (upd c k (mk_entry (was_set (c k)) v true)).
(* config_type.rs:322 override_value: components 1 and 2 *)
Definition override_value (k : opt) (v : value) (c : config) : config :=
  hook k (upd c k (mk_entry true v (was_set_cli (c k)))).

(* ------------------------------------------------------------------ *)
(* parsed files                                                       *)
(* ------------------------------------------------------------------ *)

Notation table := (list (opt * N)) (only parsing).

Fixpoint lookup (t : table) (o : opt) : option value :=
  match t with
  | [] => None
  | (k, v) :: t' => if opt_eqb k o then Some v else lookup t' o
  end.

Fixpoint mem_opt (o : opt) (l : list opt) : bool :=
  match l with [] => false | x :: l' => opt_eqb x o || mem_opt o l' end.
Fixpoint nodup_opts (l : list opt) : bool :=
  match l with [] => true | x :: l' => negb (mem_opt x l') && nodup_opts l' end.
Definition keys (t : table) : list opt := map fst t.

(* the TOML parser rejects duplicate keys, serde rejects ill-typed values *)
Definition table_ok (t : table) : bool :=
  nodup_opts (keys t) && forallb (fun kv => valid_file_value (fst kv) (snd kv)) t.

(* config_type.rs:247 fill_from_parsed_config, the per-option part *)
Definition fill_values (nightly : bool) (t : table) (c : config) : config :=
  fun o => match lookup t o with
           | Some v => if is_stable_option_and_value nightly o v
                       then mk_entry true v (was_set_cli (c o))
                       else c o
           | None => c o
           end.
Definition fill_from_parsed_config (nightly : bool) (t : table) (c : config) : config :=
  set_version (set_hide_parse_errors (set_fn_args_layout (set_merge_imports
    (set_heuristics (fill_values nightly t c))))).

Definition or_else {A} (a b : option A) : option A := match a with Some _ => a | None => b end.

(* mod.rs:225 to_parsed_config (called from from_toml_for_style_edition with the CLI's three values) *)
Definition to_parsed_config (nightly : bool) (t : table) (se_over ed_over ver_over : option N) : config :=
  fill_from_parsed_config nightly t
    (default_for_possible_style_edition
       (or_else se_over (lookup t StyleEdition))
       (or_else ed_over (lookup t Edition))
       (or_else ver_over (lookup t Version))).

(* ------------------------------------------------------------------ *)
(* command line                                                       *)
(* ------------------------------------------------------------------ *)

Notation path := (list N) (only parsing).

Record cli : Type := mk_cli {
  c_config_path : option path;      (* --config-path *)
  c_edition : option N;             (* --edition *)
  c_style_edition : option N;       (* --style-edition *)
  c_check : bool;                   (* --check *)
  c_emit : option N;                (* --emit *)
  c_backup : bool;                  (* --backup *)
  c_color : option N;               (* --color *)
  c_unstable : bool;                (* --unstable-features *)
  c_inline : table                  (* --config k=v,...  in HashMap iteration order *)
}.

(* GetOptsOptions::from_matches accepts the --config pairs: valid key=val, keys collected in a HashMap *)
Definition cli_ok (o : cli) : bool :=
  nodup_opts (keys (c_inline o)) && forallb (fun kv => valid_cli_value (fst kv) (snd kv)) (c_inline o).

(* main.rs:740-757 *)
Definition cli_edition (o : cli) : option N := or_else (lookup (c_inline o) Edition) (c_edition o).
Definition cli_style_edition (o : cli) : option N := or_else (lookup (c_inline o) StyleEdition) (c_style_edition o).
Definition cli_version (o : cli) : option N := lookup (c_inline o) Version.

Definition apply_inline (inl : table) (c : config) : config :=
  fold_left (fun c kv => override_value (fst kv) (snd kv) c) inl c.

Definition on_some (x : option N) (f : N -> config -> config) (c : config) : config :=
  match x with Some v => f v c | None => c end.

(* main.rs:684 apply_to, the statements that touch a modelled option, in source order *)
Definition apply_flags (o : cli) (c : config) : config :=
  let c := if c_unstable o then cli_setter UnstableFeatures 1 c else setter UnstableFeatures 0 c in
  let c := on_some (c_edition o) (cli_setter Edition) c in
  let c := on_some (c_style_edition o) (cli_setter StyleEdition) c in
  let c := if c_check o then cli_setter EmitMode EMIT_DIFF c else on_some (c_emit o) (cli_setter EmitMode) c in
  let c := if c_backup o then cli_setter MakeBackup 1 c else c in
  on_some (c_color o) (cli_setter Color) c.
Definition apply_to (o : cli) (c : config) : config := apply_inline (c_inline o) (apply_flags o c).

(* the option values for a given (already located and parsed) config file, or none: the part of load_config
   after the file has been chosen *)
Definition resolve (nightly : bool) (file : option table) (o : cli) : config :=
  apply_to o
    (match file with
     | Some t => to_parsed_config nightly t (cli_style_edition o) (cli_edition o) (cli_version o)
     | None => default_for_possible_style_edition (cli_style_edition o) (cli_edition o) (cli_version o)
     end).

(* ------------------------------------------------------------------ *)
(* file system and discovery                                          *)
(* ------------------------------------------------------------------ *)

Inductive cfgfile : Type := Table (t : table) | Invalid.
Inductive node : Type := File (content : cfgfile) | Dir | IOErr.
Definition fsys := path -> option node.

(* path components with a fixed meaning *)
Definition DOT_RUSTFMT_TOML : N := 1.    (* ".rustfmt.toml" *)
Definition RUSTFMT_TOML : N := 2.        (* "rustfmt.toml" *)
Definition RUSTFMT_DIR : N := 3.         (* "rustfmt" below dirs::config_dir() *)

Definition join (d : path) (n : N) : path := d ++ [n].
(* Path::parent / PathBuf::pop *)
Definition parent (p : path) : option path :=
  match rev p with [] => None | _ :: r => Some (rev r) end.

Inductive error : Type :=
| E_NotFound        (* config_path: "unable to find a config file for the given path" *)
| E_Io              (* metadata / open / read failed *)
| E_Canonicalize    (* fs::canonicalize of the start directory failed: it does not exist *)
| E_InvalidData.    (* the config file does not parse *)
Inductive result (A : Type) : Type := Ok (a : A) | Err (e : error).
Arguments Ok {A} a.
Arguments Err {A} e.

(* `fs::metadata(p)` then `md.is_file()`: NotFound and non-files are skipped, other errors are returned *)
Definition probe (fs : fsys) (p : path) : result bool :=
  match fs p with
  | Some (File _) => Ok true
  | Some Dir => Ok false
  | None => Ok false
  | Some IOErr => Err E_Io
  end.

(* mod.rs:495 get_toml_path *)
Definition get_toml_path (fs : fsys) (dir : path) : result (option path) :=
  match probe fs (join dir DOT_RUSTFMT_TOML) with
  | Err e => Err e
  | Ok true => Ok (Some (join dir DOT_RUSTFMT_TOML))
  | Ok false =>
      match probe fs (join dir RUSTFMT_TOML) with
      | Err e => Err e
      | Ok true => Ok (Some (join dir RUSTFMT_TOML))
      | Ok false => Ok None
      end
  end.

(* mod.rs:366 the loop of resolve_project_file; [rcur] is `current` reversed, so `current.pop()` is a tail *)
Fixpoint walk_up (fs : fsys) (rcur : list N) : result (option path) :=
  match get_toml_path fs (rev rcur) with
  | Err e => Err e
  | Ok (Some p) => Ok (Some p)
  | Ok None =>
      match rcur with
      | [] => Ok None
      | _ :: rcur' => walk_up fs rcur'
      end
  end.

(* the `if let Some(d) = ... { if let Some(path) = get_toml_path(&d)? { return Ok(Some(path)) } }` steps *)
Definition try_dir (fs : fsys) (d : option path) (next : result (option path)) : result (option path) :=
  match d with
  | None => next
  | Some d =>
      match get_toml_path fs d with
      | Err e => Err e
      | Ok (Some p) => Ok (Some p)
      | Ok None => next
      end
  end.

(* mod.rs:357 resolve_project_file; [home] = dirs::home_dir(), [cfgdir] = dirs::config_dir() *)
Definition resolve_project_file (fs : fsys) (home cfgdir : option path) (dir : path) : result (option path) :=
  match fs dir with
  | None => Err E_Canonicalize
  | Some IOErr => Err E_Io
  | Some _ =>
      match walk_up fs (rev dir) with
      | Err e => Err e
      | Ok (Some p) => Ok (Some p)
      | Ok None =>
          try_dir fs home
            (try_dir fs (option_map (fun c => join c RUSTFMT_DIR) cfgdir) (Ok None))
      end
  end.

(* mod.rs:326 from_toml_path + 412 from_toml_for_style_edition *)
Definition from_toml_path (nightly : bool) (fs : fsys) (p : path) (o : cli) : result config :=
  match fs p with
  | Some (File (Table t)) =>
      if table_ok t
      then Ok (to_parsed_config nightly t (cli_style_edition o) (cli_edition o) (cli_version o))
      else Err E_InvalidData
  | Some (File Invalid) => Err E_InvalidData
  | _ => Err E_Io
  end.

(* mod.rs:518 config_path: `exists()` and `is_dir()` are false when metadata fails *)
Definition config_path (fs : fsys) (o : cli) : result (option path) :=
  match c_config_path o with
  | None => Ok None
  | Some q =>
      match fs q with
      | None | Some IOErr => Err E_NotFound
      | Some Dir =>
          match get_toml_path fs q with
          | Err e => Err e
          | Ok (Some p) => Ok (Some p)
          | Ok None => Err E_NotFound
          end
      | Some (File _) => Ok (Some q)
      end
  end.

(* mod.rs:458 load_config *)
Definition load_config (nightly : bool) (fs : fsys) (home cfgdir : option path)
           (file_path : option path) (o : cli) : result (config * option path) :=
  match config_path fs o with
  | Err e => Err e
  | Ok over_ride =>
      let defaults := default_for_possible_style_edition (cli_style_edition o) (cli_edition o) (cli_version o) in
      let result :=
        match over_ride with
        | Some p =>
            match from_toml_path nightly fs p o with
            | Ok c => Ok (c, Some p)
            | Err e => Err e
            end
        | None =>
            match file_path with
            | Some dir =>
                match resolve_project_file fs home cfgdir dir with
                | Err e => Err e
                | Ok None => Ok (defaults, None)
                | Ok (Some p) =>
                    match from_toml_path nightly fs p o with
                    | Ok c => Ok (c, Some p)
                    | Err e => Err e
                    end
                end
            | None => Ok (defaults, None)
            end
        end in
      match result with
      | Ok (c, p) => Ok (apply_to o c, p)
      | Err e => Err e
      end
  end.

(* main.rs:331 format: the configuration a named file (in directory [file_dir]) is formatted with.
   `load_config(None, options)` first; only when that found no config path, `load_config(Some(parent), options)`
   per file, the result replacing the session's config for that file. *)
Definition config_for_file (nightly : bool) (fs : fsys) (home cfgdir : option path)
           (file_dir : path) (o : cli) : result (config * option path) :=
  match load_config nightly fs home cfgdir None o with
  | Err e => Err e
  | Ok (c, Some p) => Ok (c, Some p)
  | Ok (_, None) => load_config nightly fs home cfgdir (Some file_dir) o
  end.

(* ------------------------------------------------------------------ *)
(* --print-config                                                     *)
(* ------------------------------------------------------------------ *)

(* config_type.rs:313 all_options *)
Definition all_options (c : config) : table := map (fun o => (o, val (c o))) all_opts.

(* mod.rs:211 to_toml: these fields are cleared before serialisation (the modelled ones among them) *)
Definition hidden (o : opt) : bool :=
  match o with MergeImports | FnArgsLayout | HideParseErrors => true | _ => false end.

(* toml::to_string fails on an integer above i64::MAX ("out-of-range value for u64 type") *)
Definition to_toml (t : table) : option table :=
  let t' := filter (fun kv => negb (hidden (fst kv))) t in
  if forallb (fun kv => negb (is_usize (fst kv)) || (snd kv <=? i64_max)) t' then Some t' else None.

(* main.rs:245-268: --print-config default = Config::default().all_options().to_toml(),
   --print-config current PATH = load_config(parent of PATH, options).all_options().to_toml() *)
Definition print_config (c : config) : option table := to_toml (all_options c).
Definition print_config_default : option table := print_config (default_with_style_edition SE2015).

(* the printed text used as a config file, with no command-line options: what the file alone determines *)
Definition reparse (nightly : bool) (t : table) : config := to_parsed_config nightly t None None None.

(* ------------------------------------------------------------------ *)
(* specification-side definitions (used in the statements of Props.v) *)
(* ------------------------------------------------------------------ *)

Definition is_file (fs : fsys) (p : path) : bool :=
  match fs p with Some (File _) => true | _ => false end.
(* the directory holds a config FILE under one of the two names *)
Definition has_cfg (fs : fsys) (d : path) : bool :=
  is_file fs (join d DOT_RUSTFMT_TOML) || is_file fs (join d RUSTFMT_TOML).
(* the dotted name wins in the same directory *)
Definition pick (fs : fsys) (d : path) : path :=
  if is_file fs (join d DOT_RUSTFMT_TOML) then join d DOT_RUSTFMT_TOML else join d RUSTFMT_TOML.
(* rev rd, its parent, ..., the root *)
Fixpoint ancestors_rev (rd : list N) : list path :=
  rev rd :: match rd with [] => [] | _ :: r => ancestors_rev r end.
Definition ancestors (dir : path) : list path := ancestors_rev (rev dir).
Definition opt_list {A} (x : option A) : list A := match x with Some a => [a] | None => [] end.
(* the directories probed by resolve_project_file, in order *)
Definition candidates (home cfgdir : option path) (dir : path) : list path :=
  ancestors dir ++ opt_list home ++ opt_list (option_map (fun c => join c RUSTFMT_DIR) cfgdir).
Definition no_ioerr (fs : fsys) (d : path) : Prop :=
  fs (join d DOT_RUSTFMT_TOML) <> Some IOErr /\ fs (join d RUSTFMT_TOML) <> Some IOErr.

(* the value a dedicated flag gives to an option (main.rs:699-726) *)
Definition flag_value (o : cli) (x : opt) : option value :=
  match x with
  | UnstableFeatures => Some (if c_unstable o then 1 else 0)
  | Edition => c_edition o
  | StyleEdition => c_style_edition o
  | EmitMode => if c_check o then Some EMIT_DIFF else c_emit o
  | MakeBackup => if c_backup o then Some 1 else None
  | Color => c_color o
  | _ => None
  end.

(* what fill_from_parsed_config accepts from the file *)
Definition file_view (nightly : bool) (t : table) (x : opt) : option value :=
  match lookup t x with
  | Some v => if is_stable_option_and_value nightly x v then Some v else None
  | None => None
  end.
(* --config, else flag, else file *)
Definition view_S (nightly : bool) (o : cli) (t : table) (x : opt) : option value :=
  or_else (lookup (c_inline o) x) (or_else (flag_value o x) (file_view nightly t x)).
(* the same with the raw file entry (what to_parsed_config looks at for style_edition / version / edition) *)
Definition view_Sraw (o : cli) (t : table) (x : opt) : option value :=
  or_else (lookup (c_inline o) x) (or_else (flag_value o x) (lookup t x)).
(* --config, else file *)
Definition view_A (nightly : bool) (o : cli) (t : table) (x : opt) : option value :=
  or_else (lookup (c_inline o) x) (file_view nightly t x).

(* the style edition whose defaults are used *)
Definition se_base (o : cli) (t : table) : N :=
  base_style_edition (view_Sraw o t StyleEdition) (view_Sraw o t Version) (view_Sraw o t Edition).

Definition plain (x : opt) : bool :=
  negb (is_width x) &&
  match x with ImportsGranularity | FnParamsLayout | ShowParseErrors => false | _ => true end.

(* successor option [new] of a deprecated alias [old] *)
Definition alias_spec (A : opt -> option value) (old new : opt) (conv : value -> value) (dflt : value) : value :=
  match A new with
  | Some v => v
  | None => match A old with Some b => conv b | None => dflt end
  end.

Definition set_inline (o : cli) (inl : table) : cli :=
  mk_cli (c_config_path o) (c_edition o) (c_style_edition o) (c_check o) (c_emit o) (c_backup o)
         (c_color o) (c_unstable o) inl.

Fixpoint first_some (l : list (option N)) : option N :=
  match l with [] => None | Some v :: _ => Some v | None :: l' => first_some l' end.
Definition of_version (v : N) : N := if v =? V_TWO then SE2024 else SE2015.
Definition collapse (se : N) : N := if new_style se then SE2024 else SE2015.

Definition no_cli : cli := mk_cli None None None false None false None false [].
Definition file_table (f : option table) : table := match f with Some t => t | None => [] end.
Definition is_some {A} (x : option A) : bool := match x with Some _ => true | None => false end.
