(* C14/Lemmas.v — proofs about configuration resolution *)
From V Require Import Base.Text C14.Model.
Open Scope N_scope.
Arguments N.add : simpl never.
Arguments N.sub : simpl never.
Arguments N.mul : simpl never.
Arguments N.ltb : simpl never.
Arguments N.leb : simpl never.
Arguments N.eqb : simpl never.
Arguments N.div : simpl never.

(* ------------------------------------------------------------------ *)
(* basics                                                             *)
(* ------------------------------------------------------------------ *)

Lemma opt_id_inj : forall a b, opt_id a = opt_id b -> a = b.
Proof. intros a b H; destruct a; destruct b; first [reflexivity | discriminate H]. Qed.

Lemma opt_eqb_eq : forall a b, opt_eqb a b = true <-> a = b.
Proof.
  intros a b; unfold opt_eqb; rewrite N.eqb_eq; split.
  - apply opt_id_inj.
  - intros ->; reflexivity.
Qed.

Lemma opt_eqb_refl : forall a, opt_eqb a a = true.
Proof. intros a; apply opt_eqb_eq; reflexivity. Qed.

Lemma opt_eqb_neq : forall a b, a <> b -> opt_eqb a b = false.
Proof.
  intros a b H; destruct (opt_eqb a b) eqn:E; [|reflexivity].
  apply opt_eqb_eq in E; contradiction.
Qed.

Lemma opt_eqb_sym : forall a b, opt_eqb a b = opt_eqb b a.
Proof. intros a b; unfold opt_eqb; apply N.eqb_sym. Qed.

Lemma opt_eq_dec : forall a b : opt, {a = b} + {a <> b}.
Proof. decide equality. Qed.

Lemma upd_same : forall c o e, upd c o e o = e.
Proof. intros c o e; unfold upd; rewrite opt_eqb_refl; reflexivity. Qed.

Lemma upd_other : forall c o e x, x <> o -> upd c o e x = c x.
Proof. intros c o e x H; unfold upd; rewrite opt_eqb_neq by exact H; reflexivity. Qed.

Lemma lookup_cons : forall k v t x,
  lookup ((k, v) :: t) x = if opt_eqb k x then Some v else lookup t x.
Proof. reflexivity. Qed.

Lemma mem_opt_true : forall o l, mem_opt o l = true <-> In o l.
Proof.
  intros o l; induction l as [|x l IH]; cbn [mem_opt In].
  - split; [discriminate | tauto].
  - rewrite orb_true_iff, IH, opt_eqb_eq; tauto.
Qed.

Lemma lookup_none_iff : forall t x, lookup t x = None <-> mem_opt x (keys t) = false.
Proof.
  intros t x; induction t as [|[k v] t IH]; cbn [lookup keys map fst mem_opt].
  - tauto.
  - destruct (opt_eqb k x) eqn:E; cbn [orb].
    + split; discriminate.
    + exact IH.
Qed.

Lemma lookup_app : forall t1 t2 x,
  lookup (t1 ++ t2) x = match lookup t1 x with Some v => Some v | None => lookup t2 x end.
Proof.
  intros t1 t2 x; induction t1 as [|[k v] t1 IH]; cbn [lookup app].
  - reflexivity.
  - destruct (opt_eqb k x); [reflexivity | exact IH].
Qed.

Lemma mem_opt_app : forall o l1 l2, mem_opt o (l1 ++ l2) = mem_opt o l1 || mem_opt o l2.
Proof.
  intros o l1 l2; induction l1 as [|x l1 IH]; cbn [mem_opt app].
  - reflexivity.
  - rewrite IH, orb_assoc; reflexivity.
Qed.

Lemma nodup_opts_app : forall l1 l2,
  nodup_opts (l1 ++ l2) = true ->
  nodup_opts l1 = true /\ nodup_opts l2 = true /\ (forall o, mem_opt o l1 = true -> mem_opt o l2 = false).
Proof.
  induction l1 as [|x l1 IH]; intros l2 H; cbn [nodup_opts app] in *.
  - split; [reflexivity|]. split; [exact H|]. intros o Ho; cbn [mem_opt] in Ho; discriminate.
  - apply andb_true_iff in H; destruct H as [Hx Hn].
    rewrite mem_opt_app, negb_true_iff, orb_false_iff in Hx; destruct Hx as [Hx1 Hx2].
    destruct (IH l2 Hn) as [H1 [H2 H3]].
    split; [rewrite Hx1, H1; reflexivity|]. split; [exact H2|].
    intros o Ho; cbn [mem_opt] in Ho; apply orb_true_iff in Ho; destruct Ho as [Ho|Ho].
    + apply opt_eqb_eq in Ho; subst o; exact Hx2.
    + apply H3; exact Ho.
Qed.

(* ------------------------------------------------------------------ *)
(* discovery                                                          *)
(* ------------------------------------------------------------------ *)

Lemma probe_ok : forall fs p b, probe fs p = Ok b -> b = is_file fs p.
Proof.
  intros fs p b; unfold probe, is_file; destruct (fs p) as [[c| |]|]; intros H; inversion H; reflexivity.
Qed.

Lemma probe_noerr : forall fs p, fs p <> Some IOErr -> probe fs p = Ok (is_file fs p).
Proof.
  intros fs p H; unfold probe, is_file; destruct (fs p) as [[c| |]|]; try reflexivity; contradiction H; reflexivity.
Qed.

(* when get_toml_path does not fail its answer is determined by which of the two names are files *)
Lemma get_toml_path_ok : forall fs d r,
  get_toml_path fs d = Ok r -> r = if has_cfg fs d then Some (pick fs d) else None.
Proof.
  intros fs d r; unfold get_toml_path, has_cfg, pick.
  destruct (probe fs (join d DOT_RUSTFMT_TOML)) as [b1|e1] eqn:E1; [|discriminate].
  apply probe_ok in E1; rewrite <- E1; destruct b1; cbn [orb].
  - intros H; inversion H; reflexivity.
  - destruct (probe fs (join d RUSTFMT_TOML)) as [b2|e2] eqn:E2; [|discriminate].
    apply probe_ok in E2; rewrite <- E2; destruct b2; intros H; inversion H; reflexivity.
Qed.

Lemma get_toml_path_noerr : forall fs d,
  no_ioerr fs d -> get_toml_path fs d = Ok (if has_cfg fs d then Some (pick fs d) else None).
Proof.
  intros fs d [H1 H2]; unfold get_toml_path, has_cfg, pick.
  rewrite (probe_noerr _ _ H1), (probe_noerr _ _ H2).
  destruct (is_file fs (join d DOT_RUSTFMT_TOML)); cbn [orb]; [reflexivity|].
  destruct (is_file fs (join d RUSTFMT_TOML)); reflexivity.
Qed.

Lemma walk_up_nearest : forall fs p rpre rd,
  walk_up fs (rpre ++ rd) = Ok (Some p) ->
  has_cfg fs (rev rd) = true ->
  (forall a b, rpre = a ++ b -> b <> [] -> has_cfg fs (rev (b ++ rd)) = false) ->
  p = pick fs (rev rd).
Proof.
  intros fs p rpre; induction rpre as [|x rpre IH]; intros rd Hw Hc Hn.
  - cbn [app] in Hw. destruct rd as [|y rd]; cbn [walk_up] in Hw;
      (destruct (get_toml_path fs _) as [[q|]|e] eqn:E; [| |discriminate];
       apply get_toml_path_ok in E; rewrite Hc in E; [|discriminate E];
       inversion E; subst q; inversion Hw; reflexivity).
  - cbn [app walk_up] in Hw.
    assert (Hx : has_cfg fs (rev ((x :: rpre) ++ rd)) = false).
    { apply (Hn [] (x :: rpre)); [reflexivity | discriminate]. }
    cbn [app] in Hx.
    destruct (get_toml_path fs (rev (x :: rpre ++ rd))) as [[q|]|e] eqn:E; [| |discriminate].
    + apply get_toml_path_ok in E; rewrite Hx in E; discriminate E.
    + apply (IH rd Hw Hc). intros a b Hab Hb. apply (Hn (x :: a) b); [rewrite Hab; reflexivity | exact Hb].
Qed.

Lemma resolve_ok_walk : forall fs home cfgdir dir p,
  resolve_project_file fs home cfgdir dir = Ok (Some p) ->
  forall d, has_cfg fs d = true -> (exists rest, dir = d ++ rest) ->
  exists q, walk_up fs (rev dir) = Ok (Some q) /\ q = p.
Proof.
  intros fs home cfgdir dir p H d Hd [rest Hr].
  unfold resolve_project_file in H.
  destruct (fs dir) as [[c| |]|]; try discriminate H.
  - (* dir is a file: same code path *)
    destruct (walk_up fs (rev dir)) as [[q|]|e] eqn:E; [| |discriminate].
    + exists q; split; [reflexivity | inversion H; reflexivity].
    + exfalso. revert E. subst dir. rewrite rev_app_distr.
      generalize (rev rest) as rp; intros rp. induction rp as [|x rp IH]; cbn [app].
      * intros E. destruct (rev d) as [|y r] eqn:Er; cbn [walk_up] in E; rewrite <- Er in E;
          rewrite rev_involutive in E;
          (destruct (get_toml_path fs d) as [[q|]|e] eqn:E2; try discriminate E;
           apply get_toml_path_ok in E2; rewrite Hd in E2; discriminate E2).
      * intros E; cbn [walk_up] in E.
        destruct (get_toml_path fs (rev (x :: rp ++ rev d))) as [[q|]|e]; try discriminate E.
        apply IH; exact E.
  - destruct (walk_up fs (rev dir)) as [[q|]|e] eqn:E; [| |discriminate].
    + exists q; split; [reflexivity | inversion H; reflexivity].
    + exfalso. revert E. subst dir. rewrite rev_app_distr.
      generalize (rev rest) as rp; intros rp. induction rp as [|x rp IH]; cbn [app].
      * intros E. destruct (rev d) as [|y r] eqn:Er; cbn [walk_up] in E; rewrite <- Er in E;
          rewrite rev_involutive in E;
          (destruct (get_toml_path fs d) as [[q|]|e] eqn:E2; try discriminate E;
           apply get_toml_path_ok in E2; rewrite Hd in E2; discriminate E2).
      * intros E; cbn [walk_up] in E.
        destruct (get_toml_path fs (rev (x :: rp ++ rev d))) as [[q|]|e]; try discriminate E.
        apply IH; exact E.
Qed.

Lemma nearest_wins_lemma : forall fs home cfgdir dir p,
  resolve_project_file fs home cfgdir dir = Ok (Some p) ->
  forall d rest, dir = d ++ rest -> has_cfg fs d = true ->
  (forall d' rest', dir = d' ++ rest' -> (length d < length d')%nat -> has_cfg fs d' = false) ->
  p = pick fs d.
Proof.
  intros fs home cfgdir dir p H d rest Hdir Hd Hn.
  destruct (resolve_ok_walk _ _ _ _ _ H d Hd (ex_intro _ rest Hdir)) as [q [Hw Hq]]; subst q.
  subst dir. rewrite rev_app_distr in Hw.
  rewrite <- (rev_involutive d) at 1.
  apply (walk_up_nearest fs p (rev rest) (rev d) Hw).
  - rewrite rev_involutive; exact Hd.
  - intros a b Hab Hb. rewrite rev_app_distr, rev_involutive.
    apply (Hn (d ++ rev b) (rev a)).
    + rewrite <- app_assoc. f_equal.
      rewrite <- (rev_involutive rest), Hab, rev_app_distr; reflexivity.
    + rewrite app_length, rev_length. destruct b as [|y b]; [contradiction Hb; reflexivity|].
      cbn [length]; lia.
Qed.

Lemma walk_up_find : forall fs rcur,
  (forall d, In d (ancestors_rev rcur) -> no_ioerr fs d) ->
  walk_up fs rcur = Ok (option_map (pick fs) (find (has_cfg fs) (ancestors_rev rcur))).
Proof.
  intros fs rcur; induction rcur as [|x rcur IH]; intros Hn.
  - cbn [walk_up ancestors_rev find].
    rewrite get_toml_path_noerr by (apply Hn; left; reflexivity).
    destruct (has_cfg fs (rev [])); reflexivity.
  - cbn [walk_up ancestors_rev find].
    rewrite get_toml_path_noerr by (apply Hn; left; reflexivity).
    destruct (has_cfg fs (rev (x :: rcur))); [reflexivity|].
    apply IH. intros d Hd; apply Hn; right; exact Hd.
Qed.

Lemma find_app : forall (A : Type) (f : A -> bool) l1 l2,
  find f (l1 ++ l2) = match find f l1 with Some a => Some a | None => find f l2 end.
Proof.
  intros A f l1 l2; induction l1 as [|a l1 IH]; cbn [find app]; [reflexivity|].
  destruct (f a); [reflexivity | exact IH].
Qed.

Lemma try_dir_find : forall fs d next l,
  (forall x, In x (opt_list d) -> no_ioerr fs x) ->
  next = Ok (option_map (pick fs) (find (has_cfg fs) l)) ->
  try_dir fs d next = Ok (option_map (pick fs) (find (has_cfg fs) (opt_list d ++ l))).
Proof.
  intros fs [d|] next l Hn Hnext; cbn [try_dir opt_list app find].
  - rewrite get_toml_path_noerr by (apply Hn; left; reflexivity).
    destruct (has_cfg fs d); [reflexivity | exact Hnext].
  - exact Hnext.
Qed.

Lemma fallback_order_lemma : forall fs home cfgdir dir,
  (exists n, fs dir = Some n /\ n <> IOErr) ->
  (forall d, In d (candidates home cfgdir dir) -> no_ioerr fs d) ->
  resolve_project_file fs home cfgdir dir
  = Ok (option_map (pick fs) (find (has_cfg fs) (candidates home cfgdir dir))).
Proof.
  intros fs home cfgdir dir [n [Hn1 Hn2]] Hc.
  unfold resolve_project_file, candidates in *. rewrite Hn1.
  assert (Hw : walk_up fs (rev dir) = Ok (option_map (pick fs) (find (has_cfg fs) (ancestors dir)))).
  { apply walk_up_find. intros d Hd; apply Hc; apply in_or_app; left; exact Hd. }
  rewrite find_app.
  assert (Hrest : try_dir fs home (try_dir fs (option_map (fun c => join c RUSTFMT_DIR) cfgdir) (Ok None))
                  = Ok (option_map (pick fs) (find (has_cfg fs)
                         (opt_list home ++ opt_list (option_map (fun c => join c RUSTFMT_DIR) cfgdir))))).
  { apply try_dir_find.
    - intros x Hx; apply Hc; apply in_or_app; right; apply in_or_app; left; exact Hx.
    - rewrite <- (app_nil_r (opt_list (option_map _ cfgdir))). apply try_dir_find.
      + intros x Hx; apply Hc; apply in_or_app; right; apply in_or_app; right; exact Hx.
      + reflexivity. }
  destruct n as [c| |]; [| |contradiction Hn2; reflexivity];
    rewrite Hw; destruct (find (has_cfg fs) (ancestors dir)) as [a|]; cbn [option_map]; try reflexivity; exact Hrest.
Qed.

(* --config-path *)
Lemma override_wholesale_lemma : forall nightly fs1 fs2 home1 home2 cfg1 cfg2 fp1 fp2 o q,
  c_config_path o = Some q ->
  fs1 q = fs2 q ->
  fs1 (join q DOT_RUSTFMT_TOML) = fs2 (join q DOT_RUSTFMT_TOML) ->
  fs1 (join q RUSTFMT_TOML) = fs2 (join q RUSTFMT_TOML) ->
  load_config nightly fs1 home1 cfg1 fp1 o = load_config nightly fs2 home2 cfg2 fp2 o.
Proof.
  intros nightly fs1 fs2 home1 home2 cfg1 cfg2 fp1 fp2 o q Hq H0 H1 H2.
  unfold load_config, config_path. rewrite Hq, H0.
  destruct (fs2 q) as [[c| |]|] eqn:Eq; try reflexivity.
  - (* a file *)
    unfold from_toml_path. rewrite H0, Eq. reflexivity.
  - (* a directory *)
    unfold get_toml_path, probe. rewrite H1, H2.
    destruct (fs2 (join q DOT_RUSTFMT_TOML)) as [[c1| |]|] eqn:E1; try reflexivity;
      try (unfold from_toml_path; rewrite H1, E1; reflexivity);
      destruct (fs2 (join q RUSTFMT_TOML)) as [[c2| |]|] eqn:E2; try reflexivity;
      unfold from_toml_path; rewrite H2, E2; reflexivity.
Qed.

Lemma config_path_missing_lemma : forall nightly fs home cfgdir fp o q,
  c_config_path o = Some q -> fs q = None ->
  load_config nightly fs home cfgdir fp o = Err E_NotFound.
Proof.
  intros nightly fs home cfgdir fp o q Hq Hn. unfold load_config, config_path. rewrite Hq, Hn. reflexivity.
Qed.

Lemma config_path_dir_without_file_lemma : forall nightly fs home cfgdir fp o q,
  c_config_path o = Some q -> fs q = Some Dir -> no_ioerr fs q -> has_cfg fs q = false ->
  load_config nightly fs home cfgdir fp o = Err E_NotFound.
Proof.
  intros nightly fs home cfgdir fp o q Hq Hd Hn Hc. unfold load_config, config_path. rewrite Hq, Hd.
  rewrite (get_toml_path_noerr _ _ Hn), Hc. reflexivity.
Qed.

Lemma per_file_config_lemma : forall nightly fs home cfgdir file_dir o,
  c_config_path o = None ->
  config_for_file nightly fs home cfgdir file_dir o = load_config nightly fs home cfgdir (Some file_dir) o.
Proof.
  intros nightly fs home cfgdir file_dir o Hq. unfold config_for_file.
  unfold load_config at 1. unfold config_path. rewrite Hq. reflexivity.
Qed.

Lemma config_path_all_files_lemma : forall nightly fs home cfgdir d1 d2 o q,
  c_config_path o = Some q ->
  config_for_file nightly fs home cfgdir d1 o = config_for_file nightly fs home cfgdir d2 o.
Proof.
  intros nightly fs home cfgdir d1 d2 o q Hq. unfold config_for_file.
  assert (H : forall fp, load_config nightly fs home cfgdir fp o = load_config nightly fs home cfgdir None o).
  { intros fp. apply (override_wholesale_lemma nightly fs fs home home cfgdir cfgdir fp None o q Hq); reflexivity. }
  destruct (load_config nightly fs home cfgdir None o) as [[c [p|]]|e] eqn:E; try reflexivity.
  (* a config path was given, so a successful load returns Some path: this case is impossible *)
  exfalso. unfold load_config, config_path in E. rewrite Hq in E.
  destruct (fs q) as [[cf| |]|]; try discriminate E.
  - destruct (from_toml_path nightly fs q o); discriminate E.
  - destruct (get_toml_path fs q) as [[p|]|e]; try discriminate E.
    destruct (from_toml_path nightly fs p o); discriminate E.
Qed.

(* the configuration is the resolution of the table of the file that was found *)
Lemma from_toml_path_ok : forall nightly fs p o c,
  from_toml_path nightly fs p o = Ok c ->
  exists t, fs p = Some (File (Table t)) /\ table_ok t = true /\
            c = to_parsed_config nightly t (cli_style_edition o) (cli_edition o) (cli_version o).
Proof.
  intros nightly fs p o c; unfold from_toml_path.
  destruct (fs p) as [[[t|]| |]|]; try discriminate.
  destruct (table_ok t) eqn:Et; [|discriminate].
  intros H; inversion H; exists t; split; [reflexivity|]; split; [exact Et | reflexivity].
Qed.

Lemma load_config_resolve_lemma : forall nightly fs home cfgdir fp o c r,
  load_config nightly fs home cfgdir fp o = Ok (c, r) ->
  match r with
  | Some p => exists t, fs p = Some (File (Table t)) /\ table_ok t = true /\ c = resolve nightly (Some t) o
  | None => c = resolve nightly None o
  end.
Proof.
  intros nightly fs home cfgdir fp o c r; unfold load_config, resolve.
  destruct (config_path fs o) as [[p|]|e]; [| |discriminate].
  - destruct (from_toml_path nightly fs p o) as [c0|e] eqn:E; [|discriminate].
    intros H; inversion H; subst.
    destruct (from_toml_path_ok _ _ _ _ _ E) as [t [H1 [H2 H3]]]; exists t; subst c0; repeat split; assumption.
  - destruct fp as [dir|].
    + destruct (resolve_project_file fs home cfgdir dir) as [[p|]|e]; [| |discriminate].
      * destruct (from_toml_path nightly fs p o) as [c0|e] eqn:E; [|discriminate].
        intros H; inversion H; subst.
        destruct (from_toml_path_ok _ _ _ _ _ E) as [t [H1 [H2 H3]]]; exists t; subst c0; repeat split; assumption.
      * intros H; inversion H; reflexivity.
    + intros H; inversion H; reflexivity.
Qed.

(* ------------------------------------------------------------------ *)
(* hooks and setters: what they leave alone                           *)
(* ------------------------------------------------------------------ *)

Ltac bdisc H := exfalso; vm_compute in H; discriminate H.

Lemma set_alias_other : forall old new conv c o, o <> new -> set_alias old new conv c o = c o.
Proof.
  intros old new conv c o H; unfold set_alias.
  destruct (was_set (c old)); [|reflexivity].
  destruct (negb (was_set (c new))); [|reflexivity].
  apply upd_other; exact H.
Qed.

Lemma set_alias_new : forall old new conv c,
  set_alias old new conv c new
  = if was_set (c old) && negb (was_set (c new)) then set_val (c new) (conv (val (c old))) else c new.
Proof.
  intros old new conv c; unfold set_alias.
  destruct (was_set (c old)); cbn [andb]; [|reflexivity].
  destruct (negb (was_set (c new))); [apply upd_same | reflexivity].
Qed.

Lemma set_alias_ws : forall old new conv c o, was_set (set_alias old new conv c o) = was_set (c o).
Proof.
  intros old new conv c o. destruct (opt_eq_dec o new) as [E|E].
  - subst o. rewrite set_alias_new. destruct (was_set (c old) && negb (was_set (c new))); reflexivity.
  - rewrite set_alias_other by exact E; reflexivity.
Qed.

Lemma set_heuristics_nonwidth : forall c o, is_width o = false -> set_heuristics c o = c o.
Proof. intros c o H; unfold set_heuristics, set_width_heuristics; rewrite H; reflexivity. Qed.

Lemma set_heuristics_width : forall c o, is_width o = true ->
  set_heuristics c o
  = set_val (c o) (get_width_value (val (c MaxWidth)) (was_set (c o)) (val (c o))
                     (heuristic_value (val (c UseSmallHeuristics)) (val (c MaxWidth)) o)).
Proof. intros c o H; unfold set_heuristics, set_width_heuristics; rewrite H; reflexivity. Qed.

Lemma set_heuristics_ws : forall c o, was_set (set_heuristics c o) = was_set (c o).
Proof.
  intros c o; destruct (is_width o) eqn:E.
  - rewrite set_heuristics_width by exact E; reflexivity.
  - rewrite set_heuristics_nonwidth by exact E; reflexivity.
Qed.

Lemma hook_ws : forall k c o, was_set (hook k c o) = was_set (c o).
Proof.
  intros k c o; destruct k; cbn [hook];
    unfold set_merge_imports, set_fn_args_layout, set_hide_parse_errors, set_version;
    first [apply set_heuristics_ws | apply set_alias_ws | reflexivity].
Qed.

(* the keys whose hook is set_heuristics *)
Definition hkey (o : opt) : bool := is_width o || opt_eqb o MaxWidth || opt_eqb o UseSmallHeuristics.

Lemma hook_hkey : forall k c, hkey k = true -> hook k c = set_heuristics c.
Proof. intros k c H; destruct k; try reflexivity; bdisc H. Qed.

Lemma hook_plain : forall k c o, plain o = true -> hook k c o = c o.
Proof.
  intros k c o Hp.
  assert (Hw : is_width o = false) by (destruct o; try reflexivity; bdisc Hp).
  assert (H1 : o <> ImportsGranularity) by (intros ->; bdisc Hp).
  assert (H2 : o <> FnParamsLayout) by (intros ->; bdisc Hp).
  assert (H3 : o <> ShowParseErrors) by (intros ->; bdisc Hp).
  destruct k; cbn [hook];
    unfold set_merge_imports, set_fn_args_layout, set_hide_parse_errors, set_version;
    first [reflexivity | apply set_heuristics_nonwidth; exact Hw | apply set_alias_other; assumption].
Qed.

(* hooks of keys outside hkey do not touch the heuristics-related entries *)
Lemma hook_not_hkey : forall k c o, hkey k = false -> hkey o = true -> hook k c o = c o.
Proof.
  intros k c o Hk Ho.
  assert (H1 : o <> ImportsGranularity) by (intros ->; bdisc Ho).
  assert (H2 : o <> FnParamsLayout) by (intros ->; bdisc Ho).
  assert (H3 : o <> ShowParseErrors) by (intros ->; bdisc Ho).
  destruct k; try (bdisc Hk); cbn [hook];
    unfold set_merge_imports, set_fn_args_layout, set_hide_parse_errors, set_version;
    first [reflexivity | apply set_alias_other; assumption].
Qed.

Lemma op_ws : forall k e c o,
  was_set (hook k (upd c k e) o) = if opt_eqb o k then was_set e else was_set (c o).
Proof. intros k e c o; rewrite hook_ws; unfold upd; destruct (opt_eqb o k); reflexivity. Qed.

Lemma op_plain : forall k e c o, plain o = true ->
  hook k (upd c k e) o = if opt_eqb o k then e else c o.
Proof. intros k e c o Hp; rewrite hook_plain by exact Hp; reflexivity. Qed.

(* pointwise equality of configurations is respected by every operation *)
Definition ceq (c c' : config) : Prop := forall x, c x = c' x.

Lemma upd_ext : forall c c' k e, ceq c c' -> ceq (upd c k e) (upd c' k e).
Proof. intros c c' k e H x; unfold upd; rewrite (H x); reflexivity. Qed.

Lemma set_heuristics_ext : forall c c', ceq c c' -> ceq (set_heuristics c) (set_heuristics c').
Proof.
  intros c c' H x; unfold set_heuristics, set_width_heuristics.
  rewrite (H MaxWidth), (H UseSmallHeuristics), (H x); reflexivity.
Qed.

Lemma set_alias_ext : forall old new conv c c', ceq c c' -> ceq (set_alias old new conv c) (set_alias old new conv c').
Proof.
  intros old new conv c c' H x; unfold set_alias.
  rewrite (H old), (H new).
  destruct (was_set (c' old)); [|apply H].
  destruct (negb (was_set (c' new))); [|apply H].
  unfold upd; rewrite (H x); reflexivity.
Qed.

Lemma hook_ext : forall k c c', ceq c c' -> ceq (hook k c) (hook k c').
Proof.
  intros k c c' H; destruct k; cbn [hook];
    unfold set_merge_imports, set_fn_args_layout, set_hide_parse_errors, set_version;
    first [exact H | apply set_heuristics_ext; exact H | apply set_alias_ext; exact H].
Qed.

Lemma override_value_ext : forall k v c c', ceq c c' -> ceq (override_value k v c) (override_value k v c').
Proof.
  intros k v c c' H; unfold override_value. rewrite (H k). apply hook_ext, upd_ext, H.
Qed.
Lemma setter_ext : forall k v c c', ceq c c' -> ceq (setter k v c) (setter k v c').
Proof. intros k v c c' H; unfold setter. rewrite (H k). apply hook_ext, upd_ext, H. Qed.
Lemma cli_setter_ext : forall k v c c', ceq c c' -> ceq (cli_setter k v c) (cli_setter k v c').
Proof. intros k v c c' H; unfold cli_setter. rewrite (H k). apply hook_ext, upd_ext, H. Qed.

Lemma apply_inline_ext : forall l c c', ceq c c' -> ceq (apply_inline l c) (apply_inline l c').
Proof.
  induction l as [|[k v] l IH]; intros c c' H; [exact H|].
  unfold apply_inline; cbn [fold_left fst snd]. apply IH. apply override_value_ext, H.
Qed.

Lemma on_some_ext : forall x f, (forall v c c', ceq c c' -> ceq (f v c) (f v c')) ->
  forall c c', ceq c c' -> ceq (on_some x f c) (on_some x f c').
Proof. intros [v|] f Hf c c' H; cbn [on_some]; [apply Hf, H | exact H]. Qed.

Lemma apply_flags_ext : forall o c c', ceq c c' -> ceq (apply_flags o c) (apply_flags o c').
Proof.
  intros o c c' H; unfold apply_flags.
  apply on_some_ext; [intros; apply cli_setter_ext; assumption|].
  assert (H1 : ceq (if c_unstable o then cli_setter UnstableFeatures 1 c else setter UnstableFeatures 0 c)
                   (if c_unstable o then cli_setter UnstableFeatures 1 c' else setter UnstableFeatures 0 c')).
  { destruct (c_unstable o); [apply cli_setter_ext | apply setter_ext]; exact H. }
  assert (H2 := on_some_ext (c_edition o) (cli_setter Edition)
                  (fun v a b Hab => cli_setter_ext Edition v a b Hab) _ _ H1).
  assert (H3 := on_some_ext (c_style_edition o) (cli_setter StyleEdition)
                  (fun v a b Hab => cli_setter_ext StyleEdition v a b Hab) _ _ H2).
  destruct (c_backup o).
  - apply cli_setter_ext. destruct (c_check o); [apply cli_setter_ext; exact H3|].
    apply on_some_ext; [intros; apply cli_setter_ext; assumption | exact H3].
  - destruct (c_check o); [apply cli_setter_ext; exact H3|].
    apply on_some_ext; [intros; apply cli_setter_ext; assumption | exact H3].
Qed.

Lemma apply_to_ext : forall o c c', ceq c c' -> ceq (apply_to o c) (apply_to o c').
Proof. intros o c c' H; unfold apply_to. apply apply_inline_ext, apply_flags_ext, H. Qed.

(* ------------------------------------------------------------------ *)
(* apply_flags and apply_inline on entries                            *)
(* ------------------------------------------------------------------ *)

Lemma apply_flags_entry : forall o c x,
  apply_flags o c x
  = match flag_value o x with
    | Some v => mk_entry (was_set (c x)) v (match x with UnstableFeatures => if c_unstable o then true else was_set_cli (c x) | _ => true end)
    | None => c x
    end.
Proof.
  intros [cp ed se ck em bk co un inl] c x.
  destruct x; destruct un, ed, se, ck, em, bk, co; reflexivity.
Qed.

Lemma apply_flags_ws : forall o c x, was_set (apply_flags o c x) = was_set (c x).
Proof. intros o c x; rewrite apply_flags_entry; destruct (flag_value o x); reflexivity. Qed.

Lemma apply_flags_val : forall o c x,
  val (apply_flags o c x) = match flag_value o x with Some v => v | None => val (c x) end.
Proof. intros o c x; rewrite apply_flags_entry; destruct (flag_value o x); reflexivity. Qed.

Lemma apply_inline_cons : forall k v l c,
  apply_inline ((k, v) :: l) c = apply_inline l (override_value k v c).
Proof. reflexivity. Qed.

Lemma apply_inline_ws : forall l c o,
  was_set (apply_inline l c o) = mem_opt o (keys l) || was_set (c o).
Proof.
  induction l as [|[k v] l IH]; intros c o; [reflexivity|].
  rewrite apply_inline_cons, IH. unfold override_value; rewrite op_ws.
  cbn [keys map fst mem_opt was_set]. rewrite (opt_eqb_sym k o).
  destruct (opt_eqb o k); cbn [orb]; [rewrite orb_true_r; reflexivity | reflexivity].
Qed.

Lemma apply_inline_val_plain : forall l c o,
  nodup_opts (keys l) = true -> plain o = true ->
  val (apply_inline l c o) = match lookup l o with Some v => v | None => val (c o) end.
Proof.
  induction l as [|[k v] l IH]; intros c o Hn Hp; [reflexivity|].
  cbn [keys map fst nodup_opts] in Hn. apply andb_true_iff in Hn; destruct Hn as [Hk Hn].
  rewrite apply_inline_cons, (IH _ _ Hn Hp), lookup_cons.
  unfold override_value; rewrite op_plain by exact Hp. rewrite (opt_eqb_sym k o).
  destruct (opt_eqb o k) eqn:E.
  - apply opt_eqb_eq in E; subst o. apply negb_true_iff in Hk. apply lookup_none_iff in Hk.
    rewrite Hk; reflexivity.
  - reflexivity.
Qed.

(* ------------------------------------------------------------------ *)
(* deprecated aliases                                                 *)
(* ------------------------------------------------------------------ *)

Inductive alias_pair : opt -> opt -> (value -> value) -> Prop :=
| ap_mi : alias_pair MergeImports ImportsGranularity conv_merge_imports
| ap_fal : alias_pair FnArgsLayout FnParamsLayout (fun v => v)
| ap_hpe : alias_pair HideParseErrors ShowParseErrors (fun v => v).

Lemma alias_pair_neq : forall old new conv, alias_pair old new conv -> old <> new.
Proof. intros old new conv H; destruct H; discriminate. Qed.

Lemma op_alias_new : forall old new conv, alias_pair old new conv ->
  forall e c, hook new (upd c new e) new = e.
Proof. intros old new conv H e c; destruct H; cbn [hook]; apply upd_same. Qed.

Lemma op_alias_old : forall old new conv, alias_pair old new conv ->
  forall e c, hook old (upd c old e) new
  = if was_set e && negb (was_set (c new)) then set_val (c new) (conv (val e)) else c new.
Proof.
  intros old new conv H e c; destruct H; cbn [hook];
    unfold set_merge_imports, set_fn_args_layout, set_hide_parse_errors;
    rewrite set_alias_new, upd_same, upd_other by discriminate; reflexivity.
Qed.

Lemma op_alias_other : forall old new conv, alias_pair old new conv ->
  forall k e c, k <> old -> k <> new -> hook k (upd c k e) new = c new.
Proof.
  intros old new conv H k e c H1 H2.
  assert (Hu : upd c k e new = c new) by (apply upd_other; intros E; apply H2; symmetry; exact E).
  rewrite <- Hu.
  destruct H; destruct k; try (contradiction H1; reflexivity); try (contradiction H2; reflexivity);
    cbn [hook]; unfold set_merge_imports, set_fn_args_layout, set_hide_parse_errors, set_version;
    first [reflexivity
          | apply set_heuristics_nonwidth; reflexivity
          | apply set_alias_other; discriminate].
Qed.

Lemma apply_inline_alias : forall old new conv, alias_pair old new conv ->
  forall l c, nodup_opts (keys l) = true ->
  val (apply_inline l c new)
  = match lookup l new with
    | Some v => v
    | None => if was_set (c new) then val (c new)
              else match lookup l old with Some b => conv b | None => val (c new) end
    end.
Proof.
  intros old new conv Hp l; induction l as [|[k v] l IH]; intros c Hn.
  - cbn [apply_inline fold_left lookup]. destruct (was_set (c new)); reflexivity.
  - cbn [keys map fst nodup_opts] in Hn. apply andb_true_iff in Hn; destruct Hn as [Hk Hn].
    apply negb_true_iff in Hk. apply lookup_none_iff in Hk.
    rewrite apply_inline_cons, (IH _ Hn), !lookup_cons. unfold override_value.
    destruct (opt_eq_dec k new) as [E|E]; [|destruct (opt_eq_dec k old) as [E'|E']].
    + subst k. rewrite (op_alias_new _ _ _ Hp), opt_eqb_refl, Hk. reflexivity.
    + subst k. rewrite (op_alias_old _ _ _ Hp), opt_eqb_refl, Hk.
      rewrite (opt_eqb_neq old new) by (apply (alias_pair_neq _ _ _ Hp)).
      cbn [was_set val andb]. destruct (lookup l new); [reflexivity|].
      destruct (was_set (c new)) eqn:Ew; cbn [negb]; [rewrite Ew; reflexivity|].
      cbn [set_val was_set val]. rewrite Ew. reflexivity.
    + rewrite (op_alias_other _ _ _ Hp) by assumption.
      rewrite (opt_eqb_neq k new), (opt_eqb_neq k old) by assumption. reflexivity.
Qed.

(* ------------------------------------------------------------------ *)
(* fill_from_parsed_config                                            *)
(* ------------------------------------------------------------------ *)

Lemma fill_values_ws : forall nightly t b o,
  was_set (fill_values nightly t (default_with_style_edition b) o) = is_some (file_view nightly t o).
Proof.
  intros nightly t b o; unfold fill_values, file_view.
  destruct (lookup t o) as [v|]; [|reflexivity].
  destruct (is_stable_option_and_value nightly o v); reflexivity.
Qed.

Lemma fill_values_val : forall nightly t b o,
  val (fill_values nightly t (default_with_style_edition b) o)
  = match file_view nightly t o with Some v => v | None => default b o end.
Proof.
  intros nightly t b o; unfold fill_values, file_view.
  destruct (lookup t o) as [v|]; [|reflexivity].
  destruct (is_stable_option_and_value nightly o v); reflexivity.
Qed.

Lemma ffpc_ws : forall nightly t c o,
  was_set (fill_from_parsed_config nightly t c o) = was_set (fill_values nightly t c o).
Proof.
  intros nightly t c o; unfold fill_from_parsed_config, set_version, set_hide_parse_errors,
    set_fn_args_layout, set_merge_imports.
  rewrite !set_alias_ws, set_heuristics_ws; reflexivity.
Qed.

Lemma ffpc_plain : forall nightly t c o, plain o = true ->
  fill_from_parsed_config nightly t c o = fill_values nightly t c o.
Proof.
  intros nightly t c o Hp.
  assert (Hw : is_width o = false) by (destruct o; try reflexivity; bdisc Hp).
  assert (H1 : o <> ImportsGranularity) by (intros ->; bdisc Hp).
  assert (H2 : o <> FnParamsLayout) by (intros ->; bdisc Hp).
  assert (H3 : o <> ShowParseErrors) by (intros ->; bdisc Hp).
  unfold fill_from_parsed_config, set_version, set_hide_parse_errors, set_fn_args_layout, set_merge_imports.
  rewrite !set_alias_other by assumption. apply set_heuristics_nonwidth; exact Hw.
Qed.

Lemma ffpc_alias : forall old new conv, alias_pair old new conv ->
  forall nightly t c,
  fill_from_parsed_config nightly t c new
  = let fv := fill_values nightly t c in
    if was_set (fv old) && negb (was_set (fv new)) then set_val (fv new) (conv (val (fv old))) else fv new.
Proof.
  intros old new conv H nightly t c; cbv zeta.
  unfold fill_from_parsed_config, set_version, set_hide_parse_errors, set_fn_args_layout, set_merge_imports.
  destruct H;
    repeat first [rewrite set_alias_new
                 | rewrite set_alias_other by discriminate
                 | rewrite set_heuristics_nonwidth by reflexivity];
    reflexivity.
Qed.

(* ------------------------------------------------------------------ *)
(* width heuristics                                                   *)
(* ------------------------------------------------------------------ *)

(* invariant kept by every operation: an explicitly set width is at most max_width, an unset width is the
   value prescribed by use_small_heuristics for the current max_width *)
Definition WInv (c : config) : Prop :=
  forall w, is_width w = true ->
    (was_set (c w) = true -> val (c w) <= val (c MaxWidth)) /\
    (was_set (c w) = false ->
       val (c w) = heuristic_value (val (c UseSmallHeuristics)) (val (c MaxWidth)) w).

Lemma get_width_value_set_le : forall mw ov hv, get_width_value mw true ov hv <= mw.
Proof.
  intros mw ov hv; unfold get_width_value; cbn [negb].
  destruct (N.ltb_spec mw ov); lia.
Qed.

Lemma get_width_value_set_id : forall mw ov hv, ov <= mw -> get_width_value mw true ov hv = ov.
Proof.
  intros mw ov hv H; unfold get_width_value; cbn [negb].
  destruct (N.ltb_spec mw ov); [lia | reflexivity].
Qed.

Lemma get_width_value_set_min : forall mw ov hv, get_width_value mw true ov hv = N.min ov mw.
Proof.
  intros mw ov hv; unfold get_width_value; cbn [negb].
  destruct (N.ltb_spec mw ov); lia.
Qed.

Lemma set_heuristics_WInv : forall c, WInv (set_heuristics c).
Proof.
  intros c w Hw.
  rewrite (set_heuristics_width c w Hw).
  rewrite (set_heuristics_nonwidth c MaxWidth), (set_heuristics_nonwidth c UseSmallHeuristics) by reflexivity.
  cbn [set_val was_set val]. split; intros Hs; rewrite Hs.
  - apply get_width_value_set_le.
  - reflexivity.
Qed.

Lemma WInv_frame : forall c c', (forall o, hkey o = true -> c' o = c o) -> WInv c -> WInv c'.
Proof.
  intros c c' H Hc w Hw.
  assert (E1 : hkey w = true) by (unfold hkey; rewrite Hw; reflexivity).
  rewrite (H w E1), (H MaxWidth), (H UseSmallHeuristics) by reflexivity.
  apply Hc; exact Hw.
Qed.

Lemma op_WInv : forall k e c, WInv c -> WInv (hook k (upd c k e)).
Proof.
  intros k e c Hc. destruct (hkey k) eqn:Ek.
  - rewrite hook_hkey by exact Ek. apply set_heuristics_WInv.
  - apply (WInv_frame c); [|exact Hc].
    intros o Ho. rewrite hook_not_hkey by assumption.
    apply upd_other. intros E; subst o; rewrite Ek in Ho; discriminate Ho.
Qed.

Lemma apply_inline_WInv : forall l c, WInv c -> WInv (apply_inline l c).
Proof.
  induction l as [|[k v] l IH]; intros c Hc; [exact Hc|].
  rewrite apply_inline_cons. apply IH. unfold override_value. apply op_WInv; exact Hc.
Qed.

Lemma on_some_WInv : forall x k c, WInv c -> WInv (on_some x (cli_setter k) c).
Proof. intros [v|] k c Hc; cbn [on_some]; [unfold cli_setter; apply op_WInv; exact Hc | exact Hc]. Qed.

Lemma apply_flags_WInv : forall o c, WInv c -> WInv (apply_flags o c).
Proof.
  intros o c Hc; unfold apply_flags.
  apply on_some_WInv.
  assert (H1 : WInv (if c_unstable o then cli_setter UnstableFeatures 1 c else setter UnstableFeatures 0 c)).
  { destruct (c_unstable o); [unfold cli_setter | unfold setter]; apply op_WInv; exact Hc. }
  assert (H3 := on_some_WInv (c_style_edition o) StyleEdition _ (on_some_WInv (c_edition o) Edition _ H1)).
  destruct (c_backup o).
  - unfold cli_setter at 1. apply op_WInv. destruct (c_check o).
    + unfold cli_setter at 1; apply op_WInv; exact H3.
    + apply on_some_WInv; exact H3.
  - destruct (c_check o).
    + unfold cli_setter at 1; apply op_WInv; exact H3.
    + apply on_some_WInv; exact H3.
Qed.

Lemma set_alias_WInv : forall old new conv c, hkey new = false -> WInv c -> WInv (set_alias old new conv c).
Proof.
  intros old new conv c Hn Hc. apply (WInv_frame c); [|exact Hc].
  intros o Ho. apply set_alias_other. intros E; subst o; rewrite Hn in Ho; discriminate Ho.
Qed.

Lemma ffpc_WInv : forall nightly t c, WInv (fill_from_parsed_config nightly t c).
Proof.
  intros nightly t c; unfold fill_from_parsed_config, set_version, set_hide_parse_errors,
    set_fn_args_layout, set_merge_imports.
  repeat (apply set_alias_WInv; [reflexivity|]). apply set_heuristics_WInv.
Qed.

Lemma default_WInv : forall b, WInv (default_with_style_edition b).
Proof.
  intros b w Hw; split; intros Hs.
  - discriminate Hs.
  - destruct w; try (bdisc Hw); vm_compute; reflexivity.
Qed.

Lemma resolve_WInv : forall nightly file o, WInv (resolve nightly file o).
Proof.
  intros nightly file o; unfold resolve, apply_to. apply apply_inline_WInv, apply_flags_WInv.
  destruct file as [t|]; [apply ffpc_WInv | apply default_WInv].
Qed.

(* arithmetic of WidthHeuristics::scaled *)
Lemma wh_scaled_small : forall mw w, is_width w = true -> mw <= 100 -> wh_scaled mw w = default_width w.
Proof.
  intros mw w Hw Hm; unfold wh_scaled, ratio10.
  destruct (N.ltb_spec 100 mw); [lia|].
  destruct w; try (bdisc Hw); vm_compute; reflexivity.
Qed.

Lemma wh_scaled_big_le : forall mw w, is_width w = true -> 100 < mw -> wh_scaled mw w <= mw.
Proof.
  intros mw w Hw Hm; unfold wh_scaled, ratio10, round_div.
  destruct (N.ltb_spec 100 mw); [|lia].
  set (r := (2 * (mw * 10) + 100) / (2 * 100)).
  assert (Hr : 2 * 100 * r <= 2 * (mw * 10) + 100) by (apply N.mul_div_le; lia).
  assert (Hd : default_width w <= 70) by (destruct w; try (bdisc Hw); vm_compute; discriminate).
  set (q := (2 * (default_width w * r) + 10) / (2 * 10)).
  assert (Hq : 2 * 10 * q <= 2 * (default_width w * r) + 10) by (apply N.mul_div_le; lia).
  assert (Hdr : default_width w * r <= 70 * r) by (apply N.mul_le_mono_r; exact Hd).
  lia.
Qed.

Lemma scaled_le_iff : forall mw w, is_width w = true -> (wh_scaled mw w <= mw <-> default_width w <= mw).
Proof.
  intros mw w Hw. destruct (N.le_gt_cases mw 100) as [H|H].
  - rewrite wh_scaled_small by assumption. tauto.
  - assert (Hd : default_width w <= 70) by (destruct w; try (bdisc Hw); vm_compute; discriminate).
    split; intros _; [lia | apply wh_scaled_big_le; assumption].
Qed.

(* --config pairs none of which is max_width: an explicitly set width ends as min(value, max_width) *)
Lemma op_width_entry : forall k e c w, is_width w = true ->
  hook k (upd c k e) w
  = let c0 := upd c k e in
    if hkey k
    then set_val (c0 w) (get_width_value (val (c0 MaxWidth)) (was_set (c0 w)) (val (c0 w))
                           (heuristic_value (val (c0 UseSmallHeuristics)) (val (c0 MaxWidth)) w))
    else c0 w.
Proof.
  intros k e c w Hw; cbv zeta. destruct (hkey k) eqn:Ek.
  - rewrite hook_hkey by exact Ek. apply set_heuristics_width; exact Hw.
  - apply hook_not_hkey; [exact Ek | unfold hkey; rewrite Hw; reflexivity].
Qed.

Lemma override_max_width_other : forall k v c, k <> MaxWidth ->
  val (override_value k v c MaxWidth) = val (c MaxWidth).
Proof.
  intros k v c H; unfold override_value. rewrite op_plain by reflexivity.
  rewrite (opt_eqb_neq MaxWidth k) by (intros E; apply H; symmetry; exact E). reflexivity.
Qed.

Lemma apply_inline_width_NM : forall w, is_width w = true ->
  forall l c, nodup_opts (keys l) = true -> mem_opt MaxWidth (keys l) = false ->
  (was_set (c w) = true -> val (c w) <= val (c MaxWidth)) ->
  val (apply_inline l c MaxWidth) = val (c MaxWidth) /\
  match lookup l w with
  | Some v => val (apply_inline l c w) = N.min v (val (c MaxWidth))
  | None => was_set (c w) = true -> val (apply_inline l c w) = val (c w)
  end.
Proof.
  intros w Hw l; induction l as [|[k v] l IH]; intros c Hn Hm Hc.
  - cbn [lookup apply_inline fold_left]. split; [reflexivity | intros _; reflexivity].
  - cbn [keys map fst nodup_opts mem_opt] in Hn, Hm.
    apply andb_true_iff in Hn; destruct Hn as [Hk Hn].
    apply negb_true_iff in Hk. apply lookup_none_iff in Hk.
    apply orb_false_iff in Hm; destruct Hm as [Hkm Hm].
    assert (Hkne : k <> MaxWidth) by (intros E; subst k; rewrite opt_eqb_refl in Hkm; discriminate Hkm).
    rewrite apply_inline_cons, lookup_cons.
    set (c1 := override_value k v c).
    assert (Hmw : val (c1 MaxWidth) = val (c MaxWidth)) by (apply override_max_width_other; exact Hkne).
    assert (Hc0mw : val (upd c k (mk_entry true v (was_set_cli (c k))) MaxWidth) = val (c MaxWidth)).
    { rewrite upd_other by (intros E; apply Hkne; symmetry; exact E). reflexivity. }
    destruct (opt_eq_dec k w) as [E|E].
    + (* this pair sets w *)
      subst k. rewrite opt_eqb_refl.
      assert (Hw1 : c1 w = mk_entry true (N.min v (val (c MaxWidth))) (was_set_cli (c w))).
      { unfold c1, override_value. rewrite (op_width_entry w _ c w Hw); cbv zeta.
        assert (Ehk : hkey w = true) by (unfold hkey; rewrite Hw; reflexivity).
        rewrite Ehk, upd_same, Hc0mw. cbn [set_val was_set val was_set_cli].
        rewrite get_width_value_set_min. reflexivity. }
      assert (Hc1 : was_set (c1 w) = true -> val (c1 w) <= val (c1 MaxWidth)).
      { intros _. rewrite Hw1, Hmw. cbn [val]. lia. }
      destruct (IH c1 Hn Hm Hc1) as [IH1 IH2]. rewrite Hk in IH2.
      split; [rewrite IH1; exact Hmw|].
      rewrite IH2 by (rewrite Hw1; reflexivity). rewrite Hw1; reflexivity.
    + rewrite (opt_eqb_neq k w) by exact E.
      (* the entry of w: unchanged when it was set *)
      assert (Hws : was_set (c1 w) = was_set (c w)).
      { unfold c1, override_value. rewrite op_ws.
        rewrite (opt_eqb_neq w k) by (intros E2; apply E; symmetry; exact E2). reflexivity. }
      assert (Hval : was_set (c w) = true -> val (c1 w) = val (c w)).
      { intros Hs. unfold c1, override_value. rewrite (op_width_entry k _ c w Hw); cbv zeta.
        assert (Hcw : upd c k (mk_entry true v (was_set_cli (c k))) w = c w).
        { apply upd_other. intros E2; apply E; symmetry; exact E2. }
        destruct (hkey k); [|rewrite Hcw; reflexivity].
        rewrite Hcw, Hc0mw, Hs. cbn [set_val val].
        apply get_width_value_set_id. apply Hc; exact Hs. }
      assert (Hc1 : was_set (c1 w) = true -> val (c1 w) <= val (c1 MaxWidth)).
      { rewrite Hws. intros Hs. rewrite (Hval Hs), Hmw. apply Hc; exact Hs. }
      destruct (IH c1 Hn Hm Hc1) as [IH1 IH2].
      split; [rewrite IH1; exact Hmw|].
      destruct (lookup l w) as [v'|].
      * rewrite IH2, Hmw; reflexivity.
      * intros Hs. rewrite IH2 by (rewrite Hws; exact Hs). apply Hval; exact Hs.
Qed.

(* ------------------------------------------------------------------ *)
(* closed forms for the resolved configuration                        *)
(* ------------------------------------------------------------------ *)

Lemma or_else_assoc : forall (A : Type) (a b c : option A), or_else (or_else a b) c = or_else a (or_else b c).
Proof. intros A [x|] b c; reflexivity. Qed.

Lemma or_else_none_r : forall (A : Type) (a : option A), or_else a None = a.
Proof. intros A [x|]; reflexivity. Qed.

Lemma se_base_eq : forall o t,
  base_style_edition (or_else (cli_style_edition o) (lookup t StyleEdition))
                     (or_else (cli_version o) (lookup t Version))
                     (or_else (cli_edition o) (lookup t Edition)) = se_base o t.
Proof.
  intros o t; unfold se_base, view_Sraw, cli_style_edition, cli_edition, cli_version; cbn [flag_value or_else].
  rewrite !or_else_assoc; reflexivity.
Qed.

Lemma resolve_some_unfold : forall nightly t o,
  resolve nightly (Some t) o
  = apply_inline (c_inline o)
      (apply_flags o (fill_from_parsed_config nightly t (default_with_style_edition (se_base o t)))).
Proof.
  intros nightly t o; unfold resolve, apply_to, to_parsed_config, default_for_possible_style_edition.
  rewrite se_base_eq; reflexivity.
Qed.

Lemma ffpc_nil : forall nightly b,
  ceq (fill_from_parsed_config nightly [] (default_with_style_edition b)) (default_with_style_edition b).
Proof. intros nightly b x; destruct x; vm_compute; reflexivity. Qed.

Lemma resolve_none_ceq : forall nightly o, ceq (resolve nightly None o) (resolve nightly (Some []) o).
Proof.
  intros nightly o; unfold resolve, to_parsed_config. cbn [lookup]. rewrite !or_else_none_r.
  apply apply_to_ext. intros x; symmetry; apply ffpc_nil.
Qed.

Lemma resolve_file_table : forall nightly f o, ceq (resolve nightly f o) (resolve nightly (Some (file_table f)) o).
Proof. intros nightly [t|] o; [intros x; reflexivity | apply resolve_none_ceq]. Qed.

Lemma resolve_ws_some : forall nightly t o x,
  was_set (resolve nightly (Some t) o x) = mem_opt x (keys (c_inline o)) || is_some (file_view nightly t x).
Proof.
  intros nightly t o x.
  rewrite resolve_some_unfold, apply_inline_ws, apply_flags_ws, ffpc_ws, fill_values_ws; reflexivity.
Qed.

Lemma precedence_some : forall nightly t o x,
  nodup_opts (keys (c_inline o)) = true -> plain x = true ->
  val (resolve nightly (Some t) o x)
  = match view_S nightly o t x with Some v => v | None => default (se_base o t) x end.
Proof.
  intros nightly t o x Hn Hp.
  rewrite resolve_some_unfold, apply_inline_val_plain by assumption.
  rewrite apply_flags_val, ffpc_plain, fill_values_val by exact Hp.
  unfold view_S. destruct (lookup (c_inline o) x); cbn [or_else]; [reflexivity|].
  destruct (flag_value o x); cbn [or_else]; reflexivity.
Qed.

Lemma alias_some : forall old new conv, alias_pair old new conv ->
  forall nightly t o, nodup_opts (keys (c_inline o)) = true ->
  val (resolve nightly (Some t) o new)
  = alias_spec (view_A nightly o t) old new conv (default (se_base o t) new).
Proof.
  intros old new conv Hp nightly t o Hn.
  rewrite resolve_some_unfold, (apply_inline_alias _ _ _ Hp) by exact Hn.
  set (b := se_base o t).
  set (c1 := fill_from_parsed_config nightly t (default_with_style_edition b)).
  assert (Hf : apply_flags o c1 new = c1 new) by (rewrite apply_flags_entry; destruct Hp; reflexivity).
  rewrite Hf. unfold c1. rewrite (ffpc_alias _ _ _ Hp); cbv zeta.
  rewrite !fill_values_ws.
  unfold alias_spec, view_A.
  destruct (lookup (c_inline o) new) as [v|]; cbn [or_else]; [reflexivity|].
  pose proof (fill_values_val nightly t b new) as Vn.
  pose proof (fill_values_val nightly t b old) as Vo.
  pose proof (fill_values_ws nightly t b new) as Wn.
  destruct (file_view nightly t new) as [vn|]; cbn [is_some negb andb] in *.
  - rewrite andb_false_r. rewrite Wn. exact Vn.
  - rewrite andb_true_r.
    destruct (file_view nightly t old) as [vo|]; cbn [is_some] in *.
    + cbn [set_val was_set val]. rewrite Wn, Vo.
      destruct (lookup (c_inline o) old); reflexivity.
    + rewrite Wn, Vn. destruct (lookup (c_inline o) old); reflexivity.
Qed.

Lemma ffpc_width : forall nightly t c w, is_width w = true ->
  fill_from_parsed_config nightly t c w = set_heuristics (fill_values nightly t c) w.
Proof.
  intros nightly t c w Hw.
  unfold fill_from_parsed_config, set_version, set_hide_parse_errors, set_fn_args_layout, set_merge_imports.
  rewrite !set_alias_other by (intros E; subst w; discriminate Hw). reflexivity.
Qed.

Lemma flag_value_width : forall o w, is_width w = true -> flag_value o w = None.
Proof. intros o w Hw; destruct w; try reflexivity; bdisc Hw. Qed.

Lemma width_NM_some : forall nightly t o w,
  nodup_opts (keys (c_inline o)) = true -> mem_opt MaxWidth (keys (c_inline o)) = false ->
  is_width w = true ->
  let c := resolve nightly (Some t) o in
  val (c w) = match view_A nightly o t w with
              | Some v => N.min v (val (c MaxWidth))
              | None => heuristic_value (val (c UseSmallHeuristics)) (val (c MaxWidth)) w
              end.
Proof.
  intros nightly t o w Hn Hm Hw c.
  pose proof (resolve_WInv nightly (Some t) o) as HW. fold c in HW.
  pose proof (resolve_ws_some nightly t o w) as Hws. fold c in Hws.
  unfold c in *. rewrite resolve_some_unfold in *.
  set (b := se_base o t) in *.
  set (c1 := fill_from_parsed_config nightly t (default_with_style_edition b)) in *.
  set (c2 := apply_flags o c1) in *.
  assert (HW2 : WInv c2) by (apply apply_flags_WInv, ffpc_WInv).
  destruct (apply_inline_width_NM w Hw (c_inline o) c2 Hn Hm (proj1 (HW2 w Hw))) as [Hmw Hl].
  unfold view_A.
  destruct (lookup (c_inline o) w) as [v|] eqn:El; cbn [or_else].
  - rewrite Hl, Hmw; reflexivity.
  - apply lookup_none_iff in El. rewrite El in Hws. cbn [orb] in Hws.
    destruct (file_view nightly t w) as [v|] eqn:Ef; cbn [is_some] in Hws.
    + assert (Hs2 : was_set (c2 w) = true).
      { unfold c2, c1. rewrite apply_flags_ws, ffpc_ws, fill_values_ws, Ef; reflexivity. }
      rewrite (Hl Hs2), Hmw.
      unfold c2. rewrite !apply_flags_val, (flag_value_width o w Hw). cbn [flag_value].
      unfold c1. rewrite (ffpc_width _ _ _ _ Hw), (ffpc_plain _ _ _ MaxWidth) by reflexivity.
      rewrite (set_heuristics_width _ _ Hw). cbn [set_val val].
      rewrite fill_values_ws, Ef. cbn [is_some]. rewrite get_width_value_set_min.
      rewrite (fill_values_val nightly t b w), Ef. reflexivity.
    + apply (proj2 (HW w Hw)); exact Hws.
Qed.

Lemma file_view_nightly : forall t x, file_view true t x = lookup t x.
Proof. intros t x; unfold file_view; destruct (lookup t x); reflexivity. Qed.

Lemma se_base_expand : forall o t,
  se_base o t
  = match first_some [lookup (c_inline o) StyleEdition; c_style_edition o; lookup t StyleEdition] with
    | Some s => s
    | None =>
        match first_some [lookup (c_inline o) Version; lookup t Version] with
        | Some v => of_version v
        | None =>
            match first_some [lookup (c_inline o) Edition; c_edition o; lookup t Edition] with
            | Some e => e
            | None => SE2015
            end
        end
    end.
Proof.
  intros o t; unfold se_base, view_Sraw, base_style_edition; cbn [flag_value first_some].
  destruct (lookup (c_inline o) StyleEdition); [reflexivity|].
  destruct (c_style_edition o); [reflexivity|].
  destruct (lookup t StyleEdition); [reflexivity|]. cbn [or_else].
  destruct (lookup (c_inline o) Version); [reflexivity|].
  destruct (lookup t Version); [reflexivity|]. cbn [or_else].
  destruct (lookup (c_inline o) Edition); [reflexivity|].
  destruct (c_edition o); [reflexivity|].
  destruct (lookup t Edition); reflexivity.
Qed.

Lemma se_precedence_lemma : forall t o,
  nodup_opts (keys (c_inline o)) = true ->
  effective (resolve true (Some t) o) StyleEdition
  = match first_some [lookup (c_inline o) StyleEdition; c_style_edition o; lookup t StyleEdition] with
    | Some s => s
    | None =>
        match first_some [lookup (c_inline o) Version; lookup t Version] with
        | Some v => of_version v
        | None =>
            match first_some [lookup (c_inline o) Edition; c_edition o; lookup t Edition] with
            | Some e => collapse e
            | None => SE2015
            end
        end
    end.
Proof.
  intros t o Hn; unfold effective. rewrite precedence_some by (exact Hn || reflexivity).
  rewrite se_base_expand. unfold view_S. rewrite file_view_nightly. cbn [flag_value first_some].
  destruct (lookup (c_inline o) StyleEdition); [reflexivity|].
  destruct (c_style_edition o); [reflexivity|].
  destruct (lookup t StyleEdition); [reflexivity|]. cbn [or_else].
  destruct (lookup (c_inline o) Version) as [v|].
  { unfold of_version; destruct (v =? V_TWO); reflexivity. }
  destruct (lookup t Version) as [v|].
  { unfold of_version; destruct (v =? V_TWO); reflexivity. }
  destruct (lookup (c_inline o) Edition); [reflexivity|].
  destruct (c_edition o); [reflexivity|].
  destruct (lookup t Edition); reflexivity.
Qed.

(* ------------------------------------------------------------------ *)
(* statements for an optional file                                    *)
(* ------------------------------------------------------------------ *)

Lemma precedence_lemma : forall nightly f o x,
  nodup_opts (keys (c_inline o)) = true -> plain x = true ->
  effective (resolve nightly f o) x
  = match lookup (c_inline o) x with
    | Some v => v
    | None =>
        match flag_value o x with
        | Some v => v
        | None =>
            match file_view nightly (file_table f) x with
            | Some v => v
            | None => default (se_base o (file_table f)) x
            end
        end
    end.
Proof.
  intros nightly f o x Hn Hp; unfold effective.
  rewrite (resolve_file_table nightly f o x), precedence_some by assumption.
  unfold view_S. destruct (lookup (c_inline o) x); cbn [or_else]; [reflexivity|].
  destruct (flag_value o x); cbn [or_else]; [reflexivity|].
  destruct (file_view nightly (file_table f) x); reflexivity.
Qed.

Lemma alias_lemma : forall old new conv, alias_pair old new conv ->
  forall nightly f o, nodup_opts (keys (c_inline o)) = true ->
  effective (resolve nightly f o) new
  = alias_spec (view_A nightly o (file_table f)) old new conv (default SE2015 new).
Proof.
  intros old new conv Hp nightly f o Hn; unfold effective.
  rewrite (resolve_file_table nightly f o new), (alias_some _ _ _ Hp) by exact Hn.
  destruct Hp; reflexivity.
Qed.

Lemma alias_merge_imports_lemma : forall nightly f o,
  nodup_opts (keys (c_inline o)) = true ->
  effective (resolve nightly f o) ImportsGranularity
  = alias_spec (view_A nightly o (file_table f)) MergeImports ImportsGranularity conv_merge_imports G_PRESERVE.
Proof. exact (alias_lemma _ _ _ ap_mi). Qed.

Lemma alias_fn_args_layout_lemma : forall nightly f o,
  nodup_opts (keys (c_inline o)) = true ->
  effective (resolve nightly f o) FnParamsLayout
  = alias_spec (view_A nightly o (file_table f)) FnArgsLayout FnParamsLayout (fun v => v) 1.
Proof. exact (alias_lemma _ _ _ ap_fal). Qed.

Lemma alias_hide_parse_errors_lemma : forall nightly f o,
  nodup_opts (keys (c_inline o)) = true ->
  effective (resolve nightly f o) ShowParseErrors
  = alias_spec (view_A nightly o (file_table f)) HideParseErrors ShowParseErrors (fun v => v) 1.
Proof. exact (alias_lemma _ _ _ ap_hpe). Qed.

Lemma was_set_lemma : forall nightly f o x,
  was_set (resolve nightly f o x)
  = mem_opt x (keys (c_inline o)) || is_some (file_view nightly (file_table f) x).
Proof. intros nightly f o x. rewrite (resolve_file_table nightly f o x). apply resolve_ws_some. Qed.

Lemma explicit_width_clamped_lemma : forall nightly f o w,
  is_width w = true -> was_set (resolve nightly f o w) = true ->
  effective (resolve nightly f o) w <= effective (resolve nightly f o) MaxWidth.
Proof. intros nightly f o w Hw Hs. exact (proj1 (resolve_WInv nightly f o w Hw) Hs). Qed.

Lemma unset_width_lemma : forall nightly f o w,
  is_width w = true -> was_set (resolve nightly f o w) = false ->
  effective (resolve nightly f o) w
  = heuristic_value (effective (resolve nightly f o) UseSmallHeuristics)
                    (effective (resolve nightly f o) MaxWidth) w.
Proof. intros nightly f o w Hw Hs. exact (proj2 (resolve_WInv nightly f o w Hw) Hs). Qed.

Lemma max_heuristics_lemma : forall nightly f o w,
  is_width w = true -> was_set (resolve nightly f o w) = false ->
  effective (resolve nightly f o) UseSmallHeuristics = H_MAX ->
  effective (resolve nightly f o) w = effective (resolve nightly f o) MaxWidth.
Proof.
  intros nightly f o w Hw Hs Hh. rewrite (unset_width_lemma _ _ _ _ Hw Hs), Hh. reflexivity.
Qed.

Lemma off_heuristics_lemma : forall nightly f o w,
  is_width w = true -> was_set (resolve nightly f o w) = false ->
  effective (resolve nightly f o) UseSmallHeuristics = H_OFF ->
  effective (resolve nightly f o) w = wh_null w.
Proof.
  intros nightly f o w Hw Hs Hh. rewrite (unset_width_lemma _ _ _ _ Hw Hs), Hh. reflexivity.
Qed.

Lemma scaled_le_max_iff_lemma : forall nightly f o w,
  is_width w = true -> was_set (resolve nightly f o w) = false ->
  effective (resolve nightly f o) UseSmallHeuristics = H_DEFAULT ->
  (effective (resolve nightly f o) w <= effective (resolve nightly f o) MaxWidth
   <-> default_width w <= effective (resolve nightly f o) MaxWidth).
Proof.
  intros nightly f o w Hw Hs Hh. rewrite (unset_width_lemma _ _ _ _ Hw Hs), Hh.
  change (heuristic_value H_DEFAULT (effective (resolve nightly f o) MaxWidth) w)
    with (wh_scaled (effective (resolve nightly f o) MaxWidth) w).
  apply scaled_le_iff; exact Hw.
Qed.

Lemma width_precedence_lemma : forall nightly f o w,
  nodup_opts (keys (c_inline o)) = true -> mem_opt MaxWidth (keys (c_inline o)) = false ->
  is_width w = true ->
  effective (resolve nightly f o) w
  = match view_A nightly o (file_table f) w with
    | Some v => N.min v (effective (resolve nightly f o) MaxWidth)
    | None => heuristic_value (effective (resolve nightly f o) UseSmallHeuristics)
                              (effective (resolve nightly f o) MaxWidth) w
    end.
Proof.
  intros nightly f o w Hn Hm Hw; unfold effective.
  rewrite (resolve_file_table nightly f o w), (resolve_file_table nightly f o MaxWidth),
          (resolve_file_table nightly f o UseSmallHeuristics).
  apply (width_NM_some nightly (file_table f) o w Hn Hm Hw).
Qed.

(* ------------------------------------------------------------------ *)
(* the same value from the file or from --config                      *)
(* ------------------------------------------------------------------ *)

Lemma nodup_mid : forall a x b,
  nodup_opts (a ++ x :: b) = true -> nodup_opts (a ++ b) = true /\ mem_opt x (a ++ b) = false.
Proof.
  induction a as [|y a IH]; intros x b H; cbn [app nodup_opts] in *.
  - apply andb_true_iff in H; destruct H as [H1 H2]. apply negb_true_iff in H1. split; assumption.
  - apply andb_true_iff in H; destruct H as [H1 H2]. apply negb_true_iff in H1.
    rewrite mem_opt_app in H1. cbn [mem_opt] in H1.
    apply orb_false_iff in H1; destruct H1 as [H1a H1b]. apply orb_false_iff in H1b; destruct H1b as [H1b H1c].
    destruct (IH x b H2) as [I1 I2]. split.
    + rewrite mem_opt_app, H1a, H1c, I1; reflexivity.
    + cbn [mem_opt]. rewrite (opt_eqb_sym y x), H1b, I2; reflexivity.
Qed.

Lemma keys_app : forall l1 l2, keys (l1 ++ l2) = keys l1 ++ keys l2.
Proof. intros l1 l2; unfold keys; apply map_app. Qed.

Lemma flag_value_set_inline : forall o l x, flag_value (set_inline o l) x = flag_value o x.
Proof. intros o l x; destruct x; reflexivity. Qed.

Section Move.
Variables (nightly : bool) (t : table) (cl : cli) (l1 l2 : table) (o : opt) (v : value).
Hypothesis Hinl : c_inline cl = l1 ++ l2.
Let cl' := set_inline cl (l1 ++ (o, v) :: l2).
Hypothesis Hnd : nodup_opts (keys (c_inline cl')) = true.
Hypothesis Hfl : flag_value cl o = None.
Hypothesis Hst : is_stable_option_and_value nightly o v = true.

Lemma move_nodup : nodup_opts (keys (c_inline cl)) = true /\ lookup (c_inline cl) o = None.
Proof.
  unfold cl' in Hnd; cbn [set_inline c_inline] in Hnd. rewrite keys_app in Hnd. cbn [keys map fst] in Hnd.
  destruct (nodup_mid _ _ _ Hnd) as [H1 H2]. rewrite Hinl, keys_app. split; [exact H1|].
  apply lookup_none_iff. rewrite keys_app. exact H2.
Qed.

Lemma move_lookup : forall x,
  lookup (c_inline cl') x = if opt_eqb o x then Some v else lookup (c_inline cl) x.
Proof.
  intros x. destruct move_nodup as [_ Hno]. rewrite Hinl in *. unfold cl'; cbn [set_inline c_inline].
  rewrite !lookup_app, lookup_cons. rewrite lookup_app in Hno.
  destruct (opt_eqb o x) eqn:E.
  - apply opt_eqb_eq in E; subst x. destruct (lookup l1 o); [discriminate Hno | reflexivity].
  - reflexivity.
Qed.

Lemma move_file_view : forall x,
  file_view nightly ((o, v) :: t) x = if opt_eqb o x then Some v else file_view nightly t x.
Proof.
  intros x; unfold file_view; rewrite lookup_cons. destruct (opt_eqb o x) eqn:E; [|reflexivity].
  apply opt_eqb_eq in E; subst x. rewrite Hst; reflexivity.
Qed.

Lemma move_view_S : forall x, view_S nightly cl ((o, v) :: t) x = view_S nightly cl' t x.
Proof.
  intros x; unfold view_S. rewrite move_lookup, move_file_view. unfold cl'; rewrite flag_value_set_inline.
  destruct move_nodup as [_ Hno].
  destruct (opt_eqb o x) eqn:E; [|reflexivity].
  apply opt_eqb_eq in E; subst x. rewrite Hno, Hfl. reflexivity.
Qed.

Lemma move_view_Sraw : forall x, view_Sraw cl ((o, v) :: t) x = view_Sraw cl' t x.
Proof.
  intros x; unfold view_Sraw. rewrite move_lookup, lookup_cons. unfold cl'; rewrite flag_value_set_inline.
  destruct move_nodup as [_ Hno].
  destruct (opt_eqb o x) eqn:E; [|reflexivity].
  apply opt_eqb_eq in E; subst x. rewrite Hno, Hfl. reflexivity.
Qed.

Lemma move_view_A : forall x, view_A nightly cl ((o, v) :: t) x = view_A nightly cl' t x.
Proof.
  intros x; unfold view_A. rewrite move_lookup, move_file_view.
  destruct move_nodup as [_ Hno].
  destruct (opt_eqb o x) eqn:E; [|reflexivity].
  apply opt_eqb_eq in E; subst x. rewrite Hno. reflexivity.
Qed.

Lemma move_se_base : se_base cl ((o, v) :: t) = se_base cl' t.
Proof. unfold se_base. rewrite !move_view_Sraw. reflexivity. Qed.

Lemma move_plain : forall x, plain x = true ->
  effective (resolve nightly (Some ((o, v) :: t)) cl) x = effective (resolve nightly (Some t) cl') x.
Proof.
  intros x Hp; unfold effective. destruct move_nodup as [Hn _].
  rewrite !precedence_some by assumption. rewrite move_view_S, move_se_base. reflexivity.
Qed.

Hypothesis Hnm : mem_opt MaxWidth (keys (c_inline cl')) = false.

Lemma move_nm : mem_opt MaxWidth (keys (c_inline cl)) = false.
Proof.
  unfold cl' in Hnm; cbn [set_inline c_inline] in Hnm. rewrite keys_app, mem_opt_app in Hnm.
  cbn [keys map fst mem_opt] in Hnm.
  apply orb_false_iff in Hnm; destruct Hnm as [H1 H2]. apply orb_false_iff in H2; destruct H2 as [_ H2].
  rewrite Hinl, keys_app, mem_opt_app, H1. exact H2.
Qed.

Lemma source_irrelevant_lemma : forall x,
  effective (resolve nightly (Some ((o, v) :: t)) cl) x = effective (resolve nightly (Some t) cl') x.
Proof.
  intros x. destruct move_nodup as [Hn _].
  destruct (plain x) eqn:Hp; [apply move_plain; exact Hp|].
  destruct (is_width x) eqn:Hw.
  - unfold effective.
    pose proof (width_NM_some nightly ((o, v) :: t) cl x Hn move_nm Hw) as W1.
    pose proof (width_NM_some nightly t cl' x Hnd Hnm Hw) as W2.
    cbv zeta in W1, W2. rewrite W1, W2.
    rewrite move_view_A.
    fold (effective (resolve nightly (Some ((o, v) :: t)) cl) MaxWidth).
    fold (effective (resolve nightly (Some ((o, v) :: t)) cl) UseSmallHeuristics).
    rewrite !move_plain by reflexivity. reflexivity.
  - unfold effective.
    destruct x; try (bdisc Hp); try (bdisc Hw).
    + rewrite !(alias_some _ _ _ ap_mi) by assumption.
      unfold alias_spec; rewrite !move_view_A, move_se_base; reflexivity.
    + rewrite !(alias_some _ _ _ ap_fal) by assumption.
      unfold alias_spec; rewrite !move_view_A, move_se_base; reflexivity.
    + rewrite !(alias_some _ _ _ ap_hpe) by assumption.
      unfold alias_spec; rewrite !move_view_A, move_se_base; reflexivity.
Qed.
End Move.

(* ------------------------------------------------------------------ *)
(* API setter                                                         *)
(* ------------------------------------------------------------------ *)

Lemma set_heuristics_upd_val : forall c k e e' x,
  is_width k = false -> val e = val e' ->
  val (set_heuristics (upd c k e) x) = val (set_heuristics (upd c k e') x).
Proof.
  intros c k e e' x Hk Hv.
  assert (Hany : forall y, val (upd c k e y) = val (upd c k e' y)).
  { intros y; unfold upd; destruct (opt_eqb y k); [exact Hv | reflexivity]. }
  destruct (is_width x) eqn:Hw.
  - rewrite !set_heuristics_width by exact Hw. cbn [set_val val].
    assert (Hx : x <> k) by (intros E; subst x; rewrite Hw in Hk; discriminate Hk).
    rewrite !(upd_other c k _ x Hx), !Hany. reflexivity.
  - rewrite !set_heuristics_nonwidth by exact Hw. apply Hany.
Qed.

Lemma api_same_as_override_lemma : forall o v c x,
  is_width o = false -> o <> MergeImports -> o <> FnArgsLayout -> o <> HideParseErrors ->
  effective (setter o v c) x = effective (override_value o v c) x.
Proof.
  intros o v c x Hw H1 H2 H3; unfold effective, setter, override_value.
  destruct o; try (bdisc Hw); try (contradiction H1; reflexivity); try (contradiction H2; reflexivity);
    try (contradiction H3; reflexivity); cbn [hook]; unfold set_version;
    first [apply set_heuristics_upd_val; reflexivity
          | unfold upd; destruct (opt_eqb x _); reflexivity].
Qed.

Lemma lookup_snoc_other : forall l k v x, k <> x -> lookup (l ++ [(k, v)]) x = lookup l x.
Proof.
  intros l k v x H. rewrite lookup_app, lookup_cons, (opt_eqb_neq k x) by exact H.
  cbn [lookup]. destruct (lookup l x); reflexivity.
Qed.

(* override_value on a loaded configuration = one more --config pair, applied last
   (except for the three options that also select the default set) *)
Lemma override_is_config_last_lemma : forall nightly f o k v,
  k <> StyleEdition -> k <> Version -> k <> Edition ->
  override_value k v (resolve nightly f o) = resolve nightly f (set_inline o (c_inline o ++ [(k, v)])).
Proof.
  intros nightly f o k v H1 H2 H3.
  assert (E1 : cli_style_edition (set_inline o (c_inline o ++ [(k, v)])) = cli_style_edition o).
  { unfold cli_style_edition; cbn [set_inline c_inline c_style_edition]. rewrite lookup_snoc_other by exact H1. reflexivity. }
  assert (E2 : cli_version (set_inline o (c_inline o ++ [(k, v)])) = cli_version o).
  { unfold cli_version; cbn [set_inline c_inline]. rewrite lookup_snoc_other by exact H2. reflexivity. }
  assert (E3 : cli_edition (set_inline o (c_inline o ++ [(k, v)])) = cli_edition o).
  { unfold cli_edition; cbn [set_inline c_inline c_edition]. rewrite lookup_snoc_other by exact H3. reflexivity. }
  unfold resolve. rewrite E1, E2, E3. unfold apply_to, apply_inline. cbn [set_inline c_inline].
  rewrite fold_left_app. cbn [fold_left fst snd]. destruct o; reflexivity.
Qed.

(* ------------------------------------------------------------------ *)
(* --print-config                                                     *)
(* ------------------------------------------------------------------ *)

Lemma lookup_print : forall c t o,
  print_config c = Some t -> lookup t o = if hidden o then None else Some (val (c o)).
Proof.
  intros c t o; unfold print_config, to_toml.
  destruct (forallb _ _); [|discriminate].
  intros H; inversion H; subst t. destruct o; reflexivity.
Qed.

Lemma reparse_unfold : forall nightly t,
  reparse nightly t
  = fill_from_parsed_config nightly t
      (default_with_style_edition (base_style_edition (lookup t StyleEdition) (lookup t Version) (lookup t Edition))).
Proof. reflexivity. Qed.

Lemma print_config_roundtrip_lemma : forall nightly c t,
  print_config c = Some t ->
  (forall w, is_width w = true -> val (c w) <= val (c MaxWidth)) ->
  (forall o, hidden o = false -> is_stable_option_and_value nightly o (val (c o)) = true) ->
  forall o, hidden o = false -> effective (reparse nightly t) o = effective c o.
Proof.
  intros nightly c t Hp Hw Hst o Hh; unfold effective.
  assert (Hfv : forall x, hidden x = false -> file_view nightly t x = Some (val (c x))).
  { intros x Hx; unfold file_view. rewrite (lookup_print _ _ x Hp), Hx, (Hst x Hx). reflexivity. }
  rewrite reparse_unfold.
  set (b := base_style_edition _ _ _).
  destruct (plain o) eqn:Hpl.
  - rewrite ffpc_plain, fill_values_val, (Hfv o Hh) by exact Hpl. reflexivity.
  - destruct (is_width o) eqn:Ew.
    + rewrite (ffpc_width _ _ _ _ Ew), (set_heuristics_width _ _ Ew). cbn [set_val val].
      rewrite fill_values_ws, !fill_values_val, (Hfv o Hh), (Hfv MaxWidth) by reflexivity.
      cbn [is_some]. apply get_width_value_set_id. apply Hw; exact Ew.
    + destruct o; try (bdisc Hpl); try (bdisc Ew).
      * rewrite (ffpc_alias _ _ _ ap_mi); cbv zeta.
        rewrite !fill_values_ws, (Hfv ImportsGranularity) by reflexivity. cbn [is_some negb].
        rewrite andb_false_r, fill_values_val, (Hfv ImportsGranularity) by reflexivity. reflexivity.
      * rewrite (ffpc_alias _ _ _ ap_fal); cbv zeta.
        rewrite !fill_values_ws, (Hfv FnParamsLayout) by reflexivity. cbn [is_some negb].
        rewrite andb_false_r, fill_values_val, (Hfv FnParamsLayout) by reflexivity. reflexivity.
      * rewrite (ffpc_alias _ _ _ ap_hpe); cbv zeta.
        rewrite !fill_values_ws, (Hfv ShowParseErrors) by reflexivity. cbn [is_some negb].
        rewrite andb_false_r, fill_values_val, (Hfv ShowParseErrors) by reflexivity. reflexivity.
Qed.

Lemma print_config_hidden_lemma : forall nightly c t o,
  print_config c = Some t -> hidden o = true ->
  effective (reparse nightly t) o = default SE2015 o.
Proof.
  intros nightly c t o Hp Hh; unfold effective. rewrite reparse_unfold.
  assert (Hpl : plain o = true) by (destruct o; try reflexivity; bdisc Hh).
  rewrite ffpc_plain, fill_values_val by exact Hpl.
  unfold file_view. rewrite (lookup_print _ _ o Hp), Hh.
  destruct o; try (bdisc Hh); reflexivity.
Qed.

Lemma resolved_widths_le : forall nightly f o,
  let c := resolve nightly f o in
  (effective c UseSmallHeuristics = H_MAX \/
   (effective c UseSmallHeuristics = H_DEFAULT /\ 70 <= effective c MaxWidth)) ->
  forall w, is_width w = true -> val (c w) <= val (c MaxWidth).
Proof.
  intros nightly f o c Hh w Hw. unfold effective in Hh.
  destruct (resolve_WInv nightly f o w Hw) as [H1 H2]. fold c in H1, H2.
  destruct (was_set (c w)) eqn:Es; [apply H1; reflexivity|].
  rewrite (H2 eq_refl).
  destruct Hh as [Hh|[Hh Hm]]; rewrite Hh.
  - change (heuristic_value H_MAX (val (c MaxWidth)) w) with (val (c MaxWidth)). lia.
  - change (heuristic_value H_DEFAULT (val (c MaxWidth)) w) with (wh_scaled (val (c MaxWidth)) w).
    apply scaled_le_iff; [exact Hw|].
    assert (Hd : default_width w <= 70) by (destruct w; try (bdisc Hw); vm_compute; discriminate).
    lia.
Qed.

Lemma print_config_roundtrip_resolved_lemma : forall f o t,
  let c := resolve true f o in
  print_config c = Some t ->
  (effective c UseSmallHeuristics = H_MAX \/
   (effective c UseSmallHeuristics = H_DEFAULT /\ 70 <= effective c MaxWidth)) ->
  forall x, hidden x = false -> effective (reparse true t) x = effective c x.
Proof.
  intros f o t c Hp Hh x Hx.
  apply (print_config_roundtrip_lemma true c t Hp).
  - apply (resolved_widths_le true f o Hh).
  - intros y _; reflexivity.
  - exact Hx.
Qed.

Lemma print_config_default_roundtrip_lemma : forall nightly,
  exists t, print_config_default = Some t /\
            forall o, effective (reparse nightly t) o = effective (default_with_style_edition SE2015) o.
Proof.
  intros nightly. eexists; split; [vm_compute; reflexivity|].
  intros o; destruct o; destruct nightly; vm_compute; reflexivity.
Qed.

(* ------------------------------------------------------------------ *)
(* witnesses of the clauses that do not hold                          *)
(* ------------------------------------------------------------------ *)

Definition inl (l : list (opt * N)) : cli := set_inline no_cli l.

(* --config max_width=50: fn_call_width stays 60 *)
Lemma derived_widths_le_max_witness :
  exists (f : option (list (opt * N))) (o : cli) (w : opt),
    cli_ok o = true /\ is_width w = true /\
    effective (resolve true f o) UseSmallHeuristics = H_DEFAULT /\
    effective (resolve true f o) MaxWidth = 50 /\ effective (resolve true f o) w = 60.
Proof. exists None, (inl [(MaxWidth, 50)]), FnCallWidth. vm_compute. repeat split; reflexivity. Qed.

(* --config use_small_heuristics=Off: fn_call_width = usize::MAX with max_width = 100 *)
Lemma derived_widths_off_witness :
  exists (f : option (list (opt * N))) (o : cli) (w : opt),
    cli_ok o = true /\ is_width w = true /\
    effective (resolve true f o) MaxWidth = 100 /\ effective (resolve true f o) w = 18446744073709551615.
Proof. exists None, (inl [(UseSmallHeuristics, H_OFF)]), FnCallWidth. vm_compute. repeat split; reflexivity. Qed.

(* the two iteration orders of the HashMap {max_width: 200, fn_call_width: 150} *)
Lemma config_order_witness :
  exists l1 l2 : list (opt * N),
    cli_ok (inl l1) = true /\ cli_ok (inl l2) = true /\ (forall x, lookup l1 x = lookup l2 x) /\
    effective (resolve true None (inl l1)) FnCallWidth = 150 /\
    effective (resolve true None (inl l2)) FnCallWidth = 100.
Proof.
  exists [(MaxWidth, 200); (FnCallWidth, 150)], [(FnCallWidth, 150); (MaxWidth, 200)].
  repeat split; try (vm_compute; reflexivity). intros x; destruct x; reflexivity.
Qed.

(* max_width = 200 with fn_call_width = 150 in the file: from the file 150, from --config 100 *)
Lemma source_irrelevant_max_width_witness :
  exists (t : list (opt * N)) (v : N),
    lookup t MaxWidth = None /\
    effective (resolve true (Some ((MaxWidth, v) :: t)) no_cli) FnCallWidth = 150 /\
    effective (resolve true (Some t) (inl [(MaxWidth, v)])) FnCallWidth = 100.
Proof. exists [(FnCallWidth, 150)], 200. vm_compute. repeat split; reflexivity. Qed.

(* unstable_features = true in the file, no --unstable-features flag *)
Lemma unstable_features_file_ignored_witness :
  exists t : list (opt * N),
    table_ok t = true /\ lookup t UnstableFeatures = Some 1 /\
    effective (resolve true (Some t) no_cli) UnstableFeatures = 0 /\
    effective (resolve true None (inl [(UnstableFeatures, 1)])) UnstableFeatures = 1.
Proof. exists [(UnstableFeatures, 1)]. vm_compute. repeat split; reflexivity. Qed.

(* hide_parse_errors = b gives show_parse_errors = b *)
Lemma hide_parse_errors_witness : forall nightly b,
  effective (resolve nightly None (inl [(HideParseErrors, b)])) ShowParseErrors = b /\
  effective (resolve true (Some [(HideParseErrors, b)]) no_cli) ShowParseErrors = b.
Proof. intros nightly b; destruct nightly; vm_compute; split; reflexivity. Qed.

(* --edition 2021 alone: style_edition 2015 *)
Lemma se_edition_witness :
  effective (resolve true None (mk_cli None (Some 2) None false None false None false [])) StyleEdition = SE2015 /\
  se_base (mk_cli None (Some 2) None false None false None false []) [] = SE2021.
Proof. vm_compute; split; reflexivity. Qed.

(* API setter on a width that was not set: no effect; on merge_imports / version: successor unchanged *)
Lemma api_setter_witness :
  let d := default_with_style_edition SE2015 in
  effective (setter FnCallWidth 30 d) FnCallWidth = 60 /\
  effective (override_value FnCallWidth 30 d) FnCallWidth = 30 /\
  effective (setter MergeImports 1 d) ImportsGranularity = G_PRESERVE /\
  effective (override_value MergeImports 1 d) ImportsGranularity = G_CRATE /\
  effective (setter Version V_TWO d) StyleEdition = SE2015 /\
  effective (override_value Version V_TWO d) StyleEdition = SE2015 /\
  effective (resolve true None (inl [(Version, V_TWO)])) StyleEdition = SE2024.
Proof. vm_compute. repeat split; reflexivity. Qed.

(* stable channel: an unstable option is ignored in the file but accepted from --config *)
Lemma stable_channel_witness :
  effective (resolve false (Some [(ImportsGranularity, G_CRATE)]) no_cli) ImportsGranularity = G_PRESERVE /\
  effective (resolve false None (inl [(ImportsGranularity, G_CRATE)])) ImportsGranularity = G_CRATE.
Proof. vm_compute; split; reflexivity. Qed.

(* --print-config current with max_width = 50: fn_call_width is printed as 60 and re-read as 50 *)
Lemma print_config_roundtrip_witness :
  exists (o : cli) (t : list (opt * N)),
    cli_ok o = true /\ print_config (resolve true None o) = Some t /\ table_ok t = true /\
    effective (resolve true None o) FnCallWidth = 60 /\
    effective (reparse true t) FnCallWidth = 50 /\
    effective (resolve true (Some t) no_cli) FnCallWidth = 50.
Proof.
  exists (inl [(MaxWidth, 50)]).
  destruct (print_config (resolve true None (inl [(MaxWidth, 50)]))) as [t|] eqn:E; [|vm_compute in E; discriminate E].
  exists t. vm_compute in E. inversion E; subst t. vm_compute. repeat split; reflexivity.
Qed.

(* --print-config current with use_small_heuristics = Off: serialisation fails *)
Lemma print_config_off_witness :
  print_config (resolve true None (inl [(UseSmallHeuristics, H_OFF)])) = None.
Proof. vm_compute; reflexivity. Qed.
