(* C14/Lemmas.v — proofs about configuration resolution *)
From V Require Import Base.Text C14.Model.
Open Scope N_scope.
Arguments N.add : simpl never.
Arguments N.sub : simpl never.
Arguments N.mul : simpl never.
Arguments N.ltb : simpl never.
Arguments N.leb : simpl never.
Arguments N.eqb : simpl never.
Arguments N.div : simpl never.

(* ------------------------------------------------------------------ *)
(* basics                                                             *)
(* ------------------------------------------------------------------ *)

Lemma opt_id_inj : forall a b, opt_id a = opt_id b -> a = b.
Proof. intros a b H; destruct a; destruct b; first [reflexivity | discriminate H]. Qed.

Lemma opt_eqb_eq : forall a b, opt_eqb a b = true <-> a = b.
Proof.
  intros a b; unfold opt_eqb; rewrite N.eqb_eq; split.
  - apply opt_id_inj.
  - intros ->; reflexivity.
Qed.

Lemma opt_eqb_refl : forall a, opt_eqb a a = true.
Proof. intros a; apply opt_eqb_eq; reflexivity. Qed.

Lemma opt_eqb_neq : forall a b, a <> b -> opt_eqb a b = false.
Proof.
  intros a b H; destruct (opt_eqb a b) eqn:E; [|reflexivity].
  apply opt_eqb_eq in E; contradiction.
Qed.

Lemma opt_eqb_sym : forall a b, opt_eqb a b = opt_eqb b a.
Proof. intros a b; unfold opt_eqb; apply N.eqb_sym. Qed.

Lemma opt_eq_dec : forall a b : opt, {a = b} + {a <> b}.
Proof. decide equality. Qed.

Lemma upd_same : forall c o e, upd c o e o = e.
Proof. intros c o e; unfold upd; rewrite opt_eqb_refl; reflexivity. Qed.

Lemma upd_other : forall c o e x, x <> o -> upd c o e x = c x.
Proof. intros c o e x H; unfold upd; rewrite opt_eqb_neq by exact H; reflexivity. Qed.

Lemma lookup_cons : forall k v t x,
  lookup ((k, v) :: t) x = if opt_eqb k x then Some v else lookup t x.
Proof. reflexivity. Qed.

Lemma mem_opt_true : forall o l, mem_opt o l = true <-> In o l.
Proof.
  intros o l; induction l as [|x l IH]; cbn [mem_opt In].
  - split; [discriminate | tauto].
  - rewrite orb_true_iff, IH, opt_eqb_eq; tauto.
Qed.

Lemma lookup_none_iff : forall t x, lookup t x = None <-> mem_opt x (keys t) = false.
Proof.
  intros t x; induction t as [|[k v] t IH]; cbn [lookup keys map fst mem_opt].
  - tauto.
  - destruct (opt_eqb k x) eqn:E; cbn [orb].
    + split; discriminate.
    + exact IH.
Qed.

Lemma lookup_app : forall t1 t2 x,
  lookup (t1 ++ t2) x = match lookup t1 x with Some v => Some v | None => lookup t2 x end.
Proof.
  intros t1 t2 x; induction t1 as [|[k v] t1 IH]; cbn [lookup app].
  - reflexivity.
  - destruct (opt_eqb k x); [reflexivity | exact IH].
Qed.

Lemma mem_opt_app : forall o l1 l2, mem_opt o (l1 ++ l2) = mem_opt o l1 || mem_opt o l2.
Proof.
  intros o l1 l2; induction l1 as [|x l1 IH]; cbn [mem_opt app].
  - reflexivity.
  - rewrite IH, orb_assoc; reflexivity.
Qed.

Lemma nodup_opts_app : forall l1 l2,
  nodup_opts (l1 ++ l2) = true ->
  nodup_opts l1 = true /\ nodup_opts l2 = true /\ (forall o, mem_opt o l1 = true -> mem_opt o l2 = false).
Proof.
  induction l1 as [|x l1 IH]; intros l2 H; cbn [nodup_opts app] in *.
  - split; [reflexivity|]. split; [exact H|]. intros o Ho; cbn [mem_opt] in Ho; discriminate.
  - apply andb_true_iff in H; destruct H as [Hx Hn].
    rewrite mem_opt_app, negb_true_iff, orb_false_iff in Hx; destruct Hx as [Hx1 Hx2].
    destruct (IH l2 Hn) as [H1 [H2 H3]].
    split; [rewrite Hx1, H1; reflexivity|]. split; [exact H2|].
    intros o Ho; cbn [mem_opt] in Ho; apply orb_true_iff in Ho; destruct Ho as [Ho|Ho].
    + apply opt_eqb_eq in Ho; subst o; exact Hx2.
    + apply H3; exact Ho.
Qed.

(* ------------------------------------------------------------------ *)
(* discovery                                                          *)
(* ------------------------------------------------------------------ *)

Lemma probe_ok : forall fs p b, probe fs p = Ok b -> b = is_file fs p.
Proof.
  intros fs p b; unfold probe, is_file; destruct (fs p) as [[c| |]|]; intros H; inversion H; reflexivity.
Qed.

Lemma probe_noerr : forall fs p, fs p <> Some IOErr -> probe fs p = Ok (is_file fs p).
Proof.
  intros fs p H; unfold probe, is_file; destruct (fs p) as [[c| |]|]; try reflexivity; contradiction H; reflexivity.
Qed.

(* when get_toml_path does not fail its answer is determined by which of the two names are files *)
Lemma get_toml_path_ok : forall fs d r,
  get_toml_path fs d = Ok r -> r = if has_cfg fs d then Some (pick fs d) else None.
Proof.
  intros fs d r; unfold get_toml_path, has_cfg, pick.
  destruct (probe fs (join d DOT_RUSTFMT_TOML)) as [b1|e1] eqn:E1; [|discriminate].
  apply probe_ok in E1; rewrite <- E1; destruct b1; cbn [orb].
  - intros H; inversion H; reflexivity.
  - destruct (probe fs (join d RUSTFMT_TOML)) as [b2|e2] eqn:E2; [|discriminate].
    apply probe_ok in E2; rewrite <- E2; destruct b2; intros H; inversion H; reflexivity.
Qed.

Lemma get_toml_path_noerr : forall fs d,
  no_ioerr fs d -> get_toml_path fs d = Ok (if has_cfg fs d then Some (pick fs d) else None).
Proof.
  intros fs d [H1 H2]; unfold get_toml_path, has_cfg, pick.
  rewrite (probe_noerr _ _ H1), (probe_noerr _ _ H2).
  destruct (is_file fs (join d DOT_RUSTFMT_TOML)); cbn [orb]; [reflexivity|].
  destruct (is_file fs (join d RUSTFMT_TOML)); reflexivity.
Qed.

Lemma walk_up_nearest : forall fs p rpre rd,
  walk_up fs (rpre ++ rd) = Ok (Some p) ->
  has_cfg fs (rev rd) = true ->
  (forall a b, rpre = a ++ b -> b <> [] -> has_cfg fs (rev (b ++ rd)) = false) ->
  p = pick fs (rev rd).
Proof.
  intros fs p rpre; induction rpre as [|x rpre IH]; intros rd Hw Hc Hn.
  - cbn [app] in Hw. destruct rd as [|y rd]; cbn [walk_up] in Hw;
      (destruct (get_toml_path fs _) as [[q|]|e] eqn:E; [| |discriminate];
       apply get_toml_path_ok in E; rewrite Hc in E; [|discriminate E];
       inversion E; subst q; inversion Hw; reflexivity).
  - cbn [app walk_up] in Hw.
    assert (Hx : has_cfg fs (rev ((x :: rpre) ++ rd)) = false).
    { apply (Hn [] (x :: rpre)); [reflexivity | discriminate]. }
    cbn [app] in Hx.
    destruct (get_toml_path fs (rev (x :: rpre ++ rd))) as [[q|]|e] eqn:E; [| |discriminate].
    + apply get_toml_path_ok in E; rewrite Hx in E; discriminate E.
    + apply (IH rd Hw Hc). intros a b Hab Hb. apply (Hn (x :: a) b); [rewrite Hab; reflexivity | exact Hb].
Qed.

Lemma resolve_ok_walk : forall fs home cfgdir dir p,
  resolve_project_file fs home cfgdir dir = Ok (Some p) ->
  forall d, has_cfg fs d = true -> (exists rest, dir = d ++ rest) ->
  exists q, walk_up fs (rev dir) = Ok (Some q) /\ q = p.
Proof.
  intros fs home cfgdir dir p H d Hd [rest Hr].
  unfold resolve_project_file in H.
  destruct (fs dir) as [[c| |]|]; try discriminate H.
  - (* dir is a file: same code path *)
    destruct (walk_up fs (rev dir)) as [[q|]|e] eqn:E; [| |discriminate].
    + exists q; split; [reflexivity | inversion H; reflexivity].
    + exfalso. revert E. subst dir. rewrite rev_app_distr.
      generalize (rev rest) as rp; intros rp. induction rp as [|x rp IH]; cbn [app].
      * intros E. destruct (rev d) as [|y r] eqn:Er; cbn [walk_up] in E; rewrite <- Er in E;
          rewrite rev_involutive in E;
          (destruct (get_toml_path fs d) as [[q|]|e] eqn:E2; try discriminate E;
           apply get_toml_path_ok in E2; rewrite Hd in E2; discriminate E2).
      * intros E; cbn [walk_up] in E.
        destruct (get_toml_path fs (rev (x :: rp ++ rev d))) as [[q|]|e]; try discriminate E.
        apply IH; exact E.
  - destruct (walk_up fs (rev dir)) as [[q|]|e] eqn:E; [| |discriminate].
    + exists q; split; [reflexivity | inversion H; reflexivity].
    + exfalso. revert E. subst dir. rewrite rev_app_distr.
      generalize (rev rest) as rp; intros rp. induction rp as [|x rp IH]; cbn [app].
      * intros E. destruct (rev d) as [|y r] eqn:Er; cbn [walk_up] in E; rewrite <- Er in E;
          rewrite rev_involutive in E;
          (destruct (get_toml_path fs d) as [[q|]|e] eqn:E2; try discriminate E;
           apply get_toml_path_ok in E2; rewrite Hd in E2; discriminate E2).
      * intros E; cbn [walk_up] in E.
        destruct (get_toml_path fs (rev (x :: rp ++ rev d))) as [[q|]|e]; try discriminate E.
        apply IH; exact E.
Qed.

Lemma nearest_wins_lemma : forall fs home cfgdir dir p,
  resolve_project_file fs home cfgdir dir = Ok (Some p) ->
  forall d rest, dir = d ++ rest -> has_cfg fs d = true ->
  (forall d' rest', dir = d' ++ rest' -> (length d < length d')%nat -> has_cfg fs d' = false) ->
  p = pick fs d.
Proof.
  intros fs home cfgdir dir p H d rest Hdir Hd Hn.
  destruct (resolve_ok_walk _ _ _ _ _ H d Hd (ex_intro _ rest Hdir)) as [q [Hw Hq]]; subst q.
  subst dir. rewrite rev_app_distr in Hw.
  rewrite <- (rev_involutive d) at 1.
  apply (walk_up_nearest fs p (rev rest) (rev d) Hw).
  - rewrite rev_involutive; exact Hd.
  - intros a b Hab Hb. rewrite rev_app_distr, rev_involutive.
    apply (Hn (d ++ rev b) (rev a)).
    + rewrite <- app_assoc. f_equal.
      rewrite <- (rev_involutive rest), Hab, rev_app_distr; reflexivity.
    + rewrite app_length, rev_length. destruct b as [|y b]; [contradiction Hb; reflexivity|].
      cbn [length]; lia.
Qed.

Lemma walk_up_find : forall fs rcur,
  (forall d, In d (ancestors_rev rcur) -> no_ioerr fs d) ->
  walk_up fs rcur = Ok (option_map (pick fs) (find (has_cfg fs) (ancestors_rev rcur))).
Proof.
  intros fs rcur; induction rcur as [|x rcur IH]; intros Hn.
  - cbn [walk_up ancestors_rev find].
    rewrite get_toml_path_noerr by (apply Hn; left; reflexivity).
    destruct (has_cfg fs (rev [])); reflexivity.
  - cbn [walk_up ancestors_rev find].
    rewrite get_toml_path_noerr by (apply Hn; left; reflexivity).
    destruct (has_cfg fs (rev (x :: rcur))); [reflexivity|].
    apply IH. intros d Hd; apply Hn; right; exact Hd.
Qed.

Lemma find_app : forall (A : Type) (f : A -> bool) l1 l2,
  find f (l1 ++ l2) = match find f l1 with Some a => Some a | None => find f l2 end.
Proof.
  intros A f l1 l2; induction l1 as [|a l1 IH]; cbn [find app]; [reflexivity|].
  destruct (f a); [reflexivity | exact IH].
Qed.

Lemma try_dir_find : forall fs d next l,
  (forall x, In x (opt_list d) -> no_ioerr fs x) ->
  next = Ok (option_map (pick fs) (find (has_cfg fs) l)) ->
  try_dir fs d next = Ok (option_map (pick fs) (find (has_cfg fs) (opt_list d ++ l))).
Proof.
  intros fs [d|] next l Hn Hnext; cbn [try_dir opt_list app find].
  - rewrite get_toml_path_noerr by (apply Hn; left; reflexivity).
    destruct (has_cfg fs d); [reflexivity | exact Hnext].
  - exact Hnext.
Qed.

Lemma fallback_order_lemma : forall fs home cfgdir dir,
  (exists n, fs dir = Some n /\ n <> IOErr) ->
  (forall d, In d (candidates home cfgdir dir) -> no_ioerr fs d) ->
  resolve_project_file fs home cfgdir dir
  = Ok (option_map (pick fs) (find (has_cfg fs) (candidates home cfgdir dir))).
Proof.
  intros fs home cfgdir dir [n [Hn1 Hn2]] Hc.
  unfold resolve_project_file, candidates in *. rewrite Hn1.
  assert (Hw : walk_up fs (rev dir) = Ok (option_map (pick fs) (find (has_cfg fs) (ancestors dir)))).
  { apply walk_up_find. intros d Hd; apply Hc; apply in_or_app; left; exact Hd. }
  rewrite find_app.
  assert (Hrest : try_dir fs home (try_dir fs (option_map (fun c => join c RUSTFMT_DIR) cfgdir) (Ok None))
                  = Ok (option_map (pick fs) (find (has_cfg fs)
                         (opt_list home ++ opt_list (option_map (fun c => join c RUSTFMT_DIR) cfgdir))))).
  { apply try_dir_find.
    - intros x Hx; apply Hc; apply in_or_app; right; apply in_or_app; left; exact Hx.
    - rewrite <- (app_nil_r (opt_list (option_map _ cfgdir))). apply try_dir_find.
      + intros x Hx; apply Hc; apply in_or_app; right; apply in_or_app; right; exact Hx.
      + reflexivity. }
  destruct n as [c| |]; [| |contradiction Hn2; reflexivity];
    rewrite Hw; destruct (find (has_cfg fs) (ancestors dir)) as [a|]; cbn [option_map]; try reflexivity; exact Hrest.
Qed.

(* --config-path *)
Lemma override_wholesale_lemma : forall nightly fs1 fs2 home1 home2 cfg1 cfg2 fp1 fp2 o q,
  c_config_path o = Some q ->
  fs1 q = fs2 q ->
  fs1 (join q DOT_RUSTFMT_TOML) = fs2 (join q DOT_RUSTFMT_TOML) ->
  fs1 (join q RUSTFMT_TOML) = fs2 (join q RUSTFMT_TOML) ->
  load_config nightly fs1 home1 cfg1 fp1 o = load_config nightly fs2 home2 cfg2 fp2 o.
Proof.
  intros nightly fs1 fs2 home1 home2 cfg1 cfg2 fp1 fp2 o q Hq H0 H1 H2.
  unfold load_config, config_path. rewrite Hq, H0.
  destruct (fs2 q) as [[c| |]|] eqn:Eq; try reflexivity.
  - (* a file *)
    unfold from_toml_path. rewrite H0, Eq. reflexivity.
  - (* a directory *)
    unfold get_toml_path, probe. rewrite H1, H2.
    destruct (fs2 (join q DOT_RUSTFMT_TOML)) as [[c1| |]|] eqn:E1; try reflexivity;
      try (unfold from_toml_path; rewrite H1, E1; reflexivity);
      destruct (fs2 (join q RUSTFMT_TOML)) as [[c2| |]|] eqn:E2; try reflexivity;
      unfold from_toml_path; rewrite H2, E2; reflexivity.
Qed.

Lemma config_path_missing_lemma : forall nightly fs home cfgdir fp o q,
  c_config_path o = Some q -> fs q = None ->
  load_config nightly fs home cfgdir fp o = Err E_NotFound.
Proof.
  intros nightly fs home cfgdir fp o q Hq Hn. unfold load_config, config_path. rewrite Hq, Hn. reflexivity.
Qed.

Lemma config_path_dir_without_file_lemma : forall nightly fs home cfgdir fp o q,
  c_config_path o = Some q -> fs q = Some Dir -> no_ioerr fs q -> has_cfg fs q = false ->
  load_config nightly fs home cfgdir fp o = Err E_NotFound.
Proof.
  intros nightly fs home cfgdir fp o q Hq Hd Hn Hc. unfold load_config, config_path. rewrite Hq, Hd.
  rewrite (get_toml_path_noerr _ _ Hn), Hc. reflexivity.
Qed.

Lemma per_file_config_lemma : forall nightly fs home cfgdir file_dir o,
  c_config_path o = None ->
  config_for_file nightly fs home cfgdir file_dir o = load_config nightly fs home cfgdir (Some file_dir) o.
Proof.
  intros nightly fs home cfgdir file_dir o Hq. unfold config_for_file.
  unfold load_config at 1. unfold config_path. rewrite Hq. reflexivity.
Qed.

Lemma config_path_all_files_lemma : forall nightly fs home cfgdir d1 d2 o q,
  c_config_path o = Some q ->
  config_for_file nightly fs home cfgdir d1 o = config_for_file nightly fs home cfgdir d2 o.
Proof.
  intros nightly fs home cfgdir d1 d2 o q Hq. unfold config_for_file.
  assert (H : forall fp, load_config nightly fs home cfgdir fp o = load_config nightly fs home cfgdir None o).
  { intros fp. apply (override_wholesale_lemma nightly fs fs home home cfgdir cfgdir fp None o q Hq); reflexivity. }
  destruct (load_config nightly fs home cfgdir None o) as [[c [p|]]|e] eqn:E; try reflexivity.
  (* a config path was given, so a successful load returns Some path: this case is impossible *)
  exfalso. unfold load_config, config_path in E. rewrite Hq in E.
  destruct (fs q) as [[cf| |]|]; try discriminate E.
  - destruct (from_toml_path nightly fs q o); discriminate E.
  - destruct (get_toml_path fs q) as [[p|]|e]; try discriminate E.
    destruct (from_toml_path nightly fs p o); discriminate E.
Qed.

(* the configuration is the resolution of the table of the file that was found *)
Lemma from_toml_path_ok : forall nightly fs p o c,
  from_toml_path nightly fs p o = Ok c ->
  exists t, fs p = Some (File (Table t)) /\ table_ok t = true /\
            c = to_parsed_config nightly t (cli_style_edition o) (cli_edition o) (cli_version o).
Proof.
  intros nightly fs p o c; unfold from_toml_path.
  destruct (fs p) as [[[t|]| |]|]; try discriminate.
  destruct (table_ok t) eqn:Et; [|discriminate].
  intros H; inversion H; exists t; split; [reflexivity|]; split; [exact Et | reflexivity].
Qed.

Lemma load_config_resolve_lemma : forall nightly fs home cfgdir fp o c r,
  load_config nightly fs home cfgdir fp o = Ok (c, r) ->
  match r with
  | Some p => exists t, fs p = Some (File (Table t)) /\ table_ok t = true /\ c = resolve nightly (Some t) o
  | None => c = resolve nightly None o
  end.
Proof.
  intros nightly fs home cfgdir fp o c r; unfold load_config, resolve.
  destruct (config_path fs o) as [[p|]|e]; [| |discriminate].
  - destruct (from_toml_path nightly fs p o) as [c0|e] eqn:E; [|discriminate].
    intros H; inversion H; subst.
    destruct (from_toml_path_ok _ _ _ _ _ E) as [t [H1 [H2 H3]]]; exists t; subst c0; repeat split; assumption.
  - destruct fp as [dir|].
    + destruct (resolve_project_file fs home cfgdir dir) as [[p|]|e]; [| |discriminate].
      * destruct (from_toml_path nightly fs p o) as [c0|e] eqn:E; [|discriminate].
        intros H; inversion H; subst.
        destruct (from_toml_path_ok _ _ _ _ _ E) as [t [H1 [H2 H3]]]; exists t; subst c0; repeat split; assumption.
      * intros H; inversion H; reflexivity.
    + intros H; inversion H; reflexivity.
Qed.

(* ------------------------------------------------------------------ *)
(* hooks and setters: what they leave alone                           *)
(* ------------------------------------------------------------------ *)

Ltac bdisc H := exfalso; vm_compute in H; discriminate H.

Lemma set_alias_other : forall old new conv c o, o <> new -> set_alias old new conv c o = c o.
Proof.
  intros old new conv c o H; unfold set_alias.
  destruct (was_set (c old)); [|reflexivity].
  destruct (negb (was_set (c new))); [|reflexivity].
  apply upd_other; exact H.
Qed.

Lemma set_alias_new : forall old new conv c,
  set_alias old new conv c new
  = if was_set (c old) && negb (was_set (c new)) then set_val (c new) (conv (val (c old))) else c new.
Proof.
  intros old new conv c; unfold set_alias.
  destruct (was_set (c old)); cbn [andb]; [|reflexivity].
  destruct (negb (was_set (c new))); [apply upd_same | reflexivity].
Qed.

Lemma set_alias_ws : forall old new conv c o, was_set (set_alias old new conv c o) = was_set (c o).
Proof.
  intros old new conv c o. destruct (opt_eq_dec o new) as [E|E].
  - subst o. rewrite set_alias_new. destruct (was_set (c old) && negb (was_set (c new))); reflexivity.
  - rewrite set_alias_other by exact E; reflexivity.
Qed.

Lemma set_heuristics_nonwidth : forall c o, is_width o = false -> set_heuristics c o = c o.
Proof. intros c o H; unfold set_heuristics, set_width_heuristics; rewrite H; reflexivity. Qed.

Lemma set_heuristics_width : forall c o, is_width o = true ->
  set_heuristics c o
  = set_val (c o) (get_width_value (val (c MaxWidth)) (was_set (c o)) (val (c o))
                     (heuristic_value (val (c UseSmallHeuristics)) (val (c MaxWidth)) o)).
Proof. intros c o H; unfold set_heuristics, set_width_heuristics; rewrite H; reflexivity. Qed.

Lemma set_heuristics_ws : forall c o, was_set (set_heuristics c o) = was_set (c o).
Proof.
  intros c o; destruct (is_width o) eqn:E.
  - rewrite set_heuristics_width by exact E; reflexivity.
  - rewrite set_heuristics_nonwidth by exact E; reflexivity.
Qed.

Lemma hook_ws : forall k c o, was_set (hook k c o) = was_set (c o).
Proof.
  intros k c o; destruct k; cbn [hook];
    unfold set_merge_imports, set_fn_args_layout, set_hide_parse_errors, set_version;
    first [apply set_heuristics_ws | apply set_alias_ws | reflexivity].
Qed.

(* the keys whose hook is set_heuristics *)
Definition hkey (o : opt) : bool := is_width o || opt_eqb o MaxWidth || opt_eqb o UseSmallHeuristics.

Lemma hook_hkey : forall k c, hkey k = true -> hook k c = set_heuristics c.
Proof. intros k c H; destruct k; try reflexivity; bdisc H. Qed.

Lemma hook_plain : forall k c o, plain o = true -> hook k c o = c o.
Proof.
  intros k c o Hp.
  assert (Hw : is_width o = false) by (destruct o; try reflexivity; bdisc Hp).
  assert (H1 : o <> ImportsGranularity) by (intros ->; bdisc Hp).
  assert (H2 : o <> FnParamsLayout) by (intros ->; bdisc Hp).
  assert (H3 : o <> ShowParseErrors) by (intros ->; bdisc Hp).
  destruct k; cbn [hook];
    unfold set_merge_imports, set_fn_args_layout, set_hide_parse_errors, set_version;
    first [reflexivity | apply set_heuristics_nonwidth; exact Hw | apply set_alias_other; assumption].
Qed.

(* hooks of keys outside hkey do not touch the heuristics-related entries *)
Lemma hook_not_hkey : forall k c o, hkey k = false -> hkey o = true -> hook k c o = c o.
Proof.
  intros k c o Hk Ho.
  assert (H1 : o <> ImportsGranularity) by (intros ->; bdisc Ho).
  assert (H2 : o <> FnParamsLayout) by (intros ->; bdisc Ho).
  assert (H3 : o <> ShowParseErrors) by (intros ->; bdisc Ho).
  destruct k; try (bdisc Hk); cbn [hook];
    unfold set_merge_imports, set_fn_args_layout, set_hide_parse_errors, set_version;
    first [reflexivity | apply set_alias_other; assumption].
Qed.

Lemma op_ws : forall k e c o,
  was_set (hook k (upd c k e) o) = if opt_eqb o k then was_set e else was_set (c o).
Proof. intros k e c o; rewrite hook_ws; unfold upd; destruct (opt_eqb o k); reflexivity. Qed.

Lemma op_plain : forall k e c o, plain o = true ->
  hook k (upd c k e) o = if opt_eqb o k then e else c o.
Proof. intros k e c o Hp; rewrite hook_plain by exact Hp; reflexivity. Qed.

(* pointwise equality of configurations is respected by every operation *)
Definition ceq (c c' : config) : Prop := forall x, c x = c' x.

Lemma upd_ext : forall c c' k e, ceq c c' -> ceq (upd c k e) (upd c' k e).
Proof. intros c c' k e H x; unfold upd; rewrite (H x); reflexivity. Qed.

Lemma set_heuristics_ext : forall c c', ceq c c' -> ceq (set_heuristics c) (set_heuristics c').
Proof.
  intros c c' H x; unfold set_heuristics, set_width_heuristics.
  rewrite (H MaxWidth), (H UseSmallHeuristics), (H x); reflexivity.
Qed.

Lemma set_alias_ext : forall old new conv c c', ceq c c' -> ceq (set_alias old new conv c) (set_alias old new conv c').
Proof.
  intros old new conv c c' H x; unfold set_alias.
  rewrite (H old), (H new).
  destruct (was_set (c' old)); [|apply H].
  destruct (negb (was_set (c' new))); [|apply H].
  unfold upd; rewrite (H x); reflexivity.
Qed.

Lemma hook_ext : forall k c c', ceq c c' -> ceq (hook k c) (hook k c').
Proof.
  intros k c c' H; destruct k; cbn [hook];
    unfold set_merge_imports, set_fn_args_layout, set_hide_parse_errors, set_version;
    first [exact H | apply set_heuristics_ext; exact H | apply set_alias_ext; exact H].
Qed.

Lemma override_value_ext : forall k v c c', ceq c c' -> ceq (override_value k v c) (override_value k v c').
Proof.
  intros k v c c' H; unfold override_value. rewrite (H k). apply hook_ext, upd_ext, H.
Qed.
Lemma setter_ext : forall k v c c', ceq c c' -> ceq (setter k v c) (setter k v c').
Proof. intros k v c c' H; unfold setter. rewrite (H k). apply hook_ext, upd_ext, H. Qed.
Lemma cli_setter_ext : forall k v c c', ceq c c' -> ceq (cli_setter k v c) (cli_setter k v c').
Proof. intros k v c c' H; unfold cli_setter. rewrite (H k). apply hook_ext, upd_ext, H. Qed.

Lemma apply_inline_ext : forall l c c', ceq c c' -> ceq (apply_inline l c) (apply_inline l c').
Proof.
  induction l as [|[k v] l IH]; intros c c' H; [exact H|].
  unfold apply_inline; cbn [fold_left fst snd]. apply IH. apply override_value_ext, H.
Qed.

Lemma on_some_ext : forall x f, (forall v c c', ceq c c' -> ceq (f v c) (f v c')) ->
  forall c c', ceq c c' -> ceq (on_some x f c) (on_some x f c').
Proof. intros [v|] f Hf c c' H; cbn [on_some]; [apply Hf, H | exact H]. Qed.

Lemma apply_flags_ext : forall o c c', ceq c c' -> ceq (apply_flags o c) (apply_flags o c').
Proof.
  intros o c c' H; unfold apply_flags.
  apply on_some_ext; [intros; apply cli_setter_ext; assumption|].
  assert (H1 : ceq (if c_unstable o then cli_setter UnstableFeatures 1 c else setter UnstableFeatures 0 c)
                   (if c_unstable o then cli_setter UnstableFeatures 1 c' else setter UnstableFeatures 0 c')).
  { destruct (c_unstable o); [apply cli_setter_ext | apply setter_ext]; exact H. }
  assert (H2 := on_some_ext (c_edition o) (cli_setter Edition)
                  (fun v a b Hab => cli_setter_ext Edition v a b Hab) _ _ H1).
  assert (H3 := on_some_ext (c_style_edition o) (cli_setter StyleEdition)
                  (fun v a b Hab => cli_setter_ext StyleEdition v a b Hab) _ _ H2).
  destruct (c_backup o).
  - apply cli_setter_ext. destruct (c_check o); [apply cli_setter_ext; exact H3|].
    apply on_some_ext; [intros; apply cli_setter_ext; assumption | exact H3].
  - destruct (c_check o); [apply cli_setter_ext; exact H3|].
    apply on_some_ext; [intros; apply cli_setter_ext; assumption | exact H3].
Qed.

Lemma apply_to_ext : forall o c c', ceq c c' -> ceq (apply_to o c) (apply_to o c').
Proof. intros o c c' H; unfold apply_to. apply apply_inline_ext, apply_flags_ext, H. Qed.

(* ------------------------------------------------------------------ *)
(* apply_flags and apply_inline on entries                            *)
(* ------------------------------------------------------------------ *)

Lemma apply_flags_entry : forall o c x,
  apply_flags o c x
  = match flag_value o x with
    | Some v => mk_entry (was_set (c x)) v (match x with UnstableFeatures => if c_unstable o then true else was_set_cli (c x) | _ => true end)
    | None => c x
    end.
Proof.
  intros [cp ed se ck em bk co un inl] c x.
  destruct x; destruct un, ed, se, ck, em, bk, co; reflexivity.
Qed.

Lemma apply_flags_ws : forall o c x, was_set (apply_flags o c x) = was_set (c x).
Proof. intros o c x; rewrite apply_flags_entry; destruct (flag_value o x); reflexivity. Qed.

Lemma apply_flags_val : forall o c x,
  val (apply_flags o c x) = match flag_value o x with Some v => v | None => val (c x) end.
Proof. intros o c x; rewrite apply_flags_entry; destruct (flag_value o x); reflexivity. Qed.

Lemma apply_inline_cons : forall k v l c,
  apply_inline ((k, v) :: l) c = apply_inline l (override_value k v c).
Proof. reflexivity. Qed.

Lemma apply_inline_ws : forall l c o,
  was_set (apply_inline l c o) = mem_opt o (keys l) || was_set (c o).
Proof.
  induction l as [|[k v] l IH]; intros c o; [reflexivity|].
  rewrite apply_inline_cons, IH. unfold override_value; rewrite op_ws.
  cbn [keys map fst mem_opt was_set]. rewrite (opt_eqb_sym k o).
  destruct (opt_eqb o k); cbn [orb]; [rewrite orb_true_r; reflexivity | reflexivity].
Qed.

Lemma apply_inline_val_plain : forall l c o,
  nodup_opts (keys l) = true -> plain o = true ->
  val (apply_inline l c o) = match lookup l o with Some v => v | None => val (c o) end.
Proof.
  induction l as [|[k v] l IH]; intros c o Hn Hp; [reflexivity|].
  cbn [keys map fst nodup_opts] in Hn. apply andb_true_iff in Hn; destruct Hn as [Hk Hn].
  rewrite apply_inline_cons, (IH _ _ Hn Hp), lookup_cons.
  unfold override_value; rewrite op_plain by exact Hp. rewrite (opt_eqb_sym k o).
  destruct (opt_eqb o k) eqn:E.
  - apply opt_eqb_eq in E; subst o. apply negb_true_iff in Hk. apply lookup_none_iff in Hk.
    rewrite Hk; reflexivity.
  - reflexivity.
Qed.

(* ------------------------------------------------------------------ *)
(* deprecated aliases                                                 *)
(* ------------------------------------------------------------------ *)

Inductive alias_pair : opt -> opt -> (value -> value) -> Prop :=
| ap_mi : alias_pair MergeImports ImportsGranularity conv_merge_imports
| ap_fal : alias_pair FnArgsLayout FnParamsLayout (fun v => v)
| ap_hpe : alias_pair HideParseErrors ShowParseErrors (fun v => v).

Lemma alias_pair_neq : forall old new conv, alias_pair old new conv -> old <> new.
Proof. intros old new conv H; destruct H; discriminate. Qed.

Lemma op_alias_new : forall old new conv, alias_pair old new conv ->
  forall e c, hook new (upd c new e) new = e.
Proof. intros old new conv H e c; destruct H; cbn [hook]; apply upd_same. Qed.

Lemma op_alias_old : forall old new conv, alias_pair old new conv ->
  forall e c, hook old (upd c old e) new
  = if was_set e && negb (was_set (c new)) then set_val (c new) (conv (val e)) else c new.
Proof.
  intros old new conv H e c; destruct H; cbn [hook];
    unfold set_merge_imports, set_fn_args_layout, set_hide_parse_errors;
    rewrite set_alias_new, upd_same, upd_other by discriminate; reflexivity.
Qed.

Lemma op_alias_other : forall old new conv, alias_pair old new conv ->
  forall k e c, k <> old -> k <> new -> hook k (upd c k e) new = c new.
Proof.
  intros old new conv H k e c H1 H2.
  assert (Hu : upd c k e new = c new) by (apply upd_other; intros E; apply H2; symmetry; exact E).
  rewrite <- Hu.
  destruct H; destruct k; try (contradiction H1; reflexivity); try (contradiction H2; reflexivity);
    cbn [hook]; unfold set_merge_imports, set_fn_args_layout, set_hide_parse_errors, set_version;
    first [reflexivity
          | apply set_heuristics_nonwidth; reflexivity
          | apply set_alias_other; discriminate].
Qed.

Lemma apply_inline_alias : forall old new conv, alias_pair old new conv ->
  forall l c, nodup_opts (keys l) = true ->
  val (apply_inline l c new)
  = match lookup l new with
    | Some v => v
    | None => if was_set (c new) then val (c new)
              else match lookup l old with Some b => conv b | None => val (c new) end
    end.
Proof.
  intros old new conv Hp l; induction l as [|[k v] l IH]; intros c Hn.
  - cbn [apply_inline fold_left lookup]. destruct (was_set (c new)); reflexivity.
  - cbn [keys map fst nodup_opts] in Hn. apply andb_true_iff in Hn; destruct Hn as [Hk Hn].
    apply negb_true_iff in Hk. apply lookup_none_iff in Hk.
    rewrite apply_inline_cons, (IH _ Hn), !lookup_cons. unfold override_value.
    destruct (opt_eq_dec k new) as [E|E]; [|destruct (opt_eq_dec k old) as [E'|E']].
    + subst k. rewrite (op_alias_new _ _ _ Hp), opt_eqb_refl, Hk. reflexivity.
    + subst k. rewrite (op_alias_old _ _ _ Hp), opt_eqb_refl, Hk.
      rewrite (opt_eqb_neq old new) by (apply (alias_pair_neq _ _ _ Hp)).
      cbn [was_set val andb]. destruct (lookup l new); [reflexivity|].
      destruct (was_set (c new)) eqn:Ew; cbn [negb]; [rewrite Ew; reflexivity|].
      cbn [set_val was_set val]. rewrite Ew. reflexivity.
    + rewrite (op_alias_other _ _ _ Hp) by assumption.
      rewrite (opt_eqb_neq k new), (opt_eqb_neq k old) by assumption. reflexivity.
Qed.

(* ------------------------------------------------------------------ *)
(* fill_from_parsed_config                                            *)
(* ------------------------------------------------------------------ *)

Lemma fill_values_ws : forall nightly t b o,
  was_set (fill_values nightly t (default_with_style_edition b) o) = is_some (file_view nightly t o).
Proof.
  intros nightly t b o; unfold fill_values, file_view.
  destruct (lookup t o) as [v|]; [|reflexivity].
  destruct (is_stable_option_and_value nightly o v); reflexivity.
Qed.

Lemma fill_values_val : forall nightly t b o,
  val (fill_values nightly t (default_with_style_edition b) o)
  = match file_view nightly t o with Some v => v | None => default b o end.
Proof.
  intros nightly t b o; unfold fill_values, file_view.
  destruct (lookup t o) as [v|]; [|reflexivity].
  destruct (is_stable_option_and_value nightly o v); reflexivity.
Qed.

Lemma ffpc_ws : forall nightly t c o,
  was_set (fill_from_parsed_config nightly t c o) = was_set (fill_values nightly t c o).
Proof.
  intros nightly t c o; unfold fill_from_parsed_config, set_version, set_hide_parse_errors,
    set_fn_args_layout, set_merge_imports.
  rewrite !set_alias_ws, set_heuristics_ws; reflexivity.
Qed.

Lemma ffpc_plain : forall nightly t c o, plain o = true ->
  fill_from_parsed_config nightly t c o = fill_values nightly t c o.
Proof.
  intros nightly t c o Hp.
  assert (Hw : is_width o = false) by (destruct o; try reflexivity; bdisc Hp).
  assert (H1 : o <> ImportsGranularity) by (intros ->; bdisc Hp).
  assert (H2 : o <> FnParamsLayout) by (intros ->; bdisc Hp).
  assert (H3 : o <> ShowParseErrors) by (intros ->; bdisc Hp).
  unfold fill_from_parsed_config, set_version, set_hide_parse_errors, set_fn_args_layout, set_merge_imports.
  rewrite !set_alias_other by assumption. apply set_heuristics_nonwidth; exact Hw.
Qed.

Lemma ffpc_alias : forall old new conv, alias_pair old new conv ->
  forall nightly t c,
  fill_from_parsed_config nightly t c new
  = let fv := fill_values nightly t c in
    if was_set (fv old) && negb (was_set (fv new)) then set_val (fv new) (conv (val (fv old))) else fv new.
Proof.
  intros old new conv H nightly t c; cbv zeta.
  unfold fill_from_parsed_config, set_version, set_hide_parse_errors, set_fn_args_layout, set_merge_imports.
  destruct H;
    repeat first [rewrite set_alias_new
                 | rewrite set_alias_other by discriminate
                 | rewrite set_heuristics_nonwidth by reflexivity];
    reflexivity.
Qed.
