(* C14/Props.v — C14: "Each file named on the command line is formatted with the options of the nearest
   rustfmt.toml / .rustfmt.toml at or above its directory (the dotted name winning in the same directory, then the
   home and user-config directories), replaced wholesale by --config-path when given, with `--config key=val` and
   dedicated flags overriding any file, and with unset options taking the defaults of the effective style edition
   (style_edition, else legacy version, else edition). The same option value has the same effect whether it comes
   from a file, from --config or from the API; deprecated aliases map to their successors; width limits derived
   from use_small_heuristics never exceed max_width; and the text printed by --print-config default/current
   re-parses to the same effective configuration."

   Notation: paths are lists of components (root = []); a parsed config file / the --config pairs are lists
   (option, value) with values encoded as N (see Model.v); [resolve nightly file cli] is the configuration that
   load_config builds once the file has been located; [effective c o] is what the getter of option o returns.
   [nightly] is the release channel of the build (the binary under test is a nightly build). *)
From V Require Import Base.Text C14.Model C14.Lemmas.
Open Scope N_scope.

(* ---------------- discovery ---------------- *)

(* "nearest ... at or above its directory, the dotted name winning in the same directory": whenever discovery from
   dir succeeds with a path and some ancestor-or-self d holds a config file while no deeper one does, the path is
   d/.rustfmt.toml if that is a file, else d/rustfmt.toml *)
Theorem nearest_wins : forall fs home cfgdir dir p,
  resolve_project_file fs home cfgdir dir = Ok (Some p) ->
  forall d rest, dir = d ++ rest -> has_cfg fs d = true ->
  (forall d' rest', dir = d' ++ rest' -> (length d < length d')%nat -> has_cfg fs d' = false) ->
  p = pick fs d.
Proof. exact nearest_wins_lemma. Qed.
Print Assumptions nearest_wins.

(* "then the home and user-config directories": without I/O errors the result is the first directory holding a
   config file in the list dir, parent, ..., root, home, config_dir/rustfmt; none if there is no such directory *)
Theorem fallback_order : forall fs home cfgdir dir,
  (exists n, fs dir = Some n /\ n <> IOErr) ->
  (forall d, In d (candidates home cfgdir dir) -> no_ioerr fs d) ->
  resolve_project_file fs home cfgdir dir
  = Ok (option_map (pick fs) (find (has_cfg fs) (candidates home cfgdir dir))).
Proof. exact fallback_order_lemma. Qed.
Print Assumptions fallback_order.

(* "replaced wholesale by --config-path": the result depends on the file system only through q, q/.rustfmt.toml
   and q/rustfmt.toml — not on the file's directory, the home or the config directory *)
Theorem override_wholesale : forall nightly fs1 fs2 home1 home2 cfg1 cfg2 fp1 fp2 o q,
  c_config_path o = Some q ->
  fs1 q = fs2 q ->
  fs1 (join q DOT_RUSTFMT_TOML) = fs2 (join q DOT_RUSTFMT_TOML) ->
  fs1 (join q RUSTFMT_TOML) = fs2 (join q RUSTFMT_TOML) ->
  load_config nightly fs1 home1 cfg1 fp1 o = load_config nightly fs2 home2 cfg2 fp2 o.
Proof. exact override_wholesale_lemma. Qed.
Print Assumptions override_wholesale.

(* a missing --config-path target is an error *)
Theorem config_path_missing_is_error : forall nightly fs home cfgdir fp o q,
  c_config_path o = Some q -> fs q = None ->
  load_config nightly fs home cfgdir fp o = Err E_NotFound.
Proof. exact config_path_missing_lemma. Qed.
Print Assumptions config_path_missing_is_error.

(* so is a --config-path directory without a config file (no search above it) *)
Theorem config_path_dir_without_file_is_error : forall nightly fs home cfgdir fp o q,
  c_config_path o = Some q -> fs q = Some Dir -> no_ioerr fs q -> has_cfg fs q = false ->
  load_config nightly fs home cfgdir fp o = Err E_NotFound.
Proof. exact config_path_dir_without_file_lemma. Qed.
Print Assumptions config_path_dir_without_file_is_error.

(* "each file named on the command line": without --config-path every file gets load_config of its own directory *)
Theorem per_file_config : forall nightly fs home cfgdir file_dir o,
  c_config_path o = None ->
  config_for_file nightly fs home cfgdir file_dir o = load_config nightly fs home cfgdir (Some file_dir) o.
Proof. exact per_file_config_lemma. Qed.
Print Assumptions per_file_config.

(* with --config-path every file gets the same configuration *)
Theorem config_path_same_for_all_files : forall nightly fs home cfgdir d1 d2 o q,
  c_config_path o = Some q ->
  config_for_file nightly fs home cfgdir d1 o = config_for_file nightly fs home cfgdir d2 o.
Proof. exact config_path_all_files_lemma. Qed.
Print Assumptions config_path_same_for_all_files.

(* "formatted with the options of" that file: the loaded configuration is [resolve] of the table of the chosen
   file (or of no file) *)
Theorem load_config_uses_found_file : forall nightly fs home cfgdir fp o c r,
  load_config nightly fs home cfgdir fp o = Ok (c, r) ->
  match r with
  | Some p => exists t, fs p = Some (File (Table t)) /\ table_ok t = true /\ c = resolve nightly (Some t) o
  | None => c = resolve nightly None o
  end.
Proof. exact load_config_resolve_lemma. Qed.
Print Assumptions load_config_uses_found_file.

(* ---------------- precedence ---------------- *)

(* "--config key=val and dedicated flags overriding any file, unset options taking the defaults of the effective
   style edition": for every option without a derived rule (all but the eight widths, imports_granularity,
   fn_params_layout, show_parse_errors): --config, else dedicated flag, else file, else default of se_base *)
Theorem precedence : forall nightly f o x,
  nodup_opts (keys (c_inline o)) = true -> plain x = true ->
  effective (resolve nightly f o) x
  = match lookup (c_inline o) x with
    | Some v => v
    | None =>
        match flag_value o x with
        | Some v => v
        | None =>
            match file_view nightly (file_table f) x with
            | Some v => v
            | None => default (se_base o (file_table f)) x
            end
        end
    end.
Proof. exact precedence_lemma. Qed.
Print Assumptions precedence.

(* "style_edition, else legacy version, else edition": the style edition whose defaults are used; within each of
   the three, --config beats the flag beats the file; a file's style_edition beats a command-line version/edition *)
Theorem se_base_precedence : forall o t,
  se_base o t
  = match first_some [lookup (c_inline o) StyleEdition; c_style_edition o; lookup t StyleEdition] with
    | Some s => s
    | None =>
        match first_some [lookup (c_inline o) Version; lookup t Version] with
        | Some v => of_version v
        | None =>
            match first_some [lookup (c_inline o) Edition; c_edition o; lookup t Edition] with
            | Some e => e
            | None => SE2015
            end
        end
    end.
Proof. exact se_base_expand. Qed.
Print Assumptions se_base_precedence.

(* the effective style_edition option: as above, except that a style edition obtained from `edition` is reported
   as 2015 (for 2015/2018/2021) or 2024 — the default of the style_edition option itself *)
Theorem se_precedence : forall t o,
  nodup_opts (keys (c_inline o)) = true ->
  effective (resolve true (Some t) o) StyleEdition
  = match first_some [lookup (c_inline o) StyleEdition; c_style_edition o; lookup t StyleEdition] with
    | Some s => s
    | None =>
        match first_some [lookup (c_inline o) Version; lookup t Version] with
        | Some v => of_version v
        | None =>
            match first_some [lookup (c_inline o) Edition; c_edition o; lookup t Edition] with
            | Some e => collapse e
            | None => SE2015
            end
        end
    end.
Proof. exact se_precedence_lemma. Qed.
Print Assumptions se_precedence.

(* "else edition", read literally, fails: --edition 2021 alone selects the 2021 defaults but style_edition reads 2015 *)
Theorem se_from_edition_gap :
  effective (resolve true None (mk_cli None (Some 2) None false None false None false [])) StyleEdition = SE2015 /\
  se_base (mk_cli None (Some 2) None false None false None false []) [] = SE2021.
Proof. exact se_edition_witness. Qed.
Print Assumptions se_from_edition_gap.

(* "overriding any file" fails for unstable_features the other way round: the file's value is always overwritten
   by apply_to (false unless --unstable-features), while --config unstable_features=true is honoured *)
Theorem unstable_features_file_ignored_gap :
  exists t : list (opt * N),
    table_ok t = true /\ lookup t UnstableFeatures = Some 1 /\
    effective (resolve true (Some t) no_cli) UnstableFeatures = 0 /\
    effective (resolve true None (inl [(UnstableFeatures, 1)])) UnstableFeatures = 1.
Proof. exact unstable_features_file_ignored_witness. Qed.
Print Assumptions unstable_features_file_ignored_gap.

(* ---------------- deprecated aliases ---------------- *)

(* "deprecated aliases map to their successors": merge_imports -> imports_granularity (true = Crate, false =
   Preserve), unless imports_granularity itself is given in --config or the file *)
Theorem alias_merge_imports : forall nightly f o,
  nodup_opts (keys (c_inline o)) = true ->
  effective (resolve nightly f o) ImportsGranularity
  = alias_spec (view_A nightly o (file_table f)) MergeImports ImportsGranularity conv_merge_imports G_PRESERVE.
Proof. exact alias_merge_imports_lemma. Qed.
Print Assumptions alias_merge_imports.

(* fn_args_layout -> fn_params_layout *)
Theorem alias_fn_args_layout : forall nightly f o,
  nodup_opts (keys (c_inline o)) = true ->
  effective (resolve nightly f o) FnParamsLayout
  = alias_spec (view_A nightly o (file_table f)) FnArgsLayout FnParamsLayout (fun v => v) 1.
Proof. exact alias_fn_args_layout_lemma. Qed.
Print Assumptions alias_fn_args_layout.

(* hide_parse_errors -> show_parse_errors: the value is COPIED (identity), not negated *)
Theorem alias_hide_parse_errors : forall nightly f o,
  nodup_opts (keys (c_inline o)) = true ->
  effective (resolve nightly f o) ShowParseErrors
  = alias_spec (view_A nightly o (file_table f)) HideParseErrors ShowParseErrors (fun v => v) 1.
Proof. exact alias_hide_parse_errors_lemma. Qed.
Print Assumptions alias_hide_parse_errors.

(* hence hide_parse_errors = true shows the errors and hide_parse_errors = false hides them *)
Theorem hide_parse_errors_not_negated_gap : forall nightly b,
  effective (resolve nightly None (inl [(HideParseErrors, b)])) ShowParseErrors = b /\
  effective (resolve true (Some [(HideParseErrors, b)]) no_cli) ShowParseErrors = b.
Proof. exact hide_parse_errors_witness. Qed.
Print Assumptions hide_parse_errors_not_negated_gap.

(* ---------------- same value, different source ---------------- *)

(* "the same option value has the same effect whether it comes from a file [or] from --config": moving the pair
   (o, v) from the file to any position of the --config list leaves every effective value unchanged.
   Partial: o has no dedicated flag given, the build accepts (o, v) from a file, and max_width is not among the
   --config keys (in particular o is not max_width) — see the three refutations below *)
Theorem source_irrelevant_partial : forall nightly t cl l1 l2 o v,
  c_inline cl = l1 ++ l2 ->
  nodup_opts (keys (c_inline (set_inline cl (l1 ++ (o, v) :: l2)))) = true ->
  flag_value cl o = None ->
  is_stable_option_and_value nightly o v = true ->
  mem_opt MaxWidth (keys (c_inline (set_inline cl (l1 ++ (o, v) :: l2)))) = false ->
  forall x,
    effective (resolve nightly (Some ((o, v) :: t)) cl) x
    = effective (resolve nightly (Some t) (set_inline cl (l1 ++ (o, v) :: l2))) x.
Proof. exact source_irrelevant_lemma. Qed.
Print Assumptions source_irrelevant_partial.

(* max_width from --config instead of the file: an explicit width above the old max_width has already been clamped *)
Theorem source_irrelevant_max_width_refuted :
  exists (t : list (opt * N)) (v : N),
    lookup t MaxWidth = None /\
    effective (resolve true (Some ((MaxWidth, v) :: t)) no_cli) FnCallWidth = 150 /\
    effective (resolve true (Some t) (inl [(MaxWidth, v)])) FnCallWidth = 100.
Proof. exact source_irrelevant_max_width_witness. Qed.
Print Assumptions source_irrelevant_max_width_refuted.

(* the --config pairs are applied in HashMap iteration order: the same command line has two outcomes *)
Theorem config_order_gap :
  exists l1 l2 : list (opt * N),
    cli_ok (inl l1) = true /\ cli_ok (inl l2) = true /\ (forall x, lookup l1 x = lookup l2 x) /\
    effective (resolve true None (inl l1)) FnCallWidth = 150 /\
    effective (resolve true None (inl l2)) FnCallWidth = 100.
Proof. exact config_order_witness. Qed.
Print Assumptions config_order_gap.

(* on a stable build an unstable option is dropped from the file but accepted from --config *)
Theorem source_irrelevant_stable_channel_gap :
  effective (resolve false (Some [(ImportsGranularity, G_CRATE)]) no_cli) ImportsGranularity = G_PRESERVE /\
  effective (resolve false None (inl [(ImportsGranularity, G_CRATE)])) ImportsGranularity = G_CRATE.
Proof. exact stable_channel_witness. Qed.
Print Assumptions source_irrelevant_stable_channel_gap.

(* "... or from the API": config.set().o(v) and override_value(o, v) give the same effective values.
   Partial: o is not one of the eight widths nor a deprecated alias *)
Theorem source_irrelevant_api_partial : forall o v c x,
  is_width o = false -> o <> MergeImports -> o <> FnArgsLayout -> o <> HideParseErrors ->
  effective (setter o v c) x = effective (override_value o v c) x.
Proof. exact api_same_as_override_lemma. Qed.
Print Assumptions source_irrelevant_api_partial.

(* and override_value on a loaded configuration is one more --config pair applied last *)
Theorem override_is_config_last : forall nightly f o k v,
  k <> StyleEdition -> k <> Version -> k <> Edition ->
  override_value k v (resolve nightly f o) = resolve nightly f (set_inline o (c_inline o ++ [(k, v)])).
Proof. exact override_is_config_last_lemma. Qed.
Print Assumptions override_is_config_last.

(* the API setter does not mark the option as set: a width is reset to its heuristic value, a deprecated alias
   does not reach its successor; `version` reaches style_edition only through load_config *)
Theorem source_irrelevant_api_refuted :
  let d := default_with_style_edition SE2015 in
  effective (setter FnCallWidth 30 d) FnCallWidth = 60 /\
  effective (override_value FnCallWidth 30 d) FnCallWidth = 30 /\
  effective (setter MergeImports 1 d) ImportsGranularity = G_PRESERVE /\
  effective (override_value MergeImports 1 d) ImportsGranularity = G_CRATE /\
  effective (setter Version V_TWO d) StyleEdition = SE2015 /\
  effective (override_value Version V_TWO d) StyleEdition = SE2015 /\
  effective (resolve true None (inl [(Version, V_TWO)])) StyleEdition = SE2024.
Proof. exact api_setter_witness. Qed.
Print Assumptions source_irrelevant_api_refuted.

(* ---------------- widths ---------------- *)

(* a width is marked as set iff it occurs in --config or (accepted) in the file *)
Theorem was_set_iff_given : forall nightly f o x,
  was_set (resolve nightly f o x)
  = mem_opt x (keys (c_inline o)) || is_some (file_view nightly (file_table f) x).
Proof. exact was_set_lemma. Qed.
Print Assumptions was_set_iff_given.

(* an explicitly set width never exceeds max_width (any file, any command line, any order of the --config pairs) *)
Theorem explicit_width_clamped : forall nightly f o w,
  is_width w = true -> was_set (resolve nightly f o w) = true ->
  effective (resolve nightly f o) w <= effective (resolve nightly f o) MaxWidth.
Proof. exact explicit_width_clamped_lemma. Qed.
Print Assumptions explicit_width_clamped.

(* a width that was not set is the heuristic value for the effective use_small_heuristics and max_width *)
Theorem unset_width_heuristic : forall nightly f o w,
  is_width w = true -> was_set (resolve nightly f o w) = false ->
  effective (resolve nightly f o) w
  = heuristic_value (effective (resolve nightly f o) UseSmallHeuristics)
                    (effective (resolve nightly f o) MaxWidth) w.
Proof. exact unset_width_lemma. Qed.
Print Assumptions unset_width_heuristic.

(* use_small_heuristics = Max: every unset width equals max_width *)
Theorem max_heuristics : forall nightly f o w,
  is_width w = true -> was_set (resolve nightly f o w) = false ->
  effective (resolve nightly f o) UseSmallHeuristics = H_MAX ->
  effective (resolve nightly f o) w = effective (resolve nightly f o) MaxWidth.
Proof. exact max_heuristics_lemma. Qed.
Print Assumptions max_heuristics.

(* use_small_heuristics = Default: an unset width is within max_width exactly when max_width is at least the
   width's default (60, 70, 18, 35, 60, 60, 50, 50): the defaults are scaled up above 100 but never down *)
Theorem scaled_le_max_iff : forall nightly f o w,
  is_width w = true -> was_set (resolve nightly f o w) = false ->
  effective (resolve nightly f o) UseSmallHeuristics = H_DEFAULT ->
  (effective (resolve nightly f o) w <= effective (resolve nightly f o) MaxWidth
   <-> default_width w <= effective (resolve nightly f o) MaxWidth).
Proof. exact scaled_le_max_iff_lemma. Qed.
Print Assumptions scaled_le_max_iff.

(* explicit widths: min(value, max_width), --config before file.
   Partial: max_width is not among the --config keys (else see config_order_gap) *)
Theorem width_precedence_partial : forall nightly f o w,
  nodup_opts (keys (c_inline o)) = true -> mem_opt MaxWidth (keys (c_inline o)) = false ->
  is_width w = true ->
  effective (resolve nightly f o) w
  = match view_A nightly o (file_table f) w with
    | Some v => N.min v (effective (resolve nightly f o) MaxWidth)
    | None => heuristic_value (effective (resolve nightly f o) UseSmallHeuristics)
                              (effective (resolve nightly f o) MaxWidth) w
    end.
Proof. exact width_precedence_lemma. Qed.
Print Assumptions width_precedence_partial.

(* "width limits derived from use_small_heuristics never exceed max_width" fails under Default below 70:
   --config max_width=50 leaves fn_call_width = 60 *)
Theorem derived_widths_le_max_refuted :
  exists (f : option (list (opt * N))) (o : cli) (w : opt),
    cli_ok o = true /\ is_width w = true /\
    effective (resolve true f o) UseSmallHeuristics = H_DEFAULT /\
    effective (resolve true f o) MaxWidth = 50 /\ effective (resolve true f o) w = 60.
Proof. exact derived_widths_le_max_witness. Qed.
Print Assumptions derived_widths_le_max_refuted.

(* and under Off: fn_call_width = usize::MAX with max_width = 100 *)
Theorem derived_widths_off_refuted :
  exists (f : option (list (opt * N))) (o : cli) (w : opt),
    cli_ok o = true /\ is_width w = true /\
    effective (resolve true f o) MaxWidth = 100 /\ effective (resolve true f o) w = 18446744073709551615.
Proof. exact derived_widths_off_witness. Qed.
Print Assumptions derived_widths_off_refuted.

(* ---------------- --print-config ---------------- *)

(* "the text printed by --print-config ... re-parses to the same effective configuration", for any configuration c
   whose printing succeeds. Partial: every width of c is at most its max_width, the build accepts the printed
   values from a file, and only for the options that are printed (merge_imports, fn_args_layout,
   hide_parse_errors are not) *)
Theorem print_config_roundtrip_partial : forall nightly c t,
  print_config c = Some t ->
  (forall w, is_width w = true -> val (c w) <= val (c MaxWidth)) ->
  (forall o, hidden o = false -> is_stable_option_and_value nightly o (val (c o)) = true) ->
  forall o, hidden o = false -> effective (reparse nightly t) o = effective c o.
Proof. exact print_config_roundtrip_lemma. Qed.
Print Assumptions print_config_roundtrip_partial.

(* the three options that are not printed come back as their defaults *)
Theorem print_config_hidden_default : forall nightly c t o,
  print_config c = Some t -> hidden o = true ->
  effective (reparse nightly t) o = default SE2015 o.
Proof. exact print_config_hidden_lemma. Qed.
Print Assumptions print_config_hidden_default.

(* --print-config current on a nightly build: holds for every loaded configuration whose heuristics are Max, or
   Default with max_width >= 70, and whose printing succeeds *)
Theorem print_config_current_roundtrip_partial : forall f o t,
  let c := resolve true f o in
  print_config c = Some t ->
  (effective c UseSmallHeuristics = H_MAX \/
   (effective c UseSmallHeuristics = H_DEFAULT /\ 70 <= effective c MaxWidth)) ->
  forall x, hidden x = false -> effective (reparse true t) x = effective c x.
Proof. exact print_config_roundtrip_resolved_lemma. Qed.
Print Assumptions print_config_current_roundtrip_partial.

(* --print-config default: holds, for every option *)
Theorem print_config_default_roundtrip : forall nightly,
  exists t, print_config_default = Some t /\
            forall o, effective (reparse nightly t) o = effective (default_with_style_edition SE2015) o.
Proof. exact print_config_default_roundtrip_lemma. Qed.
Print Assumptions print_config_default_roundtrip.

(* --print-config current with --config max_width=50: prints fn_call_width = 60, which re-parses to 50 *)
Theorem print_config_roundtrip_refuted :
  exists (o : cli) (t : list (opt * N)),
    cli_ok o = true /\ print_config (resolve true None o) = Some t /\ table_ok t = true /\
    effective (resolve true None o) FnCallWidth = 60 /\
    effective (reparse true t) FnCallWidth = 50 /\
    effective (resolve true (Some t) no_cli) FnCallWidth = 50.
Proof. exact print_config_roundtrip_witness. Qed.
Print Assumptions print_config_roundtrip_refuted.

(* --print-config current with use_small_heuristics = Off: nothing is printed (usize::MAX is not a TOML integer) *)
Theorem print_config_off_fails_refuted :
  print_config (resolve true None (inl [(UseSmallHeuristics, H_OFF)])) = None.
Proof. exact print_config_off_witness. Qed.
Print Assumptions print_config_off_fails_refuted.
