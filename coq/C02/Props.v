(* C02/Props.v — C02 (idempotence): the fixed-point theorems about the passes modelled for other properties.
   Idempotence of the whole formatter is not a theorem (it is searched by checks/c02.py); these are its
   mechanisms ("imports are normalised before sorting to maintain idempotence", "blank-line clamping and
   trailing-newline truncation are themselves fixed points"). *)
From V Require Import Base.Text C11.Ord C11.Model C17.Model C17.Lemmas.

(* sorting an already sorted group of declarations changes nothing (stable sort by a total preorder);
   with C11's vs_total_preorder / items_total_preorder this covers reordering of an already ordered group *)
Theorem sort_sorted_id : forall (A : Type) (cmp : A -> A -> comparison) (l : list A),
  SortedBy cmp l -> isort cmp l = l.
Proof. exact @Ord.sorted_isort_id. Qed.
Print Assumptions sort_sorted_id.

(* sorting twice = sorting once *)
Theorem sort_idem : forall (A : Type) (cmp : A -> A -> comparison),
  TotalPreorder cmp -> forall l : list A, isort cmp (isort cmp l) = isort cmp l.
Proof. intros A cmp H l. apply Ord.sorted_isort_id. apply Ord.isort_sorted. exact H. Qed.
Print Assumptions sort_idem.

(* a file_lines selection is normalised to a fixed point *)
Theorem ranges_normalize_idem : forall rs, normalize_ranges (normalize_ranges rs) = normalize_ranges rs.
Proof. exact nr_idem. Qed.
Print Assumptions ranges_normalize_idem.
