(* C02/Props.v — C02 (idempotence): the fixed-point theorems about the passes modelled for other properties.
   Idempotence of the whole formatter is not a theorem (it is searched by checks/c02.py); these are its
   mechanisms ("imports are normalised before sorting to maintain idempotence", "blank-line clamping and
   trailing-newline truncation are themselves fixed points").

   Part 1: sorting and range normalisation (C11, C17).
   Part 2: the import pipeline of C10/Model.v (UseTree::normalize, normalize_use_trees_with_granularity,
   group_imports, sorting) applied to its own output.  Vocabulary (C02/Lemmas.v):
     GtAsym cmp      the one order law the sorts need:  cmp x y = Gt -> cmp y x <> Gt  (cmp15 and every
                     tree_cmp U M have it: Ord for UseTree is antisymmetric)
     self_ok t       no path (without list) of t ends in  self::self  or  self as x::self   (SelfChain)
     nested_ok t     nested trees have a non-empty path and no visibility (true of from_ast results:
                     ast_shape t -> nested_ok t)
     idem_ok t       nested_ok t && self_ok t
     item_ok t       nested trees have no visibility, and idem_ok t if t contains a comment
     mod_plain f     f is a path without list, attributes or comment (it may end in self:  std::io::self  from
                     std::io::{self, Read}) and, if it has a single segment, that segment has no alias
     flat_list ns    the flattened trees that take part in merging (C10)
     nodup_flat l    no two trees of l with the same visibility and path
     passthrough t   t has attributes or contains a comment (never flattened or merged, imports.rs:229)
     step cmp g ts   with_granularity cmp g (map (normalize cmp) ts): what one formatting pass does to a run
                     of use declarations before grouping and sorting (run_granularity of C10/Run.v)
   A second pass is modelled as the same function applied to the trees of the first output (from_ast of
   the printed output is the identity on output trees: not part of the model). *)
From Coq Require Import Permutation.
From V Require Import Base.Text C11.Ord C11.Model C17.Model C17.Lemmas.
From V Require C02.Lemmas.

(* sorting an already sorted group of declarations changes nothing (stable sort by a total preorder);
   with C11's vs_total_preorder / items_total_preorder this covers reordering of an already ordered group *)
Theorem sort_sorted_id : forall (A : Type) (cmp : A -> A -> comparison) (l : list A),
  SortedBy cmp l -> isort cmp l = l.
Proof. exact @Ord.sorted_isort_id. Qed.
Print Assumptions sort_sorted_id.

(* sorting twice = sorting once *)
Theorem sort_idem : forall (A : Type) (cmp : A -> A -> comparison),
  TotalPreorder cmp -> forall l : list A, isort cmp (isort cmp l) = isort cmp l.
Proof. intros A cmp H l. apply Ord.sorted_isort_id. apply Ord.isort_sorted. exact H. Qed.
Print Assumptions sort_idem.

(* a second sort of ANY reordering of a sorted group gives the same group, when no two distinct elements
   compare Equal (C11 sort_unique): the fixed point does not depend on how the output is read back *)
Theorem sort_perm_idem : forall (A : Type) (cmp : A -> A -> comparison),
  TotalPreorder cmp -> forall l l' : list A,
  (forall x y, In x l -> In y l -> cmp x y = Eq -> x = y) ->
  Permutation l' (isort cmp l) -> isort cmp l' = isort cmp l.
Proof. exact V.C02.Lemmas.isort_perm_idem. Qed.
Print Assumptions sort_perm_idem.

(* idempotence does not depend on the sorting algorithm: every stable sort (slice::sort_by) is idempotent *)
Theorem any_stable_sort_idem : forall (A : Type) (cmp : A -> A -> comparison) (srt : list A -> list A),
  TotalPreorder cmp ->
  (forall l, Permutation l (srt l) /\ SortedBy cmp (srt l) /\ StableWrt cmp l (srt l)) ->
  forall l, srt (srt l) = srt l.
Proof. exact V.C02.Lemmas.stable_sort_idem. Qed.
Print Assumptions any_stable_sort_idem.

(* the sorts of reorder.rs are idempotent: names by version_sort *)
Theorem sort_names_idem : forall l, sort_names (sort_names l) = sort_names l.
Proof. exact V.C02.Lemmas.sort_names_idem. Qed.
Print Assumptions sort_names_idem.

(* the same for mod / extern crate declarations, every style edition *)
Theorem sort_items_idem : forall e l, sort_items e (sort_items e l) = sort_items e l.
Proof. exact V.C02.Lemmas.sort_items_idem. Qed.
Print Assumptions sort_items_idem.

(* a file_lines selection is normalised to a fixed point *)
Theorem ranges_normalize_idem : forall rs, normalize_ranges (normalize_ranges rs) = normalize_ranges rs.
Proof. exact nr_idem. Qed.
Print Assumptions ranges_normalize_idem.

(* ------------------------------------------------------------------ *)
(* Part 2: the import pipeline (model of C10).  From here on insert/sort_by/normalize/item are C10's. *)
From V Require Import C10.Model C10.Lemmas C02.Lemmas.

(* Ord for UseTree (style editions <= 2021) is antisymmetric for every char::is_uppercase / is_numeric *)
Theorem use_tree_cmp_antisym : forall (U M : char -> bool) (t1 t2 : tree),
  tree_cmp U M t2 t1 = CompOpp (tree_cmp U M t1 t2).
Proof. exact C02.Lemmas.tree_cmp_antisym. Qed.
Print Assumptions use_tree_cmp_antisym.

(* so the comparator of the pipeline satisfies the order law of the theorems below *)
Theorem cmp15_gt_asym : GtAsym cmp15.
Proof. exact C02.Lemmas.cmp15_asym. Qed.
Print Assumptions cmp15_gt_asym.

(* list.sort() on use trees: sorting twice = sorting once *)
Theorem import_sort_idem : forall (cmp : tree -> tree -> comparison) (l : list tree),
  GtAsym cmp -> sort_by cmp (sort_by cmp l) = sort_by cmp l.
Proof. exact C02.Lemmas.import_sort_idem. Qed.
Print Assumptions import_sort_idem.

(* normalize_idem: UseTree::normalize is a fixed point of itself, outside SelfChain *)
Theorem normalize_idem : forall (cmp : tree -> tree -> comparison) (t : tree),
  GtAsym cmp -> nested_ok t = true -> self_ok t = true ->
  normalize cmp (normalize cmp t) = normalize cmp t.
Proof. exact C02.Lemmas.normalize_idem_thm. Qed.
Print Assumptions normalize_idem.

(* the shape hypothesis holds of every from_ast result *)
Theorem ast_shape_nested_ok : forall t : tree, ast_shape t = true -> nested_ok t = true.
Proof. exact C02.Lemmas.ast_shape_nested_ok. Qed.
Print Assumptions ast_shape_nested_ok.

(* REFUTED without self_ok:  use a::self::self;  ->  use a::self;  ->  use a;
   (imports.rs:568-572 pops one trailing self per call and returns) *)
Theorem normalize_idem_refuted :
  exists t, ast_shape t = true /\ nested_ok t = true /\ self_ok t = false /\
    normalize cmp15 (normalize cmp15 t) <> normalize cmp15 t.
Proof. exact C02.Lemmas.normalize_idem_refuted. Qed.
Print Assumptions normalize_idem_refuted.

(* REFUTED without nested_ok (shapes that from_ast never builds): a nested  self  with a visibility is
   emptied by the first pass and spliced by the second; an empty nested path lets  self::self  form *)
Theorem normalize_idem_nested_refuted :
  (exists t, self_ok t = true /\ no_empty_kid t = true /\ nested_ok t = false /\
     normalize cmp15 (normalize cmp15 t) <> normalize cmp15 t) /\
  (exists t, self_ok t = true /\ novis t = true /\ nested_ok t = false /\
     normalize cmp15 (normalize cmp15 t) <> normalize cmp15 t).
Proof. exact C02.Lemmas.normalize_idem_nested_refuted. Qed.
Print Assumptions normalize_idem_nested_refuted.

(* REFUTED for an arbitrary comparator: with the constant Greater the sort reverses  a::{b, c}  each time *)
Theorem normalize_idem_anycmp_refuted :
  exists cmp t, ast_shape t = true /\ idem_ok t = true /\
    normalize cmp (normalize cmp t) <> normalize cmp t.
Proof. exact C02.Lemmas.normalize_idem_anycmp_refuted. Qed.
Print Assumptions normalize_idem_anycmp_refuted.

(* regroup_idem, Preserve: a second pass over any reordering of the first output changes nothing *)
Theorem regroup_idem_preserve : forall (cmp : tree -> tree -> comparison) (ts O' : list tree),
  GtAsym cmp -> forallb idem_ok ts = true ->
  Permutation O' (step cmp Preserve ts) -> step cmp Preserve O' = O'.
Proof. exact C02.Lemmas.preserve_stable. Qed.
Print Assumptions regroup_idem_preserve.

(* regroup_idem, Item: flatten, nest_trailing_self and unique() reproduce their own output, in any order *)
Theorem regroup_idem_item : forall (cmp : tree -> tree -> comparison) (ts O' : list tree),
  GtAsym cmp -> forallb item_ok ts = true ->
  Permutation O' (step cmp Item ts) -> step cmp Item O' = O'.
Proof. exact C02.Lemmas.item_stable. Qed.
Print Assumptions regroup_idem_item.

(* idem_ok implies item_ok: Item needs self_ok only for trees that contain a comment *)
Theorem idem_ok_item_ok : forall t : tree, idem_ok t = true -> item_ok t = true.
Proof. exact C02.Lemmas.idem_ok_item_ok. Qed.
Print Assumptions idem_ok_item_ok.

(* pipeline_idem, reduction: if the regrouping pass leaves the concatenated output groups unchanged, so
   does the whole pipeline (group_imports and the sorts are fixed points), for every setting *)
Theorem pipeline_idem_from_regroup : forall (cmp : tree -> tree -> comparison) (g : granularity)
                                            (grp reorder : bool) (ts : list tree),
  GtAsym cmp ->
  step cmp g (concat (pipeline cmp g grp reorder ts)) = concat (pipeline cmp g grp reorder ts) ->
  pipeline cmp g grp reorder (concat (pipeline cmp g grp reorder ts)) = pipeline cmp g grp reorder ts.
Proof. exact C02.Lemmas.pipeline_idem_from_regroup. Qed.
Print Assumptions pipeline_idem_from_regroup.

(* pipeline_idem, Preserve *)
Theorem pipeline_idem_preserve : forall (cmp : tree -> tree -> comparison) (grp reorder : bool)
                                        (ts : list tree),
  GtAsym cmp -> forallb idem_ok ts = true ->
  pipeline cmp Preserve grp reorder (concat (pipeline cmp Preserve grp reorder ts)) =
  pipeline cmp Preserve grp reorder ts.
Proof. exact C02.Lemmas.pipeline_idem_preserve. Qed.
Print Assumptions pipeline_idem_preserve.

(* pipeline_idem, Item *)
Theorem pipeline_idem_item : forall (cmp : tree -> tree -> comparison) (grp reorder : bool)
                                    (ts : list tree),
  GtAsym cmp -> forallb item_ok ts = true ->
  pipeline cmp Item grp reorder (concat (pipeline cmp Item grp reorder ts)) =
  pipeline cmp Item grp reorder ts.
Proof. exact C02.Lemmas.pipeline_idem_item. Qed.
Print Assumptions pipeline_idem_item.

(* regroup_idem, Module, PARTIAL: proved when every flattened import is a plain path and none is repeated
   (missing: a sole-self list  use a::{self};  and single-segment aliases  use a as b;  -- no counterexample
   is known there).  The first output is a list of Module normal forms with pairwise different (visibility, module)
   keys, and every reordering of such a list is a fixed point of the next pass *)
Theorem regroup_idem_module_partial : forall (cmp : tree -> tree -> comparison) (ts O' : list tree),
  GtAsym cmp -> forallb idem_ok ts = true ->
  forallb mod_plain (flat_list (map (normalize cmp) ts)) = true ->
  nodup_flat (flat_list (map (normalize cmp) ts)) = true ->
  Permutation O' (step cmp Module ts) -> step cmp Module O' = O'.
Proof. exact C02.Lemmas.regroup_idem_module_partial. Qed.
Print Assumptions regroup_idem_module_partial.

(* pipeline_idem, Module, PARTIAL (same hypotheses), every group_imports / reorder_imports setting *)
Theorem pipeline_idem_module_partial : forall (cmp : tree -> tree -> comparison) (grp reorder : bool)
                                              (ts : list tree),
  GtAsym cmp -> forallb idem_ok ts = true ->
  forallb mod_plain (flat_list (map (normalize cmp) ts)) = true ->
  nodup_flat (flat_list (map (normalize cmp) ts)) = true ->
  pipeline cmp Module grp reorder (concat (pipeline cmp Module grp reorder ts)) =
  pipeline cmp Module grp reorder ts.
Proof. exact C02.Lemmas.pipeline_idem_module_partial. Qed.
Print Assumptions pipeline_idem_module_partial.

(* regroup_idem, Module / Crate / One, PARTIAL: a run in which every declaration has attributes or a
   comment is only normalized (missing: runs with a declaration that is flattened and merged; refuted
   below for Crate and One even on plain distinct paths) *)
Theorem regroup_idem_passthrough : forall (cmp : tree -> tree -> comparison) (g : granularity)
                                          (ts O' : list tree),
  GtAsym cmp -> merging g = true ->
  forallb idem_ok ts = true -> forallb passthrough ts = true ->
  Permutation O' (step cmp g ts) -> step cmp g O' = O'.
Proof. exact C02.Lemmas.pass_stable. Qed.
Print Assumptions regroup_idem_passthrough.

Theorem pipeline_idem_passthrough : forall (cmp : tree -> tree -> comparison) (g : granularity)
                                           (grp reorder : bool) (ts : list tree),
  GtAsym cmp -> merging g = true ->
  forallb idem_ok ts = true -> forallb passthrough ts = true ->
  pipeline cmp g grp reorder (concat (pipeline cmp g grp reorder ts)) = pipeline cmp g grp reorder ts.
Proof. exact C02.Lemmas.pipeline_idem_pass. Qed.
Print Assumptions pipeline_idem_passthrough.

(* REFUTED (SelfChain), Preserve, Crate, One; the regrouping alone (twice_differs) and the whole pipeline
   under every group_imports / reorder_imports setting (pipeline_twice_differs):  use a::self::self; *)
Theorem regroup_idem_selfchain_refuted :
  exists ts, forallb ast_shape ts = true /\
    twice_differs Preserve ts /\ twice_differs GCrate ts /\ twice_differs One ts /\
    pipeline_twice_differs Preserve ts /\ pipeline_twice_differs GCrate ts /\
    pipeline_twice_differs One ts.
Proof. exact C02.Lemmas.regroup_idem_selfchain_refuted. Qed.
Print Assumptions regroup_idem_selfchain_refuted.

(* REFUTED, Item without item_ok:  use a::{b::self::self /* c */, c}; *)
Theorem regroup_idem_item_refuted :
  exists ts, forallb ast_shape ts = true /\ forallb item_ok ts = false /\
    twice_differs Item ts /\ pipeline_twice_differs Item ts.
Proof. exact C02.Lemmas.regroup_idem_item_refuted. Qed.
Print Assumptions regroup_idem_item_refuted.

(* REFUTED, Module, on inputs that satisfy every hypothesis above (DuplicateImport):
   use a::b::c; use a::b::d; use a::b::c;  ->  use a::b::{c, c, d};  ->  use a::b::{c, d}; *)
Theorem regroup_idem_module_refuted :
  exists ts, forallb ast_shape ts = true /\ forallb idem_ok ts = true /\
    BadClass cmp15 Module ts = false /\
    forallb mod_plain (flat_list (map (normalize cmp15) ts)) = true /\
    twice_differs Module ts /\ pipeline_twice_differs Module ts.
Proof. exact C02.Lemmas.regroup_idem_module_refuted. Qed.
Print Assumptions regroup_idem_module_refuted.

(* REFUTED, Crate and One (DuplicateImport through self):
   use b; use b::{self, a};  ->  use b::{self, self, a};  ->  use b::{self, a}; *)
Theorem regroup_idem_crate_refuted :
  exists ts, forallb ast_shape ts = true /\ forallb idem_ok ts = true /\
    BadClass cmp15 GCrate ts = false /\ BadClass cmp15 One ts = false /\
    twice_differs GCrate ts /\ pipeline_twice_differs GCrate ts /\
    twice_differs One ts /\ pipeline_twice_differs One ts.
Proof. exact C02.Lemmas.regroup_idem_crate_refuted. Qed.
Print Assumptions regroup_idem_crate_refuted.

(* REFUTED, Crate, without any duplicate (BareSelf):  use {self, a};  ->  use self; use a;  ->  use a;
   (the flattened  self  is removed by the normalize of the second pass) *)
Theorem regroup_idem_crate_bare_self_refuted :
  exists ts, forallb ast_shape ts = true /\ forallb idem_ok ts = true /\
    BadClass cmp15 GCrate ts = false /\ NoDup (Leaves ts) /\
    twice_differs GCrate ts /\ pipeline_twice_differs GCrate ts.
Proof. exact C02.Lemmas.regroup_idem_crate_bare_self_refuted. Qed.
Print Assumptions regroup_idem_crate_bare_self_refuted.

(* REFUTED, One, on plain distinct paths without self, alias, list or duplicate (MergeOrder):
   use a::b; use a::b::c; use a;  ->  use a::{self, b, b::c};  ->  use a::{self, b::{self, c}}; *)
Theorem regroup_idem_one_refuted :
  exists ts, forallb ast_shape ts = true /\ forallb idem_ok ts = true /\
    forallb noalias ts = true /\ BadClass cmp15 One ts = false /\ NoDup (Leaves ts) /\
    twice_differs One ts /\ pipeline_twice_differs One ts.
Proof. exact C02.Lemmas.regroup_idem_one_refuted. Qed.
Print Assumptions regroup_idem_one_refuted.
