(* C02/Examples.v -- (1) the witnesses of the refuted statements of Props.v, printed as `use`
   declarations through the printer of C10/Run.v (a leading ! on a nested item = the item has
   a comment), with what each pass makes of them; (2) non-vacuity: for every implication of
   Props.v a non-trivial input that meets its hypotheses, and the conclusion recomputed on it. *)
From Coq Require Import String Ascii.
From V Require Import Base.Text C10.Model C10.Lemmas C10.Run C02.Lemmas.
Open Scope string_scope.
Open Scope list_scope.

Fixpoint txt (s : string) : text :=
  match s with EmptyString => [] | String c r => N_of_ascii c :: txt r end.
Fixpoint str (t : text) : string :=
  match t with [] => EmptyString | c :: r => String (ascii_of_N c) (str r) end.
(* a private `use` declaration from its text (parser of C10/Run.v) *)
Definition U (s : string) : tree :=
  match parse (txt s) with
  | Some (Node p k _ _ c) => Node p k (Some 0%N) None c
  | None => Node [] None None None false
  end.
(* the declaration as Rust text *)
Definition render (t : tree) : string :=
  (match vis t with Some 1%N => "pub " | _ => "" end) ++ "use " ++ str (show t) ++ ";".
Definition renders (ts : list tree) : list string := map render ts.
Definition N15 := normalize cmp15.
Definition S15 := step cmp15.
Definition P15 := pipeline cmp15.

(* ------------------------------------------------------------------ *)
(* (1) witnesses *)

(* normalize_idem_refuted / regroup_idem_selfchain_refuted *)
Example w_chain_text : render w_chain = "use a::self::self;".
Proof. vm_compute. reflexivity. Qed.
Example w_chain_passes :
  (render (N15 w_chain), render (N15 (N15 w_chain)), render (N15 (N15 (N15 w_chain))))
  = ("use a::self;", "use a;", "use a;").
Proof. vm_compute. reflexivity. Qed.
Example w_chain_is_U : w_chain = U "a::self::self".
Proof. vm_compute. reflexivity. Qed.
(* Module and Item repair the chain in one pass (nest_trailing_self): they are not in the statement *)
Example w_chain_module_item :
  (renders (S15 Module [w_chain]), renders (S15 Module (S15 Module [w_chain])),
   renders (S15 Item [w_chain]), renders (S15 Item (S15 Item [w_chain])))
  = (["use a::{self};"], ["use a::{self};"], ["use a::{self};"], ["use a::{self};"]).
Proof. vm_compute. reflexivity. Qed.
Example w_chain_crate :
  (renders (S15 GCrate [w_chain]), renders (S15 GCrate (S15 GCrate [w_chain])))
  = (["use a::self;"], ["use a;"]).
Proof. vm_compute. reflexivity. Qed.

(* normalize_idem_nested_refuted: the two shapes from_ast cannot build *)
Example w_kidvis_passes :
  (render w_kidvis, render (N15 w_kidvis), render (N15 (N15 w_kidvis)))
  = ("use a::{self};", "use a::{};", "use a;").
Proof. vm_compute. reflexivity. Qed.
Example w_kidempty_passes :
  (render w_kidempty, render (N15 w_kidempty), render (N15 (N15 w_kidempty)))
  = ("use a::self::{self::{}};", "use a::self;", "use a;").
Proof. vm_compute. reflexivity. Qed.

(* normalize_idem_anycmp_refuted *)
Example w_list_passes :
  (render w_list, render (normalize cmp_gt w_list), render (normalize cmp_gt (normalize cmp_gt w_list)))
  = ("use a::{b, c};", "use a::{c, b};", "use a::{b, c};").
Proof. vm_compute. reflexivity. Qed.

(* regroup_idem_item_refuted *)
Example w_chain_cmt_passes :
  (render w_chain_cmt, renders (S15 Item [w_chain_cmt]), renders (S15 Item (S15 Item [w_chain_cmt])))
  = ("use a::{!b::self::self, c};", ["use a::{!b::self, c};"], ["use a::{!b, c};"]).
Proof. vm_compute. reflexivity. Qed.

(* regroup_idem_module_refuted *)
Example w_dup_module_passes :
  (renders w_dup_module, renders (S15 Module w_dup_module),
   renders (S15 Module (S15 Module w_dup_module)))
  = (["use a::b::c;"; "use a::b::d;"; "use a::b::c;"], ["use a::b::{c, c, d};"], ["use a::b::{c, d};"]).
Proof. vm_compute. reflexivity. Qed.
Example w_dup_module_pipeline :
  (map renders (P15 Module false true w_dup_module),
   map renders (P15 Module false true (concat (P15 Module false true w_dup_module))))
  = ([["use a::b::{c, c, d};"]], [["use a::b::{c, d};"]]).
Proof. vm_compute. reflexivity. Qed.

(* regroup_idem_crate_refuted *)
Example w_dup_crate_passes :
  (renders w_dup_crate, renders (S15 GCrate w_dup_crate), renders (S15 GCrate (S15 GCrate w_dup_crate)),
   renders (S15 One w_dup_crate), renders (S15 One (S15 One w_dup_crate)))
  = (["use b;"; "use b::{self, a};"], ["use b::{self, self, a};"], ["use b::{self, a};"],
     ["use b::{self, self, a};"], ["use b::{self, a};"]).
Proof. vm_compute. reflexivity. Qed.

(* regroup_idem_crate_bare_self_refuted *)
Example w_bare_self_passes :
  (renders w_bare_self, renders (S15 GCrate w_bare_self), renders (S15 GCrate (S15 GCrate w_bare_self)))
  = (["use {self, a};"], ["use self;"; "use a;"], ["use ;"; "use a;"]).
Proof. vm_compute. reflexivity. Qed.
(* the emptied tree is kept in the model (rewrite_reorderable_or_regroupable_items prints nothing for it) *)

(* regroup_idem_one_refuted *)
Example w_order_one_passes :
  (renders w_order_one, renders (S15 One w_order_one), renders (S15 One (S15 One w_order_one)),
   renders (S15 One (S15 One (S15 One w_order_one))))
  = (["use a::b;"; "use a::b::c;"; "use a;"], ["use a::{self, b, b::c};"],
     ["use a::{self, b::{self, c}};"], ["use a::{self, b::{self, c}};"]).
Proof. vm_compute. reflexivity. Qed.
(* Crate keeps  b  and  b::c  apart and is stable on the same input *)
Example w_order_one_crate :
  (renders (S15 GCrate w_order_one), renders (S15 GCrate (S15 GCrate w_order_one)))
  = (["use a::{self, b, b::c};"], ["use a::{self, b, b::c};"]).
Proof. vm_compute. reflexivity. Qed.

(* more inputs of the DuplicateImport class, as observed on the model *)
Example dup_self_list_crate :
  let ts := [U "a::{self, b::{}}"] in
  (renders (S15 GCrate ts), renders (S15 GCrate (S15 GCrate ts)),
   renders (S15 GCrate (S15 GCrate (S15 GCrate ts))))
  = (["use a::{self, self};"], ["use a::self;"], ["use a;"]).
Proof. vm_compute. reflexivity. Qed.
(* use a::{self, self, c};  is stable under every granularity in the model: Preserve and Module keep the
   duplicate, Crate and One remove it in the first pass *)
Example self_self_c :
  let ts := [U "a::{self, self, c}"] in
  map (fun g => (renders (S15 g ts), renders (S15 g (S15 g ts)))) [Preserve; Item; Module; GCrate; One]
  = [(["use a::{self, self, c};"], ["use a::{self, self, c};"]);
     (["use a::{self};"; "use a::c;"], ["use a::{self};"; "use a::c;"]);
     (["use a::{self, self, c};"], ["use a::{self, self, c};"]);
     (["use a::{self, c};"], ["use a::{self, c};"]);
     (["use a::{self, c};"], ["use a::{self, c};"])].
Proof. vm_compute. reflexivity. Qed.

(* ------------------------------------------------------------------ *)
(* (2) non-vacuity *)

(* normalize_idem: a tree on which normalize does all its adjustments (sole list spliced, foo::self,
   self as alias, sorting), meeting nested_ok and self_ok *)
Definition t_norm : tree :=
  U "std::{io::{self, Read}, fmt::{Display as D}, collections::{hash_map::self as hm, BTreeMap}, cell::self}".
Example t_norm_hyps : ast_shape t_norm = true /\ nested_ok t_norm = true /\ self_ok t_norm = true.
Proof. vm_compute. repeat split. Qed.
Example t_norm_once :
  render (N15 t_norm)
  = "use std::{cell, collections::{hash_map as hm, BTreeMap}, fmt::Display as D, io::{self, Read}};".
Proof. vm_compute. reflexivity. Qed.
Example t_norm_changes : N15 t_norm <> t_norm.
Proof. vm_compute. intros H; discriminate H. Qed.
Example t_norm_twice : N15 (N15 t_norm) = N15 t_norm.
Proof. apply normalize_idem; [exact cmp15_asym|vm_compute; reflexivity|vm_compute; reflexivity]. Qed.
(* a path with  self  in the middle or doubled before the end is inside the hypothesis *)
Example t_mid_self :
  self_ok (U "a::self::self::b") = true /\ N15 (N15 (U "a::self::self::b")) = N15 (U "a::self::self::b").
Proof. vm_compute. split; reflexivity. Qed.

(* GtAsym: cmp15 is an instance, and it is not a vacuous order *)
Example cmp15_orders : cmp15 (U "a") (U "b") = Lt /\ cmp15 (U "b") (U "a") = Gt /\ cmp15 (U "a as x") (U "a") = Eq.
Proof. vm_compute. repeat split. Qed.

(* regroup_idem_preserve / pipeline_idem_preserve *)
Definition run1 : list tree :=
  [U "std::io::{self, Read}"; U "crate::x::{b, a}"; U "z::{y}"; U "std::fmt::self"; U "a::self as q"].
Example run1_hyps : forallb ast_shape run1 = true /\ forallb idem_ok run1 = true.
Proof. vm_compute. split; reflexivity. Qed.
Example run1_preserve :
  renders (S15 Preserve run1)
  = ["use std::io::{self, Read};"; "use crate::x::{a, b};"; "use z::y;"; "use std::fmt;"; "use a as q;"].
Proof. vm_compute. reflexivity. Qed.
Example run1_preserve_twice : S15 Preserve (S15 Preserve run1) = S15 Preserve run1.
Proof.
  apply (preserve_stable cmp15 run1); [exact cmp15_asym|vm_compute; reflexivity|apply Permutation.Permutation_refl].
Qed.
Example run1_pipeline :
  map renders (P15 Preserve true true run1)
  = [["use std::fmt;"; "use std::io::{self, Read};"]; ["use a as q;"; "use z::y;"]; ["use crate::x::{a, b};"]].
Proof. vm_compute. reflexivity. Qed.
Example run1_pipeline_twice :
  P15 Preserve true true (concat (P15 Preserve true true run1)) = P15 Preserve true true run1.
Proof. apply pipeline_idem_preserve; [exact cmp15_asym|vm_compute; reflexivity]. Qed.

(* regroup_idem_item / pipeline_idem_item: item_ok is strictly weaker than idem_ok (a self chain
   without comment is repaired by Item), duplicates and trailing self are handled *)
Definition run2 : list tree :=
  [U "a::{b::self::self, c}"; U "std::io::{self, Read}"; U "a::c"; U "a::{!d, e}"].
Example run2_hyps :
  forallb ast_shape run2 = true /\ forallb item_ok run2 = true /\ forallb idem_ok run2 = false.
Proof. vm_compute. repeat split. Qed.
Example run2_item :
  renders (S15 Item run2)
  = ["use a::b::{self};"; "use a::c;"; "use std::io::{self};"; "use std::io::Read;"; "use a::{!d, e};"].
Proof. vm_compute. reflexivity. Qed.
Example run2_item_twice : S15 Item (S15 Item run2) = S15 Item run2.
Proof.
  apply (item_stable cmp15 run2); [exact cmp15_asym|vm_compute; reflexivity|apply Permutation.Permutation_refl].
Qed.
Example run2_pipeline_twice :
  forall grp reorder,
  P15 Item grp reorder (concat (P15 Item grp reorder run2)) = P15 Item grp reorder run2.
Proof. intros grp reorder. apply pipeline_idem_item; [exact cmp15_asym|vm_compute; reflexivity]. Qed.

(* pipeline_idem_from_regroup for a merging granularity: its hypothesis can hold (Crate, groups and sort) *)
Definition run3 : list tree :=
  [U "std::io::Read"; U "a::c"; U "std::io::Write"; U "crate::m::x"; U "a::b::d"; U "std::fmt"].
Example run3_pipeline :
  map renders (P15 GCrate true true run3)
  = [["use std::{fmt, io::{Read, Write}};"]; ["use a::{b::d, c};"]; ["use crate::m::x;"]].
Proof. vm_compute. reflexivity. Qed.
Example run3_regroup_hyp :
  S15 GCrate (concat (P15 GCrate true true run3)) = concat (P15 GCrate true true run3).
Proof. vm_compute. reflexivity. Qed.
Example run3_pipeline_twice :
  P15 GCrate true true (concat (P15 GCrate true true run3)) = P15 GCrate true true run3.
Proof. apply pipeline_idem_from_regroup; [exact cmp15_asym|exact run3_regroup_hyp]. Qed.
