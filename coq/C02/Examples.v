(* C02/Examples.v -- (1) the witnesses of the refuted statements of Props.v, printed as `use`
   declarations through the printer of C10/Run.v (a leading ! on a nested item = the item has
   a comment), with what each pass makes of them; (2) non-vacuity: for every implication of
   Props.v a non-trivial input that meets its hypotheses, and the conclusion recomputed on it. *)
From Coq Require Import String Ascii.
From V Require Import Base.Text C10.Model C10.Lemmas C10.Run C02.Lemmas.
Open Scope string_scope.
Open Scope list_scope.

Fixpoint txt (s : string) : text :=
  match s with EmptyString => [] | String c r => N_of_ascii c :: txt r end.
Fixpoint str (t : text) : string :=
  match t with [] => EmptyString | c :: r => String (ascii_of_N c) (str r) end.
(* a private `use` declaration from its text (parser of C10/Run.v) *)
Definition U (s : string) : tree :=
  match parse (txt s) with
  | Some (Node p k _ _ c) => Node p k (Some 0%N) None c
  | None => Node [] None None None false
  end.
(* the declaration as Rust text *)
Definition render (t : tree) : string :=
  (match vis t with Some 1%N => "pub " | _ => "" end) ++ "use " ++ str (show t) ++ ";".
Definition renders (ts : list tree) : list string := map render ts.
Definition N15 := normalize cmp15.
Definition S15 := step cmp15.
Definition P15 := pipeline cmp15.

(* ------------------------------------------------------------------ *)
(* (1) witnesses *)

(* normalize_idem_refuted / regroup_idem_selfchain_refuted *)
Example w_chain_text : render w_chain = "use a::self::self;".
Proof. vm_compute. reflexivity. Qed.
Example w_chain_passes :
  (render (N15 w_chain), render (N15 (N15 w_chain)), render (N15 (N15 (N15 w_chain))))
  = ("use a::self;", "use a;", "use a;").
Proof. vm_compute. reflexivity. Qed.
Example w_chain_is_U : w_chain = U "a::self::self".
Proof. vm_compute. reflexivity. Qed.
(* Module and Item repair the chain in one pass (nest_trailing_self): they are not in the statement *)
Example w_chain_module_item :
  (renders (S15 Module [w_chain]), renders (S15 Module (S15 Module [w_chain])),
   renders (S15 Item [w_chain]), renders (S15 Item (S15 Item [w_chain])))
  = (["use a::{self};"], ["use a::{self};"], ["use a::{self};"], ["use a::{self};"]).
Proof. vm_compute. reflexivity. Qed.
Example w_chain_crate :
  (renders (S15 GCrate [w_chain]), renders (S15 GCrate (S15 GCrate [w_chain])))
  = (["use a::self;"], ["use a;"]).
Proof. vm_compute. reflexivity. Qed.

(* normalize_idem_nested_refuted: the two shapes from_ast cannot build *)
Example w_kidvis_passes :
  (render w_kidvis, render (N15 w_kidvis), render (N15 (N15 w_kidvis)))
  = ("use a::{self};", "use a::{};", "use a;").
Proof. vm_compute. reflexivity. Qed.
Example w_kidempty_passes :
  (render w_kidempty, render (N15 w_kidempty), render (N15 (N15 w_kidempty)))
  = ("use a::self::{self::{}};", "use a::self;", "use a;").
Proof. vm_compute. reflexivity. Qed.

(* normalize_idem_anycmp_refuted *)
Example w_list_passes :
  (render w_list, render (normalize cmp_gt w_list), render (normalize cmp_gt (normalize cmp_gt w_list)))
  = ("use a::{b, c};", "use a::{c, b};", "use a::{b, c};").
Proof. vm_compute. reflexivity. Qed.

(* regroup_idem_item_refuted *)
Example w_chain_cmt_passes :
  (render w_chain_cmt, renders (S15 Item [w_chain_cmt]), renders (S15 Item (S15 Item [w_chain_cmt])))
  = ("use a::{!b::self::self, c};", ["use a::{!b::self, c};"], ["use a::{!b, c};"]).
Proof. vm_compute. reflexivity. Qed.

(* regroup_idem_module_refuted *)
Example w_dup_module_passes :
  (renders w_dup_module, renders (S15 Module w_dup_module),
   renders (S15 Module (S15 Module w_dup_module)))
  = (["use a::b::c;"; "use a::b::d;"; "use a::b::c;"], ["use a::b::{c, c, d};"], ["use a::b::{c, d};"]).
Proof. vm_compute. reflexivity. Qed.
Example w_dup_module_pipeline :
  (map renders (P15 Module false true w_dup_module),
   map renders (P15 Module false true (concat (P15 Module false true w_dup_module))))
  = ([["use a::b::{c, c, d};"]], [["use a::b::{c, d};"]]).
Proof. vm_compute. reflexivity. Qed.

(* regroup_idem_crate_refuted *)
Example w_dup_crate_passes :
  (renders w_dup_crate, renders (S15 GCrate w_dup_crate), renders (S15 GCrate (S15 GCrate w_dup_crate)),
   renders (S15 One w_dup_crate), renders (S15 One (S15 One w_dup_crate)))
  = (["use b;"; "use b::{self, a};"], ["use b::{self, self, a};"], ["use b::{self, a};"],
     ["use b::{self, self, a};"], ["use b::{self, a};"]).
Proof. vm_compute. reflexivity. Qed.

(* regroup_idem_crate_bare_self_refuted *)
Example w_bare_self_passes :
  (renders w_bare_self, renders (S15 GCrate w_bare_self), renders (S15 GCrate (S15 GCrate w_bare_self)))
  = (["use {self, a};"], ["use self;"; "use a;"], ["use ;"; "use a;"]).
Proof. vm_compute. reflexivity. Qed.
(* the emptied tree is kept in the model (rewrite_reorderable_or_regroupable_items prints nothing for it) *)

(* regroup_idem_one_refuted *)
Example w_order_one_passes :
  (renders w_order_one, renders (S15 One w_order_one), renders (S15 One (S15 One w_order_one)),
   renders (S15 One (S15 One (S15 One w_order_one))))
  = (["use a::b;"; "use a::b::c;"; "use a;"], ["use a::{self, b, b::c};"],
     ["use a::{self, b::{self, c}};"], ["use a::{self, b::{self, c}};"]).
Proof. vm_compute. reflexivity. Qed.
(* Crate keeps  b  and  b::c  apart and is stable on the same input *)
Example w_order_one_crate :
  (renders (S15 GCrate w_order_one), renders (S15 GCrate (S15 GCrate w_order_one)))
  = (["use a::{self, b, b::c};"], ["use a::{self, b, b::c};"]).
Proof. vm_compute. reflexivity. Qed.

(* more inputs of the DuplicateImport class, as observed on the model *)
Example dup_self_list_crate :
  let ts := [U "a::{self, b::{}}"] in
  (renders (S15 GCrate ts), renders (S15 GCrate (S15 GCrate ts)),
   renders (S15 GCrate (S15 GCrate (S15 GCrate ts))))
  = (["use a::{self, self};"], ["use a::self;"], ["use a;"]).
Proof. vm_compute. reflexivity. Qed.
(* use a::{self, self, c};  is stable under every granularity in the model: Preserve and Module keep the
   duplicate, Crate and One remove it in the first pass *)
Example self_self_c :
  let ts := [U "a::{self, self, c}"] in
  map (fun g => (renders (S15 g ts), renders (S15 g (S15 g ts)))) [Preserve; Item; Module; GCrate; One]
  = [(["use a::{self, self, c};"], ["use a::{self, self, c};"]);
     (["use a::{self};"; "use a::c;"], ["use a::{self};"; "use a::c;"]);
     (["use a::{self, self, c};"], ["use a::{self, self, c};"]);
     (["use a::{self, c};"], ["use a::{self, c};"]);
     (["use a::{self, c};"], ["use a::{self, c};"])].
Proof. vm_compute. reflexivity. Qed.

(* ------------------------------------------------------------------ *)
(* (2) non-vacuity *)

(* normalize_idem: a tree on which normalize does all its adjustments (sole list spliced, foo::self,
   self as alias, sorting), meeting nested_ok and self_ok *)
Definition t_norm : tree :=
  U "std::{io::{self, Read}, fmt::{Display as D}, collections::{hash_map::self as hm, BTreeMap}, cell::self}".
Example t_norm_hyps : ast_shape t_norm = true /\ nested_ok t_norm = true /\ self_ok t_norm = true.
Proof. vm_compute. repeat split. Qed.
Example t_norm_once :
  render (N15 t_norm)
  = "use std::{cell, collections::{hash_map as hm, BTreeMap}, fmt::Display as D, io::{self, Read}};".
Proof. vm_compute. reflexivity. Qed.
Example t_norm_changes : N15 t_norm <> t_norm.
Proof. vm_compute. intros H; discriminate H. Qed.
Example t_norm_twice : N15 (N15 t_norm) = N15 t_norm.
Proof. apply normalize_idem; [exact cmp15_asym|vm_compute; reflexivity|vm_compute; reflexivity]. Qed.
(* a path with  self  in the middle or doubled before the end is inside the hypothesis *)
Example t_mid_self :
  self_ok (U "a::self::self::b") = true /\ N15 (N15 (U "a::self::self::b")) = N15 (U "a::self::self::b").
Proof. vm_compute. split; reflexivity. Qed.

(* GtAsym: cmp15 is an instance, and it is not a vacuous order *)
Example cmp15_orders : cmp15 (U "a") (U "b") = Lt /\ cmp15 (U "b") (U "a") = Gt /\ cmp15 (U "a as x") (U "a") = Eq.
Proof. vm_compute. repeat split. Qed.

(* regroup_idem_preserve / pipeline_idem_preserve *)
Definition run1 : list tree :=
  [U "std::io::{self, Read}"; U "crate::x::{b, a}"; U "z::{y}"; U "std::fmt::self"; U "a::self as q"].
Example run1_hyps : forallb ast_shape run1 = true /\ forallb idem_ok run1 = true.
Proof. vm_compute. split; reflexivity. Qed.
Example run1_preserve :
  renders (S15 Preserve run1)
  = ["use std::io::{self, Read};"; "use crate::x::{a, b};"; "use z::y;"; "use std::fmt;"; "use a as q;"].
Proof. vm_compute. reflexivity. Qed.
Example run1_preserve_twice : S15 Preserve (S15 Preserve run1) = S15 Preserve run1.
Proof.
  apply (preserve_stable cmp15 run1); [exact cmp15_asym|vm_compute; reflexivity|apply Permutation.Permutation_refl].
Qed.
Example run1_pipeline :
  map renders (P15 Preserve true true run1)
  = [["use std::fmt;"; "use std::io::{self, Read};"]; ["use a as q;"; "use z::y;"]; ["use crate::x::{a, b};"]].
Proof. vm_compute. reflexivity. Qed.
Example run1_pipeline_twice :
  P15 Preserve true true (concat (P15 Preserve true true run1)) = P15 Preserve true true run1.
Proof. apply pipeline_idem_preserve; [exact cmp15_asym|vm_compute; reflexivity]. Qed.

(* regroup_idem_item / pipeline_idem_item: item_ok is strictly weaker than idem_ok (a self chain
   without comment is repaired by Item), duplicates and trailing self are handled *)
Definition run2 : list tree :=
  [U "a::{b::self::self, c}"; U "std::io::{self, Read}"; U "a::c"; U "a::{!d, e}"].
Example run2_hyps :
  forallb ast_shape run2 = true /\ forallb item_ok run2 = true /\ forallb idem_ok run2 = false.
Proof. vm_compute. repeat split. Qed.
Example run2_item :
  renders (S15 Item run2)
  = ["use a::b::{self};"; "use a::c;"; "use std::io::{self};"; "use std::io::Read;"; "use a::{!d, e};"].
Proof. vm_compute. reflexivity. Qed.
Example run2_item_twice : S15 Item (S15 Item run2) = S15 Item run2.
Proof.
  apply (item_stable cmp15 run2); [exact cmp15_asym|vm_compute; reflexivity|apply Permutation.Permutation_refl].
Qed.
Example run2_pipeline_twice :
  forall grp reorder,
  P15 Item grp reorder (concat (P15 Item grp reorder run2)) = P15 Item grp reorder run2.
Proof. intros grp reorder. apply pipeline_idem_item; [exact cmp15_asym|vm_compute; reflexivity]. Qed.

(* pipeline_idem_from_regroup for a merging granularity: its hypothesis can hold (Crate, groups and sort) *)
Definition run3 : list tree :=
  [U "std::io::Read"; U "a::c"; U "std::io::Write"; U "crate::m::x"; U "a::b::d"; U "std::fmt"].
Example run3_pipeline :
  map renders (P15 GCrate true true run3)
  = [["use std::{fmt, io::{Read, Write}};"]; ["use a::{b::d, c};"]; ["use crate::m::x;"]].
Proof. vm_compute. reflexivity. Qed.
Example run3_regroup_hyp :
  S15 GCrate (concat (P15 GCrate true true run3)) = concat (P15 GCrate true true run3).
Proof. vm_compute. reflexivity. Qed.
Example run3_pipeline_twice :
  P15 GCrate true true (concat (P15 GCrate true true run3)) = P15 GCrate true true run3.
Proof. apply pipeline_idem_from_regroup; [exact cmp15_asym|exact run3_regroup_hyp]. Qed.

(* regroup_idem_module_partial / pipeline_idem_module_partial: plain flattened imports without
   repetition; lists in the input, self in a list (std::io::{self, Read}), an alias after a module
   path, a pub declaration, a declaration with attributes (#[..] use a::b::h;) and one with a nested
   comment are inside the hypotheses *)
Definition UV (v : N) (a : option N) (s : string) : tree :=
  match U s with Node p k _ _ c => Node p k (Some v) a c end.
Definition run4 : list tree :=
  [U "std::io::{self, Read}"; U "a::b::c"; U "std::{io::Write, fmt}"; U "x"; U "a::b::{self, d}";
   U "a::e as f"; UV 1 None "a::b::g"; UV 0 (Some 3%N) "a::b::h"; U "a::{b::{k}}"; U "a::{!b::m, n}";
   U "y"; U "{self, z::w}"].
Example run4_hyps :
  forallb ast_shape run4 = true /\ forallb idem_ok run4 = true /\
  forallb mod_plain (flat_list (map N15 run4)) = true /\ nodup_flat (flat_list (map N15 run4)) = true.
Proof. vm_compute. repeat split. Qed.
Example run4_module :
  renders (S15 Module run4)
  = ["use std::io::{self, Read, Write};"; "use a::b::{self, c, d, k};"; "use std::fmt;"; "use {self, x, y};";
     "use a::e as f;"; "pub use a::b::g;"; "use a::b::h;"; "use a::{!b::m, n};"; "use z::w;"].
Proof. vm_compute. reflexivity. Qed.
Example run4_module_twice : S15 Module (S15 Module run4) = S15 Module run4.
Proof.
  apply (regroup_idem_module_partial cmp15 run4);
    first [exact cmp15_asym|apply Permutation.Permutation_refl|vm_compute; reflexivity].
Qed.
Example run4_pipeline :
  map renders (P15 Module true true run4)
  = [["use std::fmt;"; "use std::io::{self, Read, Write};"];
     ["pub use a::b::g;"; "use a::b::h;"; "use a::b::{self, c, d, k};"; "use a::e as f;";
      "use a::{!b::m, n};"; "use z::w;"; "use {self, x, y};"]].
Proof. vm_compute. reflexivity. Qed.
Example run4_pipeline_twice :
  forall grp reorder,
  P15 Module grp reorder (concat (P15 Module grp reorder run4)) = P15 Module grp reorder run4.
Proof.
  intros grp reorder. apply pipeline_idem_module_partial;
    first [exact cmp15_asym|vm_compute; reflexivity].
Qed.
(* the Module witness meets mod_plain: only nodup_flat fails on it *)
Example w_dup_module_hyps :
  forallb mod_plain (flat_list (map N15 w_dup_module)) = true /\
  nodup_flat (flat_list (map N15 w_dup_module)) = false.
Proof. exact dup_module_plain. Qed.
(* what mod_plain excludes: a sole {self} list and a single-segment alias; the model is still stable on
   them (observed, no theorem) *)
Example mod_plain_excludes :
  map (fun t => (render t, mod_plain t)) (flat_list (map N15 [U "a::{self}"; U "z as w"; U "a::{self, b}"]))
  = [("use a::{self};", false); ("use z as w;", false); ("use a::self;", true); ("use a::b;", true)].
Proof. vm_compute. reflexivity. Qed.
Example module_self_observed :
  let ts := [U "a::{self}"; U "a::x"; U "z as w"; U "z"; U "b::y"; U "b::{self}"] in
  (renders (S15 Module ts), renders (S15 Module (S15 Module ts)))
  = (["use a::{self, x};"; "use z as w;"; "use b::{y, {self}};"],
     ["use a::{self, x};"; "use z as w;"; "use b::{y, {self}};"]).
Proof. vm_compute. reflexivity. Qed.

(* regroup_idem_passthrough / pipeline_idem_passthrough: #[..] use a::{c, b::self};  use a::{/*c*/ d, e};
   #[..] pub use a::f;  use a::g; /*c*/  -- nothing is merged under Module, Crate, One *)
Definition run5 : list tree :=
  [UV 0 (Some 1%N) "a::{c, b::self}"; U "a::{!d, e}"; UV 1 (Some 2%N) "a::f"; U "!a::g"].
Example run5_hyps :
  forallb ast_shape run5 = true /\ forallb idem_ok run5 = true /\ forallb passthrough run5 = true.
Proof. vm_compute. repeat split. Qed.
Example run5_steps :
  map (fun g => renders (S15 g run5)) [Module; GCrate; One]
  = [["use a::{b, c};"; "use a::{!d, e};"; "pub use a::f;"; "use a::g;"];
     ["use a::{b, c};"; "use a::{!d, e};"; "pub use a::f;"; "use a::g;"];
     ["use a::{b, c};"; "use a::{!d, e};"; "pub use a::f;"; "use a::g;"]].
Proof. vm_compute. reflexivity. Qed.
Example run5_twice :
  forall g grp reorder, merging g = true ->
  P15 g grp reorder (concat (P15 g grp reorder run5)) = P15 g grp reorder run5.
Proof.
  intros g grp reorder Hg. apply pipeline_idem_pass;
    first [exact cmp15_asym|exact Hg|vm_compute; reflexivity].
Qed.

(* Part 1 corollaries: a stable sort other than insertion sort (here: isort itself given as a black box)
   and the reordering statement on a concrete list *)
Example sort_perm_idem_instance :
  V.C11.Ord.isort N.compare [3; 1; 2]%N = [1; 2; 3]%N /\
  V.C11.Ord.isort N.compare [2; 3; 1]%N = V.C11.Ord.isort N.compare [3; 1; 2]%N.
Proof. vm_compute. split; reflexivity. Qed.
(* any_stable_sort_idem: its hypothesis is met by a sort given only through its three properties *)
Example stable_sort_instance :
  forall l : list N, V.C11.Ord.isort N.compare (V.C11.Ord.isort N.compare l) = V.C11.Ord.isort N.compare l.
Proof.
  apply (stable_sort_idem N N.compare (V.C11.Ord.isort N.compare) V.C11.Ord.N_compare_tp).
  intros l. split; [apply V.C11.Ord.isort_perm|]. split.
  - apply V.C11.Ord.isort_sorted. exact V.C11.Ord.N_compare_tp.
  - apply V.C11.Ord.isort_stable. exact V.C11.Ord.N_compare_tp.
Qed.
(* sort_perm_idem on a reordering of the sorted output *)
Example sort_perm_instance :
  V.C11.Ord.isort N.compare [2; 3; 1]%N = V.C11.Ord.isort N.compare [3; 1; 2]%N.
Proof.
  apply (isort_perm_idem N N.compare V.C11.Ord.N_compare_tp [3; 1; 2]%N [2; 3; 1]%N).
  - intros x y _ _ H. apply N.compare_eq_iff. exact H.
  - vm_compute. apply Permutation.Permutation_sym.
    apply (Permutation.Permutation_cons_append [2; 3]%N 1%N).
Qed.
