(* C02/Lemmas.v -- idempotence of the import pipeline modelled in C10/Model.v:
   UseTree::normalize, normalize_use_trees_with_granularity after normalize, and the
   whole rewrite_reorderable_or_regroupable_items pipeline applied to its own output.
   Definitions of the hypotheses (decidable, on the input) and all proofs. *)
From V Require Import Base.Text C10.Model C10.Lemmas.
From Coq Require Import Permutation Sorted.
Local Open Scope nat_scope.
Local Open Scope list_scope.

(* ------------------------------------------------------------------ *)
(* 1. the stable insertion sort of C10 on an already sorted list.
   The only order law needed: Greater is asymmetric. *)
Definition GtAsym {A : Type} (cmp : A -> A -> comparison) : Prop :=
  forall x y, cmp x y = Gt -> cmp y x <> Gt.
Definition le_by {A : Type} (cmp : A -> A -> comparison) (x y : A) : Prop := cmp x y <> Gt.

Section SortIdem.
Variable A : Type.
Variable cmp : A -> A -> comparison.

Lemma insert_hd x l : HdRel (le_by cmp) x l -> insert cmp x l = x :: l.
Proof.
  intros H. destruct l as [|y r]; [reflexivity|].
  inversion H as [|? ? Hxy]; subst. cbn [insert]. unfold le_by in Hxy.
  destruct (cmp x y); try reflexivity. congruence.
Qed.

Lemma sorted_sort_id l : Sorted (le_by cmp) l -> sort_by cmp l = l.
Proof.
  induction 1 as [|x l Hs IH Hd]; [reflexivity|].
  cbn [sort_by fold_right]. fold (sort_by cmp l). rewrite IH. apply insert_hd; assumption.
Qed.

Hypothesis asym : GtAsym cmp.

Lemma insert_sorted x l : Sorted (le_by cmp) l -> Sorted (le_by cmp) (insert cmp x l).
Proof.
  induction 1 as [|y r Hs IH Hd]; cbn [insert].
  - repeat constructor.
  - destruct (cmp x y) eqn:E.
    + constructor; [constructor; assumption|constructor; unfold le_by; congruence].
    + constructor; [constructor; assumption|constructor; unfold le_by; congruence].
    + constructor; [exact IH|].
      destruct r as [|z r']; cbn [insert].
      * constructor. apply asym; exact E.
      * inversion Hd as [|? ? Hyz]; subst.
        destruct (cmp x z); constructor; try assumption; apply asym; exact E.
Qed.

Lemma sort_by_sorted l : Sorted (le_by cmp) (sort_by cmp l).
Proof.
  induction l as [|x r IH]; cbn [sort_by fold_right]; [constructor|].
  fold (sort_by cmp r). apply insert_sorted; exact IH.
Qed.

Lemma sort_by_idem l : sort_by cmp (sort_by cmp l) = sort_by cmp l.
Proof. apply sorted_sort_id, sort_by_sorted. Qed.
End SortIdem.

Lemma sort_by_length {A} (cmp : A -> A -> comparison) l : length (sort_by cmp l) = length l.
Proof. apply Permutation_length, sort_perm. Qed.

(* ------------------------------------------------------------------ *)
(* 2. Ord for UseTree (style editions <= 2021) is antisymmetric, for every
   char::is_uppercase / char::is_numeric *)
Lemma text_cmp_antisym a : forall b, text_cmp b a = CompOpp (text_cmp a b).
Proof.
  induction a as [|x a IH]; intros [|y b]; cbn [text_cmp]; try reflexivity.
  rewrite (N.compare_antisym x y). destruct (N.compare x y); cbn [CompOpp]; auto.
Qed.

Lemma oname_cmp_antisym a b : oname_cmp b a = CompOpp (oname_cmp a b).
Proof. destruct a, b; cbn [oname_cmp CompOpp]; try reflexivity. apply text_cmp_antisym. Qed.

Section OrdAntisym.
Variable U : char -> bool.
Variable M : char -> bool.

Lemma ident_cmp_antisym a b : ident_cmp U M b a = CompOpp (ident_cmp U M a b).
Proof.
  unfold ident_cmp.
  destruct (starts_upper U a), (starts_upper U b),
           (is_upper_snake_case U M a), (is_upper_snake_case U M b);
    cbn [andb negb CompOpp]; try reflexivity; apply text_cmp_antisym.
Qed.

Lemma sseg_cmp_antisym x y : sseg_cmp U M y x = CompOpp (sseg_cmp U M x y).
Proof.
  destruct x as [n1 a1|a1|a1|a1|], y as [n2 a2|a2|a2|a2|]; cbn [sseg_cmp];
    try reflexivity; try apply oname_cmp_antisym.
  rewrite (ident_cmp_antisym n1 n2).
  destruct (ident_cmp U M n1 n2); cbn [CompOpp]; try reflexivity.
  destruct a1, a2; cbn [CompOpp]; try reflexivity. apply text_cmp_antisym.
Qed.

Definition swap_res (r : comparison + (list sseg * list sseg))
  : comparison + (list sseg * list sseg) :=
  match r with inl o => inl (CompOpp o) | inr (a, b) => inr (b, a) end.

Lemma pre_cmp_antisym p1 : forall p2, pre_cmp U M p2 p1 = swap_res (pre_cmp U M p1 p2).
Proof.
  induction p1 as [|x r1 IH]; intros [|y r2]; cbn [pre_cmp swap_res]; try reflexivity.
  rewrite (sseg_cmp_antisym x y), (sseg_cmp_antisym (remove_alias x) (remove_alias y)).
  destruct (sseg_cmp U M x y), (sseg_cmp U M (remove_alias x) (remove_alias y));
    cbn [CompOpp swap_res]; try apply IH; reflexivity.
Qed.

Lemma pre_cmp_inr p1 : forall p2 a b, pre_cmp U M p1 p2 = inr (a, b) -> a = [] \/ b = [].
Proof.
  induction p1 as [|x r1 IH]; intros [|y r2] a b; cbn [pre_cmp]; intros H;
    try (inversion H; subst; auto; fail).
  destruct (sseg_cmp U M x y), (sseg_cmp U M (remove_alias x) (remove_alias y));
    try discriminate; eapply IH; eassumption.
Qed.

Fixpoint lex_cmp (f : tree -> tree -> comparison) (a b : list tree) : comparison :=
  match a, b with
  | [], [] => Eq
  | [], _ :: _ => Lt
  | _ :: _, [] => Gt
  | x :: a', y :: b' => match f x y with Eq => lex_cmp f a' b' | o => o end
  end.

Lemma tree_cmp_unfold p1 k1 v1 a1 c1 p2 k2 v2 a2 c2 :
  tree_cmp U M (Node p1 k1 v1 a1 c1) (Node p2 k2 v2 a2 c2) =
  match pre_cmp U M p1 p2 with
  | inl o => o
  | inr ([], []) =>
      match k1, k2 with
      | None, None => Eq
      | Some _, None => Gt
      | None, Some _ => Lt
      | Some l1, Some l2 => lex_cmp (tree_cmp U M) l1 l2
      end
  | inr ([], _ :: _) => match k1 with Some _ => Gt | None => Lt end
  | inr (_ :: _, _) => match k2 with Some _ => Lt | None => Gt end
  end.
Proof.
  cbn [tree_cmp]. destruct (pre_cmp U M p1 p2) as [o|[[|s1 q1] [|s2 q2]]]; try reflexivity.
  destruct k1 as [l1|], k2 as [l2|]; try reflexivity.
  revert l2. induction l1 as [|x r IH]; intros [|y l2]; cbn [lex_cmp]; try reflexivity.
  rewrite IH. reflexivity.
Qed.

Lemma lex_cmp_antisym f l1 :
  Forall (fun x => forall y, f y x = CompOpp (f x y)) l1 ->
  forall l2, lex_cmp f l2 l1 = CompOpp (lex_cmp f l1 l2).
Proof.
  induction 1 as [|x r Hx _ IH]; intros [|y l2]; cbn [lex_cmp CompOpp]; try reflexivity.
  rewrite (Hx y). destruct (f x y); cbn [CompOpp]; auto.
Qed.

Lemma tree_cmp_antisym t1 : forall t2, tree_cmp U M t2 t1 = CompOpp (tree_cmp U M t1 t2).
Proof.
  induction t1 as [p v a c|p l v a c IH] using tree_ind'; intros [p2 k2 v2 a2 c2];
    rewrite !tree_cmp_unfold, (pre_cmp_antisym p p2);
    destruct (pre_cmp U M p p2) as [o|[q1 q2]] eqn:E; cbn [swap_res]; try reflexivity.
  - destruct (pre_cmp_inr _ _ _ _ E) as [->| ->].
    + destruct q2; destruct k2; reflexivity.
    + destruct q1; destruct k2; reflexivity.
  - destruct (pre_cmp_inr _ _ _ _ E) as [->| ->].
    + destruct q2; destruct k2 as [l2|]; try reflexivity. apply lex_cmp_antisym; exact IH.
    + destruct q1; destruct k2 as [l2|]; try reflexivity. apply lex_cmp_antisym; exact IH.
Qed.

Lemma tree_cmp_asym : GtAsym (tree_cmp U M).
Proof. intros x y H. rewrite tree_cmp_antisym, H. discriminate. Qed.
End OrdAntisym.

Lemma cmp15_asym : GtAsym cmp15.
Proof. apply tree_cmp_asym. Qed.

(* the comparator that always answers Greater: the insertion sort reverses *)
Definition cmp_gt (_ _ : tree) : comparison := Gt.

(* ------------------------------------------------------------------ *)
(* 3. UseTree::normalize is idempotent *)

(* a path that ends in  self::self  or  self as x::self : normalize pops one
   segment per pass (imports.rs:568-572 returns without looking at the new last
   segment) *)
Definition self_tail (p : list sseg) : bool :=
  match rev p with Slf None :: Slf _ :: _ => true | _ => false end.
(* SelfChain: some path without list ends like that *)
Fixpoint self_ok (t : tree) : bool :=
  match t with
  | Node p None _ _ _ => negb (self_tail p)
  | Node _ (Some l) _ _ _ => forallb self_ok l
  end.
(* nested trees as from_ast builds them (imports.rs:497): a non-empty path and no
   visibility; weaker than wf_kid (attributes are not restricted) *)
Fixpoint nested_ok (t : tree) : bool :=
  match t with
  | Node _ None _ _ _ => true
  | Node _ (Some l) _ _ _ =>
      forallb (fun x => negb (path_is_empty x) && negb (is_some (vis x)) && nested_ok x) l
  end.
Definition ends_slf (p : list sseg) : bool :=
  match rev p with Slf _ :: _ => true | _ => false end.

Lemma wf_kid_nested_ok t : wf_kid t = true -> nested_ok t = true.
Proof.
  induction t as [p v a c|p l v a c IH] using tree_ind'; intros H; [reflexivity|].
  cbn [wf_kid] in H. rewrite !andb_true_iff in H. destruct H as [_ H].
  cbn [nested_ok]. rewrite forallb_forall in *. rewrite Forall_forall in IH.
  intros x Hx. pose proof (H x Hx) as Hw.
  destruct (wf_kid_inv x Hw) as [Hv [_ [Hne _]]].
  rewrite Hne, Hv, (IH x Hx Hw). reflexivity.
Qed.
Lemma ast_shape_nested_ok t : ast_shape t = true -> nested_ok t = true.
Proof.
  destruct t as [p [l|] v a c]; [|reflexivity].
  unfold ast_shape. cbn [kids]. rewrite !andb_true_iff. intros [_ H].
  cbn [nested_ok]. rewrite forallb_forall in *. intros x Hx. pose proof (H x Hx) as Hw.
  destruct (wf_kid_inv x Hw) as [Hv [_ [Hne _]]].
  rewrite Hne, Hv, (wf_kid_nested_ok x Hw). reflexivity.
Qed.

Lemma rev_nil_inv {A} (p : list A) : rev p = [] -> p = [].
Proof. intros H. apply (f_equal (@rev A)) in H. rewrite rev_involutive in H. exact H. Qed.

Lemma norm_simple_stable p v a c :
  self_tail p = false ->
  exists q, norm_simple p v a c = Node q None v a c /\ norm_simple q v a c = Node q None v a c.
Proof.
  intros Hst. unfold self_tail in Hst.
  assert (Hsame :
            norm_simple p v a c = Node p None v a c ->
            exists q, norm_simple p v a c = Node q None v a c /\
                      norm_simple q v a c = Node q None v a c).
  { intros H. exists p. split; exact H. }
  destruct (rev p) as [|last rq] eqn:E.
  { apply Hsame. unfold norm_simple. rewrite E. reflexivity. }
  destruct last as [n al|[r|]|al|al|].
  - (* Ident *) apply Hsame. unfold norm_simple. rewrite E.
    rewrite andb_false_r. reflexivity.
  - (* self as r *)
    destruct rq as [|[n [al|]|al|al|al|] rq'];
      try (apply Hsame; unfold norm_simple; rewrite E, andb_false_r; reflexivity).
    exists (rev rq' ++ [Ident n (Some r)]). split.
    + unfold norm_simple. rewrite E, andb_false_r. reflexivity.
    + unfold norm_simple. rewrite rev_app_distr, rev_involutive. cbn [rev app].
      rewrite andb_false_r. reflexivity.
  - (* self *)
    destruct rq as [|x rq'].
    + (* the path is  self  alone *)
      destruct (negb (is_some a) && match v with Some _ => true | None => false end) eqn:C.
      * exists []. split.
        -- unfold norm_simple. rewrite E.
           replace (negb (is_some a) && match Slf None, @nil sseg, v with
                                         | Slf None, [], Some _ => true | _, _, _ => false end)
             with true by (destruct v; symmetry; exact C).
           reflexivity.
        -- reflexivity.
      * apply Hsame. unfold norm_simple. rewrite E.
        replace (negb (is_some a) && match Slf None, @nil sseg, v with
                                      | Slf None, [], Some _ => true | _, _, _ => false end)
          with false by (destruct v; symmetry; exact C).
        reflexivity.
    + exists (rev (x :: rq')). split.
      * unfold norm_simple. rewrite E. rewrite andb_false_r. reflexivity.
      * unfold norm_simple. rewrite rev_involutive.
        destruct x as [n al|al|al|al|]; try discriminate;
          try (rewrite andb_false_r; reflexivity).
  - apply Hsame. unfold norm_simple. rewrite E, andb_false_r. reflexivity.
  - apply Hsame. unfold norm_simple. rewrite E, andb_false_r. reflexivity.
  - apply Hsame. unfold norm_simple. rewrite E, andb_false_r. reflexivity.
Qed.

Lemma self_tail_app acc p k v a c :
  self_ok (Node p None v a c) = true ->
  (ends_slf acc = true ->
   is_self_string (Node p k v a c) = false /\ path_is_empty (Node p None v a c) = false) ->
  k = None ->
  self_tail (acc ++ p) = false.
Proof.
  intros Hs Hacc ->. cbn [self_ok] in Hs. rewrite negb_true_iff in Hs.
  unfold self_tail, ends_slf in *. rewrite rev_app_distr.
  destruct (rev p) as [|x [|y r]] eqn:E.
  - apply rev_nil_inv in E. subst p. cbn [app].
    destruct (rev acc) as [|[n al|al|al|al|] ra]; try reflexivity.
    destruct (Hacc eq_refl) as [_ H]. discriminate.
  - cbn [app].
    destruct x as [n al|[al|]|al|al|]; try reflexivity.
    destruct (rev acc) as [|[n al|al|al|al|] ra]; try reflexivity.
    destruct (Hacc eq_refl) as [H _].
    assert (p = [Slf None]) as ->.
    { apply (f_equal (@rev sseg)) in E. rewrite rev_involutive in E. exact E. }
    discriminate.
  - cbn [app]. exact Hs.
Qed.

Section NormIdem.
Variable cmp : tree -> tree -> comparison.
Hypothesis asym : GtAsym cmp.

Definition nrm (k : tree) : tree := norm cmp [] (vis k) (attrs k) (cmt k) k.

Lemma norm_cmt t : forall acc v a c, cmt (norm cmp acc v a c t) = c.
Proof.
  induction t as [p v0 a0 c0|p l v0 a0 c0 IH] using tree_ind'; intros acc v a c.
  - cbn [norm kids pre]. unfold norm_simple.
    destruct (rev (acc ++ p)) as [|last rq]; [reflexivity|].
    destruct (negb (is_some a) && _); [reflexivity|].
    destruct last as [n al|[b|]|al|al|]; try reflexivity.
    + destruct rq as [|[n [al|]|al|al|al|] rq']; reflexivity.
    + destruct rq; reflexivity.
  - cbn [norm kids pre]. destruct l as [|k [|k2 r]].
    + destruct (is_some a); reflexivity.
    + destruct (negb (is_self_string k) && negb (has_comment k)).
      * inversion IH as [|? ? Hk _]; subst. apply Hk.
      * reflexivity.
    + reflexivity.
Qed.

Lemma norm_list_ge2 acc v a c p l v0 a0 c0 :
  2 <= length l ->
  norm cmp acc v a c (Node p (Some l) v0 a0 c0) =
  Node (acc ++ p) (Some (sort_by cmp (map nrm l))) v a c.
Proof.
  intros H. destruct l as [|x [|y r]]; cbn [length] in H; try lia. reflexivity.
Qed.

Lemma nested_ok_kid p l v a c k :
  nested_ok (Node p (Some l) v a c) = true -> In k l ->
  path_is_empty k = false /\ vis k = None /\ nested_ok k = true.
Proof.
  cbn [nested_ok]. rewrite forallb_forall. intros H Hk. specialize (H k Hk).
  rewrite !andb_true_iff, !negb_true_iff in H. destruct H as [[H1 H2] H3].
  destruct (vis k); [discriminate|]. auto.
Qed.
Lemma self_ok_kid p l v a c k :
  self_ok (Node p (Some l) v a c) = true -> In k l -> self_ok k = true.
Proof. cbn [self_ok]. rewrite forallb_forall. auto. Qed.

(* a self-string nested item is left as it is (it has no visibility) *)
Lemma nrm_self_string k :
  is_self_string k = true -> vis k = None -> is_self_string (nrm k) = true.
Proof.
  destruct k as [p [l|] v a c]; cbn [vis]; intros H ->; unfold is_self_string in H; cbn [kids pre] in H.
  - discriminate.
  - unfold nrm. cbn [vis attrs cmt norm kids pre app]. unfold norm_simple.
    destruct p as [|s [|s2 p']]; try discriminate.
    + destruct s as [n [al|]|[al|]|al|al|]; try discriminate;
        cbn [rev app]; rewrite andb_false_r; cbn [is_self_string kids pre]; auto.
    + destruct s as [n [al|]|[al|]|al|al|]; discriminate.
Qed.

Lemma norm_idem_gen t : forall acc v a c,
  nested_ok t = true -> self_ok t = true ->
  (ends_slf acc = true -> is_self_string t = false /\ path_is_empty t = false) ->
  norm cmp [] v a c (norm cmp acc v a c t) = norm cmp acc v a c t.
Proof.
  induction t as [p v0 a0 c0|p l v0 a0 c0 IH] using tree_ind'; intros acc v a c Hn Hs Hacc.
  - cbn [norm kids pre].
    assert (Hst : self_tail (acc ++ p) = false).
    { eapply (self_tail_app acc p None v0 a0 c0); auto. }
    destruct (norm_simple_stable (acc ++ p) v a c Hst) as [q [H1 H2]].
    rewrite H1. cbn [norm kids pre app]. exact H2.
  - rewrite Forall_forall in IH.
    (* the branch that keeps the list *)
    assert (Hfix : forall k, In k l -> nrm (nrm k) = nrm k).
    { intros k Hk. destruct (nested_ok_kid _ _ _ _ _ k Hn Hk) as [Hne [Hv Hnk]].
      unfold nrm at 1.
      destruct (norm_fields cmp k [] (vis k) (attrs k) (cmt k)) as [Fv Fa].
      fold (nrm k) in Fv, Fa. rewrite Fv, Fa.
      replace (cmt (nrm k)) with (cmt k) by (symmetry; apply norm_cmt).
      apply IH; auto.
      - eapply self_ok_kid; eauto.
      - cbn. discriminate. }
    assert (Hgen : forall L, Permutation L (map nrm l) -> 2 <= length l \/
                     (exists k, l = [k] /\ negb (is_self_string k) && negb (has_comment k) = false) ->
              norm cmp [] v a c (Node (acc ++ p) (Some (sort_by cmp L)) v a c) =
              Node (acc ++ p) (Some (sort_by cmp L)) v a c).
    { intros L HL Hlen.
      assert (HmapL : map nrm (sort_by cmp L) = sort_by cmp L).
      { rewrite <- (map_id (sort_by cmp L)) at 2. apply map_ext_in. intros x Hx.
        assert (Hin : In x (map nrm l)).
        { eapply Permutation_in; [exact HL|]. eapply Permutation_in; [apply sort_perm|exact Hx]. }
        apply in_map_iff in Hin. destruct Hin as [k [<- Hk]]. apply Hfix; exact Hk. }
      destruct Hlen as [Hlen|[k [-> Hc]]].
      - rewrite norm_list_ge2.
        + cbn [app]. rewrite HmapL, sort_by_idem by exact asym. reflexivity.
        + rewrite sort_by_length, (Permutation_length HL), map_length. exact Hlen.
      - cbn [map] in HL. apply Permutation_sym, Permutation_length_1_inv in HL. subst L.
        cbn [sort_by fold_right insert] in *. cbn [norm kids pre app].
        assert (Hc' : negb (is_self_string (nrm k)) && negb (has_comment (nrm k)) = false).
        { unfold has_comment in *. unfold nrm at 2. rewrite norm_cmt.
          apply andb_false_iff in Hc. destruct Hc as [Hc|Hc].
          - apply negb_false_iff in Hc.
            destruct (nested_ok_kid _ _ _ _ _ k Hn (or_introl eq_refl)) as [_ [Hv _]].
            rewrite (nrm_self_string k Hc Hv). reflexivity.
          - rewrite Hc, andb_false_r. reflexivity. }
        rewrite Hc'. fold (nrm (nrm k)). rewrite (Hfix k (or_introl eq_refl)). reflexivity. }
    cbn [norm kids pre]. destruct l as [|k [|k2 r]].
    + destruct (is_some a) eqn:Ha.
      * cbn [sort_by fold_right norm kids pre app]. rewrite Ha. reflexivity.
      * reflexivity.
    + destruct (negb (is_self_string k) && negb (has_comment k)) eqn:Hc.
      * destruct (nested_ok_kid _ _ _ _ _ k Hn (or_introl eq_refl)) as [Hne [Hv Hnk]].
        apply IH; auto.
        -- left; reflexivity.
        -- eapply self_ok_kid; [exact Hs|left; reflexivity].
        -- intros _. split; [|exact Hne].
           apply andb_true_iff in Hc. destruct Hc as [Hc _]. apply negb_true_iff in Hc. exact Hc.
      * apply (Hgen [nrm k]); [apply Permutation_refl|].
        right. exists k. auto.
    + apply (Hgen (map nrm (k :: k2 :: r))); [apply Permutation_refl|].
      left. cbn [length]. lia.
Qed.

Theorem normalize_idem t :
  nested_ok t = true -> self_ok t = true ->
  normalize cmp (normalize cmp t) = normalize cmp t.
Proof.
  intros Hn Hs. unfold normalize at 1.
  destruct (norm_fields cmp t [] (vis t) (attrs t) (cmt t)) as [Fv Fa].
  fold (normalize cmp t) in Fv, Fa. rewrite Fv, Fa.
  replace (cmt (normalize cmp t)) with (cmt t) by (symmetry; apply norm_cmt).
  apply norm_idem_gen; auto. cbn. discriminate.
Qed.
End NormIdem.

(* ------------------------------------------------------------------ *)
(* 4. one pass of reorder.rs:106-141 up to normalize_use_trees_with_granularity:
   from_ast_with_normalization on each item, then the regrouping *)
Definition step (cmp : tree -> tree -> comparison) (g : granularity) (ts : list tree) : list tree :=
  with_granularity cmp g (map (normalize cmp) ts).
(* the hypothesis of normalize_idem *)
Definition idem_ok (t : tree) : bool := nested_ok t && self_ok t.

Lemma idem_ok_inv t : idem_ok t = true -> nested_ok t = true /\ self_ok t = true.
Proof. unfold idem_ok. rewrite andb_true_iff. auto. Qed.

Lemma map_fix {A} (f : A -> A) l : (forall x, In x l -> f x = x) -> map f l = l.
Proof. intros H. rewrite <- (map_id l) at 2. apply map_ext_in. exact H. Qed.
Lemma flat_map_single {A} (f : A -> list A) l : (forall x, In x l -> f x = [x]) -> flat_map f l = l.
Proof.
  induction l as [|x r IH]; intros H; [reflexivity|]. cbn [flat_map].
  rewrite (H x (or_introl eq_refl)), IH; [reflexivity|]. intros y Hy. apply H. right; exact Hy.
Qed.

(* Preserve: the regrouping is the identity *)
Lemma preserve_stable cmp ts O' :
  GtAsym cmp -> forallb idem_ok ts = true ->
  Permutation O' (step cmp Preserve ts) -> step cmp Preserve O' = O'.
Proof.
  intros Ha H HP. unfold step in *. cbn [with_granularity] in *. apply map_fix. intros o Ho.
  apply (Permutation_in _ HP) in Ho. apply in_map_iff in Ho. destruct Ho as [t [<- Ht]].
  rewrite forallb_forall in H. destruct (idem_ok_inv t (H t Ht)). apply normalize_idem; auto.
Qed.

(* ---- Item ---- *)
(* nested trees carry no visibility (imports.rs:497 passes None) *)
Fixpoint novis (t : tree) : bool :=
  match t with
  | Node _ None _ _ _ => true
  | Node _ (Some l) _ _ _ => forallb (fun x => negb (is_some (vis x)) && novis x) l
  end.
(* Item flattens and re-nests every tree without comment, which repairs a
   self::self tail; only a tree that is passed through whole needs idem_ok *)
Definition item_ok (t : tree) : bool := novis t && (negb (contains_comment t) || idem_ok t).

Lemma nested_ok_novis t : nested_ok t = true -> novis t = true.
Proof.
  induction t as [p v a c|p l v a c IH] using tree_ind'; intros H; [reflexivity|].
  cbn [nested_ok novis] in *. rewrite forallb_forall in *. rewrite Forall_forall in IH.
  intros x Hx. specialize (H x Hx). rewrite !andb_true_iff in H. destruct H as [[_ H1] H2].
  rewrite H1, (IH x Hx H2). reflexivity.
Qed.
Lemma idem_ok_item_ok t : idem_ok t = true -> item_ok t = true.
Proof.
  intros H. unfold item_ok. rewrite H, orb_true_r, andb_true_r.
  apply nested_ok_novis. apply idem_ok_inv in H. tauto.
Qed.

Lemma norm_simple_kids p v a c : kids (norm_simple p v a c) = None.
Proof.
  unfold norm_simple. destruct (rev p) as [|last rq]; [reflexivity|].
  destruct (negb (is_some a) && _); [reflexivity|].
  destruct last as [n al|[b|]|al|al|]; try reflexivity.
  - destruct rq as [|[n [al|]|al|al|al|] rq']; reflexivity.
  - destruct rq; reflexivity.
Qed.

Lemma existsb_perm {A} (f : A -> bool) l1 l2 :
  Permutation l1 l2 -> existsb f l1 = existsb f l2.
Proof.
  induction 1 as [|x l l' _ IH|x y l|l l' l'' _ IH1 _ IH2]; cbn [existsb]; auto.
  - rewrite IH; reflexivity.
  - destruct (f x), (f y); reflexivity.
  - congruence.
Qed.

Definition kcc (t : tree) : bool :=
  match kids t with Some l => existsb contains_comment l | None => false end.
Lemma cc_unfold t : contains_comment t = cmt t || kcc t.
Proof. destruct t as [p [l|] v a c]; reflexivity. Qed.

Section NormKeeps.
Variable cmp : tree -> tree -> comparison.

Lemma novis_norm t : forall acc v a c,
  novis t = true -> novis (norm cmp acc v a c t) = true.
Proof.
  induction t as [p v0 a0 c0|p l v0 a0 c0 IH] using tree_ind'; intros acc v a c Hn.
  - cbn [norm kids pre]. pose proof (norm_simple_kids (acc ++ p) v a c) as Hk.
    destruct (norm_simple (acc ++ p) v a c) as [q k v' a' c']. cbn [kids] in Hk. subst k. reflexivity.
  - rewrite Forall_forall in IH. cbn [novis] in Hn. rewrite forallb_forall in Hn.
    assert (Hgen : forall P, novis (Node P (Some (sort_by cmp (map (nrm cmp) l))) v a c) = true).
    { intros P. cbn [novis]. rewrite (forallb_perm _ _ _ (sort_perm _ cmp _)).
      apply forallb_forall. intros x Hx. apply in_map_iff in Hx. destruct Hx as [k [<- Hk]].
      specialize (Hn k Hk). apply andb_true_iff in Hn. destruct Hn as [Hv Hnk].
      unfold nrm. destruct (norm_fields cmp k [] (vis k) (attrs k) (cmt k)) as [Fv _].
      rewrite Fv, Hv. apply IH; assumption. }
    cbn [norm kids pre]. destruct l as [|k [|k2 r]].
    + destruct (is_some a); reflexivity.
    + destruct (negb (is_self_string k) && negb (has_comment k)).
      * apply IH; [left; reflexivity|].
        specialize (Hn k (or_introl eq_refl)). apply andb_true_iff in Hn. tauto.
      * apply (Hgen (acc ++ p)).
    + apply (Hgen (acc ++ p)).
Qed.

Lemma cc_norm t : forall acc v a c,
  contains_comment (norm cmp acc v a c t) = c || kcc t.
Proof.
  induction t as [p v0 a0 c0|p l v0 a0 c0 IH] using tree_ind'; intros acc v a c.
  - cbn [norm kids pre]. rewrite cc_unfold. unfold kcc. rewrite norm_simple_kids.
    unfold norm_simple.
    destruct (rev (acc ++ p)) as [|last rq]; [reflexivity|].
    destruct (negb (is_some a) && _); [reflexivity|].
    destruct last as [n al|[b|]|al|al|]; try reflexivity.
    + destruct rq as [|[n [al|]|al|al|al|] rq']; reflexivity.
    + destruct rq; reflexivity.
  - rewrite Forall_forall in IH.
    assert (Hk : forall k, In k l -> contains_comment (nrm cmp k) = contains_comment k).
    { intros k Hk. unfold nrm. rewrite (IH k Hk). symmetry. apply cc_unfold. }
    assert (Hgen : forall P,
              contains_comment (Node P (Some (sort_by cmp (map (nrm cmp) l))) v a c) =
              c || kcc (Node p (Some l) v0 a0 c0)).
    { intros P. rewrite cc_unfold. unfold kcc. cbn [cmt kids]. f_equal.
      rewrite (existsb_perm _ _ _ (sort_perm _ cmp _)).
      clear IH. induction l as [|x r IHr]; [reflexivity|]. cbn [map existsb].
      rewrite (Hk x (or_introl eq_refl)), IHr; [reflexivity|].
      intros k Hin. apply Hk. right; exact Hin. }
    cbn [norm kids pre]. destruct l as [|k [|k2 r]].
    + destruct (is_some a); cbn; rewrite orb_false_r; reflexivity.
    + destruct (negb (is_self_string k) && negb (has_comment k)) eqn:Hc.
      * rewrite (IH k (or_introl eq_refl)). unfold kcc at 2. cbn [kids existsb].
        rewrite orb_false_r, (cc_unfold k).
        apply andb_true_iff in Hc. destruct Hc as [_ Hc]. apply negb_true_iff in Hc.
        unfold has_comment in Hc. rewrite Hc. reflexivity.
      * apply (Hgen (acc ++ p)).
    + apply (Hgen (acc ++ p)).
Qed.

Lemma cc_normalize t : contains_comment (normalize cmp t) = contains_comment t.
Proof. unfold normalize. rewrite cc_norm. symmetry. apply cc_unfold. Qed.
End NormKeeps.

(* what flatten returns *)
Definition flatk (k : option (list tree)) : bool :=
  match k with None => true | Some l => sole_self l end.

Lemma flatten_unfold item p k v a c :
  flatten item (Node p k v a c) =
  if path_is_empty (Node p k v a c) || contains_comment (Node p k v a c) then [Node p k v a c]
  else match k with
       | None => [Node p k v a c]
       | Some l =>
           if sole_self l then [Node p k v a c]
           else flat_map
                  (fun nested =>
                     map (fun f => Node (p ++ pre f) (kids f) v (if item then a else None) false)
                         (flatten item nested)) l
       end.
Proof. destruct k; reflexivity. Qed.

Lemma flatten_flat item n : forall f,
  In f (flatten item n) ->
  (f = n /\ path_is_empty n || contains_comment n = true) \/ flatk (kids f) = true.
Proof.
  induction n as [p v a c|p l v a c IH] using tree_ind'; intros f; rewrite flatten_unfold.
  - destruct (_ || _); intros [<-|[]]; right; reflexivity.
  - destruct (path_is_empty _ || contains_comment _) eqn:C.
    + intros [<-|[]]. left; auto.
    + destruct (sole_self l) eqn:S.
      * intros [<-|[]]. right; exact S.
      * intros Hf. right. apply in_flat_map in Hf. destruct Hf as [nested [Hn Hf]].
        apply in_map_iff in Hf. destruct Hf as [f' [<- Hf']]. cbn [kids].
        rewrite Forall_forall in IH. destruct (IH nested Hn f' Hf') as [[-> Hc]|Hk]; [|exact Hk].
        apply orb_false_iff in C. destruct C as [_ C]. rewrite cc_unfold in C.
        apply orb_false_iff in C. destruct C as [_ C]. unfold kcc in C. cbn [kids] in C.
        assert (Hcc : contains_comment nested = false).
        { destruct (contains_comment nested) eqn:E; [|reflexivity].
          rewrite <- C. symmetry. apply existsb_exists. exists nested; auto. }
        rewrite Hcc, orb_false_r in Hc.
        destruct nested as [[|s q] [l'|] v' a' c']; try discriminate. reflexivity.
Qed.

Lemma novis_kids_eq p1 p2 k v1 a1 c1 v2 a2 c2 :
  novis (Node p1 k v1 a1 c1) = novis (Node p2 k v2 a2 c2).
Proof. destruct k; reflexivity. Qed.

Lemma flatten_novis item n : forall f,
  novis n = true -> In f (flatten item n) -> novis f = true.
Proof.
  induction n as [p v a c|p l v a c IH] using tree_ind'; intros f Hn; rewrite flatten_unfold.
  - destruct (_ || _); intros [<-|[]]; reflexivity.
  - destruct (path_is_empty _ || contains_comment _).
    + intros [<-|[]]. exact Hn.
    + destruct (sole_self l).
      * intros [<-|[]]. exact Hn.
      * intros Hf. apply in_flat_map in Hf. destruct Hf as [nested [Hin Hf]].
        apply in_map_iff in Hf. destruct Hf as [f' [<- Hf']].
        rewrite Forall_forall in IH. cbn [novis] in Hn. rewrite forallb_forall in Hn.
        specialize (Hn nested Hin). apply andb_true_iff in Hn. destruct Hn as [_ Hn].
        pose proof (IH nested Hin f' Hn Hf') as H. destruct f' as [q k' v' a' c'].
        cbn [kids pre]. rewrite <- H. apply novis_kids_eq.
Qed.

Lemma flatten_self item f : flatk (kids f) = true -> flatten item f = [f].
Proof.
  destruct f as [p [l|] v a c]; cbn [kids flatk]; intros H; rewrite flatten_unfold.
  - rewrite H. destruct (_ || _); reflexivity.
  - destruct (_ || _); reflexivity.
Qed.

(* nest_trailing_self *)
Lemma nest_idem t : nest_trailing_self (nest_trailing_self t) = nest_trailing_self t.
Proof.
  destruct t as [p [l|] v a c]; cbn [nest_trailing_self]; [reflexivity|].
  destruct (rev p) as [|[n al|al|al|al|] rq] eqn:E; cbn [nest_trailing_self];
    try rewrite E; reflexivity.
Qed.


Lemma flatten_nest item f :
  flatten item f = [f] -> flatten item (nest_trailing_self f) = [nest_trailing_self f].
Proof.
  destruct f as [p [l|] v a c]; cbn [nest_trailing_self]; [auto|]. intros H.
  destruct (rev p) as [|[n al|al|al|al|] rq]; try exact H.
  rewrite flatten_unfold. destruct (_ || _); reflexivity.
Qed.

Lemma normalize_selflist cmp q al a' c' v a c :
  normalize cmp (Node q (Some [Node [Slf al] None None a' c']) v a c) =
  Node q (Some [Node [Slf al] None None a' c']) v a c.
Proof.
  unfold normalize. cbn [vis attrs cmt norm kids pre is_self_string negb andb app].
  unfold norm_simple. cbn [rev app].
  destruct al; rewrite andb_false_r; reflexivity.
Qed.

Lemma normalize_flat cmp f :
  flatk (kids f) = true -> novis f = true ->
  normalize cmp (nest_trailing_self f) = nest_trailing_self f.
Proof.
  destruct f as [p [l|] v a c]; cbn [kids flatk]; intros Hk Hn.
  - cbn [nest_trailing_self].
    destruct l as [|[[|[n al|al|al|al|] [|s2 p']] [l'|] vs as' cs] [|k2 r]]; try discriminate.
    cbn [novis forallb vis] in Hn. destruct vs; [discriminate|].
    apply normalize_selflist.
  - cbn [nest_trailing_self]. destruct (rev p) as [|last rq] eqn:E.
    + apply rev_nil_inv in E. subst p. reflexivity.
    + destruct last as [n al|al|al|al|];
        try (unfold normalize; cbn [vis attrs cmt norm kids pre app]; unfold norm_simple;
             rewrite E, andb_false_r; destruct rq; reflexivity).
      cbn [from_path of_path split_path]. apply normalize_selflist.
Qed.

(* itertools unique() on a list without repetition *)
Definition udist (l : list tree) : Prop := ForallOrdPairs (fun x y => tree_eqb y x = false) l.

Lemma unique_aux_in s l x : In x (unique_aux s l) -> In x l.
Proof.
  revert s. induction l as [|y r IH]; intros s; cbn [unique_aux]; [auto|].
  destruct (existsb (tree_eqb y) s).
  - intros H. right. eapply IH; exact H.
  - intros [<-|H]; [left; reflexivity|right; eapply IH; exact H].
Qed.

Lemma unique_aux_dist l : forall s,
  Forall (fun y => existsb (tree_eqb y) s = false) (unique_aux s l) /\ udist (unique_aux s l).
Proof.
  induction l as [|x r IH]; intros s; cbn [unique_aux].
  - split; constructor.
  - destruct (existsb (tree_eqb x) s) eqn:E; [apply IH|].
    destruct (IH (x :: s)) as [H1 H2]. split.
    + constructor; [exact E|]. eapply Forall_impl; [|exact H1].
      intros y Hy. cbn [existsb] in Hy. apply orb_false_iff in Hy. tauto.
    + constructor; [|exact H2]. eapply Forall_impl; [|exact H1].
      intros y Hy. cbn [existsb] in Hy. apply orb_false_iff in Hy. tauto.
Qed.

Lemma udist_fix l : forall s,
  udist l -> Forall (fun y => existsb (tree_eqb y) s = false) l -> unique_aux s l = l.
Proof.
  induction l as [|x r IH]; intros s Hd Hs; [reflexivity|].
  inversion Hd as [|? ? Hx Hr]; subst. inversion Hs as [|? ? Hsx Hsr]; subst.
  cbn [unique_aux]. rewrite Hsx. f_equal. apply IH; [exact Hr|].
  rewrite Forall_forall in *. intros y Hy. cbn [existsb].
  rewrite (Hx y Hy), (Hsr y Hy). reflexivity.
Qed.

(* PartialEq for UseTree is symmetric *)
Lemma eqb_text_sym a : forall b, eqb_text a b = eqb_text b a.
Proof.
  induction a as [|x a IH]; intros [|y b]; cbn [eqb_text]; try reflexivity.
  rewrite (N.eqb_sym x y), IH. reflexivity.
Qed.
Lemma oname_eqb_sym a b : oname_eqb a b = oname_eqb b a.
Proof. destruct a, b; cbn [oname_eqb]; try reflexivity. apply eqb_text_sym. Qed.
Lemma sseg_eqb_sym x y : sseg_eqb x y = sseg_eqb y x.
Proof.
  destruct x, y; cbn [sseg_eqb]; try reflexivity; try apply oname_eqb_sym.
  rewrite eqb_text_sym, oname_eqb_sym. reflexivity.
Qed.
Lemma list_eqb_sym {A} (f : A -> A -> bool) l1 :
  Forall (fun x => forall y, f x y = f y x) l1 -> forall l2, list_eqb f l1 l2 = list_eqb f l2 l1.
Proof.
  induction 1 as [|x r Hx _ IH]; intros [|y l2]; cbn [list_eqb]; try reflexivity.
  rewrite Hx, IH. reflexivity.
Qed.
Lemma tree_eqb_sym t1 : forall t2, tree_eqb t1 t2 = tree_eqb t2 t1.
Proof.
  induction t1 as [p v a c|p l v a c IH] using tree_ind'; intros [p2 k2 v2 a2 c2];
    rewrite !tree_eqb_unfold;
    rewrite (list_eqb_sym sseg_eqb p) by (apply Forall_forall; intros; apply sseg_eqb_sym).
  - destruct k2; reflexivity.
  - destruct k2 as [l2|]; [|reflexivity]. rewrite (list_eqb_sym tree_eqb l IH). reflexivity.
Qed.

Lemma udist_perm l1 l2 : Permutation l1 l2 -> udist l1 -> udist l2.
Proof.
  unfold udist.
  induction 1 as [|x l l' HP IH|x y l|l l' l'' _ IH1 _ IH2]; intros H; auto.
  - inversion H as [|? ? Hx Hl]; subst. constructor; [|apply IH; exact Hl].
    rewrite Forall_forall in *. intros z Hz. apply Hx. eapply Permutation_in; [|exact Hz].
    apply Permutation_sym; exact HP.
  - inversion H as [|? ? Hy Hr]; subst. inversion Hr as [|? ? Hx Hl]; subst.
    inversion Hy as [|? ? Hyx Hyl]; subst.
    constructor; [constructor; [rewrite tree_eqb_sym; exact Hyx|exact Hx]|].
    constructor; assumption.
Qed.

(* every tree that Item produces is a fixed point of the three per-tree maps *)
Lemma item_elem cmp t f :
  GtAsym cmp -> item_ok t = true -> In f (flatten true (normalize cmp t)) ->
  let o := nest_trailing_self f in
  normalize cmp o = o /\ flatten true o = [o] /\ nest_trailing_self o = o.
Proof.
  intros Ha Hok Hf o. unfold item_ok in Hok. apply andb_true_iff in Hok. destruct Hok as [Hnv Hc].
  assert (Hnn : novis (normalize cmp t) = true) by (apply novis_norm; exact Hnv).
  split; [|split].
  - destruct (flatten_flat _ _ _ Hf) as [[-> Hcc]|Hk].
    + destruct (kids (normalize cmp t)) as [l|] eqn:Ek.
      * subst o. destruct (normalize cmp t) as [q k v a c] eqn:En. cbn [kids] in Ek. subst k.
        cbn [nest_trailing_self]. rewrite <- En.
        assert (Hcc' : contains_comment t = true).
        { rewrite <- (cc_normalize cmp t), En. cbn [path_is_empty pre kids] in Hcc.
          destruct q; exact Hcc. }
        rewrite Hcc' in Hc. cbn [negb orb] in Hc. destruct (idem_ok_inv t Hc).
        apply normalize_idem; auto.
      * apply normalize_flat; [rewrite Ek; reflexivity|exact Hnn].
    + apply normalize_flat; [exact Hk|]. eapply flatten_novis; eauto.
  - apply flatten_nest.
    destruct (flatten_flat _ _ _ Hf) as [[-> Hcc]|Hk]; [|apply flatten_self; exact Hk].
    destruct (normalize cmp t) as [q k v a c]. rewrite flatten_unfold, Hcc. reflexivity.
  - apply nest_idem.
Qed.

Lemma item_stable cmp ts O' :
  GtAsym cmp -> forallb item_ok ts = true ->
  Permutation O' (step cmp Item ts) -> step cmp Item O' = O'.
Proof.
  intros Ha H HP. unfold step in *. cbn [with_granularity] in *. unfold flatten_use_trees in *.
  set (I := map nest_trailing_self (flat_map (flatten true) (map (normalize cmp) ts))) in *.
  assert (He : forall o, In o O' ->
             normalize cmp o = o /\ flatten true o = [o] /\ nest_trailing_self o = o).
  { intros o Ho. apply (Permutation_in _ HP) in Ho. apply unique_aux_in in Ho.
    unfold I in Ho. apply in_map_iff in Ho. destruct Ho as [f [<- Hf]].
    apply in_flat_map in Hf. destruct Hf as [n [Hn Hf]].
    apply in_map_iff in Hn. destruct Hn as [t [<- Ht]].
    rewrite forallb_forall in H. apply (item_elem cmp t f Ha (H t Ht) Hf). }
  rewrite (map_fix (normalize cmp) O') by (intros o Ho; apply (He o Ho)).
  rewrite (flat_map_single (flatten true) O') by (intros o Ho; apply (He o Ho)).
  rewrite (map_fix nest_trailing_self O') by (intros o Ho; apply (He o Ho)).
  apply udist_fix; [|apply Forall_forall; reflexivity].
  eapply udist_perm; [apply Permutation_sym; exact HP|]. apply unique_aux_dist.
Qed.

(* ------------------------------------------------------------------ *)
(* 5. the whole pipeline on the concatenation of its own output groups *)
Lemma filter_all {A} (f : A -> bool) l : forallb f l = true -> filter f l = l.
Proof.
  induction l as [|x r IH]; cbn [forallb filter]; [reflexivity|].
  rewrite andb_true_iff. intros [Hx Hr]. rewrite Hx, IH by exact Hr. reflexivity.
Qed.
Lemma filter_none {A} (f : A -> bool) l : (forall x, In x l -> f x = false) -> filter f l = [].
Proof.
  induction l as [|x r IH]; intros H; cbn [filter]; [reflexivity|].
  rewrite (H x (or_introl eq_refl)). apply IH. intros y Hy. apply H. right; exact Hy.
Qed.
Lemma forallb_filter_self {A} (f : A -> bool) l : forallb f (filter f l) = true.
Proof.
  induction l as [|x r IH]; cbn [filter]; [reflexivity|].
  destruct (f x) eqn:E; [cbn [forallb]; rewrite E|]; exact IH.
Qed.

Section Pipeline.
Variable cmp : tree -> tree -> comparison.
Hypothesis asym : GtAsym cmp.

Definition in_group (k : nat) (t : tree) : bool := Nat.eqb (group_of t) k.
(* one output group: the trees of group k, sorted or not *)
Definition grp_out (reorder : bool) (k : nat) (O : list tree) : list tree :=
  if reorder then sort_by cmp (filter (in_group k) O) else filter (in_group k) O.

Lemma grp_out_all reorder k O : forallb (in_group k) (grp_out reorder k O) = true.
Proof.
  unfold grp_out. destruct reorder; [|apply forallb_filter_self].
  rewrite (forallb_perm _ _ _ (sort_perm _ cmp _)). apply forallb_filter_self.
Qed.
Lemma grp_out_filter reorder j k O :
  filter (in_group k) (grp_out reorder j O) = if Nat.eqb j k then grp_out reorder j O else [].
Proof.
  pose proof (grp_out_all reorder j O) as H.
  destruct (Nat.eqb_spec j k) as [->|Hne].
  - apply filter_all; exact H.
  - apply filter_none. intros x Hx. rewrite forallb_forall in H. specialize (H x Hx).
    unfold in_group in *. apply Nat.eqb_eq in H. apply Nat.eqb_neq. lia.
Qed.
Lemma grp_out_sorted k O : sort_by cmp (grp_out true k O) = grp_out true k O.
Proof. unfold grp_out. apply sort_by_idem; exact asym. Qed.

Lemma pipeline_groups g grp reorder ts :
  pipeline cmp g grp reorder ts =
  filter (fun l => negb (is_nil l))
    (if grp then [grp_out reorder 0 (step cmp g ts); grp_out reorder 1 (step cmp g ts);
                  grp_out reorder 2 (step cmp g ts)]
     else [if reorder then sort_by cmp (step cmp g ts) else step cmp g ts]).
Proof. unfold pipeline, step, grp_out, group_imports, in_group. destruct grp, reorder; reflexivity. Qed.

Theorem pipeline_idem_gen g grp reorder ts :
  step cmp g (concat (pipeline cmp g grp reorder ts)) = concat (pipeline cmp g grp reorder ts) ->
  pipeline cmp g grp reorder (concat (pipeline cmp g grp reorder ts)) =
  pipeline cmp g grp reorder ts.
Proof.
  intros Hst. rewrite (pipeline_groups g grp reorder (concat _)), Hst.
  rewrite (pipeline_groups g grp reorder ts). rewrite concat_filter_nonnil.
  set (O := step cmp g ts). f_equal. destruct grp.
  - cbn [concat]. rewrite app_nil_r.
    assert (Hk : forall k, k < 3 ->
              filter (in_group k) (grp_out reorder 0 O ++ grp_out reorder 1 O ++ grp_out reorder 2 O)
              = grp_out reorder k O).
    { intros k Hk. rewrite !filter_app, !grp_out_filter.
      destruct k as [|[|[|k]]]; try lia; cbn [Nat.eqb app]; rewrite ?app_nil_r; reflexivity. }
    unfold grp_out at 1 5 9. rewrite !Hk by lia.
    destruct reorder; [|reflexivity]. rewrite !grp_out_sorted. reflexivity.
  - cbn [concat]. rewrite app_nil_r. destruct reorder; [|reflexivity].
    rewrite sort_by_idem by exact asym. reflexivity.
Qed.

Theorem pipeline_idem_stable g grp reorder ts :
  (forall O', Permutation O' (step cmp g ts) -> step cmp g O' = O') ->
  pipeline cmp g grp reorder (concat (pipeline cmp g grp reorder ts)) =
  pipeline cmp g grp reorder ts.
Proof. intros H. apply pipeline_idem_gen, H, pipeline_perm. Qed.
End Pipeline.

(* ------------------------------------------------------------------ *)
(* 6. witnesses of the refuted statements (Examples.v prints them as use texts) *)
Definition sa := id1 97. Definition sb := id1 98. Definition sc := id1 99. Definition sd := id1 100.
Definition leaf_c (p : list sseg) : tree := Node p None None None true.

(* use a::self::self; *)
Definition w_chain : tree := top [sa; Slf None; Slf None] None 0 None.
(* a nested  self  that carries a visibility (from_ast never builds it) *)
Definition w_kidvis : tree := top [sa] (Some [Node [Slf None] None (Some 1%N) None false]) 0 None.
(* a::self::{self::{<empty path>}}  (from_ast never builds it) *)
Definition w_kidempty : tree :=
  top [sa; Slf None] (Some [kid [Slf None] (Some [kid [] None])]) 0 None.
(* use a::{b, c}; *)
Definition w_list : tree := top [sa] (Some [kid [sb] None; kid [sc] None]) 0 None.
(* use a::{b::self::self /* c */, c}; *)
Definition w_chain_cmt : tree := top [sa] (Some [leaf_c [sb; Slf None; Slf None]; kid [sc] None]) 0 None.
(* use a::b::c; use a::b::d; use a::b::c; *)
Definition w_dup_module : list tree :=
  [top [sa; sb; sc] None 0 None; top [sa; sb; sd] None 0 None; top [sa; sb; sc] None 0 None].
(* use b; use b::{self, a}; *)
Definition w_dup_crate : list tree :=
  [top [sb] None 0 None; top [sb] (Some [kid [Slf None] None; kid [sa] None]) 0 None].
(* use a::b; use a::b::c; use a; *)
Definition w_order_one : list tree :=
  [top [sa; sb] None 0 None; top [sa; sb; sc] None 0 None; top [sa] None 0 None].
(* use {self, a}; *)
Definition w_bare_self : list tree := [top [] (Some [kid [Slf None] None; kid [sa] None]) 0 None].

Fixpoint nodupb (l : list leaf) : bool :=
  match l with [] => true | x :: r => negb (existsb (leaf_eqb x) r) && nodupb r end.
Lemma nodupb_sound l : nodupb l = true -> NoDup l.
Proof.
  induction l as [|x r IH]; cbn [nodupb]; [constructor|].
  rewrite andb_true_iff, negb_true_iff. intros [H1 H2]. constructor; [|apply IH; exact H2].
  intros Hin. assert (existsb (leaf_eqb x) r = true) as E; [|congruence].
  apply existsb_exists. exists x. split; [exact Hin|apply leaf_eqb_refl].
Qed.

Lemma normalize_chain_witness :
  ast_shape w_chain = true /\ nested_ok w_chain = true /\ self_ok w_chain = false /\
  normalize cmp15 (normalize cmp15 w_chain) <> normalize cmp15 w_chain.
Proof. repeat split; try (vm_compute; reflexivity). vm_compute. intros H; discriminate H. Qed.

Lemma normalize_nested_witness :
  (self_ok w_kidvis = true /\ no_empty_kid w_kidvis = true /\ nested_ok w_kidvis = false /\
   normalize cmp15 (normalize cmp15 w_kidvis) <> normalize cmp15 w_kidvis) /\
  (self_ok w_kidempty = true /\ novis w_kidempty = true /\ nested_ok w_kidempty = false /\
   normalize cmp15 (normalize cmp15 w_kidempty) <> normalize cmp15 w_kidempty).
Proof.
  split; repeat split; try (vm_compute; reflexivity); vm_compute; intros H; discriminate H.
Qed.

Lemma normalize_anycmp_witness :
  ast_shape w_list = true /\ idem_ok w_list = true /\
  normalize cmp_gt (normalize cmp_gt w_list) <> normalize cmp_gt w_list.
Proof. repeat split; try (vm_compute; reflexivity). vm_compute. intros H; discriminate H. Qed.

Definition twice_differs (g : granularity) (ts : list tree) : Prop :=
  step cmp15 g (step cmp15 g ts) <> step cmp15 g ts.
Definition pipeline_twice_differs (g : granularity) (ts : list tree) : Prop :=
  forall grp reorder,
    pipeline cmp15 g grp reorder (concat (pipeline cmp15 g grp reorder ts)) <>
    pipeline cmp15 g grp reorder ts.

Ltac differs := vm_compute; let H := fresh in intros H; discriminate H.

Lemma chain_witness :
  forallb ast_shape [w_chain] = true /\
  twice_differs Preserve [w_chain] /\ twice_differs GCrate [w_chain] /\ twice_differs One [w_chain] /\
  pipeline_twice_differs Preserve [w_chain] /\ pipeline_twice_differs GCrate [w_chain] /\
  pipeline_twice_differs One [w_chain].
Proof.
  split; [vm_compute; reflexivity|].
  split; [differs|]. split; [differs|]. split; [differs|].
  split; [|split]; intros grp reorder; destruct grp, reorder; differs.
Qed.

Lemma chain_cmt_witness :
  forallb ast_shape [w_chain_cmt] = true /\ item_ok w_chain_cmt = false /\
  twice_differs Item [w_chain_cmt] /\ pipeline_twice_differs Item [w_chain_cmt].
Proof.
  split; [vm_compute; reflexivity|]. split; [vm_compute; reflexivity|]. split; [differs|].
  intros grp reorder; destruct grp, reorder; differs.
Qed.

Lemma dup_module_witness :
  forallb ast_shape w_dup_module = true /\ forallb idem_ok w_dup_module = true /\
  BadClass cmp15 Module w_dup_module = false /\
  twice_differs Module w_dup_module /\ pipeline_twice_differs Module w_dup_module.
Proof.
  split; [vm_compute; reflexivity|]. split; [vm_compute; reflexivity|].
  split; [vm_compute; reflexivity|]. split; [differs|].
  intros grp reorder; destruct grp, reorder; differs.
Qed.

Lemma dup_crate_witness :
  forallb ast_shape w_dup_crate = true /\ forallb idem_ok w_dup_crate = true /\
  BadClass cmp15 GCrate w_dup_crate = false /\ BadClass cmp15 One w_dup_crate = false /\
  twice_differs GCrate w_dup_crate /\ pipeline_twice_differs GCrate w_dup_crate /\
  twice_differs One w_dup_crate /\ pipeline_twice_differs One w_dup_crate.
Proof.
  split; [vm_compute; reflexivity|]. split; [vm_compute; reflexivity|].
  split; [vm_compute; reflexivity|]. split; [vm_compute; reflexivity|].
  split; [differs|]. split; [intros grp reorder; destruct grp, reorder; differs|].
  split; [differs|]. intros grp reorder; destruct grp, reorder; differs.
Qed.

Lemma order_one_witness :
  forallb ast_shape w_order_one = true /\ forallb idem_ok w_order_one = true /\
  forallb noalias w_order_one = true /\ BadClass cmp15 One w_order_one = false /\
  NoDup (Leaves w_order_one) /\
  twice_differs One w_order_one /\ pipeline_twice_differs One w_order_one.
Proof.
  split; [vm_compute; reflexivity|]. split; [vm_compute; reflexivity|].
  split; [vm_compute; reflexivity|]. split; [vm_compute; reflexivity|].
  split; [apply nodupb_sound; vm_compute; reflexivity|]. split; [differs|].
  intros grp reorder; destruct grp, reorder; differs.
Qed.

Lemma bare_self_witness :
  forallb ast_shape w_bare_self = true /\ forallb idem_ok w_bare_self = true /\
  BadClass cmp15 GCrate w_bare_self = false /\ NoDup (Leaves w_bare_self) /\
  twice_differs GCrate w_bare_self /\ pipeline_twice_differs GCrate w_bare_self.
Proof.
  split; [vm_compute; reflexivity|]. split; [vm_compute; reflexivity|].
  split; [vm_compute; reflexivity|].
  split; [apply nodupb_sound; vm_compute; reflexivity|]. split; [differs|].
  intros grp reorder; destruct grp, reorder; differs.
Qed.

(* pipeline_idem for the two granularities that do not merge *)
Lemma pipeline_idem_preserve cmp grp reorder ts :
  GtAsym cmp -> forallb idem_ok ts = true ->
  pipeline cmp Preserve grp reorder (concat (pipeline cmp Preserve grp reorder ts)) =
  pipeline cmp Preserve grp reorder ts.
Proof.
  intros Ha H. apply pipeline_idem_stable; [exact Ha|].
  intros O' HP. eapply preserve_stable; eauto.
Qed.
Lemma pipeline_idem_item cmp grp reorder ts :
  GtAsym cmp -> forallb item_ok ts = true ->
  pipeline cmp Item grp reorder (concat (pipeline cmp Item grp reorder ts)) =
  pipeline cmp Item grp reorder ts.
Proof.
  intros Ha H. apply pipeline_idem_stable; [exact Ha|].
  intros O' HP. eapply item_stable; eauto.
Qed.

(* ------------------------------------------------------------------ *)
(* the statements in the form Props.v quotes them *)
Lemma import_sort_idem (cmp : tree -> tree -> comparison) (l : list tree) :
  GtAsym cmp -> sort_by cmp (sort_by cmp l) = sort_by cmp l.
Proof. intros H. apply sort_by_idem; exact H. Qed.
Lemma normalize_idem_thm (cmp : tree -> tree -> comparison) (t : tree) :
  GtAsym cmp -> nested_ok t = true -> self_ok t = true ->
  normalize cmp (normalize cmp t) = normalize cmp t.
Proof. intros H. apply normalize_idem; exact H. Qed.
Lemma pipeline_idem_from_regroup (cmp : tree -> tree -> comparison) (g : granularity)
      (grp reorder : bool) (ts : list tree) :
  GtAsym cmp ->
  step cmp g (concat (pipeline cmp g grp reorder ts)) = concat (pipeline cmp g grp reorder ts) ->
  pipeline cmp g grp reorder (concat (pipeline cmp g grp reorder ts)) = pipeline cmp g grp reorder ts.
Proof. intros H. apply pipeline_idem_gen; exact H. Qed.
Lemma normalize_idem_refuted :
  exists t, ast_shape t = true /\ nested_ok t = true /\ self_ok t = false /\
    normalize cmp15 (normalize cmp15 t) <> normalize cmp15 t.
Proof. exists w_chain. exact normalize_chain_witness. Qed.
Lemma normalize_idem_nested_refuted :
  (exists t, self_ok t = true /\ no_empty_kid t = true /\ nested_ok t = false /\
     normalize cmp15 (normalize cmp15 t) <> normalize cmp15 t) /\
  (exists t, self_ok t = true /\ novis t = true /\ nested_ok t = false /\
     normalize cmp15 (normalize cmp15 t) <> normalize cmp15 t).
Proof.
  split; [exists w_kidvis; apply normalize_nested_witness|exists w_kidempty; apply normalize_nested_witness].
Qed.
Lemma normalize_idem_anycmp_refuted :
  exists cmp t, ast_shape t = true /\ idem_ok t = true /\
    normalize cmp (normalize cmp t) <> normalize cmp t.
Proof. exists cmp_gt, w_list. exact normalize_anycmp_witness. Qed.
Lemma regroup_idem_selfchain_refuted :
  exists ts, forallb ast_shape ts = true /\
    twice_differs Preserve ts /\ twice_differs GCrate ts /\ twice_differs One ts /\
    pipeline_twice_differs Preserve ts /\ pipeline_twice_differs GCrate ts /\
    pipeline_twice_differs One ts.
Proof. exists [w_chain]. exact chain_witness. Qed.
Lemma regroup_idem_item_refuted :
  exists ts, forallb ast_shape ts = true /\ forallb item_ok ts = false /\
    twice_differs Item ts /\ pipeline_twice_differs Item ts.
Proof.
  exists [w_chain_cmt]. destruct chain_cmt_witness as [H1 [H2 H3]].
  split; [exact H1|]. split; [cbn [forallb]; rewrite H2; reflexivity|exact H3].
Qed.
Lemma regroup_idem_module_refuted :
  exists ts, forallb ast_shape ts = true /\ forallb idem_ok ts = true /\
    BadClass cmp15 Module ts = false /\
    twice_differs Module ts /\ pipeline_twice_differs Module ts.
Proof. exists w_dup_module. exact dup_module_witness. Qed.
Lemma regroup_idem_crate_refuted :
  exists ts, forallb ast_shape ts = true /\ forallb idem_ok ts = true /\
    BadClass cmp15 GCrate ts = false /\ BadClass cmp15 One ts = false /\
    twice_differs GCrate ts /\ pipeline_twice_differs GCrate ts /\
    twice_differs One ts /\ pipeline_twice_differs One ts.
Proof. exists w_dup_crate. exact dup_crate_witness. Qed.
Lemma regroup_idem_crate_bare_self_refuted :
  exists ts, forallb ast_shape ts = true /\ forallb idem_ok ts = true /\
    BadClass cmp15 GCrate ts = false /\ NoDup (Leaves ts) /\
    twice_differs GCrate ts /\ pipeline_twice_differs GCrate ts.
Proof. exists w_bare_self. exact bare_self_witness. Qed.
Lemma regroup_idem_one_refuted :
  exists ts, forallb ast_shape ts = true /\ forallb idem_ok ts = true /\
    forallb noalias ts = true /\ BadClass cmp15 One ts = false /\ NoDup (Leaves ts) /\
    twice_differs One ts /\ pipeline_twice_differs One ts.
Proof. exists w_order_one. exact order_one_witness. Qed.

(* ------------------------------------------------------------------ *)
(* 7. Module granularity on plain paths.
   A flattened import is plain when it is a path without list whose last segment is not
   self (so nest_trailing_self leaves it alone), without attributes or comment, and, when it
   has a single segment, without alias (two first segments are matched by
   equal_except_alias: the AliasClash class of C10). *)
Definition leafk (x : sseg) : tree := Node [x] None None None false.
Definition R1 (q : list sseg) (x : sseg) (v : option N) : tree := Node (q ++ [x]) None v None false.
Definition R2 (q : list sseg) (L : list tree) (v : option N) : tree := Node q (Some L) v None false.
Definition is_slf (s : sseg) : bool := match s with Slf _ => true | _ => false end.
(* what the last segment x of a plain path q::x must satisfy *)
Definition okseg (q : list sseg) (x : sseg) : bool :=
  negb (is_slf x) && (negb (is_nil q) || negb (is_some (salias x))).

Lemma prefix_len_common q : forall first a b,
  prefix_len first (map GS q ++ a) (map GS q ++ b) = length q + prefix_len (first && is_nil q) a b.
Proof.
  induction q as [|s q IH]; intros first a b; cbn [map app length is_nil].
  - rewrite andb_true_r. reflexivity.
  - cbn [prefix_len gseg_eqb]. rewrite sseg_eqb_refl, orb_true_r, IH, andb_false_r. reflexivity.
Qed.

Lemma of_path_list q L v a c : of_path (map GS q ++ [GL L]) v a c = Node q (Some L) v a c.
Proof. unfold of_path. rewrite split_path_GL. reflexivity. Qed.

Lemma firstn_common {A} (l r : list A) : firstn (length l + 0) (l ++ r) = l.
Proof. rewrite Nat.add_0_r, firstn_app, Nat.sub_diag, firstn_all. cbn [firstn]. apply app_nil_r. Qed.
Lemma skipn_common {A} (l r : list A) : skipn (length l + 0) (l ++ r) = r.
Proof. rewrite Nat.add_0_r, skipn_app, Nat.sub_diag, skipn_all. reflexivity. Qed.

Lemma mrw_both_longer cmp inner pa ka b len :
  length (map GS pa ++ klist ka) <> len -> length b <> len ->
  merge_rest_with cmp inner pa ka b len =
  let fin := Some (firstn len b ++
                   [GL (sort_by cmp [from_path (skipn len (map GS pa ++ klist ka));
                                     from_path (skipn len b)])]) in
  match ka with
  | Some l => if Nat.eqb len (length pa)
              then Some (firstn len b ++ [GL (inner l (from_path (skipn len b)))])
              else fin
  | None => fin
  end.
Proof.
  intros Ha Hb. unfold merge_rest_with.
  destruct (Nat.eqb_spec (length (map GS pa ++ klist ka)) len) as [E|_]; [contradiction|].
  destruct (Nat.eqb_spec (length b) len) as [E|_]; [contradiction|].
  cbn [andb negb]. reflexivity.
Qed.

Lemma merge_R1_R1 cmp q x y v v' :
  sseg_eqb x y = false -> (q = [] -> sseg_eea x y = false) ->
  merge cmp SPModule (R1 q x v) (R1 q y v') = R2 q (sort_by cmp [leafk x; leafk y]) v.
Proof.
  intros Hne Hea. unfold R1, R2. cbn [merge]. unfold path. cbn [pre kids klist].
  rewrite !map_app, !app_nil_r. cbn [map].
  rewrite prefix_len_common.
  assert (Hp : prefix_len (true && is_nil q) [GS x] [GS y] = 0).
  { cbn [prefix_len eea gseg_eqb]. rewrite Hne, orb_false_r.
    destruct q; cbn [is_nil andb]; [rewrite Hea by reflexivity|]; reflexivity. }
  rewrite Hp, mrw_both_longer;
    [|cbn [klist]; rewrite !app_length, !map_length; cbn [length]; lia
     |rewrite !app_length, !map_length; cbn [length]; lia].
  cbn zeta. cbn [klist]. rewrite map_app, app_nil_r. cbn [map].
  rewrite <- (map_length GS q). rewrite firstn_common, !skipn_common.
  cbn [from_path of_path split_path]. apply of_path_list.
Qed.

Lemma inner_choice_module_push L u :
  Forall (fun t => path_len t = 1) L -> inner_choice SPModule L u = CPush.
Proof.
  intros HL. unfold inner_choice. rewrite andb_false_r.
  destruct (last_max 0 None _) as [[i k]|] eqn:E; [|reflexivity].
  apply last_max_spec in E. destruct E as [E|[_ E]]; [discriminate|].
  apply nth_error_map' in E. destruct E as [t [Ht E]].
  destruct (share_prefix t u SPModule); [|discriminate]. inversion E; subst k.
  rewrite Forall_forall in HL. rewrite (HL t (nth_error_In _ _ Ht)). reflexivity.
Qed.

Lemma merge_R2_R1 cmp q L y v v' :
  Forall (fun t => path_len t = 1) L ->
  merge cmp SPModule (R2 q L v) (R1 q y v') = R2 q (sort_by cmp (L ++ [leafk y])) v.
Proof.
  intros HL. unfold R1, R2. cbn [merge]. unfold path. cbn [pre kids klist].
  rewrite !map_app, !app_nil_r. cbn [map].
  rewrite prefix_len_common. cbn [prefix_len eea gseg_eqb]. rewrite andb_false_r. cbn [orb].
  rewrite mrw_both_longer;
    [|cbn [klist]; rewrite !app_length, !map_length; cbn [length]; lia
     |rewrite !app_length, !map_length; cbn [length]; lia].
  cbn zeta.
  replace (Nat.eqb (length q + 0) (length q)) with true by (symmetry; apply Nat.eqb_eq; lia).
  rewrite <- (map_length GS q). rewrite firstn_common, skipn_common.
  cbn [from_path of_path split_path]. fold (leafk y).
  unfold inner_with. rewrite (inner_choice_module_push L (leafk y) HL). apply of_path_list.
Qed.
