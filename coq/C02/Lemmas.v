(* C02/Lemmas.v -- idempotence of the import pipeline modelled in C10/Model.v:
   UseTree::normalize, normalize_use_trees_with_granularity after normalize, and the
   whole rewrite_reorderable_or_regroupable_items pipeline applied to its own output.
   Definitions of the hypotheses (decidable, on the input) and all proofs. *)
From V Require Import Base.Text C10.Model C10.Lemmas.
From Coq Require Import Permutation Sorted.
Local Open Scope nat_scope.
Local Open Scope list_scope.

(* ------------------------------------------------------------------ *)
(* 1. the stable insertion sort of C10 on an already sorted list.
   The only order law needed: Greater is asymmetric. *)
Definition GtAsym {A : Type} (cmp : A -> A -> comparison) : Prop :=
  forall x y, cmp x y = Gt -> cmp y x <> Gt.
Definition le_by {A : Type} (cmp : A -> A -> comparison) (x y : A) : Prop := cmp x y <> Gt.

Section SortIdem.
Variable A : Type.
Variable cmp : A -> A -> comparison.

Lemma insert_hd x l : HdRel (le_by cmp) x l -> insert cmp x l = x :: l.
Proof.
  intros H. destruct l as [|y r]; [reflexivity|].
  inversion H as [|? ? Hxy]; subst. cbn [insert]. unfold le_by in Hxy.
  destruct (cmp x y); try reflexivity. congruence.
Qed.

Lemma sorted_sort_id l : Sorted (le_by cmp) l -> sort_by cmp l = l.
Proof.
  induction 1 as [|x l Hs IH Hd]; [reflexivity|].
  cbn [sort_by fold_right]. fold (sort_by cmp l). rewrite IH. apply insert_hd; assumption.
Qed.

Hypothesis asym : GtAsym cmp.

Lemma insert_sorted x l : Sorted (le_by cmp) l -> Sorted (le_by cmp) (insert cmp x l).
Proof.
  induction 1 as [|y r Hs IH Hd]; cbn [insert].
  - repeat constructor.
  - destruct (cmp x y) eqn:E.
    + constructor; [constructor; assumption|constructor; unfold le_by; congruence].
    + constructor; [constructor; assumption|constructor; unfold le_by; congruence].
    + constructor; [exact IH|].
      destruct r as [|z r']; cbn [insert].
      * constructor. apply asym; exact E.
      * inversion Hd as [|? ? Hyz]; subst.
        destruct (cmp x z); constructor; try assumption; apply asym; exact E.
Qed.

Lemma sort_by_sorted l : Sorted (le_by cmp) (sort_by cmp l).
Proof.
  induction l as [|x r IH]; cbn [sort_by fold_right]; [constructor|].
  fold (sort_by cmp r). apply insert_sorted; exact IH.
Qed.

Lemma sort_by_idem l : sort_by cmp (sort_by cmp l) = sort_by cmp l.
Proof. apply sorted_sort_id, sort_by_sorted. Qed.
End SortIdem.

Lemma sort_by_length {A} (cmp : A -> A -> comparison) l : length (sort_by cmp l) = length l.
Proof. apply Permutation_length, sort_perm. Qed.

(* ------------------------------------------------------------------ *)
(* 2. Ord for UseTree (style editions <= 2021) is antisymmetric, for every
   char::is_uppercase / char::is_numeric *)
Lemma text_cmp_antisym a : forall b, text_cmp b a = CompOpp (text_cmp a b).
Proof.
  induction a as [|x a IH]; intros [|y b]; cbn [text_cmp]; try reflexivity.
  rewrite (N.compare_antisym x y). destruct (N.compare x y); cbn [CompOpp]; auto.
Qed.

Lemma oname_cmp_antisym a b : oname_cmp b a = CompOpp (oname_cmp a b).
Proof. destruct a, b; cbn [oname_cmp CompOpp]; try reflexivity. apply text_cmp_antisym. Qed.

Section OrdAntisym.
Variable U : char -> bool.
Variable M : char -> bool.

Lemma ident_cmp_antisym a b : ident_cmp U M b a = CompOpp (ident_cmp U M a b).
Proof.
  unfold ident_cmp.
  destruct (starts_upper U a), (starts_upper U b),
           (is_upper_snake_case U M a), (is_upper_snake_case U M b);
    cbn [andb negb CompOpp]; try reflexivity; apply text_cmp_antisym.
Qed.

Lemma sseg_cmp_antisym x y : sseg_cmp U M y x = CompOpp (sseg_cmp U M x y).
Proof.
  destruct x as [n1 a1|a1|a1|a1|], y as [n2 a2|a2|a2|a2|]; cbn [sseg_cmp];
    try reflexivity; try apply oname_cmp_antisym.
  rewrite (ident_cmp_antisym n1 n2).
  destruct (ident_cmp U M n1 n2); cbn [CompOpp]; try reflexivity.
  destruct a1, a2; cbn [CompOpp]; try reflexivity. apply text_cmp_antisym.
Qed.

Definition swap_res (r : comparison + (list sseg * list sseg))
  : comparison + (list sseg * list sseg) :=
  match r with inl o => inl (CompOpp o) | inr (a, b) => inr (b, a) end.

Lemma pre_cmp_antisym p1 : forall p2, pre_cmp U M p2 p1 = swap_res (pre_cmp U M p1 p2).
Proof.
  induction p1 as [|x r1 IH]; intros [|y r2]; cbn [pre_cmp swap_res]; try reflexivity.
  rewrite (sseg_cmp_antisym x y), (sseg_cmp_antisym (remove_alias x) (remove_alias y)).
  destruct (sseg_cmp U M x y), (sseg_cmp U M (remove_alias x) (remove_alias y));
    cbn [CompOpp swap_res]; try apply IH; reflexivity.
Qed.

Lemma pre_cmp_inr p1 : forall p2 a b, pre_cmp U M p1 p2 = inr (a, b) -> a = [] \/ b = [].
Proof.
  induction p1 as [|x r1 IH]; intros [|y r2] a b; cbn [pre_cmp]; intros H;
    try (inversion H; subst; auto; fail).
  destruct (sseg_cmp U M x y), (sseg_cmp U M (remove_alias x) (remove_alias y));
    try discriminate; eapply IH; eassumption.
Qed.

Fixpoint lex_cmp (f : tree -> tree -> comparison) (a b : list tree) : comparison :=
  match a, b with
  | [], [] => Eq
  | [], _ :: _ => Lt
  | _ :: _, [] => Gt
  | x :: a', y :: b' => match f x y with Eq => lex_cmp f a' b' | o => o end
  end.

Lemma tree_cmp_unfold p1 k1 v1 a1 c1 p2 k2 v2 a2 c2 :
  tree_cmp U M (Node p1 k1 v1 a1 c1) (Node p2 k2 v2 a2 c2) =
  match pre_cmp U M p1 p2 with
  | inl o => o
  | inr ([], []) =>
      match k1, k2 with
      | None, None => Eq
      | Some _, None => Gt
      | None, Some _ => Lt
      | Some l1, Some l2 => lex_cmp (tree_cmp U M) l1 l2
      end
  | inr ([], _ :: _) => match k1 with Some _ => Gt | None => Lt end
  | inr (_ :: _, _) => match k2 with Some _ => Lt | None => Gt end
  end.
Proof.
  cbn [tree_cmp]. destruct (pre_cmp U M p1 p2) as [o|[[|s1 q1] [|s2 q2]]]; try reflexivity.
  destruct k1 as [l1|], k2 as [l2|]; try reflexivity.
  revert l2. induction l1 as [|x r IH]; intros [|y l2]; cbn [lex_cmp]; try reflexivity.
  rewrite IH. reflexivity.
Qed.

Lemma lex_cmp_antisym f l1 :
  Forall (fun x => forall y, f y x = CompOpp (f x y)) l1 ->
  forall l2, lex_cmp f l2 l1 = CompOpp (lex_cmp f l1 l2).
Proof.
  induction 1 as [|x r Hx _ IH]; intros [|y l2]; cbn [lex_cmp CompOpp]; try reflexivity.
  rewrite (Hx y). destruct (f x y); cbn [CompOpp]; auto.
Qed.

Lemma tree_cmp_antisym t1 : forall t2, tree_cmp U M t2 t1 = CompOpp (tree_cmp U M t1 t2).
Proof.
  induction t1 as [p v a c|p l v a c IH] using tree_ind'; intros [p2 k2 v2 a2 c2];
    rewrite !tree_cmp_unfold, (pre_cmp_antisym p p2);
    destruct (pre_cmp U M p p2) as [o|[q1 q2]] eqn:E; cbn [swap_res]; try reflexivity.
  - destruct (pre_cmp_inr _ _ _ _ E) as [->| ->].
    + destruct q2; destruct k2; reflexivity.
    + destruct q1; destruct k2; reflexivity.
  - destruct (pre_cmp_inr _ _ _ _ E) as [->| ->].
    + destruct q2; destruct k2 as [l2|]; try reflexivity. apply lex_cmp_antisym; exact IH.
    + destruct q1; destruct k2 as [l2|]; try reflexivity. apply lex_cmp_antisym; exact IH.
Qed.

Lemma tree_cmp_asym : GtAsym (tree_cmp U M).
Proof. intros x y H. rewrite tree_cmp_antisym, H. discriminate. Qed.
End OrdAntisym.

Lemma cmp15_asym : GtAsym cmp15.
Proof. apply tree_cmp_asym. Qed.

(* the comparator that always answers Greater: the insertion sort reverses *)
Definition cmp_gt (_ _ : tree) : comparison := Gt.

(* ------------------------------------------------------------------ *)
(* 3. UseTree::normalize is idempotent *)

(* a path that ends in  self::self  or  self as x::self : normalize pops one
   segment per pass (imports.rs:568-572 returns without looking at the new last
   segment) *)
Definition self_tail (p : list sseg) : bool :=
  match rev p with Slf None :: Slf _ :: _ => true | _ => false end.
(* SelfChain: some path without list ends like that *)
Fixpoint self_ok (t : tree) : bool :=
  match t with
  | Node p None _ _ _ => negb (self_tail p)
  | Node _ (Some l) _ _ _ => forallb self_ok l
  end.
(* nested trees as from_ast builds them (imports.rs:497): a non-empty path and no
   visibility; weaker than wf_kid (attributes are not restricted) *)
Fixpoint nested_ok (t : tree) : bool :=
  match t with
  | Node _ None _ _ _ => true
  | Node _ (Some l) _ _ _ =>
      forallb (fun x => negb (path_is_empty x) && negb (is_some (vis x)) && nested_ok x) l
  end.
Definition ends_slf (p : list sseg) : bool :=
  match rev p with Slf _ :: _ => true | _ => false end.

Lemma wf_kid_nested_ok t : wf_kid t = true -> nested_ok t = true.
Proof.
  induction t as [p v a c|p l v a c IH] using tree_ind'; intros H; [reflexivity|].
  cbn [wf_kid] in H. rewrite !andb_true_iff in H. destruct H as [_ H].
  cbn [nested_ok]. rewrite forallb_forall in *. rewrite Forall_forall in IH.
  intros x Hx. pose proof (H x Hx) as Hw.
  destruct (wf_kid_inv x Hw) as [Hv [_ [Hne _]]].
  rewrite Hne, Hv, (IH x Hx Hw). reflexivity.
Qed.
Lemma ast_shape_nested_ok t : ast_shape t = true -> nested_ok t = true.
Proof.
  destruct t as [p [l|] v a c]; [|reflexivity].
  unfold ast_shape. cbn [kids]. rewrite !andb_true_iff. intros [_ H].
  cbn [nested_ok]. rewrite forallb_forall in *. intros x Hx. pose proof (H x Hx) as Hw.
  destruct (wf_kid_inv x Hw) as [Hv [_ [Hne _]]].
  rewrite Hne, Hv, (wf_kid_nested_ok x Hw). reflexivity.
Qed.

Lemma rev_nil_inv {A} (p : list A) : rev p = [] -> p = [].
Proof. intros H. apply (f_equal (@rev A)) in H. rewrite rev_involutive in H. exact H. Qed.

Lemma norm_simple_stable p v a c :
  self_tail p = false ->
  exists q, norm_simple p v a c = Node q None v a c /\ norm_simple q v a c = Node q None v a c.
Proof.
  intros Hst. unfold self_tail in Hst.
  assert (Hsame :
            norm_simple p v a c = Node p None v a c ->
            exists q, norm_simple p v a c = Node q None v a c /\
                      norm_simple q v a c = Node q None v a c).
  { intros H. exists p. split; exact H. }
  destruct (rev p) as [|last rq] eqn:E.
  { apply Hsame. unfold norm_simple. rewrite E. reflexivity. }
  destruct last as [n al|[r|]|al|al|].
  - (* Ident *) apply Hsame. unfold norm_simple. rewrite E.
    rewrite andb_false_r. reflexivity.
  - (* self as r *)
    destruct rq as [|[n [al|]|al|al|al|] rq'];
      try (apply Hsame; unfold norm_simple; rewrite E, andb_false_r; reflexivity).
    exists (rev rq' ++ [Ident n (Some r)]). split.
    + unfold norm_simple. rewrite E, andb_false_r. reflexivity.
    + unfold norm_simple. rewrite rev_app_distr, rev_involutive. cbn [rev app].
      rewrite andb_false_r. reflexivity.
  - (* self *)
    destruct rq as [|x rq'].
    + (* the path is  self  alone *)
      destruct (negb (is_some a) && match v with Some _ => true | None => false end) eqn:C.
      * exists []. split.
        -- unfold norm_simple. rewrite E.
           replace (negb (is_some a) && match Slf None, @nil sseg, v with
                                         | Slf None, [], Some _ => true | _, _, _ => false end)
             with true by (destruct v; symmetry; exact C).
           reflexivity.
        -- reflexivity.
      * apply Hsame. unfold norm_simple. rewrite E.
        replace (negb (is_some a) && match Slf None, @nil sseg, v with
                                      | Slf None, [], Some _ => true | _, _, _ => false end)
          with false by (destruct v; symmetry; exact C).
        reflexivity.
    + exists (rev (x :: rq')). split.
      * unfold norm_simple. rewrite E. rewrite andb_false_r. reflexivity.
      * unfold norm_simple. rewrite rev_involutive.
        destruct x as [n al|al|al|al|]; try discriminate;
          try (rewrite andb_false_r; reflexivity).
  - apply Hsame. unfold norm_simple. rewrite E, andb_false_r. reflexivity.
  - apply Hsame. unfold norm_simple. rewrite E, andb_false_r. reflexivity.
  - apply Hsame. unfold norm_simple. rewrite E, andb_false_r. reflexivity.
Qed.

Lemma self_tail_app acc p k v a c :
  self_ok (Node p None v a c) = true ->
  (ends_slf acc = true ->
   is_self_string (Node p k v a c) = false /\ path_is_empty (Node p None v a c) = false) ->
  k = None ->
  self_tail (acc ++ p) = false.
Proof.
  intros Hs Hacc ->. cbn [self_ok] in Hs. rewrite negb_true_iff in Hs.
  unfold self_tail, ends_slf in *. rewrite rev_app_distr.
  destruct (rev p) as [|x [|y r]] eqn:E.
  - apply rev_nil_inv in E. subst p. cbn [app].
    destruct (rev acc) as [|[n al|al|al|al|] ra]; try reflexivity.
    destruct (Hacc eq_refl) as [_ H]. discriminate.
  - cbn [app].
    destruct x as [n al|[al|]|al|al|]; try reflexivity.
    destruct (rev acc) as [|[n al|al|al|al|] ra]; try reflexivity.
    destruct (Hacc eq_refl) as [H _].
    assert (p = [Slf None]) as ->.
    { apply (f_equal (@rev sseg)) in E. rewrite rev_involutive in E. exact E. }
    discriminate.
  - cbn [app]. exact Hs.
Qed.

Section NormIdem.
Variable cmp : tree -> tree -> comparison.
Hypothesis asym : GtAsym cmp.

Definition nrm (k : tree) : tree := norm cmp [] (vis k) (attrs k) (cmt k) k.

Lemma norm_cmt t : forall acc v a c, cmt (norm cmp acc v a c t) = c.
Proof.
  induction t as [p v0 a0 c0|p l v0 a0 c0 IH] using tree_ind'; intros acc v a c.
  - cbn [norm kids pre]. unfold norm_simple.
    destruct (rev (acc ++ p)) as [|last rq]; [reflexivity|].
    destruct (negb (is_some a) && _); [reflexivity|].
    destruct last as [n al|[b|]|al|al|]; try reflexivity.
    + destruct rq as [|[n [al|]|al|al|al|] rq']; reflexivity.
    + destruct rq; reflexivity.
  - cbn [norm kids pre]. destruct l as [|k [|k2 r]].
    + destruct (is_some a); reflexivity.
    + destruct (negb (is_self_string k) && negb (has_comment k)).
      * inversion IH as [|? ? Hk _]; subst. apply Hk.
      * reflexivity.
    + reflexivity.
Qed.

Lemma norm_list_ge2 acc v a c p l v0 a0 c0 :
  2 <= length l ->
  norm cmp acc v a c (Node p (Some l) v0 a0 c0) =
  Node (acc ++ p) (Some (sort_by cmp (map nrm l))) v a c.
Proof.
  intros H. destruct l as [|x [|y r]]; cbn [length] in H; try lia. reflexivity.
Qed.

Lemma nested_ok_kid p l v a c k :
  nested_ok (Node p (Some l) v a c) = true -> In k l ->
  path_is_empty k = false /\ vis k = None /\ nested_ok k = true.
Proof.
  cbn [nested_ok]. rewrite forallb_forall. intros H Hk. specialize (H k Hk).
  rewrite !andb_true_iff, !negb_true_iff in H. destruct H as [[H1 H2] H3].
  destruct (vis k); [discriminate|]. auto.
Qed.
Lemma self_ok_kid p l v a c k :
  self_ok (Node p (Some l) v a c) = true -> In k l -> self_ok k = true.
Proof. cbn [self_ok]. rewrite forallb_forall. auto. Qed.

(* a self-string nested item is left as it is (it has no visibility) *)
Lemma nrm_self_string k :
  is_self_string k = true -> vis k = None -> is_self_string (nrm k) = true.
Proof.
  destruct k as [p [l|] v a c]; cbn [vis]; intros H ->; unfold is_self_string in H; cbn [kids pre] in H.
  - discriminate.
  - unfold nrm. cbn [vis attrs cmt norm kids pre app]. unfold norm_simple.
    destruct p as [|s [|s2 p']]; try discriminate.
    + destruct s as [n [al|]|[al|]|al|al|]; try discriminate;
        cbn [rev app]; rewrite andb_false_r; cbn [is_self_string kids pre]; auto.
    + destruct s as [n [al|]|[al|]|al|al|]; discriminate.
Qed.

Lemma norm_idem_gen t : forall acc v a c,
  nested_ok t = true -> self_ok t = true ->
  (ends_slf acc = true -> is_self_string t = false /\ path_is_empty t = false) ->
  norm cmp [] v a c (norm cmp acc v a c t) = norm cmp acc v a c t.
Proof.
  induction t as [p v0 a0 c0|p l v0 a0 c0 IH] using tree_ind'; intros acc v a c Hn Hs Hacc.
  - cbn [norm kids pre].
    assert (Hst : self_tail (acc ++ p) = false).
    { eapply (self_tail_app acc p None v0 a0 c0); auto. }
    destruct (norm_simple_stable (acc ++ p) v a c Hst) as [q [H1 H2]].
    rewrite H1. cbn [norm kids pre app]. exact H2.
  - rewrite Forall_forall in IH.
    (* the branch that keeps the list *)
    assert (Hfix : forall k, In k l -> nrm (nrm k) = nrm k).
    { intros k Hk. destruct (nested_ok_kid _ _ _ _ _ k Hn Hk) as [Hne [Hv Hnk]].
      unfold nrm at 1.
      destruct (norm_fields cmp k [] (vis k) (attrs k) (cmt k)) as [Fv Fa].
      fold (nrm k) in Fv, Fa. rewrite Fv, Fa.
      replace (cmt (nrm k)) with (cmt k) by (symmetry; apply norm_cmt).
      apply IH; auto.
      - eapply self_ok_kid; eauto.
      - cbn. discriminate. }
    assert (Hgen : forall L, Permutation L (map nrm l) -> 2 <= length l \/
                     (exists k, l = [k] /\ negb (is_self_string k) && negb (has_comment k) = false) ->
              norm cmp [] v a c (Node (acc ++ p) (Some (sort_by cmp L)) v a c) =
              Node (acc ++ p) (Some (sort_by cmp L)) v a c).
    { intros L HL Hlen.
      assert (HmapL : map nrm (sort_by cmp L) = sort_by cmp L).
      { rewrite <- (map_id (sort_by cmp L)) at 2. apply map_ext_in. intros x Hx.
        assert (Hin : In x (map nrm l)).
        { eapply Permutation_in; [exact HL|]. eapply Permutation_in; [apply sort_perm|exact Hx]. }
        apply in_map_iff in Hin. destruct Hin as [k [<- Hk]]. apply Hfix; exact Hk. }
      destruct Hlen as [Hlen|[k [-> Hc]]].
      - rewrite norm_list_ge2.
        + cbn [app]. rewrite HmapL, sort_by_idem by exact asym. reflexivity.
        + rewrite sort_by_length, (Permutation_length HL), map_length. exact Hlen.
      - cbn [map] in HL. apply Permutation_sym, Permutation_length_1_inv in HL. subst L.
        cbn [sort_by fold_right insert] in *. cbn [norm kids pre app].
        assert (Hc' : negb (is_self_string (nrm k)) && negb (has_comment (nrm k)) = false).
        { unfold has_comment in *. unfold nrm at 2. rewrite norm_cmt.
          apply andb_false_iff in Hc. destruct Hc as [Hc|Hc].
          - apply negb_false_iff in Hc.
            destruct (nested_ok_kid _ _ _ _ _ k Hn (or_introl eq_refl)) as [_ [Hv _]].
            rewrite (nrm_self_string k Hc Hv). reflexivity.
          - rewrite Hc, andb_false_r. reflexivity. }
        rewrite Hc'. fold (nrm (nrm k)). rewrite (Hfix k (or_introl eq_refl)). reflexivity. }
    cbn [norm kids pre]. destruct l as [|k [|k2 r]].
    + destruct (is_some a) eqn:Ha.
      * cbn [sort_by fold_right norm kids pre app]. rewrite Ha. reflexivity.
      * reflexivity.
    + destruct (negb (is_self_string k) && negb (has_comment k)) eqn:Hc.
      * destruct (nested_ok_kid _ _ _ _ _ k Hn (or_introl eq_refl)) as [Hne [Hv Hnk]].
        apply IH; auto.
        -- left; reflexivity.
        -- eapply self_ok_kid; [exact Hs|left; reflexivity].
        -- intros _. split; [|exact Hne].
           apply andb_true_iff in Hc. destruct Hc as [Hc _]. apply negb_true_iff in Hc. exact Hc.
      * apply (Hgen [nrm k]); [apply Permutation_refl|].
        right. exists k. auto.
    + apply (Hgen (map nrm (k :: k2 :: r))); [apply Permutation_refl|].
      left. cbn [length]. lia.
Qed.

Theorem normalize_idem t :
  nested_ok t = true -> self_ok t = true ->
  normalize cmp (normalize cmp t) = normalize cmp t.
Proof.
  intros Hn Hs. unfold normalize at 1.
  destruct (norm_fields cmp t [] (vis t) (attrs t) (cmt t)) as [Fv Fa].
  fold (normalize cmp t) in Fv, Fa. rewrite Fv, Fa.
  replace (cmt (normalize cmp t)) with (cmt t) by (symmetry; apply norm_cmt).
  apply norm_idem_gen; auto. cbn. discriminate.
Qed.
End NormIdem.

(* ------------------------------------------------------------------ *)
(* 4. one pass of reorder.rs:106-141 up to normalize_use_trees_with_granularity:
   from_ast_with_normalization on each item, then the regrouping *)
Definition step (cmp : tree -> tree -> comparison) (g : granularity) (ts : list tree) : list tree :=
  with_granularity cmp g (map (normalize cmp) ts).
(* the hypothesis of normalize_idem *)
Definition idem_ok (t : tree) : bool := nested_ok t && self_ok t.

Lemma idem_ok_inv t : idem_ok t = true -> nested_ok t = true /\ self_ok t = true.
Proof. unfold idem_ok. rewrite andb_true_iff. auto. Qed.

Lemma map_fix {A} (f : A -> A) l : (forall x, In x l -> f x = x) -> map f l = l.
Proof. intros H. rewrite <- (map_id l) at 2. apply map_ext_in. exact H. Qed.
Lemma flat_map_single {A} (f : A -> list A) l : (forall x, In x l -> f x = [x]) -> flat_map f l = l.
Proof.
  induction l as [|x r IH]; intros H; [reflexivity|]. cbn [flat_map].
  rewrite (H x (or_introl eq_refl)), IH; [reflexivity|]. intros y Hy. apply H. right; exact Hy.
Qed.

(* Preserve: the regrouping is the identity *)
Lemma preserve_stable cmp ts O' :
  GtAsym cmp -> forallb idem_ok ts = true ->
  Permutation O' (step cmp Preserve ts) -> step cmp Preserve O' = O'.
Proof.
  intros Ha H HP. unfold step in *. cbn [with_granularity] in *. apply map_fix. intros o Ho.
  apply (Permutation_in _ HP) in Ho. apply in_map_iff in Ho. destruct Ho as [t [<- Ht]].
  rewrite forallb_forall in H. destruct (idem_ok_inv t (H t Ht)). apply normalize_idem; auto.
Qed.

(* ---- Item ---- *)
(* nested trees carry no visibility (imports.rs:497 passes None) *)
Fixpoint novis (t : tree) : bool :=
  match t with
  | Node _ None _ _ _ => true
  | Node _ (Some l) _ _ _ => forallb (fun x => negb (is_some (vis x)) && novis x) l
  end.
(* Item flattens and re-nests every tree without comment, which repairs a
   self::self tail; only a tree that is passed through whole needs idem_ok *)
Definition item_ok (t : tree) : bool := novis t && (negb (contains_comment t) || idem_ok t).

Lemma nested_ok_novis t : nested_ok t = true -> novis t = true.
Proof.
  induction t as [p v a c|p l v a c IH] using tree_ind'; intros H; [reflexivity|].
  cbn [nested_ok novis] in *. rewrite forallb_forall in *. rewrite Forall_forall in IH.
  intros x Hx. specialize (H x Hx). rewrite !andb_true_iff in H. destruct H as [[_ H1] H2].
  rewrite H1, (IH x Hx H2). reflexivity.
Qed.
Lemma idem_ok_item_ok t : idem_ok t = true -> item_ok t = true.
Proof.
  intros H. unfold item_ok. rewrite H, orb_true_r, andb_true_r.
  apply nested_ok_novis. apply idem_ok_inv in H. tauto.
Qed.

Lemma norm_simple_kids p v a c : kids (norm_simple p v a c) = None.
Proof.
  unfold norm_simple. destruct (rev p) as [|last rq]; [reflexivity|].
  destruct (negb (is_some a) && _); [reflexivity|].
  destruct last as [n al|[b|]|al|al|]; try reflexivity.
  - destruct rq as [|[n [al|]|al|al|al|] rq']; reflexivity.
  - destruct rq; reflexivity.
Qed.

Lemma existsb_perm {A} (f : A -> bool) l1 l2 :
  Permutation l1 l2 -> existsb f l1 = existsb f l2.
Proof.
  induction 1 as [|x l l' _ IH|x y l|l l' l'' _ IH1 _ IH2]; cbn [existsb]; auto.
  - rewrite IH; reflexivity.
  - destruct (f x), (f y); reflexivity.
  - congruence.
Qed.

Definition kcc (t : tree) : bool :=
  match kids t with Some l => existsb contains_comment l | None => false end.
Lemma cc_unfold t : contains_comment t = cmt t || kcc t.
Proof. destruct t as [p [l|] v a c]; reflexivity. Qed.

Section NormKeeps.
Variable cmp : tree -> tree -> comparison.

Lemma novis_norm t : forall acc v a c,
  novis t = true -> novis (norm cmp acc v a c t) = true.
Proof.
  induction t as [p v0 a0 c0|p l v0 a0 c0 IH] using tree_ind'; intros acc v a c Hn.
  - cbn [norm kids pre]. pose proof (norm_simple_kids (acc ++ p) v a c) as Hk.
    destruct (norm_simple (acc ++ p) v a c) as [q k v' a' c']. cbn [kids] in Hk. subst k. reflexivity.
  - rewrite Forall_forall in IH. cbn [novis] in Hn. rewrite forallb_forall in Hn.
    assert (Hgen : forall P, novis (Node P (Some (sort_by cmp (map (nrm cmp) l))) v a c) = true).
    { intros P. cbn [novis]. rewrite (forallb_perm _ _ _ (sort_perm _ cmp _)).
      apply forallb_forall. intros x Hx. apply in_map_iff in Hx. destruct Hx as [k [<- Hk]].
      specialize (Hn k Hk). apply andb_true_iff in Hn. destruct Hn as [Hv Hnk].
      unfold nrm. destruct (norm_fields cmp k [] (vis k) (attrs k) (cmt k)) as [Fv _].
      rewrite Fv, Hv. apply IH; assumption. }
    cbn [norm kids pre]. destruct l as [|k [|k2 r]].
    + destruct (is_some a); reflexivity.
    + destruct (negb (is_self_string k) && negb (has_comment k)).
      * apply IH; [left; reflexivity|].
        specialize (Hn k (or_introl eq_refl)). apply andb_true_iff in Hn. tauto.
      * apply (Hgen (acc ++ p)).
    + apply (Hgen (acc ++ p)).
Qed.

Lemma cc_norm t : forall acc v a c,
  contains_comment (norm cmp acc v a c t) = c || kcc t.
Proof.
  induction t as [p v0 a0 c0|p l v0 a0 c0 IH] using tree_ind'; intros acc v a c.
  - cbn [norm kids pre]. rewrite cc_unfold. unfold kcc. rewrite norm_simple_kids.
    unfold norm_simple.
    destruct (rev (acc ++ p)) as [|last rq]; [reflexivity|].
    destruct (negb (is_some a) && _); [reflexivity|].
    destruct last as [n al|[b|]|al|al|]; try reflexivity.
    + destruct rq as [|[n [al|]|al|al|al|] rq']; reflexivity.
    + destruct rq; reflexivity.
  - rewrite Forall_forall in IH.
    assert (Hk : forall k, In k l -> contains_comment (nrm cmp k) = contains_comment k).
    { intros k Hk. unfold nrm. rewrite (IH k Hk). symmetry. apply cc_unfold. }
    assert (Hgen : forall P,
              contains_comment (Node P (Some (sort_by cmp (map (nrm cmp) l))) v a c) =
              c || kcc (Node p (Some l) v0 a0 c0)).
    { intros P. rewrite cc_unfold. unfold kcc. cbn [cmt kids]. f_equal.
      rewrite (existsb_perm _ _ _ (sort_perm _ cmp _)).
      clear IH. induction l as [|x r IHr]; [reflexivity|]. cbn [map existsb].
      rewrite (Hk x (or_introl eq_refl)), IHr; [reflexivity|].
      intros k Hin. apply Hk. right; exact Hin. }
    cbn [norm kids pre]. destruct l as [|k [|k2 r]].
    + destruct (is_some a); cbn; rewrite orb_false_r; reflexivity.
    + destruct (negb (is_self_string k) && negb (has_comment k)) eqn:Hc.
      * rewrite (IH k (or_introl eq_refl)). unfold kcc at 2. cbn [kids existsb].
        rewrite orb_false_r, (cc_unfold k).
        apply andb_true_iff in Hc. destruct Hc as [_ Hc]. apply negb_true_iff in Hc.
        unfold has_comment in Hc. rewrite Hc. reflexivity.
      * apply (Hgen (acc ++ p)).
    + apply (Hgen (acc ++ p)).
Qed.

Lemma cc_normalize t : contains_comment (normalize cmp t) = contains_comment t.
Proof. unfold normalize. rewrite cc_norm. symmetry. apply cc_unfold. Qed.
End NormKeeps.

(* what flatten returns *)
Definition flatk (k : option (list tree)) : bool :=
  match k with None => true | Some l => sole_self l end.

Lemma flatten_unfold item p k v a c :
  flatten item (Node p k v a c) =
  if path_is_empty (Node p k v a c) || contains_comment (Node p k v a c) then [Node p k v a c]
  else match k with
       | None => [Node p k v a c]
       | Some l =>
           if sole_self l then [Node p k v a c]
           else flat_map
                  (fun nested =>
                     map (fun f => Node (p ++ pre f) (kids f) v (if item then a else None) false)
                         (flatten item nested)) l
       end.
Proof. destruct k; reflexivity. Qed.

Lemma flatten_flat item n : forall f,
  In f (flatten item n) ->
  (f = n /\ path_is_empty n || contains_comment n = true) \/ flatk (kids f) = true.
Proof.
  induction n as [p v a c|p l v a c IH] using tree_ind'; intros f; rewrite flatten_unfold.
  - destruct (_ || _); intros [<-|[]]; right; reflexivity.
  - destruct (path_is_empty _ || contains_comment _) eqn:C.
    + intros [<-|[]]. left; auto.
    + destruct (sole_self l) eqn:S.
      * intros [<-|[]]. right; exact S.
      * intros Hf. right. apply in_flat_map in Hf. destruct Hf as [nested [Hn Hf]].
        apply in_map_iff in Hf. destruct Hf as [f' [<- Hf']]. cbn [kids].
        rewrite Forall_forall in IH. destruct (IH nested Hn f' Hf') as [[-> Hc]|Hk]; [|exact Hk].
        apply orb_false_iff in C. destruct C as [_ C]. rewrite cc_unfold in C.
        apply orb_false_iff in C. destruct C as [_ C]. unfold kcc in C. cbn [kids] in C.
        assert (Hcc : contains_comment nested = false).
        { destruct (contains_comment nested) eqn:E; [|reflexivity].
          rewrite <- C. symmetry. apply existsb_exists. exists nested; auto. }
        rewrite Hcc, orb_false_r in Hc.
        destruct nested as [[|s q] [l'|] v' a' c']; try discriminate. reflexivity.
Qed.

Lemma novis_kids_eq p1 p2 k v1 a1 c1 v2 a2 c2 :
  novis (Node p1 k v1 a1 c1) = novis (Node p2 k v2 a2 c2).
Proof. destruct k; reflexivity. Qed.

Lemma flatten_novis item n : forall f,
  novis n = true -> In f (flatten item n) -> novis f = true.
Proof.
  induction n as [p v a c|p l v a c IH] using tree_ind'; intros f Hn; rewrite flatten_unfold.
  - destruct (_ || _); intros [<-|[]]; reflexivity.
  - destruct (path_is_empty _ || contains_comment _).
    + intros [<-|[]]. exact Hn.
    + destruct (sole_self l).
      * intros [<-|[]]. exact Hn.
      * intros Hf. apply in_flat_map in Hf. destruct Hf as [nested [Hin Hf]].
        apply in_map_iff in Hf. destruct Hf as [f' [<- Hf']].
        rewrite Forall_forall in IH. cbn [novis] in Hn. rewrite forallb_forall in Hn.
        specialize (Hn nested Hin). apply andb_true_iff in Hn. destruct Hn as [_ Hn].
        pose proof (IH nested Hin f' Hn Hf') as H. destruct f' as [q k' v' a' c'].
        cbn [kids pre]. rewrite <- H. apply novis_kids_eq.
Qed.

Lemma flatten_self item f : flatk (kids f) = true -> flatten item f = [f].
Proof.
  destruct f as [p [l|] v a c]; cbn [kids flatk]; intros H; rewrite flatten_unfold.
  - rewrite H. destruct (_ || _); reflexivity.
  - destruct (_ || _); reflexivity.
Qed.

(* nest_trailing_self *)
Lemma nest_idem t : nest_trailing_self (nest_trailing_self t) = nest_trailing_self t.
Proof.
  destruct t as [p [l|] v a c]; cbn [nest_trailing_self]; [reflexivity|].
  destruct (rev p) as [|[n al|al|al|al|] rq] eqn:E; cbn [nest_trailing_self];
    try rewrite E; reflexivity.
Qed.


Lemma flatten_nest item f :
  flatten item f = [f] -> flatten item (nest_trailing_self f) = [nest_trailing_self f].
Proof.
  destruct f as [p [l|] v a c]; cbn [nest_trailing_self]; [auto|]. intros H.
  destruct (rev p) as [|[n al|al|al|al|] rq]; try exact H.
  rewrite flatten_unfold. destruct (_ || _); reflexivity.
Qed.

Lemma normalize_selflist cmp q al a' c' v a c :
  normalize cmp (Node q (Some [Node [Slf al] None None a' c']) v a c) =
  Node q (Some [Node [Slf al] None None a' c']) v a c.
Proof.
  unfold normalize. cbn [vis attrs cmt norm kids pre is_self_string negb andb app].
  unfold norm_simple. cbn [rev app].
  destruct al; rewrite andb_false_r; reflexivity.
Qed.

Lemma normalize_flat cmp f :
  flatk (kids f) = true -> novis f = true ->
  normalize cmp (nest_trailing_self f) = nest_trailing_self f.
Proof.
  destruct f as [p [l|] v a c]; cbn [kids flatk]; intros Hk Hn.
  - cbn [nest_trailing_self].
    destruct l as [|[[|[n al|al|al|al|] [|s2 p']] [l'|] vs as' cs] [|k2 r]]; try discriminate.
    cbn [novis forallb vis] in Hn. destruct vs; [discriminate|].
    apply normalize_selflist.
  - cbn [nest_trailing_self]. destruct (rev p) as [|last rq] eqn:E.
    + apply rev_nil_inv in E. subst p. reflexivity.
    + destruct last as [n al|al|al|al|];
        try (unfold normalize; cbn [vis attrs cmt norm kids pre app]; unfold norm_simple;
             rewrite E, andb_false_r; destruct rq; reflexivity).
      cbn [from_path of_path split_path]. apply normalize_selflist.
Qed.

(* itertools unique() on a list without repetition *)
Definition udist (l : list tree) : Prop := ForallOrdPairs (fun x y => tree_eqb y x = false) l.

Lemma unique_aux_in s l x : In x (unique_aux s l) -> In x l.
Proof.
  revert s. induction l as [|y r IH]; intros s; cbn [unique_aux]; [auto|].
  destruct (existsb (tree_eqb y) s).
  - intros H. right. eapply IH; exact H.
  - intros [<-|H]; [left; reflexivity|right; eapply IH; exact H].
Qed.

Lemma unique_aux_dist l : forall s,
  Forall (fun y => existsb (tree_eqb y) s = false) (unique_aux s l) /\ udist (unique_aux s l).
Proof.
  induction l as [|x r IH]; intros s; cbn [unique_aux].
  - split; constructor.
  - destruct (existsb (tree_eqb x) s) eqn:E; [apply IH|].
    destruct (IH (x :: s)) as [H1 H2]. split.
    + constructor; [exact E|]. eapply Forall_impl; [|exact H1].
      intros y Hy. cbn [existsb] in Hy. apply orb_false_iff in Hy. tauto.
    + constructor; [|exact H2]. eapply Forall_impl; [|exact H1].
      intros y Hy. cbn [existsb] in Hy. apply orb_false_iff in Hy. tauto.
Qed.

Lemma udist_fix l : forall s,
  udist l -> Forall (fun y => existsb (tree_eqb y) s = false) l -> unique_aux s l = l.
Proof.
  induction l as [|x r IH]; intros s Hd Hs; [reflexivity|].
  inversion Hd as [|? ? Hx Hr]; subst. inversion Hs as [|? ? Hsx Hsr]; subst.
  cbn [unique_aux]. rewrite Hsx. f_equal. apply IH; [exact Hr|].
  rewrite Forall_forall in *. intros y Hy. cbn [existsb].
  rewrite (Hx y Hy), (Hsr y Hy). reflexivity.
Qed.

(* PartialEq for UseTree is symmetric *)
Lemma eqb_text_sym a : forall b, eqb_text a b = eqb_text b a.
Proof.
  induction a as [|x a IH]; intros [|y b]; cbn [eqb_text]; try reflexivity.
  rewrite (N.eqb_sym x y), IH. reflexivity.
Qed.
Lemma oname_eqb_sym a b : oname_eqb a b = oname_eqb b a.
Proof. destruct a, b; cbn [oname_eqb]; try reflexivity. apply eqb_text_sym. Qed.
Lemma sseg_eqb_sym x y : sseg_eqb x y = sseg_eqb y x.
Proof.
  destruct x, y; cbn [sseg_eqb]; try reflexivity; try apply oname_eqb_sym.
  rewrite eqb_text_sym, oname_eqb_sym. reflexivity.
Qed.
Lemma list_eqb_sym {A} (f : A -> A -> bool) l1 :
  Forall (fun x => forall y, f x y = f y x) l1 -> forall l2, list_eqb f l1 l2 = list_eqb f l2 l1.
Proof.
  induction 1 as [|x r Hx _ IH]; intros [|y l2]; cbn [list_eqb]; try reflexivity.
  rewrite Hx, IH. reflexivity.
Qed.
Lemma tree_eqb_sym t1 : forall t2, tree_eqb t1 t2 = tree_eqb t2 t1.
Proof.
  induction t1 as [p v a c|p l v a c IH] using tree_ind'; intros [p2 k2 v2 a2 c2];
    rewrite !tree_eqb_unfold;
    rewrite (list_eqb_sym sseg_eqb p) by (apply Forall_forall; intros; apply sseg_eqb_sym).
  - destruct k2; reflexivity.
  - destruct k2 as [l2|]; [|reflexivity]. rewrite (list_eqb_sym tree_eqb l IH). reflexivity.
Qed.

Lemma udist_perm l1 l2 : Permutation l1 l2 -> udist l1 -> udist l2.
Proof.
  unfold udist.
  induction 1 as [|x l l' HP IH|x y l|l l' l'' _ IH1 _ IH2]; intros H; auto.
  - inversion H as [|? ? Hx Hl]; subst. constructor; [|apply IH; exact Hl].
    rewrite Forall_forall in *. intros z Hz. apply Hx. eapply Permutation_in; [|exact Hz].
    apply Permutation_sym; exact HP.
  - inversion H as [|? ? Hy Hr]; subst. inversion Hr as [|? ? Hx Hl]; subst.
    inversion Hy as [|? ? Hyx Hyl]; subst.
    constructor; [constructor; [rewrite tree_eqb_sym; exact Hyx|exact Hx]|].
    constructor; assumption.
Qed.

(* every tree that Item produces is a fixed point of the three per-tree maps *)
Lemma item_elem cmp t f :
  GtAsym cmp -> item_ok t = true -> In f (flatten true (normalize cmp t)) ->
  let o := nest_trailing_self f in
  normalize cmp o = o /\ flatten true o = [o] /\ nest_trailing_self o = o.
Proof.
  intros Ha Hok Hf o. unfold item_ok in Hok. apply andb_true_iff in Hok. destruct Hok as [Hnv Hc].
  assert (Hnn : novis (normalize cmp t) = true) by (apply novis_norm; exact Hnv).
  split; [|split].
  - destruct (flatten_flat _ _ _ Hf) as [[-> Hcc]|Hk].
    + destruct (kids (normalize cmp t)) as [l|] eqn:Ek.
      * subst o. destruct (normalize cmp t) as [q k v a c] eqn:En. cbn [kids] in Ek. subst k.
        cbn [nest_trailing_self]. rewrite <- En.
        assert (Hcc' : contains_comment t = true).
        { rewrite <- (cc_normalize cmp t), En. cbn [path_is_empty pre kids] in Hcc.
          destruct q; exact Hcc. }
        rewrite Hcc' in Hc. cbn [negb orb] in Hc. destruct (idem_ok_inv t Hc).
        apply normalize_idem; auto.
      * apply normalize_flat; [rewrite Ek; reflexivity|exact Hnn].
    + apply normalize_flat; [exact Hk|]. eapply flatten_novis; eauto.
  - apply flatten_nest.
    destruct (flatten_flat _ _ _ Hf) as [[-> Hcc]|Hk]; [|apply flatten_self; exact Hk].
    destruct (normalize cmp t) as [q k v a c]. rewrite flatten_unfold, Hcc. reflexivity.
  - apply nest_idem.
Qed.

Lemma item_stable cmp ts O' :
  GtAsym cmp -> forallb item_ok ts = true ->
  Permutation O' (step cmp Item ts) -> step cmp Item O' = O'.
Proof.
  intros Ha H HP. unfold step in *. cbn [with_granularity] in *. unfold flatten_use_trees in *.
  set (I := map nest_trailing_self (flat_map (flatten true) (map (normalize cmp) ts))) in *.
  assert (He : forall o, In o O' ->
             normalize cmp o = o /\ flatten true o = [o] /\ nest_trailing_self o = o).
  { intros o Ho. apply (Permutation_in _ HP) in Ho. apply unique_aux_in in Ho.
    unfold I in Ho. apply in_map_iff in Ho. destruct Ho as [f [<- Hf]].
    apply in_flat_map in Hf. destruct Hf as [n [Hn Hf]].
    apply in_map_iff in Hn. destruct Hn as [t [<- Ht]].
    rewrite forallb_forall in H. apply (item_elem cmp t f Ha (H t Ht) Hf). }
  rewrite (map_fix (normalize cmp) O') by (intros o Ho; apply (He o Ho)).
  rewrite (flat_map_single (flatten true) O') by (intros o Ho; apply (He o Ho)).
  rewrite (map_fix nest_trailing_self O') by (intros o Ho; apply (He o Ho)).
  apply udist_fix; [|apply Forall_forall; reflexivity].
  eapply udist_perm; [apply Permutation_sym; exact HP|]. apply unique_aux_dist.
Qed.

(* ------------------------------------------------------------------ *)
(* 5. the whole pipeline on the concatenation of its own output groups *)
Lemma filter_all {A} (f : A -> bool) l : forallb f l = true -> filter f l = l.
Proof.
  induction l as [|x r IH]; cbn [forallb filter]; [reflexivity|].
  rewrite andb_true_iff. intros [Hx Hr]. rewrite Hx, IH by exact Hr. reflexivity.
Qed.
Lemma filter_none {A} (f : A -> bool) l : (forall x, In x l -> f x = false) -> filter f l = [].
Proof.
  induction l as [|x r IH]; intros H; cbn [filter]; [reflexivity|].
  rewrite (H x (or_introl eq_refl)). apply IH. intros y Hy. apply H. right; exact Hy.
Qed.
Lemma forallb_filter_self {A} (f : A -> bool) l : forallb f (filter f l) = true.
Proof.
  induction l as [|x r IH]; cbn [filter]; [reflexivity|].
  destruct (f x) eqn:E; [cbn [forallb]; rewrite E|]; exact IH.
Qed.

Section Pipeline.
Variable cmp : tree -> tree -> comparison.
Hypothesis asym : GtAsym cmp.

Definition in_group (k : nat) (t : tree) : bool := Nat.eqb (group_of t) k.
(* one output group: the trees of group k, sorted or not *)
Definition grp_out (reorder : bool) (k : nat) (O : list tree) : list tree :=
  if reorder then sort_by cmp (filter (in_group k) O) else filter (in_group k) O.

Lemma grp_out_all reorder k O : forallb (in_group k) (grp_out reorder k O) = true.
Proof.
  unfold grp_out. destruct reorder; [|apply forallb_filter_self].
  rewrite (forallb_perm _ _ _ (sort_perm _ cmp _)). apply forallb_filter_self.
Qed.
Lemma grp_out_filter reorder j k O :
  filter (in_group k) (grp_out reorder j O) = if Nat.eqb j k then grp_out reorder j O else [].
Proof.
  pose proof (grp_out_all reorder j O) as H.
  destruct (Nat.eqb_spec j k) as [->|Hne].
  - apply filter_all; exact H.
  - apply filter_none. intros x Hx. rewrite forallb_forall in H. specialize (H x Hx).
    unfold in_group in *. apply Nat.eqb_eq in H. apply Nat.eqb_neq. lia.
Qed.
Lemma grp_out_sorted k O : sort_by cmp (grp_out true k O) = grp_out true k O.
Proof. unfold grp_out. apply sort_by_idem; exact asym. Qed.

Lemma pipeline_groups g grp reorder ts :
  pipeline cmp g grp reorder ts =
  filter (fun l => negb (is_nil l))
    (if grp then [grp_out reorder 0 (step cmp g ts); grp_out reorder 1 (step cmp g ts);
                  grp_out reorder 2 (step cmp g ts)]
     else [if reorder then sort_by cmp (step cmp g ts) else step cmp g ts]).
Proof. unfold pipeline, step, grp_out, group_imports, in_group. destruct grp, reorder; reflexivity. Qed.

Theorem pipeline_idem_gen g grp reorder ts :
  step cmp g (concat (pipeline cmp g grp reorder ts)) = concat (pipeline cmp g grp reorder ts) ->
  pipeline cmp g grp reorder (concat (pipeline cmp g grp reorder ts)) =
  pipeline cmp g grp reorder ts.
Proof.
  intros Hst. rewrite (pipeline_groups g grp reorder (concat _)), Hst.
  rewrite (pipeline_groups g grp reorder ts). rewrite concat_filter_nonnil.
  set (O := step cmp g ts). f_equal. destruct grp.
  - cbn [concat]. rewrite app_nil_r.
    assert (Hk : forall k, k < 3 ->
              filter (in_group k) (grp_out reorder 0 O ++ grp_out reorder 1 O ++ grp_out reorder 2 O)
              = grp_out reorder k O).
    { intros k Hk. rewrite !filter_app, !grp_out_filter.
      destruct k as [|[|[|k]]]; try lia; cbn [Nat.eqb app]; rewrite ?app_nil_r; reflexivity. }
    unfold grp_out at 1 5 9. rewrite !Hk by lia.
    destruct reorder; [|reflexivity]. rewrite !grp_out_sorted. reflexivity.
  - cbn [concat]. rewrite app_nil_r. destruct reorder; [|reflexivity].
    rewrite sort_by_idem by exact asym. reflexivity.
Qed.

Theorem pipeline_idem_stable g grp reorder ts :
  (forall O', Permutation O' (step cmp g ts) -> step cmp g O' = O') ->
  pipeline cmp g grp reorder (concat (pipeline cmp g grp reorder ts)) =
  pipeline cmp g grp reorder ts.
Proof. intros H. apply pipeline_idem_gen, H, pipeline_perm. Qed.
End Pipeline.

(* ------------------------------------------------------------------ *)
(* 6. witnesses of the refuted statements (Examples.v prints them as use texts) *)
Definition sa := id1 97. Definition sb := id1 98. Definition sc := id1 99. Definition sd := id1 100.
Definition leaf_c (p : list sseg) : tree := Node p None None None true.

(* use a::self::self; *)
Definition w_chain : tree := top [sa; Slf None; Slf None] None 0 None.
(* a nested  self  that carries a visibility (from_ast never builds it) *)
Definition w_kidvis : tree := top [sa] (Some [Node [Slf None] None (Some 1%N) None false]) 0 None.
(* a::self::{self::{<empty path>}}  (from_ast never builds it) *)
Definition w_kidempty : tree :=
  top [sa; Slf None] (Some [kid [Slf None] (Some [kid [] None])]) 0 None.
(* use a::{b, c}; *)
Definition w_list : tree := top [sa] (Some [kid [sb] None; kid [sc] None]) 0 None.
(* use a::{b::self::self /* c */, c}; *)
Definition w_chain_cmt : tree := top [sa] (Some [leaf_c [sb; Slf None; Slf None]; kid [sc] None]) 0 None.
(* use a::b::c; use a::b::d; use a::b::c; *)
Definition w_dup_module : list tree :=
  [top [sa; sb; sc] None 0 None; top [sa; sb; sd] None 0 None; top [sa; sb; sc] None 0 None].
(* use b; use b::{self, a}; *)
Definition w_dup_crate : list tree :=
  [top [sb] None 0 None; top [sb] (Some [kid [Slf None] None; kid [sa] None]) 0 None].
(* use a::b; use a::b::c; use a; *)
Definition w_order_one : list tree :=
  [top [sa; sb] None 0 None; top [sa; sb; sc] None 0 None; top [sa] None 0 None].
(* use {self, a}; *)
Definition w_bare_self : list tree := [top [] (Some [kid [Slf None] None; kid [sa] None]) 0 None].

Fixpoint nodupb (l : list leaf) : bool :=
  match l with [] => true | x :: r => negb (existsb (leaf_eqb x) r) && nodupb r end.
Lemma nodupb_sound l : nodupb l = true -> NoDup l.
Proof.
  induction l as [|x r IH]; cbn [nodupb]; [constructor|].
  rewrite andb_true_iff, negb_true_iff. intros [H1 H2]. constructor; [|apply IH; exact H2].
  intros Hin. assert (existsb (leaf_eqb x) r = true) as E; [|congruence].
  apply existsb_exists. exists x. split; [exact Hin|apply leaf_eqb_refl].
Qed.

Lemma normalize_chain_witness :
  ast_shape w_chain = true /\ nested_ok w_chain = true /\ self_ok w_chain = false /\
  normalize cmp15 (normalize cmp15 w_chain) <> normalize cmp15 w_chain.
Proof. repeat split; try (vm_compute; reflexivity). vm_compute. intros H; discriminate H. Qed.

Lemma normalize_nested_witness :
  (self_ok w_kidvis = true /\ no_empty_kid w_kidvis = true /\ nested_ok w_kidvis = false /\
   normalize cmp15 (normalize cmp15 w_kidvis) <> normalize cmp15 w_kidvis) /\
  (self_ok w_kidempty = true /\ novis w_kidempty = true /\ nested_ok w_kidempty = false /\
   normalize cmp15 (normalize cmp15 w_kidempty) <> normalize cmp15 w_kidempty).
Proof.
  split; repeat split; try (vm_compute; reflexivity); vm_compute; intros H; discriminate H.
Qed.

Lemma normalize_anycmp_witness :
  ast_shape w_list = true /\ idem_ok w_list = true /\
  normalize cmp_gt (normalize cmp_gt w_list) <> normalize cmp_gt w_list.
Proof. repeat split; try (vm_compute; reflexivity). vm_compute. intros H; discriminate H. Qed.

Definition twice_differs (g : granularity) (ts : list tree) : Prop :=
  step cmp15 g (step cmp15 g ts) <> step cmp15 g ts.
Definition pipeline_twice_differs (g : granularity) (ts : list tree) : Prop :=
  forall grp reorder,
    pipeline cmp15 g grp reorder (concat (pipeline cmp15 g grp reorder ts)) <>
    pipeline cmp15 g grp reorder ts.

Ltac differs := vm_compute; let H := fresh in intros H; discriminate H.

Lemma chain_witness :
  forallb ast_shape [w_chain] = true /\
  twice_differs Preserve [w_chain] /\ twice_differs GCrate [w_chain] /\ twice_differs One [w_chain] /\
  pipeline_twice_differs Preserve [w_chain] /\ pipeline_twice_differs GCrate [w_chain] /\
  pipeline_twice_differs One [w_chain].
Proof.
  split; [vm_compute; reflexivity|].
  split; [differs|]. split; [differs|]. split; [differs|].
  split; [|split]; intros grp reorder; destruct grp, reorder; differs.
Qed.

Lemma chain_cmt_witness :
  forallb ast_shape [w_chain_cmt] = true /\ item_ok w_chain_cmt = false /\
  twice_differs Item [w_chain_cmt] /\ pipeline_twice_differs Item [w_chain_cmt].
Proof.
  split; [vm_compute; reflexivity|]. split; [vm_compute; reflexivity|]. split; [differs|].
  intros grp reorder; destruct grp, reorder; differs.
Qed.

Lemma dup_module_witness :
  forallb ast_shape w_dup_module = true /\ forallb idem_ok w_dup_module = true /\
  BadClass cmp15 Module w_dup_module = false /\
  twice_differs Module w_dup_module /\ pipeline_twice_differs Module w_dup_module.
Proof.
  split; [vm_compute; reflexivity|]. split; [vm_compute; reflexivity|].
  split; [vm_compute; reflexivity|]. split; [differs|].
  intros grp reorder; destruct grp, reorder; differs.
Qed.

Lemma dup_crate_witness :
  forallb ast_shape w_dup_crate = true /\ forallb idem_ok w_dup_crate = true /\
  BadClass cmp15 GCrate w_dup_crate = false /\ BadClass cmp15 One w_dup_crate = false /\
  twice_differs GCrate w_dup_crate /\ pipeline_twice_differs GCrate w_dup_crate /\
  twice_differs One w_dup_crate /\ pipeline_twice_differs One w_dup_crate.
Proof.
  split; [vm_compute; reflexivity|]. split; [vm_compute; reflexivity|].
  split; [vm_compute; reflexivity|]. split; [vm_compute; reflexivity|].
  split; [differs|]. split; [intros grp reorder; destruct grp, reorder; differs|].
  split; [differs|]. intros grp reorder; destruct grp, reorder; differs.
Qed.

Lemma order_one_witness :
  forallb ast_shape w_order_one = true /\ forallb idem_ok w_order_one = true /\
  forallb noalias w_order_one = true /\ BadClass cmp15 One w_order_one = false /\
  NoDup (Leaves w_order_one) /\
  twice_differs One w_order_one /\ pipeline_twice_differs One w_order_one.
Proof.
  split; [vm_compute; reflexivity|]. split; [vm_compute; reflexivity|].
  split; [vm_compute; reflexivity|]. split; [vm_compute; reflexivity|].
  split; [apply nodupb_sound; vm_compute; reflexivity|]. split; [differs|].
  intros grp reorder; destruct grp, reorder; differs.
Qed.

Lemma bare_self_witness :
  forallb ast_shape w_bare_self = true /\ forallb idem_ok w_bare_self = true /\
  BadClass cmp15 GCrate w_bare_self = false /\ NoDup (Leaves w_bare_self) /\
  twice_differs GCrate w_bare_self /\ pipeline_twice_differs GCrate w_bare_self.
Proof.
  split; [vm_compute; reflexivity|]. split; [vm_compute; reflexivity|].
  split; [vm_compute; reflexivity|].
  split; [apply nodupb_sound; vm_compute; reflexivity|]. split; [differs|].
  intros grp reorder; destruct grp, reorder; differs.
Qed.

(* pipeline_idem for the two granularities that do not merge *)
Lemma pipeline_idem_preserve cmp grp reorder ts :
  GtAsym cmp -> forallb idem_ok ts = true ->
  pipeline cmp Preserve grp reorder (concat (pipeline cmp Preserve grp reorder ts)) =
  pipeline cmp Preserve grp reorder ts.
Proof.
  intros Ha H. apply pipeline_idem_stable; [exact Ha|].
  intros O' HP. eapply preserve_stable; eauto.
Qed.
Lemma pipeline_idem_item cmp grp reorder ts :
  GtAsym cmp -> forallb item_ok ts = true ->
  pipeline cmp Item grp reorder (concat (pipeline cmp Item grp reorder ts)) =
  pipeline cmp Item grp reorder ts.
Proof.
  intros Ha H. apply pipeline_idem_stable; [exact Ha|].
  intros O' HP. eapply item_stable; eauto.
Qed.

(* ------------------------------------------------------------------ *)
(* the statements in the form Props.v quotes them *)
Lemma import_sort_idem (cmp : tree -> tree -> comparison) (l : list tree) :
  GtAsym cmp -> sort_by cmp (sort_by cmp l) = sort_by cmp l.
Proof. intros H. apply sort_by_idem; exact H. Qed.
Lemma normalize_idem_thm (cmp : tree -> tree -> comparison) (t : tree) :
  GtAsym cmp -> nested_ok t = true -> self_ok t = true ->
  normalize cmp (normalize cmp t) = normalize cmp t.
Proof. intros H. apply normalize_idem; exact H. Qed.
Lemma pipeline_idem_from_regroup (cmp : tree -> tree -> comparison) (g : granularity)
      (grp reorder : bool) (ts : list tree) :
  GtAsym cmp ->
  step cmp g (concat (pipeline cmp g grp reorder ts)) = concat (pipeline cmp g grp reorder ts) ->
  pipeline cmp g grp reorder (concat (pipeline cmp g grp reorder ts)) = pipeline cmp g grp reorder ts.
Proof. intros H. apply pipeline_idem_gen; exact H. Qed.
Lemma normalize_idem_refuted :
  exists t, ast_shape t = true /\ nested_ok t = true /\ self_ok t = false /\
    normalize cmp15 (normalize cmp15 t) <> normalize cmp15 t.
Proof. exists w_chain. exact normalize_chain_witness. Qed.
Lemma normalize_idem_nested_refuted :
  (exists t, self_ok t = true /\ no_empty_kid t = true /\ nested_ok t = false /\
     normalize cmp15 (normalize cmp15 t) <> normalize cmp15 t) /\
  (exists t, self_ok t = true /\ novis t = true /\ nested_ok t = false /\
     normalize cmp15 (normalize cmp15 t) <> normalize cmp15 t).
Proof.
  split; [exists w_kidvis; apply normalize_nested_witness|exists w_kidempty; apply normalize_nested_witness].
Qed.
Lemma normalize_idem_anycmp_refuted :
  exists cmp t, ast_shape t = true /\ idem_ok t = true /\
    normalize cmp (normalize cmp t) <> normalize cmp t.
Proof. exists cmp_gt, w_list. exact normalize_anycmp_witness. Qed.
Lemma regroup_idem_selfchain_refuted :
  exists ts, forallb ast_shape ts = true /\
    twice_differs Preserve ts /\ twice_differs GCrate ts /\ twice_differs One ts /\
    pipeline_twice_differs Preserve ts /\ pipeline_twice_differs GCrate ts /\
    pipeline_twice_differs One ts.
Proof. exists [w_chain]. exact chain_witness. Qed.
Lemma regroup_idem_item_refuted :
  exists ts, forallb ast_shape ts = true /\ forallb item_ok ts = false /\
    twice_differs Item ts /\ pipeline_twice_differs Item ts.
Proof.
  exists [w_chain_cmt]. destruct chain_cmt_witness as [H1 [H2 H3]].
  split; [exact H1|]. split; [cbn [forallb]; rewrite H2; reflexivity|exact H3].
Qed.
Lemma regroup_idem_crate_refuted :
  exists ts, forallb ast_shape ts = true /\ forallb idem_ok ts = true /\
    BadClass cmp15 GCrate ts = false /\ BadClass cmp15 One ts = false /\
    twice_differs GCrate ts /\ pipeline_twice_differs GCrate ts /\
    twice_differs One ts /\ pipeline_twice_differs One ts.
Proof. exists w_dup_crate. exact dup_crate_witness. Qed.
Lemma regroup_idem_crate_bare_self_refuted :
  exists ts, forallb ast_shape ts = true /\ forallb idem_ok ts = true /\
    BadClass cmp15 GCrate ts = false /\ NoDup (Leaves ts) /\
    twice_differs GCrate ts /\ pipeline_twice_differs GCrate ts.
Proof. exists w_bare_self. exact bare_self_witness. Qed.
Lemma regroup_idem_one_refuted :
  exists ts, forallb ast_shape ts = true /\ forallb idem_ok ts = true /\
    forallb noalias ts = true /\ BadClass cmp15 One ts = false /\ NoDup (Leaves ts) /\
    twice_differs One ts /\ pipeline_twice_differs One ts.
Proof. exists w_order_one. exact order_one_witness. Qed.

(* ------------------------------------------------------------------ *)
(* 7. Module granularity on plain paths.
   A flattened import is plain when it is a path without list (it may end in self: the
   import of io in std::io::{self, Read}), without attributes or comment, and, when it has
   a single segment, without alias (two first segments are matched by equal_except_alias:
   the AliasClash class of C10). *)
Definition leafk (x : sseg) : tree := Node [x] None None None false.
Definition R1 (q : list sseg) (x : sseg) (v : option N) : tree := Node (q ++ [x]) None v None false.
Definition R2 (q : list sseg) (L : list tree) (v : option N) : tree := Node q (Some L) v None false.
Definition is_slf (s : sseg) : bool := match s with Slf _ => true | _ => false end.
(* what the last segment x of a plain path q::x must satisfy *)
Definition okseg (q : list sseg) (x : sseg) : bool :=
  negb (is_nil q) || negb (is_some (salias x)).
(* nest_trailing_self on a plain path *)
Definition nestR (q : list sseg) (x : sseg) (v : option N) : tree :=
  if is_slf x then R2 q [leafk x] v else R1 q x v.

Lemma prefix_len_common q : forall first a b,
  prefix_len first (map GS q ++ a) (map GS q ++ b) = length q + prefix_len (first && is_nil q) a b.
Proof.
  induction q as [|s q IH]; intros first a b; cbn [map app length is_nil].
  - rewrite andb_true_r. reflexivity.
  - cbn [prefix_len gseg_eqb]. rewrite sseg_eqb_refl, orb_true_r, IH, andb_false_r. reflexivity.
Qed.

Lemma of_path_list q L v a c : of_path (map GS q ++ [GL L]) v a c = Node q (Some L) v a c.
Proof. unfold of_path. rewrite split_path_GL. reflexivity. Qed.

Lemma firstn_common {A} (l r : list A) : firstn (length l + 0) (l ++ r) = l.
Proof. rewrite Nat.add_0_r, firstn_app, Nat.sub_diag, firstn_all. cbn [firstn]. apply app_nil_r. Qed.
Lemma skipn_common {A} (l r : list A) : skipn (length l + 0) (l ++ r) = r.
Proof. rewrite Nat.add_0_r, skipn_app, Nat.sub_diag, skipn_all. reflexivity. Qed.

Ltac solve_len :=
  cbn [klist]; repeat (rewrite app_length || rewrite map_length); cbn [length]; lia.

Lemma mrw_both_longer cmp inner pa ka b len :
  length (map GS pa ++ klist ka) <> len -> length b <> len ->
  merge_rest_with cmp inner pa ka b len =
  let fin := Some (firstn len b ++
                   [GL (sort_by cmp [from_path (skipn len (map GS pa ++ klist ka));
                                     from_path (skipn len b)])]) in
  match ka with
  | Some l => if Nat.eqb len (length pa)
              then Some (firstn len b ++ [GL (inner l (from_path (skipn len b)))])
              else fin
  | None => fin
  end.
Proof.
  intros Ha Hb. unfold merge_rest_with.
  destruct (Nat.eqb_spec (length (map GS pa ++ klist ka)) len) as [E|_]; [contradiction|].
  destruct (Nat.eqb_spec (length b) len) as [E|_]; [contradiction|].
  cbn [andb negb]. reflexivity.
Qed.

Lemma merge_R1_R1 cmp q x y v v' :
  sseg_eqb x y = false -> (q = [] -> sseg_eea x y = false) ->
  merge cmp SPModule (R1 q x v) (R1 q y v') = R2 q (sort_by cmp [leafk x; leafk y]) v.
Proof.
  intros Hne Hea. unfold R1, R2. cbn [merge]. unfold path. cbn [pre kids klist].
  rewrite !map_app, !app_nil_r. cbn [map].
  rewrite prefix_len_common.
  assert (Hp : prefix_len (true && is_nil q) [GS x] [GS y] = 0).
  { cbn [prefix_len eea gseg_eqb]. rewrite Hne, orb_false_r.
    destruct q; cbn [is_nil andb]; [rewrite Hea by reflexivity|]; reflexivity. }
  rewrite Hp, mrw_both_longer;
    [|solve_len|solve_len].
  cbn zeta. cbn [klist]. rewrite map_app, app_nil_r. cbn [map].
  rewrite <- (map_length GS q). rewrite firstn_common, !skipn_common.
  cbn [from_path of_path split_path]. apply of_path_list.
Qed.

Lemma inner_choice_module_push L u :
  Forall (fun t => path_len t = 1) L -> inner_choice SPModule L u = CPush.
Proof.
  intros HL. unfold inner_choice. rewrite andb_false_r.
  destruct (last_max 0 None _) as [[i k]|] eqn:E; [|reflexivity].
  apply last_max_spec in E. destruct E as [E|[_ E]]; [discriminate|].
  apply nth_error_map' in E. destruct E as [t [Ht E]].
  destruct (share_prefix t u SPModule); [|discriminate]. inversion E; subst k.
  rewrite Forall_forall in HL. rewrite (HL t (nth_error_In _ _ Ht)). reflexivity.
Qed.

Lemma merge_R2_R1 cmp q L y v v' :
  Forall (fun t => path_len t = 1) L ->
  merge cmp SPModule (R2 q L v) (R1 q y v') = R2 q (sort_by cmp (L ++ [leafk y])) v.
Proof.
  intros HL. unfold R1, R2. cbn [merge]. unfold path. cbn [pre kids klist].
  rewrite !map_app, !app_nil_r. cbn [map].
  rewrite prefix_len_common. cbn [prefix_len eea gseg_eqb]. rewrite andb_false_r. cbn [orb].
  rewrite mrw_both_longer;
    [|solve_len|solve_len].
  cbn zeta.
  replace (Nat.eqb (length q + 0) (length q)) with true by (symmetry; apply Nat.eqb_eq; lia).
  rewrite <- (map_length GS q). rewrite firstn_common, skipn_common.
  cbn [from_path of_path split_path]. fold (leafk y).
  unfold inner_with. rewrite (inner_choice_module_push L (leafk y) HL). apply of_path_list.
Qed.

(* the key under which Module merges: visibility class and the path without its last segment *)
Definition mkey (r : tree) : N * list sseg := (vnorm (vis r), path_init r).
Definition keyof (r : tree) : list (N * list sseg) :=
  if passthrough r || path_is_empty r then [] else [mkey r].
Definition keys (res : list tree) : list (N * list sseg) := flat_map keyof res.

Lemma list_eqb_sseg_refl p : list_eqb sseg_eqb p p = true.
Proof. induction p as [|s p IH]; cbn [list_eqb]; [reflexivity|]. rewrite sseg_eqb_refl, IH. reflexivity. Qed.

Lemma share_module r f :
  share_prefix r f SPModule = true <->
  passthrough r = false /\ path_is_empty r = false /\ path_is_empty f = false /\ mkey r = mkey f.
Proof.
  unfold share_prefix, passthrough, mkey, same_visibility.
  destruct (path_is_empty r), (path_is_empty f), (is_some (attrs r)), (contains_comment r);
    cbn [orb negb]; try (split; [discriminate|intros [? [? [? ?]]]; discriminate]).
  destruct (N.eqb_spec (vnorm (vis r)) (vnorm (vis f))) as [Ev|Ev]; cbn [negb].
  - split.
    + intros H. apply list_eqb_sseg_eq in H. rewrite Ev, H. auto.
    + intros [_ [_ [_ H]]]. inversion H as [[H1 H2]]. apply list_eqb_sseg_refl.
  - split; [discriminate|]. intros [_ [_ [_ H]]]. inversion H. contradiction.
Qed.

Lemma in_keys k res :
  In k (keys res) <->
  exists r, In r res /\ passthrough r = false /\ path_is_empty r = false /\ mkey r = k.
Proof.
  unfold keys. rewrite in_flat_map. split.
  - intros [r [Hr Hk]]. exists r. unfold keyof in Hk.
    destruct (passthrough r), (path_is_empty r); cbn [orb] in Hk; try contradiction.
    destruct Hk as [Hk|[]]. auto.
  - intros [r [Hr [H1 [H2 H3]]]]. exists r. split; [exact Hr|].
    unfold keyof. rewrite H1, H2. left; exact H3.
Qed.

Lemma no_share res f :
  ~ In (mkey f) (keys res) -> forall r, In r res -> share_prefix r f SPModule = false.
Proof.
  intros Hk r Hr. destruct (share_prefix r f SPModule) eqn:E; [|reflexivity].
  apply share_module in E. destruct E as [H1 [H2 [_ H3]]]. exfalso. apply Hk.
  apply in_keys. exists r. auto.
Qed.

Lemma find_index_none_iff (g : tree -> bool) l : forall i,
  find_index g i l = None <-> forall r, In r l -> g r = false.
Proof.
  induction l as [|x l IH]; intros i; cbn [find_index].
  - split; [intros _ r []|reflexivity].
  - destruct (g x) eqn:E.
    + split; [discriminate|]. intros H. rewrite (H x (or_introl eq_refl)) in E. discriminate.
    + rewrite IH. split.
      * intros H r [<-|Hr]; auto.
      * intros H r Hr. apply H. right; exact Hr.
Qed.

Lemma find_index_app (g : tree -> bool) l1 x l2 : forall i,
  (forall r, In r l1 -> g r = false) -> g x = true ->
  find_index g i (l1 ++ x :: l2) = Some (i + length l1).
Proof.
  induction l1 as [|y l1 IH]; intros i H Hx; cbn [app find_index length].
  - rewrite Hx. f_equal. lia.
  - rewrite (H y (or_introl eq_refl)). rewrite IH; [f_equal; lia| |exact Hx].
    intros r Hr. apply H. right; exact Hr.
Qed.

Lemma apply_at_app (f : tree -> tree) l1 x l2 :
  apply_at f (length l1) (l1 ++ x :: l2) = l1 ++ f x :: l2.
Proof.
  induction l1 as [|y l1 IH]; cbn [app length apply_at]; [reflexivity|].
  fold (apply_at f). rewrite IH. reflexivity.
Qed.

Lemma Sorted_app_l {A} (R : A -> A -> Prop) l1 l2 : Sorted R (l1 ++ l2) -> Sorted R l1.
Proof.
  induction l1 as [|x l1 IH]; cbn [app]; intros H; [constructor|].
  inversion H as [|? ? Hs Hd]; subst. constructor; [apply IH; exact Hs|].
  destruct l1; [constructor|]. cbn [app] in Hd. inversion Hd; subst. constructor; assumption.
Qed.

Definition items (r : tree) : list (list sseg) :=
  match r with
  | Node p None _ _ _ => [p]
  | Node q (Some L) _ _ _ => map (fun t => q ++ pre t) L
  end.

Lemma rev_snoc {A} (l : list A) x : rev (l ++ [x]) = x :: rev l.
Proof. apply rev_unit. Qed.

Lemma R1_facts q x v :
  passthrough (R1 q x v) = false /\ path_is_empty (R1 q x v) = false /\
  mkey (R1 q x v) = (vnorm v, q).
Proof.
  unfold R1, passthrough, mkey, path_init, path_is_empty. cbn [contains_comment attrs is_some orb kids pre vis].
  rewrite removelast_snoc. repeat split. destruct q; reflexivity.
Qed.
Lemma existsb_cc_leafk xs : existsb contains_comment (map leafk xs) = false.
Proof. induction xs as [|x xs IH]; cbn [map existsb]; [reflexivity|]. rewrite IH. reflexivity. Qed.
Lemma R2_facts q xs v :
  passthrough (R2 q (map leafk xs) v) = false /\ path_is_empty (R2 q (map leafk xs) v) = false /\
  mkey (R2 q (map leafk xs) v) = (vnorm v, q).
Proof.
  unfold R2, passthrough, mkey, path_init, path_is_empty.
  cbn [contains_comment attrs is_some orb kids pre vis]. rewrite existsb_cc_leafk.
  repeat split. destruct q; reflexivity.
Qed.

Lemma nest_R1 q x v : nest_trailing_self (R1 q x v) = nestR q x v.
Proof.
  unfold R1, nestR. cbn [nest_trailing_self]. rewrite rev_snoc.
  destruct x; try reflexivity. rewrite rev_involutive. reflexivity.
Qed.
Lemma nestR_facts q x v :
  passthrough (nestR q x v) = false /\ path_is_empty (nestR q x v) = false /\
  mkey (nestR q x v) = (vnorm v, q) /\ vis (nestR q x v) = v /\ items (nestR q x v) = [q ++ [x]].
Proof.
  unfold nestR. destruct (is_slf x).
  - destruct (R2_facts q [x] v) as [H1 [H2 H3]]. cbn [map] in *. repeat split; assumption.
  - destruct (R1_facts q x v) as [H1 [H2 H3]]. repeat split; assumption.
Qed.

Lemma flatten_R1 item q x v : flatten item (R1 q x v) = [R1 q x v].
Proof. unfold R1. rewrite flatten_unfold. destruct (_ || _); reflexivity. Qed.

Lemma flatten_R2 q xs v :
  2 <= length xs ->
  flatten false (R2 q (map leafk xs) v) = map (fun x => R1 q x v) xs.
Proof.
  intros Hl. destruct (R2_facts q xs v) as [Hp [He _]].
  unfold R2 in *. rewrite flatten_unfold, He.
  unfold passthrough in Hp. apply orb_false_iff in Hp. destruct Hp as [Hc _]. rewrite Hc.
  cbn [orb].
  assert (Hs : sole_self (map leafk xs) = false).
  { destruct xs as [|a [|b r]]; cbn [length] in Hl; try lia. destruct a; reflexivity. }
  rewrite Hs. clear. induction xs as [|x xs IH]; [reflexivity|].
  cbn [map flat_map]. rewrite IH. reflexivity.
Qed.

Section ModuleFix.
Variable cmp : tree -> tree -> comparison.
Hypothesis asym : GtAsym cmp.

(* the trees that Module produces on plain inputs *)
Inductive mkind : tree -> Prop :=
| MK_pass t : passthrough t = true -> normalize cmp t = t -> mkind t
| MK_one q x v : okseg q x = true -> is_slf x = false -> mkind (R1 q x v)
| MK_list q xs v :
    (2 <= length xs \/ exists al, xs = [Slf al]) -> forallb (okseg q) xs = true -> NoDup xs ->
    Sorted (le_by cmp) (map leafk xs) -> mkind (R2 q (map leafk xs) v).

Lemma okseg_inv q x : okseg q x = true -> q = [] -> salias x = None.
Proof.
  unfold okseg. intros H2 ->. cbn [is_nil negb orb] in H2.
  destruct (salias x); [discriminate|reflexivity].
Qed.

Lemma normalize_R1 q x v : is_slf x = false -> normalize cmp (R1 q x v) = R1 q x v.
Proof.
  intros H. unfold R1, normalize. cbn [vis attrs cmt norm kids pre app].
  unfold norm_simple. rewrite rev_snoc. destruct x; try discriminate;
    rewrite ?andb_false_r; try reflexivity; destruct (rev q); reflexivity.
Qed.

Lemma nrm_leafk x : nrm cmp (leafk x) = leafk x.
Proof.
  unfold nrm, leafk. cbn [vis attrs cmt norm kids pre app]. unfold norm_simple. cbn [rev app].
  destruct x as [n al|[al|]|al|al|]; reflexivity.
Qed.

Lemma normalize_R2 q xs v :
  2 <= length xs -> Sorted (le_by cmp) (map leafk xs) ->
  normalize cmp (R2 q (map leafk xs) v) = R2 q (map leafk xs) v.
Proof.
  intros Hl Hs. unfold R2, normalize. cbn [vis attrs cmt].
  rewrite norm_list_ge2 by (rewrite map_length; exact Hl). cbn [app].
  rewrite (map_fix (nrm cmp)).
  - rewrite sorted_sort_id by exact Hs. reflexivity.
  - intros t Ht. apply in_map_iff in Ht. destruct Ht as [x [<- _]]. apply nrm_leafk.
Qed.

Lemma mkind_normalize o : mkind o -> normalize cmp o = o.
Proof.
  intros [t _ H|q x v H Hx|q xs v [Hl|[al ->]] Hok Hnd Hs].
  - exact H.
  - apply normalize_R1. exact Hx.
  - apply normalize_R2; assumption.
  - apply normalize_selflist.
Qed.

(* one plain flattened tree meets a list in which nothing shares its key *)
Lemma push_R1 res q x v :
  ~ In (vnorm v, q) (keys res) ->
  add_flattened cmp SPModule res (R1 q x v) = res ++ [nestR q x v].
Proof.
  intros Hk. unfold add_flattened.
  assert (Hn : find_index (fun t => share_prefix t (R1 q x v) SPModule) 0 res = None).
  { apply find_index_none_iff. apply no_share.
    destruct (R1_facts q x v) as [_ [_ ->]]. exact Hk. }
  rewrite Hn, nest_R1. reflexivity.
Qed.

Lemma share_R1 r q x v :
  passthrough r = false -> path_is_empty r = false -> mkey r = (vnorm v, q) ->
  share_prefix r (R1 q x v) SPModule = true.
Proof.
  intros H1 H2 H3. apply share_module. destruct (R1_facts q x v) as [_ [He Hm]].
  rewrite Hm. auto.
Qed.

Lemma merge_into res r l2 q x v :
  ~ In (vnorm v, q) (keys res) ->
  passthrough r = false -> path_is_empty r = false -> mkey r = (vnorm v, q) ->
  add_flattened cmp SPModule (res ++ r :: l2) (R1 q x v) =
  res ++ merge cmp SPModule r (R1 q x v) :: l2.
Proof.
  intros Hk H1 H2 H3. unfold add_flattened.
  rewrite (find_index_app _ res r l2 0).
  - cbn [Nat.add]. apply (apply_at_app (fun t => merge cmp SPModule t (R1 q x v))).
  - apply no_share. destruct (R1_facts q x v) as [_ [_ ->]]. exact Hk.
  - apply share_R1; assumption.
Qed.

Lemma leafk_plen xs : Forall (fun t => path_len t = 1) (map leafk xs).
Proof. apply Forall_forall. intros t Ht. apply in_map_iff in Ht. destruct Ht as [x [<- _]]. reflexivity. Qed.

Lemma rebuild_tail res q v : forall rest done,
  ~ In (vnorm v, q) (keys res) ->
  Sorted (le_by cmp) (map leafk (done ++ rest)) ->
  fold_left (add_flattened cmp SPModule) (map (fun x => R1 q x v) rest)
            (res ++ [R2 q (map leafk done) v]) =
  res ++ [R2 q (map leafk (done ++ rest)) v].
Proof.
  induction rest as [|y rest IH]; intros done Hk Hs; cbn [map fold_left].
  - rewrite app_nil_r. reflexivity.
  - destruct (R2_facts q done v) as [F1 [F2 F3]].
    rewrite (merge_into res _ [] q y v Hk F1 F2 F3).
    rewrite merge_R2_R1 by apply leafk_plen.
    replace (map leafk done ++ [leafk y]) with (map leafk (done ++ [y]))
      by (rewrite map_app; reflexivity).
    replace (done ++ y :: rest) with ((done ++ [y]) ++ rest) in * by (rewrite <- app_assoc; reflexivity).
    rewrite sorted_sort_id.
    + apply IH; assumption.
    + rewrite map_app in Hs. eapply Sorted_app_l. exact Hs.
Qed.

Lemma add_tree_fix res o :
  mkind o -> (passthrough o = false -> ~ In (mkey o) (keys res)) ->
  add_tree cmp SPModule res o = res ++ [o].
Proof.
  intros [t Hp _|q x v Hok Hx|q xs v Hl Hok Hnd Hs] Hk.
  - unfold add_tree. unfold passthrough in Hp. rewrite Hp. reflexivity.
  - destruct (R1_facts q x v) as [F1 [F2 F3]]. specialize (Hk F1). rewrite F3 in Hk.
    unfold add_tree. unfold passthrough in F1. rewrite F1, flatten_R1. cbn [fold_left].
    rewrite push_R1 by exact Hk. unfold nestR. rewrite Hx. reflexivity.
  - destruct (R2_facts q xs v) as [F1 [F2 F3]]. specialize (Hk F1). rewrite F3 in Hk.
    unfold add_tree. pose proof F1 as F1'. unfold passthrough in F1'. rewrite F1'.
    destruct Hl as [Hl|[al ->]].
    + rewrite flatten_R2 by exact Hl.
      destruct xs as [|x1 [|x2 xr]]; cbn [length] in Hl; try lia.
      cbn [map fold_left]. cbn [forallb] in Hok. apply andb_true_iff in Hok. destruct Hok as [Ho1 Hok].
      apply andb_true_iff in Hok. destruct Hok as [Ho2 _].
      pose proof (okseg_inv _ _ Ho1) as A1. pose proof (okseg_inv _ _ Ho2) as A2.
      rewrite (push_R1 res q x1 v Hk). unfold nestR. destruct (is_slf x1) eqn:S1.
      * change [leafk x1] with (map leafk [x1]).
        apply (rebuild_tail res q v (x2 :: xr) [x1] Hk). exact Hs.
      * destruct (R1_facts q x1 v) as [G1 [G2 G3]].
        rewrite (merge_into res _ [] q x2 v Hk G1 G2 G3).
        assert (Hne : x1 <> x2).
        { inversion Hnd as [|? ? Hnin _]; subst. intros ->. apply Hnin. left; reflexivity. }
        assert (Hneb : sseg_eqb x1 x2 = false).
        { destruct (sseg_eqb x1 x2) eqn:E; [|reflexivity]. apply sseg_eqb_eq in E. contradiction. }
        rewrite merge_R1_R1; [|exact Hneb|].
        -- assert (Hs2 : Sorted (le_by cmp) (map leafk [x1; x2])).
           { change (x1 :: x2 :: xr) with ([x1; x2] ++ xr) in Hs. rewrite map_app in Hs.
             eapply Sorted_app_l. exact Hs. }
           change [leafk x1; leafk x2] with (map leafk [x1; x2]).
           rewrite sorted_sort_id by exact Hs2.
           apply (rebuild_tail res q v xr [x1; x2] Hk). exact Hs.
        -- intros Hq. rewrite sseg_eea_noalias; auto.
    + cbn [map]. rewrite (flatten_self false (R2 q [leafk (Slf al)] v)) by reflexivity.
      cbn [fold_left]. unfold add_flattened.
      assert (Hn : find_index (fun t => share_prefix t (R2 q [leafk (Slf al)] v) SPModule) 0 res = None).
      { apply find_index_none_iff. apply no_share. cbn [map] in F3. rewrite F3. exact Hk. }
      rewrite Hn. reflexivity.
Qed.

Lemma regroup_fix_gen O : forall res,
  Forall mkind O -> NoDup (keys (res ++ O)) ->
  fold_left (add_tree cmp SPModule) O res = res ++ O.
Proof.
  induction O as [|o O IH]; intros res Hk Hnd; cbn [fold_left].
  - rewrite app_nil_r. reflexivity.
  - inversion Hk as [|? ? Ho HO]; subst.
    rewrite add_tree_fix; [|exact Ho|].
    + rewrite IH; [rewrite <- app_assoc; reflexivity|exact HO|].
      rewrite <- app_assoc. exact Hnd.
    + intros Hp. unfold keys in Hnd. rewrite flat_map_app in Hnd. cbn [flat_map] in Hnd.
      assert (Hne : path_is_empty o = false).
      { destruct Ho as [t Hpt _|q x v _ _|q xs v _ _ _ _].
        - rewrite Hp in Hpt. discriminate.
        - apply R1_facts.
        - apply R2_facts. }
      unfold keyof at 2 in Hnd. rewrite Hp, Hne in Hnd. cbn [orb app] in Hnd.
      apply NoDup_remove_2 in Hnd. intros Hin. apply Hnd. apply in_or_app. left. exact Hin.
Qed.

(* B: a list of Module normal forms with pairwise different keys is a fixed point of one pass *)
Theorem module_nf_fix O :
  Forall mkind O -> NoDup (keys O) -> step cmp Module O = O.
Proof.
  intros Hk Hnd. unfold step. cbn [with_granularity].
  rewrite (map_fix (normalize cmp)).
  - unfold regroup. apply (regroup_fix_gen O []); assumption.
  - intros o Ho. apply mkind_normalize. rewrite Forall_forall in Hk. auto.
Qed.
End ModuleFix.

(* A: the first pass on plain flattened imports without repetition builds such a list *)
Definition flat_dup (x y : tree) : bool :=
  same_visibility x y && list_eqb sseg_eqb (pre x) (pre y).
Fixpoint nodup_flat (l : list tree) : bool :=
  match l with
  | [] => true
  | x :: r => negb (existsb (flat_dup x) r) && nodup_flat r
  end.
Definition mod_plain (f : tree) : bool :=
  match f with
  | Node p None _ None false =>
      match rev p with x :: rq => okseg (rev rq) x | [] => false end
  | _ => false
  end.
Definition flats (es : list ev) : list tree :=
  flat_map (fun e => match e with EFlat f => [f] | EPass _ => [] end) es.
Definition fresh (f : tree) (res : list tree) : Prop :=
  forall r, In r res -> passthrough r = false -> same_visibility r f = true ->
            ~ In (pre f) (items r).

Lemma mod_plain_inv f :
  mod_plain f = true -> exists q y v, f = R1 q y v /\ okseg q y = true.
Proof.
  destruct f as [p [l|] v [a|] [|]]; cbn [mod_plain]; try discriminate.
  destruct (rev p) as [|x rq] eqn:E; [discriminate|]. intros H.
  apply rev_cons_eq in E. subst p. exists (rev rq), x, v. split; [reflexivity|exact H].
Qed.

Lemma nodup_flat_sound l :
  nodup_flat l = true -> ForallOrdPairs (fun x y => flat_dup x y = false) l.
Proof.
  induction l as [|x r IH]; cbn [nodup_flat]; [constructor|].
  rewrite andb_true_iff, negb_true_iff. intros [H1 H2]. constructor; [|apply IH; exact H2].
  apply Forall_forall. intros y Hy. destruct (flat_dup x y) eqn:E; [|reflexivity].
  rewrite <- H1. symmetry. apply existsb_exists. exists y. auto.
Qed.

Lemma NoDup_snoc {A} (l : list A) a : NoDup l -> ~ In a l -> NoDup (l ++ [a]).
Proof.
  intros H1 H2. eapply Permutation_NoDup; [apply Permutation_cons_append|].
  constructor; assumption.
Qed.

Lemma keyof_nonpass r :
  passthrough r = false -> path_is_empty r = false -> keyof r = [mkey r].
Proof. intros H1 H2. unfold keyof. rewrite H1, H2. reflexivity. Qed.
Lemma keys_app l1 l2 : keys (l1 ++ l2) = keys l1 ++ keys l2.
Proof. apply flat_map_app. Qed.

Lemma same_vis_R v v' q x q' x' :
  vnorm v = vnorm v' -> same_visibility (Node q x v None false) (Node q' x' v' None false) = true.
Proof. intros H. unfold same_visibility. cbn [vis]. rewrite H. apply N.eqb_refl. Qed.

Section ModuleRun.
Variable cmp : tree -> tree -> comparison.
Hypothesis asym : GtAsym cmp.

Definition MInv (res : list tree) : Prop := Forall (mkind cmp) res /\ NoDup (keys res).
Definition ev_okm (e : ev) : Prop :=
  match e with
  | EPass t => passthrough t = true /\ normalize cmp t = t
  | EFlat f => mod_plain f = true
  end.

Lemma sort_leafk xs :
  exists xs', sort_by cmp (map leafk xs) = map leafk xs' /\ Permutation xs xs'.
Proof.
  destruct (Permutation_map_inv leafk xs (sort_perm _ cmp (map leafk xs))) as [xs' [H1 H2]].
  exists xs'. auto.
Qed.

(* the merged list: a Module normal form whose items are those of xs *)
Lemma mkind_sorted q xs v :
  2 <= length xs -> forallb (okseg q) xs = true -> NoDup xs ->
  exists xs', sort_by cmp (map leafk xs) = map leafk xs' /\ Permutation xs xs' /\
              mkind cmp (R2 q (map leafk xs') v).
Proof.
  intros Hl Hok Hnd. destruct (sort_leafk xs) as [xs' [E HP]]. exists xs'.
  split; [exact E|]. split; [exact HP|]. apply MK_list.
  - left. rewrite <- (Permutation_length HP). exact Hl.
  - rewrite <- (forallb_perm _ _ _ HP). exact Hok.
  - eapply Permutation_NoDup; eauto.
  - rewrite <- E. apply sort_by_sorted. exact asym.
Qed.

Lemma step_flat res f :
  MInv res -> mod_plain f = true -> fresh f res ->
  MInv (add_flattened cmp SPModule res f) /\
  forall f2, flat_dup f f2 = false -> fresh f2 res -> fresh f2 (add_flattened cmp SPModule res f).
Proof.
  intros [Hk Hnd] Hp Hfr. destruct (mod_plain_inv f Hp) as [q [y [vf [-> Hoy]]]].
  destruct (R1_facts q y vf) as [Fp [Fe Fm]].
  unfold add_flattened.
  destruct (find_index (fun t => share_prefix t (R1 q y vf) SPModule) 0 res) as [i|] eqn:Ef.
  - apply find_index_spec in Ef. destruct Ef as [_ [r [En Hsh]]]. rewrite Nat.sub_0_r in En.
    destruct (apply_at_split (fun t => merge cmp SPModule t (R1 q y vf)) (fun _ => true) res i r En)
      as [l1 [l2 [E1 [E2 _]]]].
    rewrite E2. apply share_module in Hsh. destruct Hsh as [Rp [Re [_ Rm]]]. rewrite Fm in Rm.
    assert (Hr : mkind cmp r).
    { rewrite Forall_forall in Hk. apply Hk. rewrite E1. apply in_elt. }
    assert (Hin : In r res) by (rewrite E1; apply in_elt).
    (* the merged tree: same key, items = old items + y *)
    assert (Hmerge : exists xs', merge cmp SPModule r (R1 q y vf) = R2 q (map leafk xs') (vis r) /\
                                 mkind cmp (R2 q (map leafk xs') (vis r)) /\
                                 vnorm (vis r) = vnorm vf /\
                                 forall z, In z xs' -> z = y \/ In (q ++ [z]) (items r)).
    { destruct Hr as [t Hpt _|q' x v Hox Hsx|q' xs v Hl Hok Hndx Hs].
      - rewrite Rp in Hpt. discriminate.
      - destruct (R1_facts q' x v) as [_ [_ Gm]]. rewrite Gm in Rm. inversion Rm as [[Hv Hq]].
        subst q'. cbn [vis].
        assert (Hxy : x <> y).
        { intros ->. apply (Hfr _ Hin Rp).
          - apply same_vis_R; exact Hv.
          - cbn [items R1 pre]. left; reflexivity. }
        assert (Hneb : sseg_eqb x y = false).
        { destruct (sseg_eqb x y) eqn:E; [|reflexivity]. apply sseg_eqb_eq in E. contradiction. }
        pose proof (okseg_inv _ _ Hox) as Ax. pose proof (okseg_inv _ _ Hoy) as Ay.
        rewrite merge_R1_R1; [|exact Hneb|intros Hq; rewrite sseg_eea_noalias; auto].
        change [leafk x; leafk y] with (map leafk [x; y]).
        destruct (mkind_sorted q [x; y] v) as [xs' [E [HP Hm]]].
        + cbn [length]. lia.
        + cbn [forallb]. rewrite Hox, Hoy. reflexivity.
        + constructor; [intros [H|[]]; congruence|]. constructor; [intros []|constructor].
        + exists xs'. rewrite E. split; [reflexivity|]. split; [exact Hm|]. split; [cbn [R1 R2 vis]; congruence|].
          intros z Hz. apply (Permutation_in _ (Permutation_sym HP)) in Hz.
          destruct Hz as [<-|[<-|[]]]; [right; cbn [items R1]; left; reflexivity|left; reflexivity].
      - destruct (R2_facts q' xs v) as [_ [_ Gm]]. rewrite Gm in Rm. inversion Rm as [[Hv Hq]].
        subst q'. cbn [vis].
        assert (Hyn : ~ In y xs).
        { intros Hy. apply (Hfr _ Hin Rp).
          - apply same_vis_R; exact Hv.
          - cbn [items R2 R1 pre]. rewrite map_map. apply in_map_iff. exists y. auto. }
        rewrite merge_R2_R1 by apply leafk_plen.
        replace (map leafk xs ++ [leafk y]) with (map leafk (xs ++ [y]))
          by (rewrite map_app; reflexivity).
        destruct (mkind_sorted q (xs ++ [y]) v) as [xs' [E [HP Hm]]].
        + rewrite app_length. cbn [length]. destruct Hl as [Hl|[al ->]]; cbn [length]; lia.
        + rewrite forallb_app. cbn [forallb]. rewrite Hok, Hoy. reflexivity.
        + apply NoDup_snoc; assumption.
        + exists xs'. rewrite E. split; [reflexivity|]. split; [exact Hm|]. split; [cbn [R1 R2 vis]; congruence|].
          intros z Hz. apply (Permutation_in _ (Permutation_sym HP)) in Hz.
          apply in_app_or in Hz. destruct Hz as [Hz|[<-|[]]]; [right|left; reflexivity].
          cbn [items R2]. rewrite map_map. apply in_map_iff. exists z. auto. }
    destruct Hmerge as [xs' [Em [Hm [Hv Hitems]]]]. rewrite Em.
    destruct (R2_facts q xs' (vis r)) as [Np [Ne Nm]].
    split.
    + split.
      * rewrite E1 in Hk. apply Forall_app in Hk. destruct Hk as [K1 K2].
        inversion K2; subst. apply Forall_app. split; [assumption|]. constructor; assumption.
      * rewrite E1 in Hnd. rewrite keys_app in *. cbn [keys flat_map] in *.
        rewrite (keyof_nonpass _ Np Ne), Nm. rewrite (keyof_nonpass _ Rp Re), Rm in Hnd.
        rewrite Hv. exact Hnd.
    + intros f2 Hd Hf2 r0 Hr0 Hp0 Hsv Hin0.
      apply in_app_or in Hr0. destruct Hr0 as [Hr0|[<-|Hr0]].
      * apply (Hf2 r0); auto. rewrite E1. apply in_or_app. left; exact Hr0.
      * cbn [items R2] in Hin0. rewrite map_map in Hin0. apply in_map_iff in Hin0.
        destruct Hin0 as [z [Ez Hz]]. cbn [leafk pre] in Ez.
        assert (Hsv' : same_visibility r f2 = true).
        { unfold same_visibility in *. cbn [R2 vis] in Hsv. exact Hsv. }
        destruct (Hitems z Hz) as [->|Hi].
        -- unfold flat_dup in Hd. cbn [R1 pre] in Hd. rewrite Ez, list_eqb_sseg_refl, andb_true_r in Hd.
           unfold same_visibility in *. cbn [R1 vis] in Hd. rewrite <- Hv in Hd. congruence.
        -- apply (Hf2 r Hin Rp Hsv'). rewrite <- Ez. exact Hi.
      * apply (Hf2 r0); auto. rewrite E1. apply in_or_app. right. right. exact Hr0.
  - pose proof (proj1 (find_index_none_iff _ _ _) Ef) as Hns.
    rewrite nest_R1. destruct (nestR_facts q y vf) as [Np [Ne [Nm [Nv Ni]]]].
    split.
    + split.
      * apply Forall_app. split; [exact Hk|]. constructor; [|constructor].
        unfold nestR. destruct (is_slf y) eqn:Sy.
        -- change [leafk y] with (map leafk [y]). apply MK_list.
           ++ right. destruct y; try discriminate. eexists; reflexivity.
           ++ cbn [forallb]. rewrite Hoy. reflexivity.
           ++ constructor; [intros []|constructor].
           ++ cbn [map]. repeat constructor.
        -- apply MK_one; assumption.
      * rewrite keys_app. cbn [keys flat_map]. rewrite (keyof_nonpass _ Np Ne), Nm, app_nil_r.
        apply NoDup_snoc; [exact Hnd|]. intros Hin. apply in_keys in Hin.
        destruct Hin as [r [Hr [H1 [H2 H3]]]].
        pose proof (Hns r Hr) as Hc. cbn beta in Hc.
        rewrite (share_R1 r q y vf H1 H2 H3) in Hc. discriminate Hc.
    + intros f2 Hd Hf2 r0 Hr0 Hp0 Hsv Hin0.
      apply in_app_or in Hr0. destruct Hr0 as [Hr0|[<-|[]]]; [apply (Hf2 r0); auto|].
      rewrite Ni in Hin0. destruct Hin0 as [E|[]].
      unfold flat_dup in Hd. unfold same_visibility in Hsv, Hd. rewrite Nv in Hsv.
      cbn [R1 vis pre] in Hd. rewrite Hsv in Hd. rewrite E, list_eqb_sseg_refl in Hd. discriminate.
Qed.

Lemma step_pass res t :
  MInv res -> passthrough t = true -> normalize cmp t = t ->
  MInv (res ++ [t]) /\ forall f2, fresh f2 res -> fresh f2 (res ++ [t]).
Proof.
  intros [Hk Hnd] Hp Hn. split.
  - split.
    + apply Forall_app. split; [exact Hk|]. constructor; [|constructor]. apply MK_pass; assumption.
    + rewrite keys_app. cbn [keys flat_map]. unfold keyof. rewrite Hp. cbn [orb app].
      rewrite app_nil_r. exact Hnd.
  - intros f2 Hf2 r0 Hr0 Hp0. apply in_app_or in Hr0. destruct Hr0 as [Hr0|[<-|[]]].
    + apply Hf2; assumption.
    + rewrite Hp in Hp0. discriminate.
Qed.

Lemma module_run es : forall res,
  MInv res -> Forall ev_okm es ->
  ForallOrdPairs (fun x y => flat_dup x y = false) (flats es) ->
  (forall f, In f (flats es) -> fresh f res) ->
  MInv (fold_left (add_ev cmp SPModule) es res).
Proof.
  induction es as [|e es IH]; intros res Hinv Hes Hnd Hfr; cbn [fold_left]; [exact Hinv|].
  inversion Hes as [|? ? He Hes']; subst.
  destruct e as [t|f]; cbn [add_ev ev_okm flats flat_map app] in *.
  - destruct He as [Hp Hn]. destruct (step_pass res t Hinv Hp Hn) as [Hinv' Hfr'].
    apply IH; auto.
  - fold (flats es) in *. inversion Hnd as [|? ? Hf Hnd']; subst.
    destruct (step_flat res f Hinv He (Hfr f (or_introl eq_refl))) as [Hinv' Hfr'].
    apply IH; auto. intros f2 Hf2. apply Hfr'.
    + rewrite Forall_forall in Hf. apply Hf; exact Hf2.
    + apply Hfr. right; exact Hf2.
Qed.

Lemma flats_app l1 l2 : flats (l1 ++ l2) = flats l1 ++ flats l2.
Proof. apply flat_map_app. Qed.
Lemma flats_map_EFlat l : flats (map EFlat l) = l.
Proof. induction l as [|x l IH]; cbn [map flats flat_map app]; [reflexivity|]. fold (flats (map EFlat l)). rewrite IH. reflexivity. Qed.
Lemma flats_events ns : flats (flat_map events ns) = flat_list ns.
Proof.
  induction ns as [|n ns IH]; [reflexivity|]. cbn [flat_map]. rewrite flats_app, IH.
  unfold flat_list at 2. cbn [flat_map]. f_equal. unfold events.
  destruct (contains_comment n || is_some (attrs n)); [reflexivity|apply flats_map_EFlat].
Qed.
Lemma events_okm ns :
  (forall n, In n ns -> normalize cmp n = n) -> forallb mod_plain (flat_list ns) = true ->
  Forall ev_okm (flat_map events ns).
Proof.
  induction ns as [|n ns IH]; intros Hn Hp; [constructor|].
  cbn [flat_map]. unfold flat_list in Hp. cbn [flat_map] in Hp. rewrite forallb_app in Hp.
  apply andb_true_iff in Hp. destruct Hp as [Hp1 Hp2].
  apply Forall_app. split.
  - unfold events. destruct (contains_comment n || is_some (attrs n)) eqn:E.
    + constructor; [|constructor]. split; [exact E|]. apply Hn. left; reflexivity.
    + apply Forall_forall. intros e He. apply in_map_iff in He. destruct He as [f [<- Hf]].
      cbn [ev_okm]. rewrite forallb_forall in Hp1. apply Hp1; exact Hf.
  - apply IH; [|exact Hp2]. intros n' Hn'. apply Hn. right; exact Hn'.
Qed.

(* regroup_idem for Module, on plain flattened imports without repetition: any reordering of
   the first output is a fixed point of the next pass *)
Theorem module_plain_stable ts O' :
  forallb idem_ok ts = true ->
  forallb mod_plain (flat_list (map (normalize cmp) ts)) = true ->
  nodup_flat (flat_list (map (normalize cmp) ts)) = true ->
  Permutation O' (step cmp Module ts) -> step cmp Module O' = O'.
Proof.
  intros Hok Hpl Hnd HP. set (ns := map (normalize cmp) ts) in *.
  assert (Hinv : MInv (step cmp Module ts)).
  { unfold step. cbn [with_granularity]. fold ns. rewrite regroup_events.
    apply module_run.
    - split; constructor.
    - apply events_okm; [|exact Hpl]. intros n Hn. unfold ns in Hn. apply in_map_iff in Hn.
      destruct Hn as [t [<- Ht]]. rewrite forallb_forall in Hok.
      destruct (idem_ok_inv t (Hok t Ht)). apply normalize_idem; auto.
    - rewrite flats_events. apply nodup_flat_sound. exact Hnd.
    - intros f _ r []. }
  destruct Hinv as [Hk Hn]. apply module_nf_fix.
  - apply Forall_forall. intros o Ho. rewrite Forall_forall in Hk. apply Hk.
    eapply Permutation_in; eauto.
  - eapply Permutation_NoDup; [|exact Hn]. unfold keys.
    apply Permutation_flat_map. apply Permutation_sym. exact HP.
Qed.

Theorem pipeline_idem_module_plain grp reorder ts :
  forallb idem_ok ts = true ->
  forallb mod_plain (flat_list (map (normalize cmp) ts)) = true ->
  nodup_flat (flat_list (map (normalize cmp) ts)) = true ->
  pipeline cmp Module grp reorder (concat (pipeline cmp Module grp reorder ts)) =
  pipeline cmp Module grp reorder ts.
Proof.
  intros H1 H2 H3. apply pipeline_idem_stable; [exact asym|].
  intros O' HP. apply (module_plain_stable ts O'); assumption.
Qed.
End ModuleRun.

(* ------------------------------------------------------------------ *)
(* 8. Module, Crate, One on a run in which every declaration has attributes or a comment:
   nothing is flattened or merged (imports.rs:229-232) *)
Definition merging (g : granularity) : bool :=
  match g with Module | GCrate | One => true | _ => false end.

Lemma fold_add_pass cmp m ts : forall res,
  forallb passthrough ts = true -> fold_left (add_tree cmp m) ts res = res ++ ts.
Proof.
  induction ts as [|t ts IH]; intros res H; cbn [fold_left].
  - rewrite app_nil_r. reflexivity.
  - cbn [forallb] in H. apply andb_true_iff in H. destruct H as [Ht Hts].
    unfold add_tree at 2. unfold passthrough in Ht. rewrite Ht.
    rewrite IH by exact Hts. rewrite <- app_assoc. reflexivity.
Qed.
Lemma regroup_all_pass cmp m ts : forallb passthrough ts = true -> regroup cmp m ts = ts.
Proof. intros H. unfold regroup. apply (fold_add_pass cmp m ts [] H). Qed.

Lemma passthrough_normalize cmp t : passthrough (normalize cmp t) = passthrough t.
Proof.
  unfold passthrough. rewrite cc_normalize. unfold normalize.
  destruct (norm_fields cmp t [] (vis t) (attrs t) (cmt t)) as [_ Fa]. rewrite Fa. reflexivity.
Qed.

Lemma with_granularity_merging cmp g ts :
  merging g = true -> forallb passthrough ts = true -> with_granularity cmp g ts = ts.
Proof. destruct g; try discriminate; intros _ H; cbn [with_granularity]; apply regroup_all_pass; exact H. Qed.

Theorem pass_stable cmp g ts O' :
  GtAsym cmp -> merging g = true ->
  forallb idem_ok ts = true -> forallb passthrough ts = true ->
  Permutation O' (step cmp g ts) -> step cmp g O' = O'.
Proof.
  intros Ha Hg Hok Hp HP. unfold step in *.
  assert (Hpn : forallb passthrough (map (normalize cmp) ts) = true).
  { rewrite forallb_forall in *. intros n Hn. apply in_map_iff in Hn. destruct Hn as [t [<- Ht]].
    rewrite passthrough_normalize. apply Hp; exact Ht. }
  rewrite (with_granularity_merging cmp g _ Hg Hpn) in HP.
  assert (He : forall o, In o O' -> normalize cmp o = o /\ passthrough o = true).
  { intros o Ho. apply (Permutation_in _ HP) in Ho. apply in_map_iff in Ho.
    destruct Ho as [t [<- Ht]]. rewrite forallb_forall in Hok, Hp.
    destruct (idem_ok_inv t (Hok t Ht)). split; [apply normalize_idem; auto|].
    rewrite passthrough_normalize. apply Hp; exact Ht. }
  rewrite (map_fix (normalize cmp) O') by (intros o Ho; apply (He o Ho)).
  apply with_granularity_merging; [exact Hg|]. apply forallb_forall. intros o Ho. apply (He o Ho).
Qed.

Lemma pipeline_idem_pass cmp g grp reorder ts :
  GtAsym cmp -> merging g = true ->
  forallb idem_ok ts = true -> forallb passthrough ts = true ->
  pipeline cmp g grp reorder (concat (pipeline cmp g grp reorder ts)) = pipeline cmp g grp reorder ts.
Proof.
  intros Ha Hg H1 H2. apply pipeline_idem_stable; [exact Ha|].
  intros O' HP. apply (pass_stable cmp g ts O'); assumption.
Qed.

(* Props-form statements for Module *)
Lemma regroup_idem_module_partial (cmp : tree -> tree -> comparison) (ts O' : list tree) :
  GtAsym cmp -> forallb idem_ok ts = true ->
  forallb mod_plain (flat_list (map (normalize cmp) ts)) = true ->
  nodup_flat (flat_list (map (normalize cmp) ts)) = true ->
  Permutation O' (step cmp Module ts) -> step cmp Module O' = O'.
Proof. intros Ha. apply module_plain_stable; exact Ha. Qed.
Lemma pipeline_idem_module_partial (cmp : tree -> tree -> comparison) (grp reorder : bool)
      (ts : list tree) :
  GtAsym cmp -> forallb idem_ok ts = true ->
  forallb mod_plain (flat_list (map (normalize cmp) ts)) = true ->
  nodup_flat (flat_list (map (normalize cmp) ts)) = true ->
  pipeline cmp Module grp reorder (concat (pipeline cmp Module grp reorder ts)) =
  pipeline cmp Module grp reorder ts.
Proof. intros Ha. apply pipeline_idem_module_plain; exact Ha. Qed.

(* the Module witness is plain: only the repetition is outside the hypotheses *)
Lemma dup_module_plain :
  forallb mod_plain (flat_list (map (normalize cmp15) w_dup_module)) = true /\
  nodup_flat (flat_list (map (normalize cmp15) w_dup_module)) = false.
Proof. vm_compute. split; reflexivity. Qed.

Lemma regroup_idem_module_refuted :
  exists ts, forallb ast_shape ts = true /\ forallb idem_ok ts = true /\
    BadClass cmp15 Module ts = false /\
    forallb mod_plain (flat_list (map (normalize cmp15) ts)) = true /\
    twice_differs Module ts /\ pipeline_twice_differs Module ts.
Proof.
  exists w_dup_module. destruct dup_module_witness as [H1 [H2 [H3 H4]]].
  split; [exact H1|]. split; [exact H2|]. split; [exact H3|]. split; [apply dup_module_plain|exact H4].
Qed.

(* ------------------------------------------------------------------ *)
(* 9. corollaries of C11 for the sorts of reorder.rs (mod / extern crate declarations, names) *)
From V Require C11.Ord C11.Model C11.Lemmas.

Lemma isort_perm_idem (A : Type) (cmp : A -> A -> comparison) :
  V.C11.Ord.TotalPreorder cmp -> forall l l' : list A,
  (forall x y, In x l -> In y l -> cmp x y = Eq -> x = y) ->
  Permutation l' (V.C11.Ord.isort cmp l) -> V.C11.Ord.isort cmp l' = V.C11.Ord.isort cmp l.
Proof.
  intros TP l l' Hu HP.
  assert (HP' : Permutation l' l).
  { eapply Permutation_trans; [exact HP|]. apply Permutation_sym, V.C11.Ord.isort_perm. }
  apply (V.C11.Ord.sort_unique TP); [exact HP'|].
  intros x y Hx Hy. apply Hu; eapply Permutation_in; eauto.
Qed.

Lemma stable_sort_idem (A : Type) (cmp : A -> A -> comparison) (srt : list A -> list A) :
  V.C11.Ord.TotalPreorder cmp ->
  (forall l, Permutation l (srt l) /\ V.C11.Ord.SortedBy cmp (srt l) /\
             V.C11.Ord.StableWrt cmp l (srt l)) ->
  forall l, srt (srt l) = srt l.
Proof.
  intros TP H l.
  assert (Hs : forall k, srt k = V.C11.Ord.isort cmp k).
  { intros k. destruct (H k) as [H1 [H2 H3]]. apply (V.C11.Ord.any_stable_sort_agrees TP); assumption. }
  rewrite (Hs (srt l)). apply V.C11.Ord.sorted_isort_id. apply H.
Qed.

Lemma sort_names_idem l : V.C11.Model.sort_names (V.C11.Model.sort_names l) = V.C11.Model.sort_names l.
Proof.
  unfold V.C11.Model.sort_names. apply V.C11.Ord.sorted_isort_id.
  apply V.C11.Ord.isort_sorted. exact V.C11.Lemmas.vs_total_preorder.
Qed.
Lemma sort_items_idem e l :
  V.C11.Model.sort_items e (V.C11.Model.sort_items e l) = V.C11.Model.sort_items e l.
Proof.
  unfold V.C11.Model.sort_items. apply V.C11.Ord.sorted_isort_id.
  apply V.C11.Ord.isort_sorted. apply V.C11.Lemmas.items_total_preorder.
Qed.
