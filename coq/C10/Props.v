(* C10/Props.v -- the property theorems of C10 (statements only; proofs in Lemmas.v).
   C10: "Under every imports_granularity (Preserve, Item, Module, Crate, One), group_imports and
   reorder_imports setting, the set of imported paths with their aliases, visibility and attributes denoted
   by each run of `use` declarations is unchanged: merging, splitting, flattening, nesting `self`, dropping
   empty lists and removing duplicates never adds, loses or renames an import, never moves an import across
   a non-import item, and never merges across differing visibility, attributes or attached comments."

   Vocabulary (Model.v).  A run of use declarations is a list of trees (UseTree::from_ast results, with the
   comment flag of reorder.rs:124).  [Leaves ts] is the list of denoted imports (visibility class,
   attributes, canonical path with its alias); [SameSet] is mutual inclusion.  Every statement holds for
   EVERY comparator [cmp] used by the sorts (so for every style edition), every nesting depth, every list.
   [ast_shape] is the shape of from_ast results: non-empty paths, an alias only on the last segment of a
   path that does not end in a list, nested trees without visibility/attributes (imports.rs:416-544).
   [BadClass cmp g ts] is the union of the input classes on which rustfmt is refuted below:
     NestedEmptyList (all but Preserve), DupAcrossVisibility / DupAcrossAttrs (Item), and AliasClash =
     [alias_clash] (Module, Crate, One): some merge matches two first segments with equal_except_alias
     although they differ; DupModuloRootAlias, AliasedPrefixOne, DupModuloAliasNested are its instances.
   A run never crosses a non-import item by construction: the model rewrites one run. *)
From V Require Import Base.Text C10.Model C10.Lemmas.
From Coq Require Import Permutation.
Local Open Scope nat_scope.

(* P2: normalize (self removal, alias move, sole-list unnesting, empty-list drop, sorting) keeps the imports *)
Theorem normalize_leaves : forall (cmp : tree -> tree -> comparison) (t : tree),
  kids_wf t = true -> SameSet (leaves (normalize cmp t)) (leaves t).
Proof. exact Lemmas.normalize_leaves. Qed.
Print Assumptions normalize_leaves.

(* P2: flatten splits a tree into trees with the same imports (Item keeps attributes) *)
Theorem flatten_leaves : forall (item : bool) (t : tree),
  no_empty_kid t = true -> (item = true \/ attrs t = None) ->
  flat_map leaves (flatten item t) = leaves t.
Proof. exact Lemmas.flatten_leaves. Qed.
Print Assumptions flatten_leaves.

(* P2: nesting a trailing self keeps the imports *)
Theorem nest_trailing_self_leaves : forall t : tree, leaves (nest_trailing_self t) = leaves t.
Proof. exact Lemmas.nest_trailing_self_leaves. Qed.
Print Assumptions nest_trailing_self_leaves.

(* P3: merge (with merge_rest and the nested merge_use_trees_inner calls) yields the union, under every
   prefix state st, for all three SharedPrefix values, outside AliasClash; shapes are preserved *)
Theorem merge_den : forall (cmp : tree -> tree -> comparison) (m : shared_prefix) (self other : tree),
  good self = true -> good other = true -> merge_clash m self other = false ->
  good (merge cmp m self other) = true /\
  forall st, SameSet (den st (merge cmp m self other)) (den st self ++ den st other).
Proof. exact Lemmas.merge_den. Qed.
Print Assumptions merge_den.

(* P3: merge on top-level trees of one class *)
Theorem merge_leaves : forall (cmp : tree -> tree -> comparison) (m : shared_prefix) (r f : tree),
  good r = true -> good f = true -> merge_clash m r f = false -> cls r = cls f ->
  SameSet (leaves (merge cmp m r f)) (leaves r ++ leaves f).
Proof. exact Lemmas.merge_leaves. Qed.
Print Assumptions merge_leaves.

(* P3: merge_use_trees_inner (min_by_key / max_by_key selection, merge or push and sort) yields the union *)
Theorem merge_inner_leaves : forall (cmp : tree -> tree -> comparison) (m : shared_prefix)
                                    (trees : list tree) (u : tree),
  forallb good trees = true -> good u = true ->
  (forall i x, inner_choice m trees u = CMerge i -> nth_error trees i = Some x ->
               merge_clash m x u = false) ->
  forallb good (merge_use_trees_inner cmp m trees u) = true /\
  forall st, SameSet (flat_map (den st) (merge_use_trees_inner cmp m trees u))
                     (flat_map (den st) trees ++ den st u).
Proof. exact Lemmas.merge_inner_leaves. Qed.
Print Assumptions merge_inner_leaves.

(* P4: the imports of a run are unchanged by normalize + normalize_use_trees_with_granularity, for all five
   granularities, outside BadClass *)
Theorem granularity_leaves : forall (cmp : tree -> tree -> comparison) (g : granularity) (ts : list tree),
  forallb ast_shape ts = true -> BadClass cmp g ts = false ->
  SameSet (Leaves (with_granularity cmp g (map (normalize cmp) ts))) (Leaves ts).
Proof. exact Lemmas.granularity_leaves. Qed.
Print Assumptions granularity_leaves.

(* P4: the same for the whole pipeline, for every group_imports and reorder_imports setting *)
Theorem pipeline_leaves : forall (cmp : tree -> tree -> comparison) (g : granularity)
                                 (grp reorder : bool) (ts : list tree),
  forallb ast_shape ts = true -> BadClass cmp g ts = false ->
  SameSet (Leaves (concat (pipeline cmp g grp reorder ts))) (Leaves ts).
Proof. exact Lemmas.pipeline_leaves. Qed.
Print Assumptions pipeline_leaves.

(* P4: Crate never hits AliasClash (share_prefix compares first segments with ==): only NestedEmptyList *)
Theorem crate_leaves : forall (cmp : tree -> tree -> comparison) (ts : list tree),
  forallb ast_shape ts = true -> NestedEmptyList (map (normalize cmp) ts) = false ->
  SameSet (Leaves (with_granularity cmp GCrate (map (normalize cmp) ts))) (Leaves ts).
Proof. exact Lemmas.crate_leaves. Qed.
Print Assumptions crate_leaves.

(* P4: no merging across visibility or attributes: every import of an output tree is an import of an input
   tree of the same class *)
Theorem no_cross_class : forall (cmp : tree -> tree -> comparison) (g : granularity) (grp reorder : bool)
                                (ts : list tree) (o : tree) (lf : leaf),
  forallb ast_shape ts = true -> BadClass cmp g ts = false ->
  In o (concat (pipeline cmp g grp reorder ts)) -> In lf (leaves o) ->
  exists t, In t ts /\ In lf (leaves t) /\ cls t = cls o.
Proof. exact Lemmas.no_cross_class. Qed.
Print Assumptions no_cross_class.

(* P4: a tree with attributes or an attached comment (anywhere inside) is passed through unchanged under
   Preserve, Module, Crate, One; no hypothesis on the input *)
Theorem attrs_comment_passthrough : forall (cmp : tree -> tree -> comparison) (g : granularity)
                                           (grp reorder : bool) (ts : list tree) (t : tree),
  g <> Item -> In t (map (normalize cmp) ts) -> passthrough t = true ->
  In t (concat (pipeline cmp g grp reorder ts)).
Proof. exact Lemmas.attrs_comment_passthrough. Qed.
Print Assumptions attrs_comment_passthrough.

(* P5: group_imports partitions the run *)
Theorem group_partition : forall ts : list tree, Permutation (concat (group_imports ts)) ts.
Proof. exact Lemmas.group_partition. Qed.
Print Assumptions group_partition.

(* the pipeline output is a permutation of the regrouped trees (grouping, sorting, dropping empty groups) *)
Theorem pipeline_perm : forall (cmp : tree -> tree -> comparison) (g : granularity)
                               (grp reorder : bool) (ts : list tree),
  Permutation (concat (pipeline cmp g grp reorder ts)) (with_granularity cmp g (map (normalize cmp) ts)).
Proof. exact Lemmas.pipeline_perm. Qed.
Print Assumptions pipeline_perm.

(* REFUTED, Item:  pub use a; use a;  ->  pub use a;   (unique() compares paths only) *)
Theorem DupAcrossVisibility_refuted :
  exists ts, forallb ast_shape ts = true /\ DupAcrossVisibility (map (normalize cmp15) ts) = true /\
    ~ SameSet (Leaves (with_granularity cmp15 Item (map (normalize cmp15) ts))) (Leaves ts).
Proof. exact Lemmas.DupAcrossVisibility_witness. Qed.
Print Assumptions DupAcrossVisibility_refuted.

(* REFUTED, Item:  #[x] use a; use a;  ->  #[x] use a; *)
Theorem DupAcrossAttrs_refuted :
  exists ts, forallb ast_shape ts = true /\ DupAcrossAttrs (map (normalize cmp15) ts) = true /\
    ~ SameSet (Leaves (with_granularity cmp15 Item (map (normalize cmp15) ts))) (Leaves ts).
Proof. exact Lemmas.DupAcrossAttrs_witness. Qed.
Print Assumptions DupAcrossAttrs_refuted.

(* REFUTED, Item/Module/Crate/One:  use a::{b::{}, c};  gains the import  a *)
Theorem NestedEmptyList_refuted :
  exists ts, forallb ast_shape ts = true /\ NestedEmptyList (map (normalize cmp15) ts) = true /\
    forall g, g <> Preserve ->
    ~ SameSet (Leaves (with_granularity cmp15 g (map (normalize cmp15) ts))) (Leaves ts).
Proof. exact Lemmas.NestedEmptyList_witness. Qed.
Print Assumptions NestedEmptyList_refuted.

(* REFUTED, Module and One (not Crate):  use a as _; use a;  ->  use a as _; *)
Theorem DupModuloRootAlias_refuted :
  exists ts, forallb ast_shape ts = true /\ DupModuloRootAlias (map (normalize cmp15) ts) = true /\
    ~ SameSet (Leaves (with_granularity cmp15 Module (map (normalize cmp15) ts))) (Leaves ts) /\
    ~ SameSet (Leaves (with_granularity cmp15 One (map (normalize cmp15) ts))) (Leaves ts).
Proof. exact Lemmas.DupModuloRootAlias_witness. Qed.
Print Assumptions DupModuloRootAlias_refuted.

(* REFUTED, One:  use a::BAR; use a as q;  ->  use a as q::{self as q, BAR}; *)
Theorem AliasedPrefixOne_refuted :
  exists ts, forallb ast_shape ts = true /\ AliasedPrefixOne (map (normalize cmp15) ts) = true /\
    ~ SameSet (Leaves (with_granularity cmp15 One (map (normalize cmp15) ts))) (Leaves ts).
Proof. exact Lemmas.AliasedPrefixOne_witness. Qed.
Print Assumptions AliasedPrefixOne_refuted.

(* REFUTED, One:  use a::{c, x}; use a::c as z;  ->  use a::{c, x}; *)
Theorem DupModuloAliasNested_refuted :
  exists ts, forallb ast_shape ts = true /\ DupModuloAliasNested (map (normalize cmp15) ts) = true /\
    ~ SameSet (Leaves (with_granularity cmp15 One (map (normalize cmp15) ts))) (Leaves ts).
Proof. exact Lemmas.DupModuloAliasNested_witness. Qed.
Print Assumptions DupModuloAliasNested_refuted.

(* "never moves an import across a non-import item": the runs are contiguous pieces of the item list in
   order (unseg/strip), every other item keeps its place, and each run is rewritten on its own *)
Theorem runs_no_crossing : forall (cmp : tree -> tree -> comparison) (g : granularity)
                                  (grp reorder ig : bool) (items : list item),
  unseg (seg ig None items) = map strip items /\
  Forall2 (run_rel cmp g) (seg ig None items) (visit_items cmp g grp reorder ig items).
Proof. exact Lemmas.runs_no_crossing. Qed.
Print Assumptions runs_no_crossing.

(* P4 with a purely syntactic hypothesis: a run without any `as` never hits AliasClash, so Module, Crate
   and One keep its imports as soon as it has no nested empty list *)
Theorem noalias_leaves : forall (cmp : tree -> tree -> comparison) (g : granularity) (ts : list tree),
  g = Module \/ g = GCrate \/ g = One ->
  forallb ast_shape ts = true -> forallb noalias ts = true ->
  NestedEmptyList (map (normalize cmp) ts) = false ->
  SameSet (Leaves (with_granularity cmp g (map (normalize cmp) ts))) (Leaves ts).
Proof. exact Lemmas.noalias_leaves. Qed.
Print Assumptions noalias_leaves.
