(* C10/Lemmas.v -- proofs about the import-rewriting model *)
From V Require Import Base.Text C10.Model.
From Coq Require Import Permutation.
Local Open Scope nat_scope.
Local Open Scope list_scope.

(* ------------------------------------------------------------------ *)
(* induction principle for the nested type *)
Section TreeInd.
Variable P : tree -> Prop.
Hypothesis Hnone : forall p v a c, P (Node p None v a c).
Hypothesis Hsome : forall p l v a c, Forall P l -> P (Node p (Some l) v a c).
Fixpoint tree_ind' (t : tree) : P t :=
  match t with
  | Node p None v a c => Hnone p v a c
  | Node p (Some l) v a c =>
      Hsome p l v a c
        ((fix go (l : list tree) : Forall P l :=
            match l return Forall P l with
            | [] => Forall_nil P
            | x :: r => Forall_cons x (tree_ind' x) (go r)
            end) l)
  end.
End TreeInd.

(* ------------------------------------------------------------------ *)
(* SameSet *)
Lemma SameSet_refl {A} (l : list A) : SameSet l l.
Proof. intros x; reflexivity. Qed.
Lemma SameSet_sym {A} (l1 l2 : list A) : SameSet l1 l2 -> SameSet l2 l1.
Proof. intros H x; symmetry; apply H. Qed.
Lemma SameSet_trans {A} (l1 l2 l3 : list A) : SameSet l1 l2 -> SameSet l2 l3 -> SameSet l1 l3.
Proof. intros H1 H2 x; rewrite (H1 x); apply H2. Qed.
Lemma SameSet_app {A} (a1 a2 b1 b2 : list A) :
  SameSet a1 a2 -> SameSet b1 b2 -> SameSet (a1 ++ b1) (a2 ++ b2).
Proof. intros Ha Hb x; rewrite !in_app_iff, (Ha x), (Hb x); reflexivity. Qed.
Lemma SameSet_app_comm {A} (a b : list A) : SameSet (a ++ b) (b ++ a).
Proof. intros x; rewrite !in_app_iff; tauto. Qed.
Lemma SameSet_perm {A} (l1 l2 : list A) : Permutation l1 l2 -> SameSet l1 l2.
Proof.
  intros H x; split; intros Hx.
  - eapply Permutation_in; eauto.
  - eapply Permutation_in; [apply Permutation_sym|]; eauto.
Qed.
Lemma SameSet_map {A B} (f : A -> B) (l1 l2 : list A) :
  SameSet l1 l2 -> SameSet (map f l1) (map f l2).
Proof.
  intros H y; rewrite !in_map_iff; split; intros [x [E Hx]]; exists x; split; auto; apply H; auto.
Qed.
Lemma SameSet_filter {A} (f : A -> bool) (l1 l2 : list A) :
  SameSet l1 l2 -> SameSet (filter f l1) (filter f l2).
Proof. intros H x; rewrite !filter_In, (H x); reflexivity. Qed.
Lemma SameSet_flat_map {A B} (f g : A -> list B) (l : list A) :
  Forall (fun x => SameSet (f x) (g x)) l -> SameSet (flat_map f l) (flat_map g l).
Proof.
  intros H y; rewrite !in_flat_map; rewrite Forall_forall in H.
  split; intros [x [Hx Hy]]; exists x; split; auto; apply (H x Hx); auto.
Qed.
Lemma SameSet_flat_map_l {A B} (f : A -> list B) (l1 l2 : list A) :
  SameSet l1 l2 -> SameSet (flat_map f l1) (flat_map f l2).
Proof.
  intros H y; rewrite !in_flat_map; split; intros [x [Hx Hy]]; exists x; split; auto; apply H; auto.
Qed.
Lemma SameSet_dup {A} (a b : list A) : (forall x, In x b -> In x a) -> SameSet (a ++ b) a.
Proof. intros H x; rewrite in_app_iff; split; [intros [Hx|Hx]; auto|auto]. Qed.

(* ------------------------------------------------------------------ *)
(* sorting is a permutation, for every comparator *)
Section SortPerm.
Variable A : Type.
Variable cmp : A -> A -> comparison.
Lemma insert_perm x l : Permutation (insert cmp x l) (x :: l).
Proof.
  induction l as [|y r IH]; cbn [insert]; auto.
  destruct (cmp x y); auto.
  rewrite IH. apply perm_swap.
Qed.
Lemma sort_perm l : Permutation (sort_by cmp l) l.
Proof.
  induction l as [|x r IH]; cbn [sort_by fold_right]; auto.
  fold (sort_by cmp r). rewrite insert_perm. auto.
Qed.
End SortPerm.

(* ------------------------------------------------------------------ *)
(* denotation basics *)
Definition vden (st : list sseg) (t : tree) : list (list sseg) := filter valid_state (den st t).
Definition den_body (st : list sseg) (p : list sseg) (k : option (list tree)) :=
  let st' := fold_left step p st in
  match k with None => [st'] | Some l => flat_map (den st') l end.

Lemma den_eq st p k v a c :
  den st (Node p k v a c) =
  if path_is_empty (Node p k v a c) then [] else den_body st p k.
Proof. destruct p, k; reflexivity. Qed.

Lemma filter_flat_map {A B} (f : B -> bool) (g : A -> list B) l :
  filter f (flat_map g l) = flat_map (fun x => filter f (g x)) l.
Proof.
  induction l as [|x r IH]; cbn [flat_map]; auto.
  rewrite filter_app, IH; reflexivity.
Qed.

Lemma step_nonempty st s : step st s <> [].
Proof.
  destruct s as [n a|[b|]|a|a|]; destruct st as [|t st']; cbn [step]; try discriminate.
  destruct (aliasable t); discriminate.
Qed.
Lemma fold_step_nonempty p st : p <> [] -> fold_left step p st <> [].
Proof.
  revert st; induction p as [|s r IH]; intros st Hp; [congruence|].
  cbn [fold_left]. destruct r as [|s' r'].
  - cbn [fold_left]. apply step_nonempty.
  - apply IH; discriminate.
Qed.
Lemma fold_step_nonempty' p st : st <> [] -> fold_left step p st <> [].
Proof.
  revert st; induction p as [|s r IH]; intros st Hp; cbn [fold_left]; auto.
  apply IH, step_nonempty.
Qed.

Lemma den_splice st p k v a c :
  path_is_empty k = false ->
  den st (Node (p ++ pre k) (kids k) v a c) = den (fold_left step p st) k.
Proof.
  destruct k as [pk kk vk ak ck]; cbn [pre kids]; intros Hne.
  rewrite !den_eq, Hne.
  assert (E : path_is_empty (Node (p ++ pk) kk v a c) = false).
  { unfold path_is_empty in *; cbn [pre kids] in *.
    destruct pk as [|s r]; destruct kk; try discriminate; destruct p; reflexivity. }
  rewrite E. unfold den_body. rewrite fold_left_app. reflexivity.
Qed.

(* ------------------------------------------------------------------ *)
(* P2: normalize *)
Lemma rev_cons_eq {A} (p : list A) x rq : rev p = x :: rq -> p = rev rq ++ [x].
Proof. intros H. rewrite <- (rev_involutive p), H. reflexivity. Qed.

Lemma fold_snoc st q s : fold_left step (q ++ [s]) st = step (fold_left step q st) s.
Proof. rewrite fold_left_app. reflexivity. Qed.

Lemma vden_simple st p v a c :
  p <> [] -> vden st (Node p None v a c) = filter valid_state [fold_left step p st].
Proof.
  intros Hp. unfold vden. rewrite den_eq.
  destruct p; [congruence|]. reflexivity.
Qed.

Lemma norm_simple_den p v a c st :
  (v = None \/ st = []) ->
  vden st (norm_simple p v a c) = vden st (Node p None v a c).
Proof.
  intros Hv. unfold norm_simple.
  destruct (rev p) as [|last rq] eqn:Er; [reflexivity|].
  apply rev_cons_eq in Er. subst p.
  set (q := rev rq).
  assert (Hq : rq = [] <-> q = []).
  { unfold q. split; intros H; [subst; reflexivity|].
    rewrite <- (rev_involutive rq), H. reflexivity. }
  destruct (negb (is_some a) && _) eqn:Erm.
  - (* bare self removed *)
    apply andb_true_iff in Erm. destruct Erm as [_ Erm].
    destruct last as [n al|[b|]|al|al|]; try discriminate.
    destruct rq; try discriminate. destruct v as [k|]; try discriminate.
    destruct Hv as [Hv|Hv]; [discriminate|]. subst st. reflexivity.
  - clear Erm.
    destruct last as [n al|[b|]|al|al|]; try reflexivity.
    + (* self as b *)
      destruct rq as [|t rq']; [reflexivity|].
      destruct t as [n [al|]|al|al|al|]; try reflexivity.
      unfold q. cbn [rev].
      rewrite !vden_simple by (intros H; apply app_eq_nil in H; destruct H; discriminate).
      rewrite <- !app_assoc. cbn [app].
      rewrite !fold_left_app. cbn [fold_left step aliasable salias is_some negb set_alias].
      reflexivity.
    + (* self *)
      destruct rq as [|t rq']; [reflexivity|].
      assert (Hne : q <> []) by (intros H; apply Hq in H; discriminate).
      rewrite !vden_simple; auto.
      2:{ intros H; apply app_eq_nil in H; destruct H; discriminate. }
      rewrite fold_snoc.
      pose proof (fold_step_nonempty q st Hne) as Hf.
      destruct (fold_left step q st); [congruence|]. reflexivity.
Qed.

Lemma vden_list st p l v a c :
  SameSet (vden st (Node p (Some l) v a c)) (flat_map (vden (fold_left step p st)) l).
Proof.
  unfold vden. rewrite den_eq.
  replace (path_is_empty (Node p (Some l) v a c)) with false by (destruct p; reflexivity).
  unfold den_body. rewrite filter_flat_map. apply SameSet_refl.
Qed.

Definition kids_wf (t : tree) : bool :=
  match kids t with None => true | Some l => forallb wf_kid l end.

Lemma wf_kid_inv k :
  wf_kid k = true -> vis k = None /\ attrs k = None /\ path_is_empty k = false /\ kids_wf k = true.
Proof.
  destruct k as [p kk v a c]. cbn [wf_kid vis attrs]. unfold kids_wf. cbn [kids].
  rewrite !andb_true_iff, !negb_true_iff.
  intros [[[Hv Ha] Hp] Hk]. destruct v, a; try discriminate. auto.
Qed.

Lemma tree_eta k : Node (pre k) (kids k) (vis k) (attrs k) (cmt k) = k.
Proof. destruct k; reflexivity. Qed.

Section Normalize.
Variable cmp : tree -> tree -> comparison.

Lemma norm_den t :
  kids_wf t = true ->
  forall acc v a c st, (v = None \/ st = []) ->
  SameSet (vden st (norm cmp acc v a c t)) (vden st (Node (acc ++ pre t) (kids t) v a c)).
Proof.
  induction t as [p v0 a0 c0|p l v0 a0 c0 IH] using tree_ind'; intros Hwf acc v a c st Hv.
  - cbn [norm kids pre]. rewrite norm_simple_den by assumption. apply SameSet_refl.
  - unfold kids_wf in Hwf. cbn [kids] in Hwf. rewrite forallb_forall in Hwf.
    rewrite Forall_forall in IH.
    assert (Hgen : SameSet
              (vden st (Node (acc ++ p)
                 (Some (sort_by cmp (map (fun k => norm cmp [] (vis k) (attrs k) (cmt k) k) l))) v a c))
              (vden st (Node (acc ++ p) (Some l) v a c))).
    { eapply SameSet_trans; [apply vden_list|].
      eapply SameSet_trans; [|apply SameSet_sym, vden_list].
      eapply SameSet_trans; [apply SameSet_flat_map_l, SameSet_perm, sort_perm|].
      rewrite flat_map_concat_map, map_map, <- flat_map_concat_map.
      apply SameSet_flat_map. apply Forall_forall. intros k Hk.
      destruct (wf_kid_inv k (Hwf k Hk)) as [Hvk [_ [_ Hkk]]].
      pose proof (IH k Hk Hkk [] (vis k) (attrs k) (cmt k) (fold_left step (acc ++ p) st)
                     (or_introl Hvk)) as H.
      cbn [app] in H. rewrite tree_eta in H. exact H. }
    cbn [norm kids pre].
    destruct l as [|k [|k2 r]].
    + destruct (is_some a).
      * apply SameSet_refl.
      * intros x. unfold vden. rewrite !den_eq.
        replace (path_is_empty (Node (acc ++ p) (Some []) v a c)) with false
          by (destruct (acc ++ p); reflexivity).
        reflexivity.
    + destruct (negb (is_self_string k) && negb (has_comment k)).
      * destruct (wf_kid_inv k (Hwf k (or_introl eq_refl))) as [_ [_ [Hne Hkk]]].
        eapply SameSet_trans; [apply (IH k (or_introl eq_refl) Hkk (acc ++ p) v a c st Hv)|].
        unfold vden. rewrite den_splice by assumption.
        rewrite den_eq.
        replace (path_is_empty (Node (acc ++ p) (Some [k]) v a c)) with false
          by (destruct (acc ++ p); reflexivity).
        unfold den_body. cbn [flat_map]. rewrite app_nil_r. apply SameSet_refl.
      * exact Hgen.
    + exact Hgen.
Qed.

Lemma norm_fields t : forall acc v a c,
  vis (norm cmp acc v a c t) = v /\ attrs (norm cmp acc v a c t) = a.
Proof.
  induction t as [p v0 a0 c0|p l v0 a0 c0 IH] using tree_ind'; intros acc v a c.
  - cbn [norm kids pre]. unfold norm_simple.
    destruct (rev (acc ++ p)) as [|last rq]; [split; reflexivity|].
    destruct (negb (is_some a) && _); [split; reflexivity|].
    destruct last as [n al|[b|]|al|al|]; try (split; reflexivity).
    + destruct rq as [|[n [al|]|al|al|al|] rq']; split; reflexivity.
    + destruct rq; split; reflexivity.
  - cbn [norm kids pre]. destruct l as [|k [|k2 r]].
    + destruct (is_some a); split; reflexivity.
    + destruct (negb (is_self_string k) && negb (has_comment k)).
      * inversion IH as [|? ? Hk _]; subst. apply Hk.
      * split; reflexivity.
    + split; reflexivity.
Qed.

Lemma leaves_SameSet t1 t2 :
  vnorm (vis t1) = vnorm (vis t2) -> attrs t1 = attrs t2 ->
  SameSet (vden [] t1) (vden [] t2) -> SameSet (leaves t1) (leaves t2).
Proof.
  intros Hv Ha H. unfold leaves, leaf_paths. rewrite Hv, Ha.
  apply SameSet_map, SameSet_map. exact H.
Qed.

Lemma normalize_leaves t :
  kids_wf t = true -> SameSet (leaves (normalize cmp t)) (leaves t).
Proof.
  intros Hwf. unfold normalize.
  destruct (norm_fields t [] (vis t) (attrs t) (cmt t)) as [Hv Ha].
  apply leaves_SameSet; [rewrite Hv; reflexivity|rewrite Ha; reflexivity|].
  pose proof (norm_den t Hwf [] (vis t) (attrs t) (cmt t) [] (or_intror eq_refl)) as H.
  cbn [app] in H. rewrite tree_eta in H. exact H.
Qed.
End Normalize.

(* ------------------------------------------------------------------ *)
(* P2: flatten, nest_trailing_self *)
Lemma flat_map_flat_map {A B C} (f : B -> list C) (g : A -> list B) l :
  flat_map f (flat_map g l) = flat_map (fun x => flat_map f (g x)) l.
Proof.
  induction l as [|x r IH]; cbn [flat_map]; auto.
  rewrite flat_map_app, IH. reflexivity.
Qed.
Lemma flat_map_map {A B C} (f : B -> list C) (g : A -> B) l :
  flat_map f (map g l) = flat_map (fun x => f (g x)) l.
Proof. induction l as [|x r IH]; cbn [flat_map map]; auto. rewrite IH; reflexivity. Qed.
Lemma flat_map_ext_in {A B} (f g : A -> list B) l :
  (forall x, In x l -> f x = g x) -> flat_map f l = flat_map g l.
Proof.
  induction l as [|x r IH]; intros H; cbn [flat_map]; auto.
  rewrite (H x (or_introl eq_refl)), IH; auto. intros y Hy; apply H; right; auto.
Qed.

Lemma no_empty_kid_inv p l v a c :
  no_empty_kid (Node p (Some l) v a c) = true ->
  forall k, In k l -> path_is_empty k = false /\ no_empty_kid k = true.
Proof.
  cbn [no_empty_kid]. rewrite forallb_forall. intros H k Hk.
  specialize (H k Hk). apply andb_true_iff in H. destruct H as [H1 H2].
  apply negb_true_iff in H1. auto.
Qed.

Lemma app_path_nonempty p f v a c :
  path_is_empty f = false -> path_is_empty (Node (p ++ pre f) (kids f) v a c) = false.
Proof.
  destruct f as [pf kf vf af cf]. unfold path_is_empty. cbn [pre kids].
  destruct pf, kf; try discriminate; intros _; destruct p; reflexivity.
Qed.

Lemma flatten_nonempty item t :
  path_is_empty t = false -> no_empty_kid t = true ->
  Forall (fun f => path_is_empty f = false) (flatten item t).
Proof.
  induction t as [p v a c|p l v a c IH] using tree_ind'; intros Hne Hk.
  - cbn [flatten]. destruct (_ || _); repeat constructor; assumption.
  - cbn [flatten]. destruct (_ || _); [repeat constructor; assumption|].
    destruct (sole_self l); [repeat constructor; assumption|].
    apply Forall_forall. intros f Hf. apply in_flat_map in Hf.
    destruct Hf as [nested [Hn Hf]]. apply in_map_iff in Hf. destruct Hf as [f0 [E Hf0]].
    subst f. apply app_path_nonempty.
    rewrite Forall_forall in IH.
    destruct (no_empty_kid_inv _ _ _ _ _ Hk nested Hn) as [H1 H2].
    pose proof (IH nested Hn H1 H2) as HF. rewrite Forall_forall in HF. apply HF; assumption.
Qed.

Lemma flatten_den item t :
  no_empty_kid t = true -> forall st, flat_map (den st) (flatten item t) = den st t.
Proof.
  induction t as [p v a c|p l v a c IH] using tree_ind'; intros Hk st.
  - cbn [flatten]. destruct (_ || _); cbn [flat_map]; apply app_nil_r.
  - cbn [flatten]. destruct (path_is_empty _ || _) eqn:E1; [cbn [flat_map]; apply app_nil_r|].
    destruct (sole_self l); [cbn [flat_map]; apply app_nil_r|].
    apply orb_false_iff in E1. destruct E1 as [E1 _].
    rewrite den_eq, E1. unfold den_body.
    rewrite flat_map_flat_map. apply flat_map_ext_in. intros nested Hn.
    rewrite flat_map_map.
    destruct (no_empty_kid_inv _ _ _ _ _ Hk nested Hn) as [H1 H2].
    rewrite Forall_forall in IH. rewrite <- (IH nested Hn H2).
    apply flat_map_ext_in. intros f Hf.
    apply den_splice.
    pose proof (flatten_nonempty item nested H1 H2) as HF. rewrite Forall_forall in HF. auto.
Qed.

Lemma flatten_fields item t f :
  In f (flatten item t) ->
  vis f = vis t /\ (attrs f = attrs t \/ (item = false /\ attrs f = None)).
Proof.
  destruct t as [p [l|] v a c]; cbn [flatten].
  - destruct (_ || _); [intros [<-|[]]; auto|].
    destruct (sole_self l); [intros [<-|[]]; auto|].
    intros Hf. apply in_flat_map in Hf. destruct Hf as [nested [_ Hf]].
    apply in_map_iff in Hf. destruct Hf as [f0 [<- _]]. cbn [vis attrs].
    split; auto. destruct item; auto.
  - destruct (_ || _); intros [<-|[]]; auto.
Qed.

Lemma nest_trailing_self_den t st : den st (nest_trailing_self t) = den st t.
Proof.
  destruct t as [p [l|] v a c]; cbn [nest_trailing_self]; [reflexivity|].
  destruct (rev p) as [|last rq] eqn:Er; [reflexivity|].
  destruct last as [n al|al|al|al|]; try reflexivity.
  apply rev_cons_eq in Er. subst p.
  rewrite !den_eq.
  replace (path_is_empty (Node (rev rq ++ [Slf al]) None v a c)) with false
    by (destruct (rev rq); reflexivity).
  replace (path_is_empty (Node (rev rq) (Some [from_path [GS (Slf al)]]) v a c)) with false
    by (destruct (rev rq); reflexivity).
  unfold den_body. rewrite fold_snoc. cbn [flat_map from_path of_path split_path].
  rewrite den_eq. cbn [path_is_empty pre kids]. unfold den_body. cbn [fold_left].
  reflexivity.
Qed.
Lemma nest_trailing_self_fields t :
  vis (nest_trailing_self t) = vis t /\ attrs (nest_trailing_self t) = attrs t.
Proof.
  destruct t as [p [l|] v a c]; cbn [nest_trailing_self]; auto.
  destruct (rev p) as [|[n al|al|al|al|] rq]; auto.
Qed.

(* ------------------------------------------------------------------ *)
(* equality tests *)
Lemma oname_eqb_eq a b : oname_eqb a b = true -> a = b.
Proof.
  destruct a, b; cbn [oname_eqb]; try discriminate; auto.
  intros H; apply eqb_text_spec in H; subst; reflexivity.
Qed.
Lemma sseg_eqb_eq x y : sseg_eqb x y = true -> x = y.
Proof.
  destruct x, y; cbn [sseg_eqb]; try discriminate; auto;
    try (intros H; apply oname_eqb_eq in H; subst; reflexivity).
  rewrite andb_true_iff. intros [H1 H2]. apply eqb_text_spec in H1. apply oname_eqb_eq in H2.
  subst; reflexivity.
Qed.
Lemma list_eqb_sseg_eq p q : list_eqb sseg_eqb p q = true -> p = q.
Proof.
  revert q; induction p as [|x r IH]; intros [|y q]; cbn [list_eqb]; try discriminate; auto.
  rewrite andb_true_iff. intros [H1 H2]. apply sseg_eqb_eq in H1. apply IH in H2. subst; auto.
Qed.

Definition kids_eqb (l1 l2 : list tree) : bool :=
  (fix go (a b : list tree) : bool :=
     match a, b with
     | [], [] => true
     | x :: a', y :: b' => tree_eqb x y && go a' b'
     | _, _ => false
     end) l1 l2.
Lemma kids_eqb_list_eqb l1 l2 : kids_eqb l1 l2 = list_eqb tree_eqb l1 l2.
Proof.
  revert l2; induction l1 as [|x r IH]; intros [|y l2]; cbn [kids_eqb list_eqb]; auto.
  fold (kids_eqb r l2). rewrite IH. reflexivity.
Qed.
Lemma tree_eqb_unfold p1 k1 v1 a1 c1 p2 k2 v2 a2 c2 :
  tree_eqb (Node p1 k1 v1 a1 c1) (Node p2 k2 v2 a2 c2) =
  list_eqb sseg_eqb p1 p2 &&
  match k1, k2 with
  | None, None => true
  | Some l1, Some l2 => list_eqb tree_eqb l1 l2
  | _, _ => false
  end.
Proof.
  cbn [tree_eqb]. destruct k1 as [l1|], k2 as [l2|]; auto.
  f_equal. apply kids_eqb_list_eqb.
Qed.

Lemma tree_eqb_den t1 : forall t2, tree_eqb t1 t2 = true -> forall st, den st t1 = den st t2.
Proof.
  induction t1 as [p v a c|p l v a c IH] using tree_ind'; intros [p2 k2 v2 a2 c2];
    rewrite tree_eqb_unfold, andb_true_iff; intros [Hp Hk] st;
    apply list_eqb_sseg_eq in Hp; subst p2.
  - destruct k2; [discriminate|]. rewrite !den_eq. reflexivity.
  - destruct k2 as [l2|]; [|discriminate].
    rewrite !den_eq. replace (path_is_empty (Node p (Some l2) v2 a2 c2))
      with (path_is_empty (Node p (Some l) v a c)) by (destruct p; reflexivity).
    destruct (path_is_empty _); auto. unfold den_body.
    generalize (fold_left step p st). intros st'.
    revert l2 Hk. induction IH as [|x r Hx _ IHr]; intros [|y l2]; cbn [list_eqb]; try discriminate; auto.
    rewrite andb_true_iff. intros [H1 H2]. cbn [flat_map].
    rewrite (Hx y H1 st'), (IHr l2 H2). reflexivity.
Qed.
Lemma list_eqb_tree_den l1 l2 st :
  list_eqb tree_eqb l1 l2 = true -> flat_map (den st) l1 = flat_map (den st) l2.
Proof.
  revert l2; induction l1 as [|x r IH]; intros [|y l2]; cbn [list_eqb]; try discriminate; auto.
  rewrite andb_true_iff. intros [H1 H2]. cbn [flat_map].
  rewrite (tree_eqb_den x y H1 st), (IH l2 H2). reflexivity.
Qed.

(* ------------------------------------------------------------------ *)
(* denotation of paths *)
Fixpoint gden (st : list sseg) (p : list gseg) : list (list sseg) :=
  match p with
  | [] => [st]
  | GS s :: r => gden (step st s) r
  | GL l :: _ => flat_map (den st) l
  end.

Lemma gden_app_GS st q r : gden st (map GS q ++ r) = gden (fold_left step q st) r.
Proof. revert st; induction q as [|s q IH]; intros st; cbn [map app gden fold_left]; auto. Qed.

Lemma gden_split st r :
  gden st r = den_body st (fst (split_path r)) (snd (split_path r)).
Proof.
  revert st; induction r as [|[s|l] r IH]; intros st; cbn [gden split_path].
  - reflexivity.
  - rewrite IH. destruct (split_path r) as [q k]. reflexivity.
  - reflexivity.
Qed.

Lemma den_of_path st p v a c : p <> [] -> den st (of_path p v a c) = gden st p.
Proof.
  intros Hp. unfold of_path. rewrite gden_split.
  destruct (split_path p) as [q k] eqn:E. rewrite den_eq. cbn [fst snd].
  replace (path_is_empty (Node q k v a c)) with false; auto.
  destruct p as [|[s|l] r]; [congruence| |].
  - cbn [split_path] in E. destruct (split_path r). inversion E; subst. reflexivity.
  - cbn [split_path] in E. inversion E; subst. reflexivity.
Qed.

Lemma path_nonempty t : path_is_empty t = false -> path t <> [].
Proof.
  destruct t as [p [l|] v a c]; unfold path, path_is_empty; cbn [pre kids klist].
  - intros _ H. apply app_eq_nil in H. destruct H; discriminate.
  - destruct p; [discriminate|]. intros _; discriminate.
Qed.

Lemma den_gden st t : path_is_empty t = false -> den st t = gden st (path t).
Proof.
  intros Hne. destruct t as [p k v a c]. rewrite den_eq, Hne.
  unfold path. cbn [pre kids]. rewrite gden_app_GS. destruct k; cbn [klist gden]; reflexivity.
Qed.

Lemma split_path_path q k : split_path (map GS q ++ klist k) = (q, k).
Proof.
  induction q as [|s q IH]; cbn [map app split_path].
  - destruct k; reflexivity.
  - rewrite IH. reflexivity.
Qed.
Lemma split_path_GL q l r : split_path (map GS q ++ GL l :: r) = (q, Some l).
Proof.
  induction q as [|s q IH]; cbn [map app split_path]; auto. rewrite IH; reflexivity.
Qed.

Lemma gseg_eqb_GS s y : gseg_eqb (GS s) y = true -> y = GS s.
Proof.
  destruct y; cbn [gseg_eqb]; [|discriminate]. intros H; apply sseg_eqb_eq in H; subst; auto.
Qed.
Lemma list_eqb_gseg_GS q l : list_eqb gseg_eqb (map GS q) l = true -> l = map GS q.
Proof.
  revert l; induction q as [|s q IH]; intros [|y l]; cbn [map list_eqb]; try discriminate; auto.
  rewrite andb_true_iff. intros [H1 H2]. apply gseg_eqb_GS in H1. apply IH in H2. subst; auto.
Qed.
Lemma list_eqb_gseg_gden a b st : list_eqb gseg_eqb a b = true -> gden st a = gden st b.
Proof.
  revert b st; induction a as [|x a IH]; intros [|y b] st; cbn [list_eqb]; try discriminate; auto.
  rewrite andb_true_iff. intros [H1 H2].
  destruct x as [s|l].
  - apply gseg_eqb_GS in H1. subst y. cbn [gden]. auto.
  - destruct y as [s|l2]; [discriminate|]. cbn [gseg_eqb] in H1. cbn [gden].
    apply list_eqb_tree_den; auto.
Qed.

(* ------------------------------------------------------------------ *)
(* the prefix loop of merge *)
Lemma prefix_len_false_eq a b :
  list_eqb gseg_eqb (firstn (prefix_len false a b) a) (firstn (prefix_len false a b) b) = true.
Proof.
  revert b; induction a as [|x a IH]; intros [|y b]; cbn [prefix_len firstn list_eqb]; auto.
  cbn [andb orb]. destruct (gseg_eqb x y) eqn:E; cbn [firstn list_eqb]; auto.
  rewrite E, IH. reflexivity.
Qed.
Lemma prefix_len_eq a b :
  (forall x y ra rb, a = x :: ra -> b = y :: rb -> eea x y = true -> gseg_eqb x y = true) ->
  list_eqb gseg_eqb (firstn (prefix_len true a b) a) (firstn (prefix_len true a b) b) = true.
Proof.
  intros H. destruct a as [|x a], b as [|y b]; cbn [prefix_len firstn list_eqb]; auto.
  destruct ((true && eea x y) || gseg_eqb x y) eqn:E; cbn [firstn list_eqb]; auto.
  assert (Hg : gseg_eqb x y = true).
  { cbn [andb] in E. apply orb_true_iff in E. destruct E as [E|E]; auto.
    eapply H; eauto. }
  rewrite Hg, prefix_len_false_eq. reflexivity.
Qed.
Lemma prefix_len_le first a b :
  prefix_len first a b <= length a /\ prefix_len first a b <= length b.
Proof.
  revert first b; induction a as [|x a IH]; intros first [|y b]; cbn [prefix_len length]; try lia.
  destruct (_ || _); [|lia]. specialize (IH false b). lia.
Qed.

(* ------------------------------------------------------------------ *)
(* shape invariants *)
Definition shape (t : tree) : bool := no_empty_kid t && alias_last t.
Definition good (t : tree) : bool := negb (path_is_empty t) && shape t.

Lemma forallb_and {A} (f g : A -> bool) l :
  forallb (fun x => f x && g x) l = forallb f l && forallb g l.
Proof.
  induction l as [|x r IH]; cbn [forallb]; auto. rewrite IH.
  destruct (f x), (g x), (forallb f r), (forallb g r); reflexivity.
Qed.

Lemma forallb_ext' {A} (f g : A -> bool) l : (forall x, f x = g x) -> forallb f l = forallb g l.
Proof. intros H; induction l as [|x r IH]; cbn [forallb]; auto. rewrite H, IH; reflexivity. Qed.

Lemma good_some q L v a c :
  good (Node q (Some L) v a c) = alias_free q && forallb good L.
Proof.
  assert (E : forallb good L =
              forallb (fun x => negb (path_is_empty x) && no_empty_kid x) L && forallb alias_last L).
  { rewrite <- forallb_and. apply forallb_ext'. intros x. unfold good, shape.
    destruct (path_is_empty x), (no_empty_kid x), (alias_last x); reflexivity. }
  rewrite E. unfold good at 1. unfold shape. cbn [no_empty_kid alias_last].
  replace (path_is_empty (Node q (Some L) v a c)) with false by (destruct q; reflexivity).
  cbn [negb andb]. clear E.
  destruct (alias_free q); destruct (forallb alias_last L); destruct (forallb _ L); reflexivity.
Qed.
Lemma good_none q v a c :
  good (Node q None v a c) = negb (is_nil q) && alias_free (removelast q).
Proof.
  unfold good, shape. cbn [no_empty_kid alias_last]. destruct q; reflexivity.
Qed.

Lemma alias_free_app x y : alias_free (x ++ y) = alias_free x && alias_free y.
Proof. apply forallb_app. Qed.
Lemma alias_free_firstn n p : alias_free p = true -> alias_free (firstn n p) = true.
Proof.
  intros H. rewrite <- (firstn_skipn n p), alias_free_app in H.
  apply andb_true_iff in H. tauto.
Qed.
Lemma alias_free_skipn n p : alias_free p = true -> alias_free (skipn n p) = true.
Proof.
  intros H. rewrite <- (firstn_skipn n p), alias_free_app in H.
  apply andb_true_iff in H. tauto.
Qed.
Lemma skipn_nonempty {A} n (p : list A) : n < length p -> skipn n p <> [].
Proof.
  intros H E. assert (L : length (skipn n p) = 0) by (rewrite E; reflexivity).
  rewrite skipn_length in L. lia.
Qed.
Lemma removelast_split n (p : list sseg) :
  n < length p -> removelast p = firstn n p ++ removelast (skipn n p).
Proof.
  intros H. rewrite <- (firstn_skipn n p) at 1.
  apply removelast_app. apply skipn_nonempty; assumption.
Qed.

Lemma path_len_length t : length (path t) = path_len t.
Proof.
  destruct t as [p [l|] v a c]; unfold path, path_len; cbn [pre kids klist];
    rewrite app_length, map_length; cbn [length]; lia.
Qed.

Lemma skipn_path n p k :
  n <= length p -> skipn n (map GS p ++ klist k) = map GS (skipn n p) ++ klist k.
Proof.
  intros H. rewrite skipn_app, map_length.
  replace (n - length p) with 0 by lia. cbn [skipn].
  rewrite skipn_map. reflexivity.
Qed.
Lemma firstn_path n p k :
  n <= length p -> firstn n (map GS p ++ klist k) = map GS (firstn n p).
Proof.
  intros H. rewrite firstn_app, map_length.
  replace (n - length p) with 0 by lia. cbn [firstn]. rewrite app_nil_r.
  rewrite firstn_map. reflexivity.
Qed.

Lemma from_path_path q k : from_path (map GS q ++ klist k) = Node q k None None false.
Proof. unfold from_path, of_path. rewrite split_path_path. reflexivity. Qed.

Lemma good_prefix_alias_free n p k v a c :
  good (Node p k v a c) = true -> n <= length p -> n < path_len (Node p k v a c) ->
  alias_free (firstn n p) = true.
Proof.
  intros Hg Hn Hl. destruct k as [L|].
  - rewrite good_some in Hg. apply andb_true_iff in Hg. destruct Hg as [Hg _].
    apply alias_free_firstn; assumption.
  - rewrite good_none in Hg. apply andb_true_iff in Hg. destruct Hg as [_ Hg].
    unfold path_len in Hl. cbn [pre kids] in Hl.
    rewrite (removelast_split n), alias_free_app in Hg by lia.
    apply andb_true_iff in Hg. tauto.
Qed.

Lemma good_suffix n t :
  good t = true -> n < path_len t -> good (from_path (skipn n (path t))) = true.
Proof.
  destruct t as [p k v a c]. intros Hg Hl. unfold path. cbn [pre kids].
  assert (Hn : n <= length p).
  { unfold path_len in Hl. cbn [pre kids] in Hl. destruct k; lia. }
  rewrite skipn_path, from_path_path by assumption.
  destruct k as [L|].
  - rewrite good_some in *. apply andb_true_iff in Hg. destruct Hg as [H1 H2].
    rewrite H2, alias_free_skipn; auto.
  - rewrite good_none in *. apply andb_true_iff in Hg. destruct Hg as [H1 H2].
    unfold path_len in Hl. cbn [pre kids] in Hl.
    assert (Hne : skipn n p <> []) by (apply skipn_nonempty; lia).
    apply andb_true_iff; split.
    + destruct (skipn n p); [congruence|reflexivity].
    + rewrite (removelast_split n), alias_free_app in H2 by lia.
      apply andb_true_iff in H2. tauto.
Qed.

Lemma good_nonempty t : good t = true -> path_is_empty t = false.
Proof. unfold good. intros H. apply andb_true_iff in H. destruct H as [H _]. apply negb_true_iff in H; auto. Qed.

Lemma forallb_perm {A} (f : A -> bool) l1 l2 :
  Permutation l1 l2 -> forallb f l1 = forallb f l2.
Proof.
  induction 1 as [|x l l' _ IH|x y l|l l' l'' _ IH1 _ IH2]; cbn [forallb]; auto.
  - rewrite IH; reflexivity.
  - destruct (f x), (f y); reflexivity.
  - congruence.
Qed.
