(* C10/Lemmas.v -- proofs about the import-rewriting model *)
From V Require Import Base.Text C10.Model.
From Coq Require Import Permutation.
Local Open Scope nat_scope.
Local Open Scope list_scope.

(* ------------------------------------------------------------------ *)
(* induction principle for the nested type *)
Section TreeInd.
Variable P : tree -> Prop.
Hypothesis Hnone : forall p v a c, P (Node p None v a c).
Hypothesis Hsome : forall p l v a c, Forall P l -> P (Node p (Some l) v a c).
Fixpoint tree_ind' (t : tree) : P t :=
  match t with
  | Node p None v a c => Hnone p v a c
  | Node p (Some l) v a c =>
      Hsome p l v a c
        ((fix go (l : list tree) : Forall P l :=
            match l return Forall P l with
            | [] => Forall_nil P
            | x :: r => Forall_cons x (tree_ind' x) (go r)
            end) l)
  end.
End TreeInd.

(* ------------------------------------------------------------------ *)
(* SameSet *)
Lemma SameSet_refl {A} (l : list A) : SameSet l l.
Proof. intros x; reflexivity. Qed.
Lemma SameSet_sym {A} (l1 l2 : list A) : SameSet l1 l2 -> SameSet l2 l1.
Proof. intros H x; symmetry; apply H. Qed.
Lemma SameSet_trans {A} (l1 l2 l3 : list A) : SameSet l1 l2 -> SameSet l2 l3 -> SameSet l1 l3.
Proof. intros H1 H2 x; rewrite (H1 x); apply H2. Qed.
Lemma SameSet_app {A} (a1 a2 b1 b2 : list A) :
  SameSet a1 a2 -> SameSet b1 b2 -> SameSet (a1 ++ b1) (a2 ++ b2).
Proof. intros Ha Hb x; rewrite !in_app_iff, (Ha x), (Hb x); reflexivity. Qed.
Lemma SameSet_app_comm {A} (a b : list A) : SameSet (a ++ b) (b ++ a).
Proof. intros x; rewrite !in_app_iff; tauto. Qed.
Lemma SameSet_perm {A} (l1 l2 : list A) : Permutation l1 l2 -> SameSet l1 l2.
Proof.
  intros H x; split; intros Hx.
  - eapply Permutation_in; eauto.
  - eapply Permutation_in; [apply Permutation_sym|]; eauto.
Qed.
Lemma SameSet_map {A B} (f : A -> B) (l1 l2 : list A) :
  SameSet l1 l2 -> SameSet (map f l1) (map f l2).
Proof.
  intros H y; rewrite !in_map_iff; split; intros [x [E Hx]]; exists x; split; auto; apply H; auto.
Qed.
Lemma SameSet_filter {A} (f : A -> bool) (l1 l2 : list A) :
  SameSet l1 l2 -> SameSet (filter f l1) (filter f l2).
Proof. intros H x; rewrite !filter_In, (H x); reflexivity. Qed.
Lemma SameSet_flat_map {A B} (f g : A -> list B) (l : list A) :
  Forall (fun x => SameSet (f x) (g x)) l -> SameSet (flat_map f l) (flat_map g l).
Proof.
  intros H y; rewrite !in_flat_map; rewrite Forall_forall in H.
  split; intros [x [Hx Hy]]; exists x; split; auto; apply (H x Hx); auto.
Qed.
Lemma SameSet_flat_map_l {A B} (f : A -> list B) (l1 l2 : list A) :
  SameSet l1 l2 -> SameSet (flat_map f l1) (flat_map f l2).
Proof.
  intros H y; rewrite !in_flat_map; split; intros [x [Hx Hy]]; exists x; split; auto; apply H; auto.
Qed.
Lemma SameSet_dup {A} (a b : list A) : (forall x, In x b -> In x a) -> SameSet (a ++ b) a.
Proof. intros H x; rewrite in_app_iff; split; [intros [Hx|Hx]; auto|auto]. Qed.

(* ------------------------------------------------------------------ *)
(* sorting is a permutation, for every comparator *)
Section SortPerm.
Variable A : Type.
Variable cmp : A -> A -> comparison.
Lemma insert_perm x l : Permutation (insert cmp x l) (x :: l).
Proof.
  induction l as [|y r IH]; cbn [insert]; auto.
  destruct (cmp x y); auto.
  rewrite IH. apply perm_swap.
Qed.
Lemma sort_perm l : Permutation (sort_by cmp l) l.
Proof.
  induction l as [|x r IH]; cbn [sort_by fold_right]; auto.
  fold (sort_by cmp r). rewrite insert_perm. auto.
Qed.
End SortPerm.

(* ------------------------------------------------------------------ *)
(* denotation basics *)
Definition vden (st : list sseg) (t : tree) : list (list sseg) := filter valid_state (den st t).
Definition den_body (st : list sseg) (p : list sseg) (k : option (list tree)) :=
  let st' := fold_left step p st in
  match k with None => [st'] | Some l => flat_map (den st') l end.

Lemma den_eq st p k v a c :
  den st (Node p k v a c) =
  if path_is_empty (Node p k v a c) then [] else den_body st p k.
Proof. destruct p, k; reflexivity. Qed.

Lemma filter_flat_map {A B} (f : B -> bool) (g : A -> list B) l :
  filter f (flat_map g l) = flat_map (fun x => filter f (g x)) l.
Proof.
  induction l as [|x r IH]; cbn [flat_map]; auto.
  rewrite filter_app, IH; reflexivity.
Qed.

Lemma step_nonempty st s : step st s <> [].
Proof.
  destruct s as [n a|[b|]|a|a|]; destruct st as [|t st']; cbn [step]; try discriminate.
  destruct (aliasable t); discriminate.
Qed.
Lemma fold_step_nonempty p st : p <> [] -> fold_left step p st <> [].
Proof.
  revert st; induction p as [|s r IH]; intros st Hp; [congruence|].
  cbn [fold_left]. destruct r as [|s' r'].
  - cbn [fold_left]. apply step_nonempty.
  - apply IH; discriminate.
Qed.
Lemma fold_step_nonempty' p st : st <> [] -> fold_left step p st <> [].
Proof.
  revert st; induction p as [|s r IH]; intros st Hp; cbn [fold_left]; auto.
  apply IH, step_nonempty.
Qed.

Lemma den_splice st p k v a c :
  path_is_empty k = false ->
  den st (Node (p ++ pre k) (kids k) v a c) = den (fold_left step p st) k.
Proof.
  destruct k as [pk kk vk ak ck]; cbn [pre kids]; intros Hne.
  rewrite !den_eq, Hne.
  assert (E : path_is_empty (Node (p ++ pk) kk v a c) = false).
  { unfold path_is_empty in *; cbn [pre kids] in *.
    destruct pk as [|s r]; destruct kk; try discriminate; destruct p; reflexivity. }
  rewrite E. unfold den_body. rewrite fold_left_app. reflexivity.
Qed.

(* ------------------------------------------------------------------ *)
(* P2: normalize *)
Lemma rev_cons_eq {A} (p : list A) x rq : rev p = x :: rq -> p = rev rq ++ [x].
Proof. intros H. rewrite <- (rev_involutive p), H. reflexivity. Qed.

Lemma fold_snoc st q s : fold_left step (q ++ [s]) st = step (fold_left step q st) s.
Proof. rewrite fold_left_app. reflexivity. Qed.

Lemma vden_simple st p v a c :
  p <> [] -> vden st (Node p None v a c) = filter valid_state [fold_left step p st].
Proof.
  intros Hp. unfold vden. rewrite den_eq.
  destruct p; [congruence|]. reflexivity.
Qed.

Lemma norm_simple_den p v a c st :
  (v = None \/ st = []) ->
  vden st (norm_simple p v a c) = vden st (Node p None v a c).
Proof.
  intros Hv. unfold norm_simple.
  destruct (rev p) as [|last rq] eqn:Er; [reflexivity|].
  apply rev_cons_eq in Er. subst p.
  set (q := rev rq).
  assert (Hq : rq = [] <-> q = []).
  { unfold q. split; intros H; [subst; reflexivity|].
    rewrite <- (rev_involutive rq), H. reflexivity. }
  destruct (negb (is_some a) && _) eqn:Erm.
  - (* bare self removed *)
    apply andb_true_iff in Erm. destruct Erm as [_ Erm].
    destruct last as [n al|[b|]|al|al|]; try discriminate.
    destruct rq; try discriminate. destruct v as [k|]; try discriminate.
    destruct Hv as [Hv|Hv]; [discriminate|]. subst st. reflexivity.
  - clear Erm.
    destruct last as [n al|[b|]|al|al|]; try reflexivity.
    + (* self as b *)
      destruct rq as [|t rq']; [reflexivity|].
      destruct t as [n [al|]|al|al|al|]; try reflexivity.
      unfold q. cbn [rev].
      rewrite !vden_simple by (intros H; apply app_eq_nil in H; destruct H; discriminate).
      rewrite <- !app_assoc. cbn [app].
      rewrite !fold_left_app. cbn [fold_left step aliasable salias is_some negb set_alias].
      reflexivity.
    + (* self *)
      destruct rq as [|t rq']; [reflexivity|].
      assert (Hne : q <> []) by (intros H; apply Hq in H; discriminate).
      rewrite !vden_simple; auto.
      2:{ intros H; apply app_eq_nil in H; destruct H; discriminate. }
      rewrite fold_snoc.
      pose proof (fold_step_nonempty q st Hne) as Hf.
      destruct (fold_left step q st); [congruence|]. reflexivity.
Qed.

Lemma vden_list st p l v a c :
  SameSet (vden st (Node p (Some l) v a c)) (flat_map (vden (fold_left step p st)) l).
Proof.
  unfold vden. rewrite den_eq.
  replace (path_is_empty (Node p (Some l) v a c)) with false by (destruct p; reflexivity).
  unfold den_body. rewrite filter_flat_map. apply SameSet_refl.
Qed.


Lemma wf_kid_inv k :
  wf_kid k = true -> vis k = None /\ attrs k = None /\ path_is_empty k = false /\ kids_wf k = true.
Proof.
  destruct k as [p kk v a c]. cbn [wf_kid vis attrs]. unfold kids_wf. cbn [kids].
  rewrite !andb_true_iff, !negb_true_iff.
  intros [[[Hv Ha] Hp] Hk]. destruct v, a; try discriminate. auto.
Qed.

Lemma tree_eta k : Node (pre k) (kids k) (vis k) (attrs k) (cmt k) = k.
Proof. destruct k; reflexivity. Qed.

Section Normalize.
Variable cmp : tree -> tree -> comparison.

Lemma norm_den t :
  kids_wf t = true ->
  forall acc v a c st, (v = None \/ st = []) ->
  SameSet (vden st (norm cmp acc v a c t)) (vden st (Node (acc ++ pre t) (kids t) v a c)).
Proof.
  induction t as [p v0 a0 c0|p l v0 a0 c0 IH] using tree_ind'; intros Hwf acc v a c st Hv.
  - cbn [norm kids pre]. rewrite norm_simple_den by assumption. apply SameSet_refl.
  - unfold kids_wf in Hwf. cbn [kids] in Hwf. rewrite forallb_forall in Hwf.
    rewrite Forall_forall in IH.
    assert (Hgen : SameSet
              (vden st (Node (acc ++ p)
                 (Some (sort_by cmp (map (fun k => norm cmp [] (vis k) (attrs k) (cmt k) k) l))) v a c))
              (vden st (Node (acc ++ p) (Some l) v a c))).
    { eapply SameSet_trans; [apply vden_list|].
      eapply SameSet_trans; [|apply SameSet_sym, vden_list].
      eapply SameSet_trans; [apply SameSet_flat_map_l, SameSet_perm, sort_perm|].
      rewrite flat_map_concat_map, map_map, <- flat_map_concat_map.
      apply SameSet_flat_map. apply Forall_forall. intros k Hk.
      destruct (wf_kid_inv k (Hwf k Hk)) as [Hvk [_ [_ Hkk]]].
      pose proof (IH k Hk Hkk [] (vis k) (attrs k) (cmt k) (fold_left step (acc ++ p) st)
                     (or_introl Hvk)) as H.
      cbn [app] in H. rewrite tree_eta in H. exact H. }
    cbn [norm kids pre].
    destruct l as [|k [|k2 r]].
    + destruct (is_some a).
      * apply SameSet_refl.
      * intros x. unfold vden. rewrite !den_eq.
        replace (path_is_empty (Node (acc ++ p) (Some []) v a c)) with false
          by (destruct (acc ++ p); reflexivity).
        reflexivity.
    + destruct (negb (is_self_string k) && negb (has_comment k)).
      * destruct (wf_kid_inv k (Hwf k (or_introl eq_refl))) as [_ [_ [Hne Hkk]]].
        eapply SameSet_trans; [apply (IH k (or_introl eq_refl) Hkk (acc ++ p) v a c st Hv)|].
        unfold vden. rewrite den_splice by assumption.
        rewrite den_eq.
        replace (path_is_empty (Node (acc ++ p) (Some [k]) v a c)) with false
          by (destruct (acc ++ p); reflexivity).
        unfold den_body. cbn [flat_map]. rewrite app_nil_r. apply SameSet_refl.
      * exact Hgen.
    + exact Hgen.
Qed.

Lemma norm_fields t : forall acc v a c,
  vis (norm cmp acc v a c t) = v /\ attrs (norm cmp acc v a c t) = a.
Proof.
  induction t as [p v0 a0 c0|p l v0 a0 c0 IH] using tree_ind'; intros acc v a c.
  - cbn [norm kids pre]. unfold norm_simple.
    destruct (rev (acc ++ p)) as [|last rq]; [split; reflexivity|].
    destruct (negb (is_some a) && _); [split; reflexivity|].
    destruct last as [n al|[b|]|al|al|]; try (split; reflexivity).
    + destruct rq as [|[n [al|]|al|al|al|] rq']; split; reflexivity.
    + destruct rq; split; reflexivity.
  - cbn [norm kids pre]. destruct l as [|k [|k2 r]].
    + destruct (is_some a); split; reflexivity.
    + destruct (negb (is_self_string k) && negb (has_comment k)).
      * inversion IH as [|? ? Hk _]; subst. apply Hk.
      * split; reflexivity.
    + split; reflexivity.
Qed.

Lemma leaves_SameSet t1 t2 :
  vnorm (vis t1) = vnorm (vis t2) -> attrs t1 = attrs t2 ->
  SameSet (vden [] t1) (vden [] t2) -> SameSet (leaves t1) (leaves t2).
Proof.
  intros Hv Ha H. unfold leaves, leaf_paths. rewrite Hv, Ha.
  apply SameSet_map, SameSet_map. exact H.
Qed.

Lemma normalize_leaves t :
  kids_wf t = true -> SameSet (leaves (normalize cmp t)) (leaves t).
Proof.
  intros Hwf. unfold normalize.
  destruct (norm_fields t [] (vis t) (attrs t) (cmt t)) as [Hv Ha].
  apply leaves_SameSet; [rewrite Hv; reflexivity|rewrite Ha; reflexivity|].
  pose proof (norm_den t Hwf [] (vis t) (attrs t) (cmt t) [] (or_intror eq_refl)) as H.
  cbn [app] in H. rewrite tree_eta in H. exact H.
Qed.
End Normalize.

(* ------------------------------------------------------------------ *)
(* P2: flatten, nest_trailing_self *)
Lemma flat_map_flat_map {A B C} (f : B -> list C) (g : A -> list B) l :
  flat_map f (flat_map g l) = flat_map (fun x => flat_map f (g x)) l.
Proof.
  induction l as [|x r IH]; cbn [flat_map]; auto.
  rewrite flat_map_app, IH. reflexivity.
Qed.
Lemma flat_map_map {A B C} (f : B -> list C) (g : A -> B) l :
  flat_map f (map g l) = flat_map (fun x => f (g x)) l.
Proof. induction l as [|x r IH]; cbn [flat_map map]; auto. rewrite IH; reflexivity. Qed.
Lemma flat_map_ext_in {A B} (f g : A -> list B) l :
  (forall x, In x l -> f x = g x) -> flat_map f l = flat_map g l.
Proof.
  induction l as [|x r IH]; intros H; cbn [flat_map]; auto.
  rewrite (H x (or_introl eq_refl)), IH; auto. intros y Hy; apply H; right; auto.
Qed.

Lemma no_empty_kid_inv p l v a c :
  no_empty_kid (Node p (Some l) v a c) = true ->
  forall k, In k l -> path_is_empty k = false /\ no_empty_kid k = true.
Proof.
  cbn [no_empty_kid]. rewrite forallb_forall. intros H k Hk.
  specialize (H k Hk). apply andb_true_iff in H. destruct H as [H1 H2].
  apply negb_true_iff in H1. auto.
Qed.

Lemma app_path_nonempty p f v a c :
  path_is_empty f = false -> path_is_empty (Node (p ++ pre f) (kids f) v a c) = false.
Proof.
  destruct f as [pf kf vf af cf]. unfold path_is_empty. cbn [pre kids].
  destruct pf, kf; try discriminate; intros _; destruct p; reflexivity.
Qed.

Lemma flatten_nonempty item t :
  path_is_empty t = false -> no_empty_kid t = true ->
  Forall (fun f => path_is_empty f = false) (flatten item t).
Proof.
  induction t as [p v a c|p l v a c IH] using tree_ind'; intros Hne Hk.
  - cbn [flatten]. destruct (_ || _); repeat constructor; assumption.
  - cbn [flatten]. destruct (_ || _); [repeat constructor; assumption|].
    destruct (sole_self l); [repeat constructor; assumption|].
    apply Forall_forall. intros f Hf. apply in_flat_map in Hf.
    destruct Hf as [nested [Hn Hf]]. apply in_map_iff in Hf. destruct Hf as [f0 [E Hf0]].
    subst f. apply app_path_nonempty.
    rewrite Forall_forall in IH.
    destruct (no_empty_kid_inv _ _ _ _ _ Hk nested Hn) as [H1 H2].
    pose proof (IH nested Hn H1 H2) as HF. rewrite Forall_forall in HF. apply HF; assumption.
Qed.

Lemma flatten_den item t :
  no_empty_kid t = true -> forall st, flat_map (den st) (flatten item t) = den st t.
Proof.
  induction t as [p v a c|p l v a c IH] using tree_ind'; intros Hk st.
  - cbn [flatten]. destruct (_ || _); cbn [flat_map]; apply app_nil_r.
  - cbn [flatten]. destruct (path_is_empty _ || _) eqn:E1; [cbn [flat_map]; apply app_nil_r|].
    destruct (sole_self l); [cbn [flat_map]; apply app_nil_r|].
    apply orb_false_iff in E1. destruct E1 as [E1 _].
    rewrite den_eq, E1. unfold den_body.
    rewrite flat_map_flat_map. apply flat_map_ext_in. intros nested Hn.
    rewrite flat_map_map.
    destruct (no_empty_kid_inv _ _ _ _ _ Hk nested Hn) as [H1 H2].
    rewrite Forall_forall in IH. rewrite <- (IH nested Hn H2).
    apply flat_map_ext_in. intros f Hf.
    apply den_splice.
    pose proof (flatten_nonempty item nested H1 H2) as HF. rewrite Forall_forall in HF. auto.
Qed.

Lemma flatten_fields item t f :
  In f (flatten item t) ->
  vis f = vis t /\ (attrs f = attrs t \/ (item = false /\ attrs f = None)).
Proof.
  destruct t as [p [l|] v a c]; cbn [flatten].
  - destruct (_ || _); [intros [<-|[]]; auto|].
    destruct (sole_self l); [intros [<-|[]]; auto|].
    intros Hf. apply in_flat_map in Hf. destruct Hf as [nested [_ Hf]].
    apply in_map_iff in Hf. destruct Hf as [f0 [<- _]]. cbn [vis attrs].
    split; auto. destruct item; auto.
  - destruct (_ || _); intros [<-|[]]; auto.
Qed.

Lemma nest_trailing_self_den t st : den st (nest_trailing_self t) = den st t.
Proof.
  destruct t as [p [l|] v a c]; cbn [nest_trailing_self]; [reflexivity|].
  destruct (rev p) as [|last rq] eqn:Er; [reflexivity|].
  destruct last as [n al|al|al|al|]; try reflexivity.
  apply rev_cons_eq in Er. subst p.
  rewrite !den_eq.
  replace (path_is_empty (Node (rev rq ++ [Slf al]) None v a c)) with false
    by (destruct (rev rq); reflexivity).
  replace (path_is_empty (Node (rev rq) (Some [from_path [GS (Slf al)]]) v a c)) with false
    by (destruct (rev rq); reflexivity).
  unfold den_body. rewrite fold_snoc. cbn [flat_map from_path of_path split_path].
  rewrite den_eq. cbn [path_is_empty pre kids]. unfold den_body. cbn [fold_left].
  reflexivity.
Qed.
Lemma nest_trailing_self_fields t :
  vis (nest_trailing_self t) = vis t /\ attrs (nest_trailing_self t) = attrs t.
Proof.
  destruct t as [p [l|] v a c]; cbn [nest_trailing_self]; auto.
  destruct (rev p) as [|[n al|al|al|al|] rq]; auto.
Qed.

(* ------------------------------------------------------------------ *)
(* equality tests *)
Lemma oname_eqb_eq a b : oname_eqb a b = true -> a = b.
Proof.
  destruct a, b; cbn [oname_eqb]; try discriminate; auto.
  intros H; apply eqb_text_spec in H; subst; reflexivity.
Qed.
Lemma sseg_eqb_eq x y : sseg_eqb x y = true -> x = y.
Proof.
  destruct x, y; cbn [sseg_eqb]; try discriminate; auto;
    try (intros H; apply oname_eqb_eq in H; subst; reflexivity).
  rewrite andb_true_iff. intros [H1 H2]. apply eqb_text_spec in H1. apply oname_eqb_eq in H2.
  subst; reflexivity.
Qed.
Lemma list_eqb_sseg_eq p q : list_eqb sseg_eqb p q = true -> p = q.
Proof.
  revert q; induction p as [|x r IH]; intros [|y q]; cbn [list_eqb]; try discriminate; auto.
  rewrite andb_true_iff. intros [H1 H2]. apply sseg_eqb_eq in H1. apply IH in H2. subst; auto.
Qed.

Definition kids_eqb (l1 l2 : list tree) : bool :=
  (fix go (a b : list tree) : bool :=
     match a, b with
     | [], [] => true
     | x :: a', y :: b' => tree_eqb x y && go a' b'
     | _, _ => false
     end) l1 l2.
Lemma kids_eqb_list_eqb l1 l2 : kids_eqb l1 l2 = list_eqb tree_eqb l1 l2.
Proof.
  revert l2; induction l1 as [|x r IH]; intros [|y l2]; cbn [kids_eqb list_eqb]; auto.
  fold (kids_eqb r l2). rewrite IH. reflexivity.
Qed.
Lemma tree_eqb_unfold p1 k1 v1 a1 c1 p2 k2 v2 a2 c2 :
  tree_eqb (Node p1 k1 v1 a1 c1) (Node p2 k2 v2 a2 c2) =
  list_eqb sseg_eqb p1 p2 &&
  match k1, k2 with
  | None, None => true
  | Some l1, Some l2 => list_eqb tree_eqb l1 l2
  | _, _ => false
  end.
Proof.
  cbn [tree_eqb]. destruct k1 as [l1|], k2 as [l2|]; auto.
  f_equal. apply kids_eqb_list_eqb.
Qed.

Lemma tree_eqb_den t1 : forall t2, tree_eqb t1 t2 = true -> forall st, den st t1 = den st t2.
Proof.
  induction t1 as [p v a c|p l v a c IH] using tree_ind'; intros [p2 k2 v2 a2 c2];
    rewrite tree_eqb_unfold, andb_true_iff; intros [Hp Hk] st;
    apply list_eqb_sseg_eq in Hp; subst p2.
  - destruct k2; [discriminate|]. rewrite !den_eq. reflexivity.
  - destruct k2 as [l2|]; [|discriminate].
    rewrite !den_eq. replace (path_is_empty (Node p (Some l2) v2 a2 c2))
      with (path_is_empty (Node p (Some l) v a c)) by (destruct p; reflexivity).
    destruct (path_is_empty _); auto. unfold den_body.
    generalize (fold_left step p st). intros st'.
    revert l2 Hk. induction IH as [|x r Hx _ IHr]; intros [|y l2]; cbn [list_eqb]; try discriminate; auto.
    rewrite andb_true_iff. intros [H1 H2]. cbn [flat_map].
    rewrite (Hx y H1 st'), (IHr l2 H2). reflexivity.
Qed.
Lemma list_eqb_tree_den l1 l2 st :
  list_eqb tree_eqb l1 l2 = true -> flat_map (den st) l1 = flat_map (den st) l2.
Proof.
  revert l2; induction l1 as [|x r IH]; intros [|y l2]; cbn [list_eqb]; try discriminate; auto.
  rewrite andb_true_iff. intros [H1 H2]. cbn [flat_map].
  rewrite (tree_eqb_den x y H1 st), (IH l2 H2). reflexivity.
Qed.

(* ------------------------------------------------------------------ *)
(* denotation of paths *)
Fixpoint gden (st : list sseg) (p : list gseg) : list (list sseg) :=
  match p with
  | [] => [st]
  | GS s :: r => gden (step st s) r
  | GL l :: _ => flat_map (den st) l
  end.

Lemma gden_app_GS st q r : gden st (map GS q ++ r) = gden (fold_left step q st) r.
Proof. revert st; induction q as [|s q IH]; intros st; cbn [map app gden fold_left]; auto. Qed.

Lemma gden_split st r :
  gden st r = den_body st (fst (split_path r)) (snd (split_path r)).
Proof.
  revert st; induction r as [|[s|l] r IH]; intros st; cbn [gden split_path].
  - reflexivity.
  - rewrite IH. destruct (split_path r) as [q k]. reflexivity.
  - reflexivity.
Qed.

Lemma den_of_path st p v a c : p <> [] -> den st (of_path p v a c) = gden st p.
Proof.
  intros Hp. unfold of_path. rewrite gden_split.
  destruct (split_path p) as [q k] eqn:E. rewrite den_eq. cbn [fst snd].
  replace (path_is_empty (Node q k v a c)) with false; auto.
  destruct p as [|[s|l] r]; [congruence| |].
  - cbn [split_path] in E. destruct (split_path r). inversion E; subst. reflexivity.
  - cbn [split_path] in E. inversion E; subst. reflexivity.
Qed.

Lemma path_nonempty t : path_is_empty t = false -> path t <> [].
Proof.
  destruct t as [p [l|] v a c]; unfold path, path_is_empty; cbn [pre kids klist].
  - intros _ H. apply app_eq_nil in H. destruct H; discriminate.
  - destruct p; [discriminate|]. intros _; discriminate.
Qed.

Lemma den_gden st t : path_is_empty t = false -> den st t = gden st (path t).
Proof.
  intros Hne. destruct t as [p k v a c]. rewrite den_eq, Hne.
  unfold path. cbn [pre kids]. rewrite gden_app_GS. destruct k; cbn [klist gden]; reflexivity.
Qed.

Lemma split_path_path q k : split_path (map GS q ++ klist k) = (q, k).
Proof.
  induction q as [|s q IH]; cbn [map app split_path].
  - destruct k; reflexivity.
  - rewrite IH. reflexivity.
Qed.
Lemma split_path_GL q l r : split_path (map GS q ++ GL l :: r) = (q, Some l).
Proof.
  induction q as [|s q IH]; cbn [map app split_path]; auto. rewrite IH; reflexivity.
Qed.

Lemma gseg_eqb_GS s y : gseg_eqb (GS s) y = true -> y = GS s.
Proof.
  destruct y; cbn [gseg_eqb]; [|discriminate]. intros H; apply sseg_eqb_eq in H; subst; auto.
Qed.
Lemma list_eqb_gseg_GS q l : list_eqb gseg_eqb (map GS q) l = true -> l = map GS q.
Proof.
  revert l; induction q as [|s q IH]; intros [|y l]; cbn [map list_eqb]; try discriminate; auto.
  rewrite andb_true_iff. intros [H1 H2]. apply gseg_eqb_GS in H1. apply IH in H2. subst; auto.
Qed.
Lemma list_eqb_gseg_gden a b st : list_eqb gseg_eqb a b = true -> gden st a = gden st b.
Proof.
  revert b st; induction a as [|x a IH]; intros [|y b] st; cbn [list_eqb]; try discriminate; auto.
  rewrite andb_true_iff. intros [H1 H2].
  destruct x as [s|l].
  - apply gseg_eqb_GS in H1. subst y. cbn [gden]. auto.
  - destruct y as [s|l2]; [discriminate|]. cbn [gseg_eqb] in H1. cbn [gden].
    apply list_eqb_tree_den; auto.
Qed.

(* ------------------------------------------------------------------ *)
(* the prefix loop of merge *)
Lemma prefix_len_false_eq a b :
  list_eqb gseg_eqb (firstn (prefix_len false a b) a) (firstn (prefix_len false a b) b) = true.
Proof.
  revert b; induction a as [|x a IH]; intros [|y b]; cbn [prefix_len firstn list_eqb]; auto.
  cbn [andb orb]. destruct (gseg_eqb x y) eqn:E; cbn [firstn list_eqb]; auto.
  rewrite E, IH. reflexivity.
Qed.
Lemma prefix_len_eq a b :
  (forall x y ra rb, a = x :: ra -> b = y :: rb -> eea x y = true -> gseg_eqb x y = true) ->
  list_eqb gseg_eqb (firstn (prefix_len true a b) a) (firstn (prefix_len true a b) b) = true.
Proof.
  intros H. destruct a as [|x a], b as [|y b]; cbn [prefix_len firstn list_eqb]; auto.
  destruct ((true && eea x y) || gseg_eqb x y) eqn:E; cbn [firstn list_eqb]; auto.
  assert (Hg : gseg_eqb x y = true).
  { cbn [andb] in E. apply orb_true_iff in E. destruct E as [E|E]; auto.
    eapply H; eauto. }
  rewrite Hg, prefix_len_false_eq. reflexivity.
Qed.
Lemma prefix_len_le first a b :
  prefix_len first a b <= length a /\ prefix_len first a b <= length b.
Proof.
  revert first b; induction a as [|x a IH]; intros first [|y b]; cbn [prefix_len length]; try lia.
  destruct (_ || _); [|lia]. specialize (IH false b). lia.
Qed.

(* ------------------------------------------------------------------ *)
(* shape invariants *)

Lemma forallb_and {A} (f g : A -> bool) l :
  forallb (fun x => f x && g x) l = forallb f l && forallb g l.
Proof.
  induction l as [|x r IH]; cbn [forallb]; auto. rewrite IH.
  destruct (f x), (g x), (forallb f r), (forallb g r); reflexivity.
Qed.

Lemma forallb_ext' {A} (f g : A -> bool) l : (forall x, f x = g x) -> forallb f l = forallb g l.
Proof. intros H; induction l as [|x r IH]; cbn [forallb]; auto. rewrite H, IH; reflexivity. Qed.

Lemma good_some q L v a c :
  good (Node q (Some L) v a c) = alias_free q && forallb good L.
Proof.
  assert (E : forallb good L =
              forallb (fun x => negb (path_is_empty x) && no_empty_kid x) L && forallb alias_last L).
  { rewrite <- forallb_and. apply forallb_ext'. intros x. unfold good, shape.
    destruct (path_is_empty x), (no_empty_kid x), (alias_last x); reflexivity. }
  rewrite E. unfold good at 1. unfold shape. cbn [no_empty_kid alias_last].
  replace (path_is_empty (Node q (Some L) v a c)) with false by (destruct q; reflexivity).
  cbn [negb andb]. clear E.
  destruct (alias_free q); destruct (forallb alias_last L); destruct (forallb _ L); reflexivity.
Qed.
Lemma good_none q v a c :
  good (Node q None v a c) = negb (is_nil q) && alias_free (removelast q).
Proof.
  unfold good, shape. cbn [no_empty_kid alias_last]. destruct q; reflexivity.
Qed.

Lemma alias_free_app x y : alias_free (x ++ y) = alias_free x && alias_free y.
Proof. apply forallb_app. Qed.
Lemma alias_free_firstn n p : alias_free p = true -> alias_free (firstn n p) = true.
Proof.
  intros H. rewrite <- (firstn_skipn n p), alias_free_app in H.
  apply andb_true_iff in H. tauto.
Qed.
Lemma alias_free_skipn n p : alias_free p = true -> alias_free (skipn n p) = true.
Proof.
  intros H. rewrite <- (firstn_skipn n p), alias_free_app in H.
  apply andb_true_iff in H. tauto.
Qed.
Lemma skipn_nonempty {A} n (p : list A) : n < length p -> skipn n p <> [].
Proof.
  intros H E. assert (L : length (skipn n p) = 0) by (rewrite E; reflexivity).
  rewrite skipn_length in L. lia.
Qed.
Lemma removelast_split n (p : list sseg) :
  n < length p -> removelast p = firstn n p ++ removelast (skipn n p).
Proof.
  intros H. rewrite <- (firstn_skipn n p) at 1.
  apply removelast_app. apply skipn_nonempty; assumption.
Qed.

Lemma path_len_length t : length (path t) = path_len t.
Proof.
  destruct t as [p [l|] v a c]; unfold path, path_len; cbn [pre kids klist];
    rewrite app_length, map_length; cbn [length]; lia.
Qed.

Lemma skipn_path n p k :
  n <= length p -> skipn n (map GS p ++ klist k) = map GS (skipn n p) ++ klist k.
Proof.
  intros H. rewrite skipn_app, map_length.
  replace (n - length p) with 0 by lia. cbn [skipn].
  rewrite skipn_map. reflexivity.
Qed.
Lemma firstn_path n p k :
  n <= length p -> firstn n (map GS p ++ klist k) = map GS (firstn n p).
Proof.
  intros H. rewrite firstn_app, map_length.
  replace (n - length p) with 0 by lia. cbn [firstn]. rewrite app_nil_r.
  rewrite firstn_map. reflexivity.
Qed.

Lemma from_path_path q k : from_path (map GS q ++ klist k) = Node q k None None false.
Proof. unfold from_path, of_path. rewrite split_path_path. reflexivity. Qed.

Lemma good_prefix_alias_free n p k v a c :
  good (Node p k v a c) = true -> n <= length p -> n < path_len (Node p k v a c) ->
  alias_free (firstn n p) = true.
Proof.
  intros Hg Hn Hl. destruct k as [L|].
  - rewrite good_some in Hg. apply andb_true_iff in Hg. destruct Hg as [Hg _].
    apply alias_free_firstn; assumption.
  - rewrite good_none in Hg. apply andb_true_iff in Hg. destruct Hg as [_ Hg].
    unfold path_len in Hl. cbn [pre kids] in Hl.
    rewrite (removelast_split n), alias_free_app in Hg by lia.
    apply andb_true_iff in Hg. tauto.
Qed.

Lemma good_suffix n t :
  good t = true -> n < path_len t -> good (from_path (skipn n (path t))) = true.
Proof.
  destruct t as [p k v a c]. intros Hg Hl. unfold path. cbn [pre kids].
  assert (Hn : n <= length p).
  { unfold path_len in Hl. cbn [pre kids] in Hl. destruct k; lia. }
  rewrite skipn_path, from_path_path by assumption.
  destruct k as [L|].
  - rewrite good_some in *. apply andb_true_iff in Hg. destruct Hg as [H1 H2].
    rewrite H2, alias_free_skipn; auto.
  - rewrite good_none in *. apply andb_true_iff in Hg. destruct Hg as [H1 H2].
    unfold path_len in Hl. cbn [pre kids] in Hl.
    assert (Hne : skipn n p <> []) by (apply skipn_nonempty; lia).
    apply andb_true_iff; split.
    + destruct (skipn n p); [congruence|reflexivity].
    + rewrite (removelast_split n), alias_free_app in H2 by lia.
      apply andb_true_iff in H2. tauto.
Qed.

Lemma good_nonempty t : good t = true -> path_is_empty t = false.
Proof. unfold good. intros H. apply andb_true_iff in H. destruct H as [H _]. apply negb_true_iff in H; auto. Qed.

Lemma forallb_perm {A} (f : A -> bool) l1 l2 :
  Permutation l1 l2 -> forallb f l1 = forallb f l2.
Proof.
  induction 1 as [|x l l' _ IH|x y l|l l' l'' _ IH1 _ IH2]; cbn [forallb]; auto.
  - rewrite IH; reflexivity.
  - destruct (f x), (f y); reflexivity.
  - congruence.
Qed.

(* ------------------------------------------------------------------ *)
(* P3: merge_rest *)
Lemma gden_split_at n : forall q r st,
  n <= length q ->
  gden st (map GS q ++ r) = gden (fold_left step (firstn n q) st) (skipn n (map GS q ++ r)).
Proof.
  induction n as [|n IH]; intros q r st Hn; [reflexivity|].
  destruct q as [|s q]; [cbn [length] in Hn; lia|].
  cbn [map app gden firstn fold_left skipn]. apply IH. cbn [length] in Hn. lia.
Qed.

Lemma list_eqb_firstn {A} (f : A -> A -> bool) n : forall m a b,
  n <= m -> list_eqb f (firstn m a) (firstn m b) = true ->
  list_eqb f (firstn n a) (firstn n b) = true.
Proof.
  induction n as [|n IH]; intros m a b Hn H; [reflexivity|].
  destruct m as [|m]; [lia|].
  destruct a as [|x a], b as [|y b]; cbn [firstn list_eqb] in *; try discriminate; auto.
  apply andb_true_iff in H. destruct H as [H1 H2]. rewrite H1. cbn [andb].
  apply (IH m); [lia|assumption].
Qed.

Lemma sseg_eqb_eea s t : sseg_eqb s t = true -> sseg_eea s t = true.
Proof.
  destruct s, t; cbn [sseg_eqb sseg_eea]; try discriminate; auto.
  rewrite andb_true_iff. tauto.
Qed.

Lemma step_self_alias st s s' :
  sseg_eea s s' = true -> salias s' = None ->
  step (step st s') (Slf (salias s)) = step st s.
Proof.
  destruct s as [n al|al|al|al|], s' as [n' al'|al'|al'|al'|]; cbn [sseg_eea salias];
    try discriminate; intros He Ha; subst.
  - apply eqb_text_spec in He. subst n'. destruct al; reflexivity.
  - destruct st as [|t st'], al as [b|]; try reflexivity.
  - destruct al; reflexivity.
  - destruct al; reflexivity.
  - reflexivity.
Qed.

Lemma rest_den (rest : list gseg) st :
  rest <> [] ->
  flat_map (den st) (match rest with [GL rl] => rl | _ => [from_path rest] end) = gden st rest.
Proof.
  intros Hne.
  assert (H : flat_map (den st) [from_path rest] = gden st rest).
  { cbn [flat_map]. rewrite app_nil_r. unfold from_path. apply den_of_path; assumption. }
  destruct rest as [|[s|l] [|y r]]; try exact H. reflexivity.
Qed.

Lemma good_slf al : good (from_path [GS (Slf al)]) = true.
Proof. reflexivity. Qed.

Section Merge.
Variable cmp : tree -> tree -> comparison.

Lemma sort_two_den t1 t2 st :
  SameSet (flat_map (den st) (sort_by cmp [t1; t2])) (den st t1 ++ den st t2).
Proof.
  eapply SameSet_trans; [apply SameSet_flat_map_l, SameSet_perm, sort_perm|].
  cbn [flat_map]. rewrite app_nil_r. apply SameSet_refl.
Qed.

Lemma fin_ok pa ka v a c other n :
  good (Node pa ka v a c) = true -> good other = true ->
  n <= length pa -> n < length (map GS pa ++ klist ka) -> n < length (path other) ->
  firstn n (path other) = map GS (firstn n pa) ->
  let np := firstn n (path other) ++
            [GL (sort_by cmp [from_path (skipn n (map GS pa ++ klist ka));
                              from_path (skipn n (path other))])] in
  good (of_path np v a c) = true /\
  forall st, SameSet (gden st np) (gden st (map GS pa ++ klist ka) ++ gden st (path other)).
Proof.
  intros Hs Ho Hn Hla Hlb Hf np. subst np. rewrite Hf.
  pose proof (path_len_length (Node pa ka v a c)) as HL. unfold path in HL at 1. cbn [pre kids] in HL.
  split.
  - unfold of_path. rewrite split_path_GL, good_some.
    rewrite (good_prefix_alias_free n pa ka v a c) by (auto; lia).
    rewrite (forallb_perm _ _ _ (sort_perm _ cmp _)). cbn [forallb andb].
    assert (G1 : good (from_path (skipn n (path (Node pa ka v a c)))) = true)
      by (apply good_suffix; [assumption|lia]).
    unfold path in G1 at 1. cbn [pre kids] in G1. rewrite G1.
    rewrite (good_suffix n other Ho) by (rewrite <- path_len_length; lia).
    reflexivity.
  - intros st. rewrite gden_app_GS. cbn [gden].
    eapply SameSet_trans; [apply sort_two_den|].
    unfold from_path. rewrite !den_of_path by (apply skipn_nonempty; assumption).
    rewrite (gden_split_at n pa (klist ka) st Hn).
    assert (Eb : gden st (path other) =
                 gden (fold_left step (firstn n pa) st) (skipn n (path other))).
    { rewrite <- (firstn_skipn n (path other)) at 1. rewrite Hf, gden_app_GS. reflexivity. }
    rewrite Eb. apply SameSet_refl.
Qed.

Lemma GL_last_path q k l r : map GS q ++ klist k = GL l :: r -> r = [] /\ q = [] /\ k = Some l.
Proof.
  destruct q as [|s q]; cbn [map app]; [|discriminate].
  destruct k as [l'|]; cbn [klist]; [|discriminate]. intros H; inversion H; auto.
Qed.

Lemma path_cons_GS q k s r :
  map GS q ++ klist k = GS s :: r -> exists q', q = s :: q' /\ r = map GS q' ++ klist k.
Proof.
  destruct q as [|s' q]; cbn [map app].
  - destruct k; cbn [klist]; discriminate.
  - intros H; inversion H; subst. eauto.
Qed.

(* first segment of a path of length > 1 carries no alias *)
Lemma good_head_alias_free s q' k v a c :
  good (Node (s :: q') k v a c) = true -> map GS q' ++ klist k <> [] -> salias s = None.
Proof.
  intros Hg Hne.
  assert (H : alias_free [s] = true).
  { apply (good_prefix_alias_free 1 (s :: q') k v a c Hg); cbn [length]; [lia|].
    unfold path_len. cbn [pre kids length]. destruct q'; destruct k; cbn [length]; try lia.
    cbn [map app klist] in Hne. congruence. }
  cbn [alias_free forallb] in H. destruct (salias s); [discriminate|reflexivity].
Qed.

Lemma head_alias_free t s r :
  good t = true -> path t = GS s :: r -> r <> [] -> salias s = None.
Proof.
  destruct t as [p k v a c]. unfold path. cbn [pre kids]. intros Hg Ep Hr.
  destruct (path_cons_GS _ _ _ _ Ep) as [p' [E1 E2]]. subst p.
  apply (good_head_alias_free s p' k v a c Hg). rewrite <- E2. assumption.
Qed.

Lemma rest_good t s r :
  good t = true -> path t = GS s :: r -> r <> [] ->
  forallb good (match r with [GL rl] => rl | _ => [from_path r] end) = true.
Proof.
  intros Hg Ep Hr.
  assert (Hd : forallb good [from_path r] = true).
  { cbn [forallb]. rewrite andb_true_r.
    pose proof (good_suffix 1 t Hg) as H. rewrite Ep in H. cbn [skipn] in H.
    apply H. rewrite <- path_len_length, Ep. cbn [length]. destruct r; [congruence|cbn [length]; lia]. }
  destruct r as [|[s2|l2] [|y2 r2]]; try exact Hd.
  destruct t as [p k v a c]. unfold path in Ep. cbn [pre kids] in Ep.
  destruct (path_cons_GS _ _ _ _ Ep) as [p' [E1 E2]]. subst p.
  destruct p' as [|s3 p'']; cbn [map app] in E2; [|discriminate].
  destruct k as [lk|]; cbn [klist] in E2; [|discriminate]. inversion E2; subst.
  rewrite good_some in Hg. apply andb_true_iff in Hg. tauto.
Qed.

Lemma merge_rest_ok inner pa ka v a c other :
  let A := map GS pa ++ klist ka in
  let b := path other in
  let len := prefix_len true A b in
  good (Node pa ka v a c) = true -> good other = true ->
  root_clash A b = false ->
  (forall l, ka = Some l -> len = length pa -> len < length b ->
     let u := from_path (skipn len b) in
     forallb good (inner l u) = true /\
     forall st, SameSet (flat_map (den st) (inner l u)) (flat_map (den st) l ++ den st u)) ->
  match merge_rest_with cmp inner pa ka b len with
  | Some np => good (of_path np v a c) = true /\
               forall st, SameSet (gden st np) (gden st A ++ gden st b)
  | None => forall st, gden st b = gden st A
  end.
Proof.
  intros A b len Hs Ho Hrc Hinner.
  pose proof (prefix_len_le true A b) as [HlA Hlb]. fold len in HlA, Hlb.
  pose proof (path_len_length (Node pa ka v a c)) as HLA.
  unfold path in HLA at 1. cbn [pre kids] in HLA. fold A in HLA.
  assert (HpA : path (Node pa ka v a c) = A) by reflexivity.
  assert (HAne : A <> []) by (apply (path_nonempty (Node pa ka v a c)), good_nonempty; assumption).
  assert (Hbne : b <> []) by (apply path_nonempty, good_nonempty; assumption).
  assert (HlenA : length A = length pa + (if ka then 1 else 0)).
  { unfold A. rewrite app_length, map_length. destruct ka; reflexivity. }
  assert (HlenA2 : length pa <= length A <= length pa + 1) by (destruct ka; lia).
  (* root facts *)
  assert (Hroot : length A <> 1 \/ length b = 1 \/ len = 0 ->
                  list_eqb gseg_eqb (firstn len A) (firstn len b) = true).
  { intros Hc. destruct (Nat.eq_dec len 0) as [E0|N0]; [rewrite E0; reflexivity|].
    apply prefix_len_eq. intros x y ra rb EA Eb He.
    unfold root_clash in Hrc. rewrite EA, Eb in Hrc. rewrite He in Hrc. cbn [andb] in Hrc.
    destruct (gseg_eqb x y); [reflexivity|]. cbn [negb andb] in Hrc.
    apply negb_false_iff, andb_true_iff in Hrc. destruct Hrc as [H1 H2].
    destruct ra; [|discriminate]. destruct rb; [discriminate|]. exfalso.
    rewrite EA, Eb in Hc. cbn [length] in Hc. lia. }
  assert (Hfin : forall n, n <= len -> n <= length pa -> n < length A -> n < length b ->
                 (length A <> 1 \/ length b = 1 \/ len = 0) ->
                 let np := firstn n b ++
                           [GL (sort_by cmp [from_path (skipn n A); from_path (skipn n b)])] in
                 good (of_path np v a c) = true /\
                 forall st, SameSet (gden st np) (gden st A ++ gden st b)).
  { intros n H1 H2 H3 H4 H5.
    apply (fin_ok pa ka v a c other n); auto.
    specialize (Hroot H5). apply (list_eqb_firstn _ n) in Hroot; [|assumption].
    unfold A in Hroot. rewrite (firstn_path n pa ka H2) in Hroot.
    apply list_eqb_gseg_GS in Hroot. exact Hroot. }
  unfold merge_rest_with. fold A.
  destruct (Nat.eqb_spec (length A) len) as [ElA|NlA];
    destruct (Nat.eqb_spec (length b) len) as [Elb|Nlb]; cbn [andb negb].
  - (* identical paths *)
    intros st. symmetry. apply list_eqb_gseg_gden.
    assert (Hc : length A <> 1 \/ length b = 1 \/ len = 0) by lia.
    specialize (Hroot Hc).
    rewrite <- ElA, firstn_all in Hroot. rewrite ElA, <- Elb, firstn_all in Hroot. exact Hroot.
  - (* a exhausted, b longer *)
    destruct (Nat.eqb_spec len 1) as [E1|N1].
    + rewrite E1 in *.
      destruct A as [|x [|x2 ra]] eqn:EA; cbn [length] in ElA; try lia.
      destruct b as [|y rb] eqn:Eb; [congruence|]. cbn [length] in Nlb, Hlb.
      assert (Hrb : rb <> []) by (destruct rb; cbn [length] in *; [lia|discriminate]).
      assert (Hxy : eea x y = true).
      { assert (H1 : prefix_len true [x] (y :: rb) = 1) by (fold len; exact E1).
        cbn [prefix_len] in H1. destruct (eea x y) eqn:He; auto. cbn [andb orb] in H1.
        destruct x as [s|l], y as [s'|l']; cbn [gseg_eqb eea] in *; try (cbn in H1; discriminate).
        - destruct (sseg_eqb s s') eqn:E; [|discriminate].
          apply sseg_eqb_eea in E. congruence.
        - destruct (list_eqb tree_eqb l l'); discriminate. }
      destruct x as [s|l].
      2:{ destruct y as [s'|l']; [discriminate|].
          destruct other as [pb kb vb ab cb]. unfold b, path in Eb. cbn [pre kids] in Eb.
          apply GL_last_path in Eb. destruct Eb as [Eb _]. congruence. }
      destruct y as [s'|l']; [|discriminate]. cbn [eea] in Hxy.
      pose proof (head_alias_free other s' rb Ho Eb Hrb) as Hal.
      pose proof (rest_good other s' rb Ho Eb Hrb) as Hrl.
      cbn [nth skipn galias].
      split.
      * unfold of_path. cbn [split_path]. rewrite good_some.
        cbn [alias_free forallb]. rewrite Hal. cbn [is_some negb andb].
        rewrite good_slf, Hrl. reflexivity.
      * intros st. cbn [gden flat_map app].
        rewrite (rest_den rb (step st s') Hrb).
        unfold from_path, of_path. cbn [split_path]. rewrite den_eq. cbn [path_is_empty pre kids].
        unfold den_body. cbn [fold_left].
        rewrite step_self_alias by assumption. apply SameSet_refl.
    + assert (Hge : 2 <= len) by (destruct A; [congruence|cbn [length] in ElA; lia]).
      apply (Hfin (len - 1)); lia.
  - (* b exhausted, a longer *)
    destruct (Nat.eqb_spec len 1) as [E1|N1].
    + rewrite E1 in *.
      destruct b as [|y [|y2 rb]] eqn:Eb; cbn [length] in Elb; try lia.
      destruct A as [|x ra] eqn:EA; [congruence|]. cbn [length] in NlA, HlA.
      assert (Hra : ra <> []) by (destruct ra; cbn [length] in *; [lia|discriminate]).
      assert (Hc : S (length ra) <> 1 \/ 1 = 1 \/ 1 = 0) by lia.
      specialize (Hroot Hc). cbn [firstn list_eqb] in Hroot. rewrite andb_true_r in Hroot.
      destruct x as [s|l].
      2:{ apply GL_last_path in EA. destruct EA as [EA _]. congruence. }
      apply gseg_eqb_GS in Hroot. subst y.
      pose proof (head_alias_free (Node pa ka v a c) s ra Hs EA Hra) as Hal.
      pose proof (rest_good (Node pa ka v a c) s ra Hs EA Hra) as Hrl.
      cbn [nth skipn galias]. rewrite Hal.
      split.
      * unfold of_path. cbn [split_path]. rewrite good_some.
        cbn [alias_free forallb]. rewrite Hal. cbn [is_some negb andb].
        rewrite good_slf, Hrl. reflexivity.
      * intros st. cbn [gden flat_map app].
        rewrite (rest_den ra (step st s) Hra).
        unfold from_path, of_path. cbn [split_path]. rewrite den_eq. cbn [path_is_empty pre kids].
        unfold den_body. cbn [fold_left].
        pose proof (step_nonempty st s) as Hne.
        destruct (step st s) as [|t st'] eqn:Est; [congruence|]. cbn [step].
        intros z. cbn [In app]. rewrite in_app_iff. cbn [In]. tauto.
    + assert (Hge : 2 <= len) by (destruct b; [congruence|cbn [length] in Elb; lia]).
      apply (Hfin (len - 1)); lia.
  - (* both longer *)
    assert (Hc : length A <> 1 \/ length b = 1 \/ len = 0) by lia.
    destruct ka as [l|].
    + destruct (Nat.eqb_spec len (length pa)) as [Ep|Np].
      * destruct (Hinner l eq_refl Ep ltac:(lia)) as [Hg Hd].
        specialize (Hroot Hc). unfold A in Hroot at 1.
        rewrite Ep, (firstn_path (length pa) pa (Some l)), firstn_all in Hroot by lia.
        apply list_eqb_gseg_GS in Hroot. rewrite <- Ep in Hroot.
        rewrite Hroot.
        split.
        -- unfold of_path. rewrite split_path_GL, good_some, Hg, andb_true_r.
           rewrite good_some in Hs. apply andb_true_iff in Hs. tauto.
        -- intros st. rewrite gden_app_GS. cbn [gden].
           eapply SameSet_trans; [apply Hd|].
           unfold A. rewrite gden_app_GS. cbn [klist gden].
           assert (Eb : gden st b = gden (fold_left step pa st) (skipn len b)).
           { rewrite <- (firstn_skipn len b) at 1. rewrite Hroot, gden_app_GS. reflexivity. }
           rewrite Eb. unfold from_path. rewrite den_of_path by (apply skipn_nonempty; lia).
           apply SameSet_refl.
      * apply (Hfin len); lia.
    + apply (Hfin len); lia.
Qed.

(* selection lemmas *)
Lemma first_min_in ks : forall best r,
  first_min best ks = Some r -> best = Some r \/ In (Some r) ks.
Proof.
  induction ks as [|[k|] ks IH]; intros best r H; cbn [first_min] in H; auto.
  - destruct best as [bk|].
    + destruct (Nat.ltb k bk).
      * apply IH in H. destruct H as [H|H]; [inversion H; subst; right; left; reflexivity|right; right; exact H].
      * apply IH in H. destruct H as [H|H]; [left; exact H|right; right; exact H].
    + apply IH in H. destruct H as [H|H]; [inversion H; subst; right; left; reflexivity|right; right; exact H].
  - apply IH in H. destruct H as [H|H]; [left; exact H|right; right; exact H].
Qed.

Lemma last_max_spec ks : forall i best j k,
  last_max i best ks = Some (j, k) ->
  best = Some (j, k) \/ (i <= j /\ nth_error ks (j - i) = Some (Some k)).
Proof.
  induction ks as [|[k0|] ks IH]; intros i best j k H; cbn [last_max] in H; auto.
  - assert (Hnew : last_max (S i) (Some (i, k0)) ks = Some (j, k) ->
                   best = Some (j, k) \/ i <= j /\ nth_error (Some k0 :: ks) (j - i) = Some (Some k)).
    { intros H'. apply IH in H'. destruct H' as [H'|[H1 H2]].
      - inversion H'; subst. right. split; [lia|]. replace (j - j) with 0 by lia. reflexivity.
      - right. split; [lia|]. replace (j - i) with (S (j - S i)) by lia. exact H2. }
    assert (Hold : last_max (S i) best ks = Some (j, k) ->
                   best = Some (j, k) \/ i <= j /\ nth_error (Some k0 :: ks) (j - i) = Some (Some k)).
    { intros H'. apply IH in H'. destruct H' as [H'|[H1 H2]]; [left; exact H'|].
      right. split; [lia|]. replace (j - i) with (S (j - S i)) by lia. exact H2. }
    destruct best as [[bi bk]|]; [destruct (Nat.ltb k0 bk)|]; auto.
  - apply IH in H. destruct H as [H|[H1 H2]]; [left; exact H|].
    right. split; [lia|]. replace (j - i) with (S (j - S i)) by lia. exact H2.
Qed.

Lemma nth_error_map' {A B} (f : A -> B) l : forall i y,
  nth_error (map f l) i = Some y -> exists x, nth_error l i = Some x /\ f x = y.
Proof.
  induction l as [|x l IH]; intros [|i] y H; cbn [map nth_error] in *; try discriminate.
  - inversion H; subst. eauto.
  - apply IH; assumption.
Qed.

Lemma apply_at_split (f : tree -> tree) (g : tree -> bool) l : forall i x,
  nth_error l i = Some x ->
  exists l1 l2, l = l1 ++ x :: l2 /\ apply_at f i l = l1 ++ f x :: l2 /\ check_at g i l = g x.
Proof.
  induction l as [|y l IH]; intros [|i] x H; cbn [nth_error] in H; try discriminate.
  - inversion H; subst. exists [], l. repeat split.
  - destruct (IH i x H) as [l1 [l2 [E1 [E2 E3]]]].
    exists (y :: l1), l2. cbn [apply_at check_at app].
    fold (apply_at f). fold (check_at g). rewrite E2, E3, <- E1. repeat split.
Qed.

Lemma share_prefix_nonempty t u m :
  share_prefix t u m = true -> path_is_empty t = false /\ path_is_empty u = false.
Proof.
  unfold share_prefix. destruct (path_is_empty t); [discriminate|].
  destruct (path_is_empty u); [cbn; discriminate|]. auto.
Qed.

Lemma path_head_len1 t x : path_len t = 1 -> path_head t = Some x -> path t = [x].
Proof.
  destruct t as [[|s [|s2 p]] [l|] v a c]; unfold path_len, path_head, path;
    cbn [pre kids length klist map app]; intros H1 H2; try lia; inversion H2; reflexivity.
Qed.

Lemma choice_keep m trees u :
  inner_choice m trees u = CKeep ->
  exists k, In k trees /\ forall st, den st u = den st k.
Proof.
  unfold inner_choice.
  destruct (Nat.eqb (path_len u) 1 && match m with SPCrate => true | _ => false end) eqn:Ec.
  - apply andb_true_iff in Ec. destruct Ec as [Hu Hm]. apply Nat.eqb_eq in Hu.
    destruct m; try discriminate.
    destruct (first_min None _) as [[|[|n]]|] eqn:Ef; try discriminate. intros _.
    apply first_min_in in Ef. destruct Ef as [Ef|Ef]; [discriminate|].
    apply in_map_iff in Ef. destruct Ef as [k [Ek Hk]].
    destruct (share_prefix k u SPCrate) eqn:Es; [|discriminate]. inversion Ek as [Ek'].
    exists k. split; [assumption|]. intros st.
    destruct (share_prefix_nonempty _ _ _ Es) as [N1 N2].
    unfold share_prefix in Es. rewrite N1, N2 in Es. cbn [orb] in Es.
    destruct (is_some (attrs k) || contains_comment k || negb (same_visibility k u)); [discriminate|].
    destruct (path_head k) as [x|] eqn:Hx; [|discriminate].
    destruct (path_head u) as [y|] eqn:Hy; [|discriminate].
    rewrite !den_gden by assumption.
    rewrite (path_head_len1 k x Ek' Hx), (path_head_len1 u y Hu Hy).
    symmetry. apply list_eqb_gseg_gden. cbn [list_eqb]. rewrite Es. reflexivity.
  - destruct m.
    + destruct (last_max 0 None _) as [[i [|[|k]]]|]; discriminate.
    + destruct (last_max 0 None _) as [[i [|[|k]]]|]; discriminate.
    + destruct (last_max 0 None _) as [[i [|k]]|]; discriminate.
Qed.

Lemma choice_merge_valid m trees u i :
  inner_choice m trees u = CMerge i -> i < length trees.
Proof.
  unfold inner_choice.
  assert (H : forall (f : tree -> option nat) j k,
             last_max 0 None (map f trees) = Some (j, k) -> j < length trees).
  { intros f j k H. apply last_max_spec in H. destruct H as [H|[_ H]]; [discriminate|].
    rewrite Nat.sub_0_r in H.
    assert (Hs : nth_error (map f trees) j <> None) by congruence.
    apply nth_error_Some in Hs. rewrite map_length in Hs. exact Hs. }
  destruct (Nat.eqb (path_len u) 1 && _).
  - destruct (first_min None _) as [[|[|n]]|]; discriminate.
  - destruct m.
    + destruct (last_max 0 None _) as [[j [|[|k]]]|] eqn:E; try discriminate.
      intros E'; inversion E'; subst. eapply H; eauto.
    + destruct (last_max 0 None _) as [[j [|[|k]]]|] eqn:E; try discriminate.
      intros E'; inversion E'; subst. eapply H; eauto.
    + destruct (last_max 0 None _) as [[j [|k]]|] eqn:E; try discriminate.
      intros E'; inversion E'; subst. eapply H; eauto.
Qed.

Lemma forallb_In {A} (f : A -> bool) l x : forallb f l = true -> In x l -> f x = true.
Proof. intros H. rewrite forallb_forall in H. apply H. Qed.

Lemma inner_ok m (mrg : tree -> tree) (clash : tree -> bool) trees u :
  forallb good trees = true -> good u = true ->
  (forall i x, inner_choice m trees u = CMerge i -> nth_error trees i = Some x ->
      good (mrg x) = true /\ forall st, SameSet (den st (mrg x)) (den st x ++ den st u)) ->
  forallb good (inner_with cmp mrg m trees u) = true /\
  forall st, SameSet (flat_map (den st) (inner_with cmp mrg m trees u))
                     (flat_map (den st) trees ++ den st u).
Proof.
  intros Hg Hu Hm. unfold inner_with.
  destruct (inner_choice m trees u) as [|i|] eqn:Ec.
  - split; [assumption|]. intros st. apply SameSet_sym, SameSet_dup.
    destruct (choice_keep _ _ _ Ec) as [k [Hk Hd]]. intros z Hz.
    apply in_flat_map. exists k. split; [assumption|]. rewrite <- Hd. assumption.
  - pose proof (choice_merge_valid _ _ _ _ Ec) as Hi.
    destruct (nth_error trees i) as [x|] eqn:En; [|apply nth_error_None in En; lia].
    destruct (Hm i x eq_refl En) as [Hgx Hdx].
    destruct (apply_at_split mrg clash trees i x En) as [l1 [l2 [E1 [E2 _]]]].
    rewrite E2. subst trees. rewrite forallb_app in *. cbn [forallb] in *.
    apply andb_true_iff in Hg. destruct Hg as [G1 G2]. apply andb_true_iff in G2. destruct G2 as [_ G2].
    split; [rewrite G1, Hgx, G2; reflexivity|].
    intros st z. rewrite !flat_map_app. cbn [flat_map]. rewrite !in_app_iff.
    rewrite (Hdx st z), in_app_iff. tauto.
  - split.
    + rewrite (forallb_perm _ _ _ (sort_perm _ cmp _)), forallb_app. cbn [forallb].
      rewrite Hg, Hu. reflexivity.
    + intros st. eapply SameSet_trans; [apply SameSet_flat_map_l, SameSet_perm, sort_perm|].
      rewrite flat_map_app. cbn [flat_map]. rewrite app_nil_r. apply SameSet_refl.
Qed.

Lemma of_path_good_nonempty np v a c : good (of_path np v a c) = true -> np <> [].
Proof. intros H E. subst np. discriminate. Qed.

Theorem merge_ok m : forall self other,
  good self = true -> good other = true -> merge_clash m self other = false ->
  good (merge cmp m self other) = true /\
  forall st, SameSet (den st (merge cmp m self other)) (den st self ++ den st other).
Proof.
  assert (Hfinish : forall pa ka v a c other inner,
    good (Node pa ka v a c) = true -> good other = true ->
    match merge_rest_with cmp inner pa ka (path other)
            (prefix_len true (map GS pa ++ klist ka) (path other)) with
    | Some np => good (of_path np v a c) = true /\
                 forall st, SameSet (gden st np)
                              (gden st (map GS pa ++ klist ka) ++ gden st (path other))
    | None => forall st, gden st (path other) = gden st (map GS pa ++ klist ka)
    end ->
    let r := match merge_rest_with cmp inner pa ka (path other)
                     (prefix_len true (map GS pa ++ klist ka) (path other)) with
             | Some np => of_path np v a c
             | None => Node pa ka v a c
             end in
    good r = true /\
    forall st, SameSet (den st r) (den st (Node pa ka v a c) ++ den st other)).
  { intros pa ka v a c other inner Hs Ho H r. subst r.
    assert (Es : forall st, den st (Node pa ka v a c) = gden st (map GS pa ++ klist ka)).
    { intros st. rewrite den_gden by (apply good_nonempty; assumption). reflexivity. }
    assert (Eo : forall st, den st other = gden st (path other)).
    { intros st. apply den_gden, good_nonempty; assumption. }
    destruct (merge_rest_with _ _ _ _ _ _) as [np|].
    - destruct H as [Hg Hd]. split; [assumption|]. intros st.
      rewrite den_of_path by (eapply of_path_good_nonempty; eassumption).
      rewrite Es, Eo. apply Hd.
    - split; [assumption|]. intros st. apply SameSet_sym, SameSet_dup.
      intros z. rewrite Es, Eo, H. auto. }
  induction self as [pa v a c|pa l v a c IH] using tree_ind'; intros other Hs Ho Hc;
    cbn [merge]; cbn [merge_clash] in Hc; apply orb_false_iff in Hc; destruct Hc as [Hrc Hc].
  - apply Hfinish; auto.
    apply (merge_rest_ok _ pa None v a c other Hs Ho Hrc). intros l E; discriminate.
  - apply Hfinish; auto.
    apply (merge_rest_ok _ pa (Some l) v a c other Hs Ho Hrc).
    intros l0 E Hlen Hlb u. inversion E; subst l0. clear E.
    set (A := map GS pa ++ klist (Some l)) in *.
    set (len := prefix_len true A (path other)) in *.
    assert (HlA : length A = length pa + 1).
    { unfold A. rewrite app_length, map_length. reflexivity. }
    rewrite good_some in Hs. apply andb_true_iff in Hs. destruct Hs as [Hs1 Hs2].
    assert (Hgu : good u = true).
    { apply good_suffix; [assumption|]. rewrite <- path_len_length. assumption. }
    apply (inner_ok m _ (fun t => merge_clash m t u)); auto.
    intros i x Ech En.
    rewrite Forall_forall in IH.
    apply IH.
    + eapply nth_error_In; eassumption.
    + eapply forallb_In; [eassumption|]. eapply nth_error_In; eassumption.
    + assumption.
    + rewrite HlA in Hc.
      replace (Nat.eqb (length pa + 1) len) with false in Hc by (symmetry; apply Nat.eqb_neq; lia).
      replace (Nat.eqb (length (path other)) len) with false in Hc
        by (symmetry; apply Nat.eqb_neq; lia).
      replace (Nat.eqb len (length pa)) with true in Hc by (symmetry; apply Nat.eqb_eq; lia).
      cbn [negb andb] in Hc. fold u in Hc. rewrite Ech in Hc.
      destruct (apply_at_split (fun t => t) (fun t => merge_clash m t u) l i x En)
        as [l1 [l2 [_ [_ E3]]]].
      rewrite E3 in Hc. exact Hc.
Qed.
End Merge.

(* ------------------------------------------------------------------ *)
(* leaves of lists of trees *)
Definition states_leaves (c : N * option N) (sts : list (list sseg)) : list leaf :=
  map (fun p => (fst c, snd c, p)) (map (@rev sseg) (filter valid_state sts)).

Lemma leaves_states t : leaves t = states_leaves (cls t) (den [] t).
Proof. reflexivity. Qed.
Lemma states_leaves_app c s1 s2 :
  states_leaves c (s1 ++ s2) = states_leaves c s1 ++ states_leaves c s2.
Proof. unfold states_leaves. rewrite filter_app, !map_app. reflexivity. Qed.
Lemma states_leaves_SameSet c s1 s2 :
  SameSet s1 s2 -> SameSet (states_leaves c s1) (states_leaves c s2).
Proof. intros H. unfold states_leaves. apply SameSet_map, SameSet_map, SameSet_filter, H. Qed.

Lemma Leaves_app l1 l2 : Leaves (l1 ++ l2) = Leaves l1 ++ Leaves l2.
Proof. apply flat_map_app. Qed.
Lemma Leaves_perm l1 l2 : Permutation l1 l2 -> SameSet (Leaves l1) (Leaves l2).
Proof. intros H. apply SameSet_flat_map_l, SameSet_perm, H. Qed.

Lemma flat_map_leaves_class c l :
  (forall f, In f l -> cls f = c) ->
  flat_map leaves l = states_leaves c (flat_map (den []) l).
Proof.
  induction l as [|x r IH]; intros H; [reflexivity|].
  cbn [flat_map]. rewrite states_leaves_app, IH by (intros f Hf; apply H; right; assumption).
  rewrite leaves_states, (H x (or_introl eq_refl)). reflexivity.
Qed.

Lemma flatten_leaves item t :
  no_empty_kid t = true -> (item = true \/ attrs t = None) ->
  flat_map leaves (flatten item t) = leaves t.
Proof.
  intros Hk Ha. rewrite (flat_map_leaves_class (cls t)).
  - rewrite flatten_den by assumption. reflexivity.
  - intros f Hf. destruct (flatten_fields item t f Hf) as [Hv Hat].
    unfold cls. rewrite Hv. f_equal.
    destruct Hat as [E|[E1 E2]]; [assumption|].
    destruct Ha as [Ha|Ha]; congruence.
Qed.

Lemma nest_trailing_self_leaves t : leaves (nest_trailing_self t) = leaves t.
Proof.
  rewrite !leaves_states. destruct (nest_trailing_self_fields t) as [Hv Ha].
  unfold cls. rewrite Hv, Ha, nest_trailing_self_den. reflexivity.
Qed.

(* ------------------------------------------------------------------ *)
(* shapes are preserved by flatten and nest_trailing_self *)
Lemma alias_free_removelast p : alias_free p = true -> alias_free (removelast p) = true.
Proof.
  intros H. destruct p as [|s p]; [reflexivity|].
  rewrite (removelast_split (length p) (s :: p)), alias_free_app in * by (cbn [length]; lia).
  rewrite <- (firstn_skipn (length p) (s :: p)), alias_free_app in H.
  apply andb_true_iff in H. destruct H as [H1 H2]. rewrite H1.
  assert (E : length (skipn (length p) (s :: p)) = 1) by (rewrite skipn_length; cbn [length]; lia).
  destruct (skipn (length p) (s :: p)) as [|y [|z r]]; cbn [length] in E; try lia. reflexivity.
Qed.

Lemma alias_last_splice p f v a c :
  alias_free p = true -> alias_last f = true ->
  alias_last (Node (p ++ pre f) (kids f) v a c) = true.
Proof.
  destruct f as [pf [L|] vf af cf]; cbn [pre kids alias_last]; intros Hp Hf.
  - rewrite alias_free_app, Hp. exact Hf.
  - destruct pf as [|s pf'].
    + rewrite app_nil_r. apply alias_free_removelast; assumption.
    + rewrite removelast_app by discriminate. rewrite alias_free_app, Hp. exact Hf.
Qed.

Lemma shape_inv t : shape t = true -> no_empty_kid t = true /\ alias_last t = true.
Proof. unfold shape. intros H; apply andb_true_iff in H; exact H. Qed.

Lemma shape_kids p l v a c k :
  shape (Node p (Some l) v a c) = true -> In k l ->
  shape k = true /\ path_is_empty k = false /\ alias_free p = true.
Proof.
  intros H Hk. apply shape_inv in H. destruct H as [H1 H2].
  destruct (no_empty_kid_inv _ _ _ _ _ H1 k Hk) as [N1 N2].
  cbn [alias_last] in H2. apply andb_true_iff in H2. destruct H2 as [A1 A2].
  rewrite forallb_forall in A2. unfold shape. rewrite N2, (A2 k Hk). auto.
Qed.

Lemma flatten_shape item t :
  shape t = true -> Forall (fun f => shape f = true) (flatten item t).
Proof.
  induction t as [p v a c|p l v a c IH] using tree_ind'; intros Hs.
  - cbn [flatten]. destruct (_ || _); repeat constructor; assumption.
  - cbn [flatten]. destruct (_ || _); [repeat constructor; assumption|].
    destruct (sole_self l); [repeat constructor; assumption|].
    apply Forall_forall. intros f Hf. apply in_flat_map in Hf.
    destruct Hf as [nested [Hn Hf]]. apply in_map_iff in Hf. destruct Hf as [f0 [E Hf0]].
    subst f. destruct (shape_kids _ _ _ _ _ _ Hs Hn) as [S1 [S2 S3]].
    rewrite Forall_forall in IH. pose proof (IH nested Hn S1) as HF.
    rewrite Forall_forall in HF. specialize (HF f0 Hf0). apply shape_inv in HF.
    destruct HF as [F1 F2]. unfold shape. rewrite alias_last_splice by assumption.
    rewrite andb_true_r. destruct f0; exact F1.
Qed.

Lemma removelast_snoc {A} (l : list A) x : removelast (l ++ [x]) = l.
Proof. apply removelast_last. Qed.

Lemma nest_trailing_self_shape t : shape t = true -> shape (nest_trailing_self t) = true.
Proof.
  destruct t as [p [l|] v a c]; cbn [nest_trailing_self]; auto.
  destruct (rev p) as [|last rq] eqn:Er; auto.
  destruct last as [n al|al|al|al|]; auto.
  apply rev_cons_eq in Er. subst p. intros H. apply shape_inv in H. destruct H as [_ H].
  cbn [alias_last] in H. rewrite removelast_snoc in H.
  unfold shape. cbn [no_empty_kid alias_last forallb from_path of_path split_path].
  rewrite H. reflexivity.
Qed.
Lemma nest_trailing_self_nonempty t :
  path_is_empty t = false -> path_is_empty (nest_trailing_self t) = false.
Proof.
  destruct t as [p [l|] v a c]; cbn [nest_trailing_self]; auto.
  destruct (rev p) as [|[n al|al|al|al|] rq]; auto.
  intros _. destruct (rev rq); reflexivity.
Qed.

(* ------------------------------------------------------------------ *)
(* P4: Module / Crate / One *)
Lemma find_index_spec (f : tree -> bool) l : forall i j,
  find_index f i l = Some j ->
  i <= j /\ exists x, nth_error l (j - i) = Some x /\ f x = true.
Proof.
  induction l as [|y l IH]; intros i j H; cbn [find_index] in H; [discriminate|].
  destruct (f y) eqn:E.
  - inversion H; subst. split; [lia|]. exists y. replace (j - j) with 0 by lia. auto.
  - apply IH in H. destruct H as [H1 [x [H2 H3]]]. split; [lia|].
    exists x. replace (j - i) with (S (j - S i)) by lia. auto.
Qed.

Lemma of_path_fields np v a c : vis (of_path np v a c) = v /\ attrs (of_path np v a c) = a.
Proof. unfold of_path. destruct (split_path np). auto. Qed.

Section Regroup.
Variable cmp : tree -> tree -> comparison.

Lemma merge_fields m self other :
  vis (merge cmp m self other) = vis self /\ attrs (merge cmp m self other) = attrs self.
Proof.
  destruct self as [pa ka v a c]. cbn [merge].
  destruct (merge_rest_with _ _ _ _ _ _); [apply of_path_fields|auto].
Qed.

Lemma share_prefix_class r f m :
  share_prefix r f m = true -> vnorm (vis r) = vnorm (vis f) /\ attrs r = None.
Proof.
  unfold share_prefix.
  destruct (path_is_empty r); [discriminate|]. destruct (path_is_empty f); [cbn; discriminate|].
  cbn [orb]. destruct (attrs r); [cbn; discriminate|]. cbn [is_some orb].
  destruct (contains_comment r); [cbn; discriminate|]. cbn [orb].
  unfold same_visibility. destruct (N.eqb_spec (vnorm (vis r)) (vnorm (vis f))); [auto|discriminate].
Qed.

Lemma merge_leaves m r f :
  good r = true -> good f = true -> merge_clash m r f = false ->
  cls r = cls f ->
  SameSet (leaves (merge cmp m r f)) (leaves r ++ leaves f).
Proof.
  intros Hr Hf Hc Hcls.
  destruct (merge_ok cmp m r f Hr Hf Hc) as [_ Hd].
  destruct (merge_fields m r f) as [Hv Ha].
  rewrite !leaves_states. unfold cls at 1. rewrite Hv, Ha. fold (cls r). rewrite <- Hcls.
  rewrite <- states_leaves_app. apply states_leaves_SameSet, Hd.
Qed.

Definition ev_tree (e : ev) : tree := match e with EPass t => t | EFlat f => f end.
Definition ev_ok (e : ev) : Prop :=
  match e with
  | EPass t => shape t = true
  | EFlat f => shape f = true /\ attrs f = None
  end.

Lemma add_ev_ok m res e :
  Forall (fun t => shape t = true) res -> ev_ok e -> ev_clash m res e = false ->
  Forall (fun t => shape t = true) (add_ev cmp m res e) /\
  SameSet (Leaves (add_ev cmp m res e)) (Leaves res ++ leaves (ev_tree e)).
Proof.
  intros Hres He Hc. destruct e as [t|f]; cbn [add_ev ev_tree ev_ok] in *.
  - split.
    + apply Forall_app. split; [assumption|repeat constructor; assumption].
    + rewrite Leaves_app. cbn [Leaves flat_map]. rewrite app_nil_r. apply SameSet_refl.
  - destruct He as [Hsf Haf]. unfold add_flattened. cbn [ev_clash] in Hc.
    destruct (find_index _ 0 res) as [i|] eqn:Ef.
    + apply find_index_spec in Ef. destruct Ef as [_ [r [En Hsh]]]. rewrite Nat.sub_0_r in En.
      destruct (apply_at_split (fun t => merge cmp m t f) (fun t => merge_clash m t f) res i r En)
        as [l1 [l2 [E1 [E2 E3]]]].
      rewrite E3 in Hc. rewrite E2.
      destruct (share_prefix_nonempty _ _ _ Hsh) as [N1 N2].
      destruct (share_prefix_class _ _ _ Hsh) as [C1 C2].
      assert (Hsr : shape r = true).
      { rewrite Forall_forall in Hres. apply Hres. rewrite E1. apply in_elt. }
      assert (Hgr : good r = true) by (unfold good; rewrite N1, Hsr; reflexivity).
      assert (Hgf : good f = true) by (unfold good; rewrite N2, Hsf; reflexivity).
      assert (Hcls : cls r = cls f) by (unfold cls; rewrite C1, C2, Haf; reflexivity).
      split.
      * subst res. apply Forall_app in Hres. destruct Hres as [R1 R2]. inversion R2; subst.
        apply Forall_app. split; [assumption|]. constructor; [|assumption].
        destruct (merge_ok cmp m r f Hgr Hgf Hc) as [Hg _].
        unfold good in Hg. apply andb_true_iff in Hg. tauto.
      * subst res. rewrite !Leaves_app. cbn [Leaves flat_map]. fold (Leaves l2).
        pose proof (merge_leaves m r f Hgr Hgf Hc Hcls) as HL.
        intros z. rewrite !in_app_iff, (HL z), in_app_iff. tauto.
    + assert (E : leaves (match m with SPModule => nest_trailing_self f | _ => f end) = leaves f)
        by (destruct m; auto using nest_trailing_self_leaves).
      split.
      * apply Forall_app. split; [assumption|]. constructor; [|constructor].
        destruct m; auto using nest_trailing_self_shape.
      * rewrite Leaves_app. cbn [Leaves flat_map]. rewrite app_nil_r, E. apply SameSet_refl.
Qed.

Lemma run_ok m es : forall res,
  Forall (fun t => shape t = true) res -> Forall ev_ok es -> run_clash cmp m res es = false ->
  SameSet (Leaves (fold_left (add_ev cmp m) es res))
          (Leaves res ++ flat_map (fun e => leaves (ev_tree e)) es).
Proof.
  induction es as [|e es IH]; intros res Hres Hes Hc.
  - cbn [fold_left flat_map]. rewrite app_nil_r. apply SameSet_refl.
  - cbn [fold_left flat_map]. cbn [run_clash] in Hc. apply orb_false_iff in Hc.
    destruct Hc as [Hc1 Hc2]. inversion Hes as [|? ? He Hes']; subst.
    destruct (add_ev_ok m res e Hres He Hc1) as [H1 H2].
    eapply SameSet_trans; [apply (IH _ H1 Hes' Hc2)|].
    intros z. rewrite !in_app_iff, (H2 z), in_app_iff. tauto.
Qed.

Lemma fold_left_map' {A B C} (f : A -> C -> A) (g : B -> C) l a :
  fold_left f (map g l) a = fold_left (fun x y => f x (g y)) l a.
Proof. revert a; induction l as [|x l IH]; intros a; cbn [map fold_left]; auto. Qed.
Lemma fold_left_flat_map {A B C} (f : A -> C -> A) (g : B -> list C) l a :
  fold_left f (flat_map g l) a = fold_left (fun x y => fold_left f (g y) x) l a.
Proof.
  revert a; induction l as [|x l IH]; intros a; cbn [flat_map fold_left]; auto.
  rewrite fold_left_app. apply IH.
Qed.

Lemma regroup_events m ts :
  regroup cmp m ts = fold_left (add_ev cmp m) (flat_map (events) ts) [].
Proof.
  unfold regroup. rewrite fold_left_flat_map.
  generalize (@nil tree). induction ts as [|t ts IH]; intros res; cbn [fold_left]; auto.
  rewrite IH. f_equal. unfold add_tree, events.
  destruct (contains_comment t || is_some (attrs t)); [reflexivity|].
  rewrite fold_left_map'. reflexivity.
Qed.

Lemma events_ok t : shape t = true -> Forall ev_ok (events t).
Proof.
  intros Hs. unfold events.
  destruct (contains_comment t || is_some (attrs t)) eqn:E.
  - repeat constructor. assumption.
  - apply orb_false_iff in E. destruct E as [_ E].
    apply Forall_forall. intros e He. apply in_map_iff in He. destruct He as [f [<- Hf]].
    cbn [ev_ok]. split.
    + pose proof (flatten_shape false t Hs) as HF. rewrite Forall_forall in HF. auto.
    + destruct (flatten_fields false t f Hf) as [_ [H|[_ H]]]; [|assumption].
      rewrite H. destruct (attrs t); [discriminate|reflexivity].
Qed.

Lemma events_leaves t :
  shape t = true -> flat_map (fun e => leaves (ev_tree e)) (events t) = leaves t.
Proof.
  intros Hs. unfold events.
  destruct (contains_comment t || is_some (attrs t)) eqn:E.
  - cbn [flat_map ev_tree]. apply app_nil_r.
  - apply orb_false_iff in E. destruct E as [_ E].
    rewrite flat_map_map. cbn [ev_tree]. apply flatten_leaves.
    + apply shape_inv in Hs. tauto.
    + right. destruct (attrs t); [discriminate|reflexivity].
Qed.

Theorem regroup_leaves m ns :
  Forall (fun t => shape t = true) ns -> alias_clash cmp m ns = false ->
  SameSet (Leaves (regroup cmp m ns)) (Leaves ns).
Proof.
  intros Hs Hc. rewrite regroup_events.
  eapply SameSet_trans.
  - apply run_ok; [constructor| |exact Hc].
    apply Forall_forall. intros e He. apply in_flat_map in He. destruct He as [t [Ht He]].
    rewrite Forall_forall in Hs. pose proof (events_ok t (Hs t Ht)) as H.
    rewrite Forall_forall in H. auto.
  - cbn [Leaves flat_map app]. rewrite flat_map_flat_map.
    unfold Leaves. rewrite (flat_map_ext_in _ leaves ns); [apply SameSet_refl|].
    intros t Ht. rewrite Forall_forall in Hs. apply events_leaves; auto.
Qed.
End Regroup.

(* ------------------------------------------------------------------ *)
(* P4: Item *)
Lemma oN_eqb_eq a b : oN_eqb a b = true -> a = b.
Proof.
  destruct a, b; cbn [oN_eqb]; try discriminate; auto.
  intros H; apply N.eqb_eq in H; subst; reflexivity.
Qed.

Lemma tree_eqb_leaves x y :
  tree_eqb x y = true -> cls x = cls y -> leaves x = leaves y.
Proof.
  intros He Hc. rewrite !leaves_states, Hc, (tree_eqb_den x y He). reflexivity.
Qed.

Definition no_dup_across (l : list tree) : Prop :=
  forall x y, In x l -> In y l -> tree_eqb x y = true -> cls x = cls y.

Lemma unique_aux_leaves l : forall seen,
  no_dup_across (seen ++ l) ->
  SameSet (Leaves seen ++ Leaves (unique_aux seen l)) (Leaves seen ++ Leaves l).
Proof.
  induction l as [|x r IH]; intros seen Hnd; cbn [unique_aux]; [apply SameSet_refl|].
  destruct (existsb (tree_eqb x) seen) eqn:E.
  - apply existsb_exists in E. destruct E as [y [Hy Hxy]].
    assert (Hl : leaves x = leaves y).
    { apply tree_eqb_leaves; [assumption|]. apply Hnd; auto.
      - apply in_or_app. right. left. reflexivity.
      - apply in_or_app. left. assumption. }
    eapply SameSet_trans; [apply IH|].
    + intros a b Ha Hb. apply Hnd; rewrite in_app_iff in *; cbn [In]; tauto.
    + intros z. cbn [Leaves flat_map]. fold (Leaves r). rewrite !in_app_iff, Hl.
      split; [tauto|]. intros [H|[H|H]]; auto.
      left. unfold Leaves. apply in_flat_map. exists y. auto.
  - cbn [Leaves flat_map]. fold (Leaves (unique_aux (x :: seen) r)). fold (Leaves r).
    assert (Hnd' : no_dup_across ((x :: seen) ++ r)).
    { intros a b Ha Hb. apply Hnd; rewrite in_app_iff in *; cbn [In] in *; tauto. }
    pose proof (IH (x :: seen) Hnd') as H.
    cbn [Leaves flat_map] in H. fold (Leaves seen) in H.
    intros z. specialize (H z). rewrite !in_app_iff in *. tauto.
Qed.

Lemma dup_across_false same l :
  dup_across same l = false ->
  forall x y, In x l -> In y l -> tree_eqb x y = true -> same x y = true.
Proof.
  intros H x y Hx Hy He. unfold dup_across in H.
  destruct (same x y) eqn:Es; auto. exfalso.
  assert (Ht : existsb (fun x => existsb (fun y => tree_eqb x y && negb (same x y)) l) l = true).
  { apply existsb_exists. exists x. split; auto. apply existsb_exists. exists y. split; auto.
    rewrite He, Es. reflexivity. }
  congruence.
Qed.

Theorem item_leaves ns :
  Forall (fun t => shape t = true) ns ->
  DupAcrossVisibility ns = false -> DupAcrossAttrs ns = false ->
  SameSet (Leaves (flatten_use_trees ns)) (Leaves ns).
Proof.
  intros Hs Hv Ha. unfold flatten_use_trees. fold (item_list ns).
  assert (Hnd : no_dup_across ([] ++ item_list ns)).
  { intros x y Hx Hy He. cbn [app] in *. unfold cls. f_equal.
    - pose proof (dup_across_false _ _ Hv x y Hx Hy He) as H. apply N.eqb_eq in H. exact H.
    - pose proof (dup_across_false _ _ Ha x y Hx Hy He) as H. apply oN_eqb_eq in H. exact H. }
  pose proof (unique_aux_leaves (item_list ns) [] Hnd) as H. cbn [Leaves flat_map app] in H.
  eapply SameSet_trans; [exact H|]. unfold item_list, Leaves.
  rewrite flat_map_map, flat_map_flat_map.
  rewrite (flat_map_ext_in _ leaves ns); [apply SameSet_refl|].
  intros t Ht. rewrite (flat_map_ext_in _ leaves) by (intros; apply nest_trailing_self_leaves).
  apply flatten_leaves; [|left; reflexivity].
  rewrite Forall_forall in Hs. pose proof (Hs t Ht) as Hst. apply shape_inv in Hst. tauto.
Qed.

(* ------------------------------------------------------------------ *)
(* P5: group_imports, sort, pipeline *)
Lemma filter3_perm (g : tree -> nat) l :
  (forall t, g t < 3) ->
  Permutation (filter (fun t => Nat.eqb (g t) 0) l ++ filter (fun t => Nat.eqb (g t) 1) l
               ++ filter (fun t => Nat.eqb (g t) 2) l) l.
Proof.
  intros Hg. induction l as [|x r IH]; [constructor|].
  cbn [filter]. specialize (Hg x).
  destruct (g x) as [|[|[|n]]] eqn:E; try lia; cbn [Nat.eqb].
  - cbn [app]. constructor. exact IH.
  - cbn [app]. apply Permutation_sym, Permutation_cons_app, Permutation_sym. exact IH.
  - rewrite app_assoc. apply Permutation_sym, Permutation_cons_app, Permutation_sym.
    rewrite <- app_assoc. exact IH.
Qed.
Lemma group_of_lt t : group_of t < 3.
Proof.
  unfold group_of. destruct (path_head t) as [[[n a|a|a|a|]|l]|]; try lia.
  destruct (_ || _); lia.
Qed.
Lemma group_partition ts : Permutation (concat (group_imports ts)) ts.
Proof.
  unfold group_imports. cbn [concat]. rewrite app_nil_r. apply filter3_perm, group_of_lt.
Qed.

Lemma concat_filter_nonnil {A} (L : list (list A)) :
  concat (filter (fun l => negb (is_nil l)) L) = concat L.
Proof.
  induction L as [|l L IH]; [reflexivity|]. cbn [filter concat].
  destruct l; cbn [is_nil negb concat app]; rewrite IH; reflexivity.
Qed.
Lemma concat_map_sort_perm {A} (c : A -> A -> comparison) (L : list (list A)) :
  Permutation (concat (map (sort_by c) L)) (concat L).
Proof.
  induction L as [|l L IH]; [constructor|]. cbn [map concat].
  apply Permutation_app; [apply sort_perm|exact IH].
Qed.

Lemma pipeline_perm cmp g grp reorder ts :
  Permutation (concat (pipeline cmp g grp reorder ts))
              (with_granularity cmp g (map (normalize cmp) ts)).
Proof.
  unfold pipeline. rewrite concat_filter_nonnil.
  set (ns := with_granularity cmp g (map (normalize cmp) ts)).
  assert (H1 : Permutation (concat (if grp then group_imports ns else [ns])) ns).
  { destruct grp; [apply group_partition|]. cbn [concat]. rewrite app_nil_r. reflexivity. }
  destruct reorder; [|exact H1].
  eapply Permutation_trans; [apply concat_map_sort_perm|exact H1].
Qed.

(* ------------------------------------------------------------------ *)
(* normalize keeps aliases on last segments *)
Section NormShape.
Variable cmp : tree -> tree -> comparison.

Lemma norm_simple_alias_last P v a c :
  alias_free (removelast P) = true -> alias_last (norm_simple P v a c) = true.
Proof.
  intros H. unfold norm_simple.
  destruct (rev P) as [|last rq] eqn:Er; [exact H|].
  apply rev_cons_eq in Er. subst P. rewrite removelast_snoc in H.
  destruct (negb (is_some a) && _); [reflexivity|].
  assert (Hd : alias_last (Node (rev rq ++ [last]) None v a c) = true).
  { cbn [alias_last]. rewrite removelast_snoc. exact H. }
  destruct last as [n al|[b|]|al|al|]; try exact Hd.
  - destruct rq as [|[n [al|]|al|al|al|] rq']; try exact Hd.
    cbn [alias_last]. rewrite removelast_snoc. cbn [rev] in H.
    rewrite alias_free_app in H. apply andb_true_iff in H. tauto.
  - destruct rq as [|t rq']; [exact Hd|].
    cbn [alias_last]. apply alias_free_removelast. exact H.
Qed.

Lemma norm_alias_last t : forall acc v a c,
  alias_free acc = true -> alias_last t = true -> alias_last (norm cmp acc v a c t) = true.
Proof.
  induction t as [p v0 a0 c0|p l v0 a0 c0 IH] using tree_ind'; intros acc v a c Hacc Ht.
  - cbn [norm kids pre]. apply norm_simple_alias_last. cbn [alias_last] in Ht.
    destruct p as [|s p'].
    + rewrite app_nil_r. apply alias_free_removelast; assumption.
    + rewrite removelast_app by discriminate. rewrite alias_free_app, Hacc. exact Ht.
  - cbn [alias_last] in Ht. apply andb_true_iff in Ht. destruct Ht as [Hp Hl].
    assert (HP : alias_free (acc ++ p) = true) by (rewrite alias_free_app, Hacc, Hp; reflexivity).
    rewrite Forall_forall in IH. rewrite forallb_forall in Hl.
    assert (Hgen : alias_last (Node (acc ++ p)
               (Some (sort_by cmp (map (fun k => norm cmp [] (vis k) (attrs k) (cmt k) k) l))) v a c)
               = true).
    { cbn [alias_last]. rewrite HP. cbn [andb].
      rewrite (forallb_perm _ _ _ (sort_perm _ cmp _)). apply forallb_forall.
      intros x Hx. apply in_map_iff in Hx. destruct Hx as [k [<- Hk]].
      apply IH; auto. }
    cbn [norm kids pre]. destruct l as [|k [|k2 r]].
    + destruct (is_some a); [|reflexivity]. cbn [sort_by fold_right alias_last forallb].
      rewrite HP. reflexivity.
    + destruct (negb (is_self_string k) && negb (has_comment k)); [|exact Hgen].
      apply IH; [left; reflexivity|assumption|]. apply Hl. left. reflexivity.
    + exact Hgen.
Qed.

Lemma normalize_alias_last t : alias_last t = true -> alias_last (normalize cmp t) = true.
Proof. intros H. unfold normalize. apply norm_alias_last; auto. Qed.
End NormShape.

(* ------------------------------------------------------------------ *)
(* the final statements *)
Section Final.
Variable cmp : tree -> tree -> comparison.

Lemma ast_shape_inv t :
  ast_shape t = true -> alias_last t = true /\ kids_wf t = true.
Proof.
  unfold ast_shape, kids_wf. intros H. apply andb_true_iff in H. destruct H as [H1 H2].
  apply andb_true_iff in H1. tauto.
Qed.

Lemma normalized_leaves ts :
  forallb ast_shape ts = true ->
  SameSet (Leaves (map (normalize cmp) ts)) (Leaves ts).
Proof.
  intros H. unfold Leaves. rewrite flat_map_map. apply SameSet_flat_map.
  apply Forall_forall. intros t Ht. apply normalize_leaves.
  rewrite forallb_forall in H. pose proof (ast_shape_inv t (H t Ht)). tauto.
Qed.

Lemma normalized_shape ts :
  forallb ast_shape ts = true -> NestedEmptyList (map (normalize cmp) ts) = false ->
  Forall (fun t => shape t = true) (map (normalize cmp) ts).
Proof.
  intros H Hn. apply Forall_forall. intros n Hn'. apply in_map_iff in Hn'.
  destruct Hn' as [t [<- Ht]]. unfold shape.
  rewrite forallb_forall in H. destruct (ast_shape_inv t (H t Ht)) as [Ha _].
  rewrite (normalize_alias_last cmp t Ha), andb_true_r.
  unfold NestedEmptyList in Hn.
  destruct (no_empty_kid (normalize cmp t)) eqn:E; auto. exfalso.
  assert (Hx : existsb (fun t => negb (no_empty_kid t)) (map (normalize cmp) ts) = true).
  { apply existsb_exists. exists (normalize cmp t). split; [apply in_map; assumption|].
    rewrite E. reflexivity. }
  congruence.
Qed.

Theorem granularity_leaves g ts :
  forallb ast_shape ts = true -> BadClass cmp g ts = false ->
  SameSet (Leaves (with_granularity cmp g (map (normalize cmp) ts))) (Leaves ts).
Proof.
  intros Hs Hb. eapply SameSet_trans; [|apply normalized_leaves; assumption].
  unfold BadClass in Hb.
  destruct g; cbn [with_granularity].
  - apply SameSet_refl.
  - apply orb_false_iff in Hb. destruct Hb as [Hb H3]. apply orb_false_iff in Hb.
    destruct Hb as [H1 H2]. apply item_leaves; auto. apply normalized_shape; assumption.
  - apply orb_false_iff in Hb. destruct Hb as [H1 H2].
    apply regroup_leaves; auto. apply normalized_shape; assumption.
  - apply orb_false_iff in Hb. destruct Hb as [H1 H2].
    apply regroup_leaves; auto. apply normalized_shape; assumption.
  - apply orb_false_iff in Hb. destruct Hb as [H1 H2].
    apply regroup_leaves; auto. apply normalized_shape; assumption.
Qed.

Theorem pipeline_leaves g grp reorder ts :
  forallb ast_shape ts = true -> BadClass cmp g ts = false ->
  SameSet (Leaves (concat (pipeline cmp g grp reorder ts))) (Leaves ts).
Proof.
  intros Hs Hb. eapply SameSet_trans; [apply Leaves_perm, pipeline_perm|].
  apply granularity_leaves; assumption.
Qed.

Lemma leaves_cls t lf : In lf (leaves t) -> (fst (fst lf), snd (fst lf)) = cls t.
Proof.
  unfold leaves. intros H. apply in_map_iff in H. destruct H as [p [<- _]]. reflexivity.
Qed.

Theorem no_cross_class g grp reorder ts o lf :
  forallb ast_shape ts = true -> BadClass cmp g ts = false ->
  In o (concat (pipeline cmp g grp reorder ts)) -> In lf (leaves o) ->
  exists t, In t ts /\ In lf (leaves t) /\ cls t = cls o.
Proof.
  intros Hs Hb Ho Hlf.
  assert (H : In lf (Leaves (concat (pipeline cmp g grp reorder ts)))).
  { unfold Leaves. apply in_flat_map. exists o. auto. }
  apply (pipeline_leaves g grp reorder ts Hs Hb) in H.
  unfold Leaves in H. apply in_flat_map in H. destruct H as [t [Ht Hl]].
  exists t. repeat split; auto.
  rewrite <- (leaves_cls t lf Hl), <- (leaves_cls o lf Hlf). reflexivity.
Qed.

(* a tree with attributes or a comment is passed through unchanged *)

Lemma passthrough_no_share t f m : passthrough t = true -> share_prefix t f m = false.
Proof.
  unfold passthrough, share_prefix. intros H.
  destruct (path_is_empty t); [reflexivity|]. destruct (path_is_empty f); [reflexivity|].
  cbn [orb]. apply orb_true_iff in H. destruct H as [H|H]; rewrite H.
  - destruct (is_some (attrs t)); reflexivity.
  - reflexivity.
Qed.

Lemma add_ev_keeps m t res e :
  passthrough t = true -> In t res -> In t (add_ev cmp m res e).
Proof.
  intros Hp Hin. destruct e as [x|f]; cbn [add_ev].
  - apply in_or_app. auto.
  - unfold add_flattened. destruct (find_index _ 0 res) as [i|] eqn:Ef.
    + apply find_index_spec in Ef. destruct Ef as [_ [r [En Hsh]]]. rewrite Nat.sub_0_r in En.
      destruct (apply_at_split (fun t => merge cmp m t f) (fun _ => true) res i r En)
        as [l1 [l2 [E1 [E2 _]]]].
      rewrite E2. rewrite E1 in Hin. apply in_app_or in Hin. apply in_or_app.
      destruct Hin as [H|[H|H]]; auto.
      * subst r. rewrite (passthrough_no_share t f m Hp) in Hsh. discriminate.
      * right. right. assumption.
    + apply in_or_app. auto.
Qed.

Lemma fold_add_ev_keeps m t es : forall res,
  passthrough t = true -> In t res -> In t (fold_left (add_ev cmp m) es res).
Proof.
  induction es as [|e es IH]; intros res Hp Hin; cbn [fold_left]; auto.
  apply IH; auto. apply add_ev_keeps; assumption.
Qed.

Lemma regroup_passthrough m ns t :
  In t ns -> passthrough t = true -> In t (regroup cmp m ns).
Proof.
  intros Hin Hp. rewrite regroup_events.
  apply in_split in Hin. destruct Hin as [l1 [l2 E]]. subst ns.
  rewrite flat_map_app, fold_left_app. cbn [flat_map]. rewrite fold_left_app.
  apply fold_add_ev_keeps; [assumption|].
  assert (E : events t = [EPass t]).
  { unfold events. unfold passthrough in Hp. rewrite Hp. reflexivity. }
  rewrite E. cbn [fold_left add_ev].
  apply in_or_app. right. left. reflexivity.
Qed.

Theorem attrs_comment_passthrough g grp reorder ts t :
  g <> Item -> In t (map (normalize cmp) ts) -> passthrough t = true ->
  In t (concat (pipeline cmp g grp reorder ts)).
Proof.
  intros Hg Hin Hp.
  eapply Permutation_in; [apply Permutation_sym, pipeline_perm|].
  destruct g; cbn [with_granularity]; try congruence; auto using regroup_passthrough.
Qed.
End Final.

(* ------------------------------------------------------------------ *)
(* Crate never hits an alias clash: share_prefix compares first segments with == *)
Lemma path_head_cons t x : path_head t = Some x -> exists r, path t = x :: r.
Proof.
  destruct t as [[|s p] [l|] v a c]; unfold path_head, path; cbn [pre kids map app klist];
    intros H; inversion H; eauto.
Qed.

Lemma share_crate_no_root_clash t u :
  share_prefix t u SPCrate = true -> root_clash (path t) (path u) = false.
Proof.
  intros Hs. destruct (share_prefix_nonempty _ _ _ Hs) as [N1 N2].
  unfold share_prefix in Hs. rewrite N1, N2 in Hs. cbn [orb] in Hs.
  destruct (is_some (attrs t) || contains_comment t || negb (same_visibility t u)); [discriminate|].
  destruct (path_head t) as [x|] eqn:Hx; [|discriminate].
  destruct (path_head u) as [y|] eqn:Hy; [|discriminate].
  destruct (path_head_cons _ _ Hx) as [r1 E1]. destruct (path_head_cons _ _ Hy) as [r2 E2].
  rewrite E1, E2. cbn [root_clash]. rewrite Hs. cbn [negb]. rewrite andb_false_r. reflexivity.
Qed.

Lemma choice_merge_share m trees u i :
  inner_choice m trees u = CMerge i ->
  exists x, nth_error trees i = Some x /\ share_prefix x u m = true.
Proof.
  unfold inner_choice.
  assert (H : forall (g : tree -> nat) j k,
             last_max 0 None (map (fun t => if share_prefix t u m then Some (g t) else None) trees)
             = Some (j, k) ->
             exists x, nth_error trees j = Some x /\ share_prefix x u m = true).
  { intros g j k H. apply last_max_spec in H. destruct H as [H|[_ H]]; [discriminate|].
    rewrite Nat.sub_0_r in H. apply nth_error_map' in H. destruct H as [x [H1 H2]].
    exists x. split; [assumption|]. destruct (share_prefix x u m); [reflexivity|discriminate]. }
  destruct (Nat.eqb (path_len u) 1 && _).
  - destruct (first_min None _) as [[|[|n]]|]; discriminate.
  - destruct m.
    + destruct (last_max 0 None _) as [[j [|[|k]]]|] eqn:E; try discriminate.
      intros E'; inversion E'; subst. eapply (H path_len); eauto.
    + destruct (last_max 0 None _) as [[j [|[|k]]]|] eqn:E; try discriminate.
      intros E'; inversion E'; subst. eapply (H path_len); eauto.
    + destruct (last_max 0 None _) as [[j [|k]]|] eqn:E; try discriminate.
      intros E'; inversion E'; subst.
      eapply (H (fun t => similarity (path t) (path u))); eauto.
Qed.

Lemma merge_clash_crate self : forall other,
  share_prefix self other SPCrate = true -> merge_clash SPCrate self other = false.
Proof.
  induction self as [pa v a c|pa l v a c IH] using tree_ind'; intros other Hs;
    cbn [merge_clash]; pose proof (share_crate_no_root_clash _ _ Hs) as Hr;
    unfold path in Hr at 1; cbn [pre kids] in Hr; rewrite Hr; cbn [orb].
  - apply andb_false_r.
  - match goal with |- context [inner_choice SPCrate l ?u] => set (u0 := u) end.
    destruct (inner_choice SPCrate l u0) as [|i|] eqn:Ec; try (rewrite !andb_false_r; reflexivity).
    destruct (choice_merge_share _ _ _ _ Ec) as [x [En Hx]].
    destruct (apply_at_split (fun t => t) (fun t => merge_clash SPCrate t u0) l i x En)
      as [l1 [l2 [_ [_ E3]]]].
    rewrite E3. rewrite Forall_forall in IH.
    rewrite (IH x (nth_error_In _ _ En) u0 Hx). rewrite !andb_false_r. reflexivity.
Qed.

Lemma run_clash_crate cmp es : forall res, run_clash cmp SPCrate res es = false.
Proof.
  induction es as [|e es IH]; intros res; cbn [run_clash]; [reflexivity|].
  rewrite IH, orb_false_r. destruct e as [t|f]; cbn [ev_clash]; [reflexivity|].
  destruct (find_index _ 0 res) as [i|] eqn:Ef; [|reflexivity].
  apply find_index_spec in Ef. destruct Ef as [_ [r [En Hsh]]]. rewrite Nat.sub_0_r in En.
  destruct (apply_at_split (fun t => t) (fun t => merge_clash SPCrate t f) res i r En)
    as [l1 [l2 [_ [_ E3]]]].
  rewrite E3. apply merge_clash_crate. assumption.
Qed.

Theorem crate_leaves cmp ts :
  forallb ast_shape ts = true -> NestedEmptyList (map (normalize cmp) ts) = false ->
  SameSet (Leaves (with_granularity cmp GCrate (map (normalize cmp) ts))) (Leaves ts).
Proof.
  intros Hs Hn. apply granularity_leaves; [assumption|].
  unfold BadClass. rewrite Hn. unfold alias_clash. apply run_clash_crate.
Qed.

(* ------------------------------------------------------------------ *)
(* P3 corollaries in the vocabulary of Props.v *)
Theorem merge_inner_leaves cmp m trees u :
  forallb good trees = true -> good u = true ->
  (forall i x, inner_choice m trees u = CMerge i -> nth_error trees i = Some x ->
               merge_clash m x u = false) ->
  forallb good (merge_use_trees_inner cmp m trees u) = true /\
  forall st, SameSet (flat_map (den st) (merge_use_trees_inner cmp m trees u))
                     (flat_map (den st) trees ++ den st u).
Proof.
  intros Hg Hu Hc. unfold merge_use_trees_inner.
  apply (inner_ok cmp m _ (fun _ => true)); auto.
  intros i x Ec En. apply merge_ok; auto.
  - eapply forallb_In; [eassumption|]. eapply nth_error_In; eassumption.
  - eapply Hc; eassumption.
Qed.

Theorem merge_den cmp m self other :
  good self = true -> good other = true -> merge_clash m self other = false ->
  good (merge cmp m self other) = true /\
  forall st, SameSet (den st (merge cmp m self other)) (den st self ++ den st other).
Proof. apply merge_ok. Qed.

(* ------------------------------------------------------------------ *)
(* a boolean test refuting SameSet, for the witnesses *)
Definition leaf_eqb (x y : leaf) : bool :=
  let '(v1, a1, p1) := x in let '(v2, a2, p2) := y in
  N.eqb v1 v2 && oN_eqb a1 a2 && list_eqb sseg_eqb p1 p2.
Definition subset_b (l1 l2 : list leaf) : bool :=
  forallb (fun x => existsb (leaf_eqb x) l2) l1.
Definition sameset_b (l1 l2 : list leaf) : bool := subset_b l1 l2 && subset_b l2 l1.

Lemma leaf_eqb_eq x y : leaf_eqb x y = true -> x = y.
Proof.
  destruct x as [[v1 a1] p1], y as [[v2 a2] p2]. cbn [leaf_eqb].
  rewrite !andb_true_iff. intros [[H1 H2] H3].
  apply N.eqb_eq in H1. apply oN_eqb_eq in H2. apply list_eqb_sseg_eq in H3. subst. reflexivity.
Qed.
Lemma subset_b_sound l1 l2 : subset_b l1 l2 = true -> forall x, In x l1 -> In x l2.
Proof.
  unfold subset_b. rewrite forallb_forall. intros H x Hx. specialize (H x Hx).
  apply existsb_exists in H. destruct H as [y [Hy He]]. apply leaf_eqb_eq in He. subst. assumption.
Qed.
Lemma oname_eqb_refl a : oname_eqb a a = true.
Proof. destruct a; cbn [oname_eqb]; auto. apply eqb_text_spec. reflexivity. Qed.
Lemma sseg_eqb_refl s : sseg_eqb s s = true.
Proof.
  destruct s; cbn [sseg_eqb]; auto using oname_eqb_refl.
  rewrite oname_eqb_refl, andb_true_r. apply eqb_text_spec. reflexivity.
Qed.
Lemma leaf_eqb_refl x : leaf_eqb x x = true.
Proof.
  destruct x as [[v a] p]. cbn [leaf_eqb]. rewrite N.eqb_refl. cbn [andb].
  assert (Ha : oN_eqb a a = true) by (destruct a; cbn [oN_eqb]; auto using N.eqb_refl).
  rewrite Ha. cbn [andb]. induction p as [|s p IH]; cbn [list_eqb]; auto.
  rewrite sseg_eqb_refl, IH. reflexivity.
Qed.
Lemma subset_b_complete l1 l2 : (forall x, In x l1 -> In x l2) -> subset_b l1 l2 = true.
Proof.
  intros H. unfold subset_b. apply forallb_forall. intros x Hx.
  apply existsb_exists. exists x. split; [auto|apply leaf_eqb_refl].
Qed.
Lemma sameset_b_false l1 l2 : sameset_b l1 l2 = false -> ~ SameSet l1 l2.
Proof.
  intros H Hs. unfold sameset_b in H.
  rewrite (subset_b_complete l1 l2), (subset_b_complete l2 l1) in H; [discriminate| |];
    intros x Hx; apply Hs; assumption.
Qed.
Lemma sameset_b_true l1 l2 : sameset_b l1 l2 = true -> SameSet l1 l2.
Proof.
  unfold sameset_b. rewrite andb_true_iff. intros [H1 H2] x.
  split; [apply (subset_b_sound _ _ H1)|apply (subset_b_sound _ _ H2)].
Qed.

(* ------------------------------------------------------------------ *)
(* witnesses of the refuted classes (Examples.v has them in readable form) *)
Definition id1 (c : N) : sseg := Ident [c] None.
Definition top (p : list sseg) (k : option (list tree)) (v : N) (a : option N) : tree :=
  Node p k (Some v) a false.
Definition kid (p : list sseg) (k : option (list tree)) : tree := Node p k None None false.
Definition norm15 := map (normalize cmp15).
Definition not_preserved (g : granularity) (ts : list tree) : bool :=
  negb (sameset_b (Leaves (with_granularity cmp15 g (norm15 ts))) (Leaves ts)).
Lemma not_preserved_sound g ts :
  not_preserved g ts = true ->
  ~ SameSet (Leaves (with_granularity cmp15 g (map (normalize cmp15) ts))) (Leaves ts).
Proof. unfold not_preserved. intros H. apply sameset_b_false. apply negb_true_iff. exact H. Qed.

(* pub use a; use a; *)
Definition w_vis : list tree := [top [id1 97] None 1 None; top [id1 97] None 0 None].
(* #[x] use a; use a; *)
Definition w_attrs : list tree := [top [id1 97] None 0 (Some 7%N); top [id1 97] None 0 None].
(* use a::{b::{}, c}; *)
Definition w_empty : list tree :=
  [top [id1 97] (Some [kid [id1 98] (Some []); kid [id1 99] None]) 0 None].
(* use a as _; use a; *)
Definition w_root : list tree := [top [Ident [97%N] (Some [95%N])] None 0 None; top [id1 97] None 0 None].
(* use a::BAR; use a as q; *)
Definition w_prefix : list tree :=
  [top [id1 97; Ident [66; 65; 82]%N None] None 0 None; top [Ident [97%N] (Some [113%N])] None 0 None].
(* use a::{c, x}; use a::c as z; *)
Definition w_nested : list tree :=
  [top [id1 97] (Some [kid [id1 99] None; kid [id1 120] None]) 0 None;
   top [id1 97; Ident [99%N] (Some [122%N])] None 0 None].

Lemma DupAcrossVisibility_witness :
  exists ts, forallb ast_shape ts = true /\ DupAcrossVisibility (map (normalize cmp15) ts) = true /\
    ~ SameSet (Leaves (with_granularity cmp15 Item (map (normalize cmp15) ts))) (Leaves ts).
Proof.
  exists w_vis. split; [vm_compute; reflexivity|]. split; [vm_compute; reflexivity|].
  apply not_preserved_sound. vm_compute. reflexivity.
Qed.
Lemma DupAcrossAttrs_witness :
  exists ts, forallb ast_shape ts = true /\ DupAcrossAttrs (map (normalize cmp15) ts) = true /\
    ~ SameSet (Leaves (with_granularity cmp15 Item (map (normalize cmp15) ts))) (Leaves ts).
Proof.
  exists w_attrs. split; [vm_compute; reflexivity|]. split; [vm_compute; reflexivity|].
  apply not_preserved_sound. vm_compute. reflexivity.
Qed.
Lemma NestedEmptyList_witness :
  exists ts, forallb ast_shape ts = true /\ NestedEmptyList (map (normalize cmp15) ts) = true /\
    forall g, g <> Preserve ->
    ~ SameSet (Leaves (with_granularity cmp15 g (map (normalize cmp15) ts))) (Leaves ts).
Proof.
  exists w_empty. split; [vm_compute; reflexivity|]. split; [vm_compute; reflexivity|].
  intros g Hg. apply not_preserved_sound. destruct g; try congruence; vm_compute; reflexivity.
Qed.
Lemma DupModuloRootAlias_witness :
  exists ts, forallb ast_shape ts = true /\ DupModuloRootAlias (map (normalize cmp15) ts) = true /\
    ~ SameSet (Leaves (with_granularity cmp15 Module (map (normalize cmp15) ts))) (Leaves ts) /\
    ~ SameSet (Leaves (with_granularity cmp15 One (map (normalize cmp15) ts))) (Leaves ts).
Proof.
  exists w_root. split; [vm_compute; reflexivity|]. split; [vm_compute; reflexivity|].
  split; apply not_preserved_sound; vm_compute; reflexivity.
Qed.
Lemma AliasedPrefixOne_witness :
  exists ts, forallb ast_shape ts = true /\ AliasedPrefixOne (map (normalize cmp15) ts) = true /\
    ~ SameSet (Leaves (with_granularity cmp15 One (map (normalize cmp15) ts))) (Leaves ts).
Proof.
  exists w_prefix. split; [vm_compute; reflexivity|]. split; [vm_compute; reflexivity|].
  apply not_preserved_sound. vm_compute. reflexivity.
Qed.
Lemma DupModuloAliasNested_witness :
  exists ts, forallb ast_shape ts = true /\ DupModuloAliasNested (map (normalize cmp15) ts) = true /\
    ~ SameSet (Leaves (with_granularity cmp15 One (map (normalize cmp15) ts))) (Leaves ts).
Proof.
  exists w_nested. split; [vm_compute; reflexivity|]. split; [vm_compute; reflexivity|].
  apply not_preserved_sound. vm_compute. reflexivity.
Qed.
(* every alias witness is in BadClass (AliasClash), so the theorem does not cover it *)
Lemma alias_witnesses_in_BadClass :
  BadClass cmp15 Module w_root = true /\ BadClass cmp15 One w_root = true /\
  BadClass cmp15 One w_prefix = true /\ BadClass cmp15 One w_nested = true /\
  BadClass cmp15 GCrate w_root = false.
Proof. vm_compute. repeat split. Qed.

(* ------------------------------------------------------------------ *)
(* runs: no import moves across a non-import item *)
Lemma seg_cover ig items : forall cur,
  unseg (seg ig cur items) =
  (match cur with Some r => map inl r | None => [] end) ++ map strip items.
Proof.
  induction items as [|[brk t|id] r IH]; intros cur; cbn [seg map strip].
  - destruct cur; cbn [flush unseg flat_map]; rewrite ?app_nil_r; reflexivity.
  - destruct cur as [run|].
    + destruct (ig && brk).
      * unfold unseg. cbn [flat_map]. fold (unseg (seg ig (Some [t]) r)). rewrite IH. reflexivity.
      * rewrite IH, map_app, <- app_assoc. reflexivity.
    + rewrite IH. reflexivity.
  - unfold unseg. rewrite flat_map_app. cbn [flat_map]. fold (unseg (seg ig None r)).
    rewrite IH. cbn [app]. destruct cur; cbn [flush flat_map]; rewrite ?app_nil_r; reflexivity.
Qed.


Theorem runs_no_crossing cmp g grp reorder ig items :
  unseg (seg ig None items) = map strip items /\
  Forall2 (run_rel cmp g) (seg ig None items) (visit_items cmp g grp reorder ig items).
Proof.
  split; [apply (seg_cover ig items None)|].
  unfold visit_items. induction (seg ig None items) as [|s l IH]; cbn [map]; constructor; auto.
  destruct s as [run|id]; cbn [run_rel]; auto.
  intros H1 H2. apply pipeline_leaves; assumption.
Qed.

(* ------------------------------------------------------------------ *)
(* runs without any alias never hit AliasClash *)
Definition gok (x : gseg) : bool :=
  match x with GS s => negb (is_some (salias s)) | GL l => forallb noalias l end.
Definition gnoalias (p : list gseg) : bool := forallb gok p.

Lemma forallb_map' {A B} (f : B -> bool) (g : A -> B) l :
  forallb f (map g l) = forallb (fun x => f (g x)) l.
Proof. induction l as [|x l IH]; cbn [map forallb]; auto. rewrite IH; reflexivity. Qed.

Lemma noalias_path t : noalias t = gnoalias (path t).
Proof.
  destruct t as [p k v a c]. unfold path, gnoalias. cbn [noalias pre kids].
  rewrite forallb_app, forallb_map'. cbn [gok]. fold (alias_free p).
  destruct k; cbn [klist forallb gok]; rewrite ?andb_true_r; reflexivity.
Qed.

Lemma of_path_noalias p v a c : gnoalias p = true -> noalias (of_path p v a c) = true.
Proof.
  unfold of_path. revert v a c.
  induction p as [|[s|l] r IH]; intros v a c H; cbn [split_path].
  - reflexivity.
  - cbn [gnoalias forallb gok] in H. apply andb_true_iff in H. destruct H as [H1 H2].
    specialize (IH v a c H2). destruct (split_path r) as [q k].
    cbn [noalias alias_free forallb] in *. rewrite H1. exact IH.
  - cbn [gnoalias forallb gok] in H. apply andb_true_iff in H. destruct H as [H1 _].
    cbn [noalias alias_free forallb]. exact H1.
Qed.

Lemma forallb_firstn {A} (f : A -> bool) n l : forallb f l = true -> forallb f (firstn n l) = true.
Proof.
  intros H. rewrite <- (firstn_skipn n l), forallb_app in H. apply andb_true_iff in H. tauto.
Qed.
Lemma forallb_skipn {A} (f : A -> bool) n l : forallb f l = true -> forallb f (skipn n l) = true.
Proof.
  intros H. rewrite <- (firstn_skipn n l), forallb_app in H. apply andb_true_iff in H. tauto.
Qed.

Lemma gok_nth0 p : gnoalias p = true -> gok (nth 0 p (GS Glob)) = true.
Proof. destruct p as [|x r]; cbn [nth gnoalias forallb]; auto. intros H; apply andb_true_iff in H; tauto. Qed.
Lemma gok_galias x : gok x = true -> galias x = None.
Proof.
  destruct x as [s|l]; cbn [gok galias]; auto. destruct (salias s); [discriminate|reflexivity].
Qed.

Lemma rest_noalias rest :
  gnoalias rest = true ->
  forallb noalias (match rest with [GL rl] => rl | _ => [from_path rest] end) = true.
Proof.
  intros H.
  assert (Hd : forallb noalias [from_path rest] = true).
  { cbn [forallb]. rewrite andb_true_r. apply of_path_noalias. exact H. }
  destruct rest as [|[s|l] [|y r]]; try exact Hd.
  cbn [gnoalias forallb gok] in H. rewrite andb_true_r in H. exact H.
Qed.

Section NoAlias.
Variable cmp : tree -> tree -> comparison.

Lemma merge_rest_noalias inner pa ka b len :
  gnoalias (map GS pa ++ klist ka) = true -> gnoalias b = true ->
  (forall l, ka = Some l -> forallb noalias (inner l (from_path (skipn len b))) = true) ->
  match merge_rest_with cmp inner pa ka b len with
  | Some np => gnoalias np = true
  | None => True
  end.
Proof.
  intros HA Hb Hinner. unfold merge_rest_with.
  set (A := map GS pa ++ klist ka) in *.
  assert (Hfin : forall n, gnoalias (firstn n b ++
             [GL (sort_by cmp [from_path (skipn n A); from_path (skipn n b)])]) = true).
  { intros n. unfold gnoalias. rewrite forallb_app. cbn [forallb gok].
    rewrite (forallb_firstn _ n b Hb).
    rewrite (forallb_perm _ _ _ (sort_perm _ cmp _)). cbn [forallb]. unfold from_path.
    rewrite !of_path_noalias; auto; apply forallb_skipn; assumption. }
  destruct (Nat.eqb (length A) len && Nat.eqb (length b) len); [exact I|].
  destruct (negb (Nat.eqb (length A) len) && negb (Nat.eqb (length b) len)).
  - destruct ka as [l|]; [|apply Hfin].
    destruct (Nat.eqb len (length pa)); [|apply Hfin].
    unfold gnoalias. rewrite forallb_app. cbn [forallb gok].
    rewrite (forallb_firstn _ len b Hb), (Hinner l eq_refl). reflexivity.
  - destruct (Nat.eqb len 1); [|apply Hfin].
    cbn [gnoalias forallb gok].
    rewrite (gok_nth0 b Hb). cbn [andb]. rewrite andb_true_r.
    assert (Hc : galias (if Nat.eqb (length A) len then nth 0 A (GS Glob) else nth 0 b (GS Glob)) = None).
    { destruct (Nat.eqb (length A) len); apply gok_galias, gok_nth0; assumption. }
    rewrite Hc. cbn [from_path of_path split_path noalias alias_free forallb salias is_some negb andb].
    apply rest_noalias. destruct (Nat.eqb (length A) len); apply forallb_skipn; assumption.
Qed.

Lemma forallb_apply_at (P : tree -> bool) f l : forall i,
  forallb P l = true -> (forall x, In x l -> P (f x) = true) -> forallb P (apply_at f i l) = true.
Proof.
  induction l as [|y l IH]; intros i H Hf; [reflexivity|].
  cbn [forallb] in H. apply andb_true_iff in H. destruct H as [H1 H2].
  destruct i as [|i]; cbn [apply_at forallb].
  - rewrite (Hf y (or_introl eq_refl)), H2. reflexivity.
  - fold (apply_at f). rewrite H1, IH; auto. intros x Hx. apply Hf. right. assumption.
Qed.

Lemma inner_noalias m mrg trees u :
  forallb noalias trees = true -> noalias u = true ->
  (forall x, In x trees -> noalias (mrg x) = true) ->
  forallb noalias (inner_with cmp mrg m trees u) = true.
Proof.
  intros H Hu Hm. unfold inner_with. destruct (inner_choice m trees u).
  - assumption.
  - apply forallb_apply_at; assumption.
  - rewrite (forallb_perm _ _ _ (sort_perm _ cmp _)), forallb_app. cbn [forallb].
    rewrite H, Hu. reflexivity.
Qed.

Lemma merge_noalias m self : forall other,
  noalias self = true -> noalias other = true -> noalias (merge cmp m self other) = true.
Proof.
  induction self as [pa v a c|pa l v a c IH] using tree_ind'; intros other Hs Ho; cbn [merge].
  - pose proof (merge_rest_noalias
                  (fun l u => inner_with cmp (fun t => merge cmp m t u) m l u) pa None (path other)
                  (prefix_len true (map GS pa ++ klist None) (path other))) as H.
    pose proof Hs as HA. rewrite noalias_path in HA. unfold path in HA. cbn [pre kids] in HA.
    pose proof Ho as HB. rewrite noalias_path in HB.
    specialize (H HA HB ltac:(intros l E; discriminate)).
    destruct (merge_rest_with _ _ _ _ _ _); [apply of_path_noalias; exact H|exact Hs].
  - pose proof (merge_rest_noalias
                  (fun l u => inner_with cmp (fun t => merge cmp m t u) m l u) pa (Some l) (path other)
                  (prefix_len true (map GS pa ++ klist (Some l)) (path other))) as H.
    pose proof Hs as HA. rewrite noalias_path in HA. unfold path in HA. cbn [pre kids] in HA.
    pose proof Ho as HB. rewrite noalias_path in HB.
    assert (Hl : forallb noalias l = true).
    { cbn [noalias] in Hs. apply andb_true_iff in Hs. tauto. }
    assert (Hi : forall l0, Some l = Some l0 ->
              forallb noalias (inner_with cmp (fun t => merge cmp m t
                 (from_path (skipn (prefix_len true (map GS pa ++ klist (Some l)) (path other)) (path other))))
                 m l0 (from_path (skipn (prefix_len true (map GS pa ++ klist (Some l)) (path other))
                                        (path other)))) = true).
    { intros l0 E. inversion E; subst l0.
      assert (Hu : noalias (from_path (skipn (prefix_len true (map GS pa ++ klist (Some l)) (path other))
                                             (path other))) = true).
      { apply of_path_noalias, forallb_skipn. rewrite <- noalias_path. assumption. }
      apply inner_noalias; auto.
      intros x Hx. rewrite Forall_forall in IH. apply IH; auto.
      eapply forallb_In; eassumption. }
    specialize (H HA HB Hi).
    destruct (merge_rest_with _ _ _ _ _ _); [apply of_path_noalias; exact H|exact Hs].
Qed.
End NoAlias.

Lemma sseg_eea_noalias s t :
  salias s = None -> salias t = None -> sseg_eea s t = sseg_eqb s t.
Proof.
  destruct s, t; cbn [salias sseg_eea sseg_eqb]; intros; subst; auto.
  cbn [oname_eqb]. rewrite andb_true_r. reflexivity.
Qed.
Lemma eea_noalias x y : gok x = true -> gok y = true -> eea x y = gseg_eqb x y.
Proof.
  destruct x as [s|l], y as [t|l']; cbn [gok eea gseg_eqb]; auto.
  intros H1 H2. apply sseg_eea_noalias.
  - destruct (salias s); [discriminate|reflexivity].
  - destruct (salias t); [discriminate|reflexivity].
Qed.
Lemma root_clash_noalias a b : gnoalias a = true -> gnoalias b = true -> root_clash a b = false.
Proof.
  destruct a as [|x ra], b as [|y rb]; cbn [root_clash gnoalias forallb]; auto.
  rewrite !andb_true_iff. intros [H1 _] [H2 _]. rewrite (eea_noalias x y H1 H2).
  destruct (gseg_eqb x y); reflexivity.
Qed.
Lemma check_at_false (f : tree -> bool) l : forall i,
  (forall x, In x l -> f x = false) -> check_at f i l = false.
Proof.
  induction l as [|y l IH]; intros i H; [reflexivity|].
  destruct i as [|i]; cbn [check_at].
  - apply H. left. reflexivity.
  - fold (check_at f). apply IH. intros x Hx. apply H. right. assumption.
Qed.

Lemma merge_clash_noalias m self : forall other,
  noalias self = true -> noalias other = true -> merge_clash m self other = false.
Proof.
  induction self as [pa v a c|pa l v a c IH] using tree_ind'; intros other Hs Ho;
    cbn [merge_clash];
    pose proof Hs as HA; rewrite noalias_path in HA; unfold path in HA; cbn [pre kids] in HA;
    pose proof Ho as HB; rewrite noalias_path in HB;
    rewrite (root_clash_noalias _ _ HA HB); cbn [orb].
  - apply andb_false_r.
  - match goal with |- context [inner_choice m l ?u] => set (u0 := u) end.
    destruct (inner_choice m l u0) as [|i|]; try (rewrite !andb_false_r; reflexivity).
    rewrite check_at_false; [rewrite !andb_false_r; reflexivity|].
    intros x Hx. rewrite Forall_forall in IH. apply IH; auto.
    + cbn [noalias] in Hs. apply andb_true_iff in Hs. destruct Hs as [_ Hs].
      eapply forallb_In; eassumption.
    + apply of_path_noalias, forallb_skipn. assumption.
Qed.

Lemma flatten_noalias item t :
  noalias t = true -> Forall (fun f => noalias f = true) (flatten item t).
Proof.
  induction t as [p v a c|p l v a c IH] using tree_ind'; intros Hs.
  - cbn [flatten]. destruct (_ || _); repeat constructor; assumption.
  - cbn [flatten]. destruct (_ || _); [repeat constructor; assumption|].
    destruct (sole_self l); [repeat constructor; assumption|].
    cbn [noalias] in Hs. apply andb_true_iff in Hs. destruct Hs as [Hp Hl].
    apply Forall_forall. intros f Hf. apply in_flat_map in Hf.
    destruct Hf as [nested [Hn Hf]]. apply in_map_iff in Hf. destruct Hf as [f0 [E Hf0]].
    subst f. rewrite Forall_forall in IH.
    pose proof (IH nested Hn (forallb_In _ _ _ Hl Hn)) as HF. rewrite Forall_forall in HF.
    specialize (HF f0 Hf0). destruct f0 as [pf kf vf af cf]. cbn [noalias pre kids] in *.
    apply andb_true_iff in HF. destruct HF as [F1 F2].
    rewrite alias_free_app, Hp, F1, F2. reflexivity.
Qed.

Lemma nest_trailing_self_noalias t : noalias t = true -> noalias (nest_trailing_self t) = true.
Proof.
  destruct t as [p [l|] v a c]; cbn [nest_trailing_self]; auto.
  destruct (rev p) as [|last rq] eqn:Er; auto.
  destruct last as [n al|al|al|al|]; auto.
  apply rev_cons_eq in Er. subst p. cbn [noalias]. rewrite andb_true_r, alias_free_app.
  intros H. apply andb_true_iff in H. destruct H as [H1 H2]. rewrite H1.
  cbn [from_path of_path split_path forallb noalias]. rewrite H2. reflexivity.
Qed.

Section NoAliasRun.
Variable cmp : tree -> tree -> comparison.

Lemma add_ev_noalias m res e :
  Forall (fun t => noalias t = true) res -> noalias (ev_tree e) = true ->
  Forall (fun t => noalias t = true) (add_ev cmp m res e).
Proof.
  intros Hres He. destruct e as [t|f]; cbn [add_ev ev_tree] in *.
  - apply Forall_app. split; [assumption|repeat constructor; assumption].
  - unfold add_flattened. destruct (find_index _ 0 res) as [i|].
    + apply Forall_forall. rewrite Forall_forall in Hres.
      assert (H : forallb noalias (apply_at (fun t => merge cmp m t f) i res) = true).
      { apply forallb_apply_at.
        - apply forallb_forall. assumption.
        - intros x Hx. apply merge_noalias; auto. }
      rewrite forallb_forall in H. exact H.
    + apply Forall_app. split; [assumption|]. constructor; [|constructor].
      destruct m; auto using nest_trailing_self_noalias.
Qed.

Lemma run_clash_noalias m es : forall res,
  Forall (fun t => noalias t = true) res -> Forall (fun e => noalias (ev_tree e) = true) es ->
  run_clash cmp m res es = false.
Proof.
  induction es as [|e es IH]; intros res Hres Hes; cbn [run_clash]; [reflexivity|].
  inversion Hes as [|? ? He Hes']; subst.
  rewrite IH; auto using add_ev_noalias. rewrite orb_false_r.
  destruct e as [t|f]; cbn [ev_clash]; [reflexivity|].
  destruct (find_index _ 0 res) as [i|]; [|reflexivity].
  apply check_at_false. intros x Hx. rewrite Forall_forall in Hres.
  apply merge_clash_noalias; auto.
Qed.

Lemma norm_simple_noalias P v a c :
  alias_free P = true -> noalias (norm_simple P v a c) = true.
Proof.
  intros H. unfold norm_simple.
  assert (Hd : noalias (Node P None v a c) = true) by (cbn [noalias]; rewrite H; reflexivity).
  destruct (rev P) as [|last rq] eqn:Er; [exact Hd|].
  apply rev_cons_eq in Er. subst P. rewrite alias_free_app in H.
  apply andb_true_iff in H. destruct H as [H1 H2].
  destruct (negb (is_some a) && _); [reflexivity|].
  destruct last as [n al|[b|]|al|al|]; try exact Hd.
  - cbn [alias_free forallb salias is_some negb andb] in H2. discriminate.
  - destruct rq as [|t rq']; [exact Hd|]. cbn [noalias]. rewrite H1. reflexivity.
Qed.

Lemma norm_noalias t : forall acc v a c,
  alias_free acc = true -> noalias t = true -> noalias (norm cmp acc v a c t) = true.
Proof.
  induction t as [p v0 a0 c0|p l v0 a0 c0 IH] using tree_ind'; intros acc v a c Hacc Ht;
    cbn [noalias] in Ht; apply andb_true_iff in Ht; destruct Ht as [Hp Hl].
  - cbn [norm kids pre]. apply norm_simple_noalias. rewrite alias_free_app, Hacc, Hp. reflexivity.
  - assert (HP : alias_free (acc ++ p) = true) by (rewrite alias_free_app, Hacc, Hp; reflexivity).
    rewrite Forall_forall in IH.
    assert (Hgen : noalias (Node (acc ++ p)
               (Some (sort_by cmp (map (fun k => norm cmp [] (vis k) (attrs k) (cmt k) k) l))) v a c)
               = true).
    { cbn [noalias]. rewrite HP. cbn [andb].
      rewrite (forallb_perm _ _ _ (sort_perm _ cmp _)). apply forallb_forall.
      intros x Hx. apply in_map_iff in Hx. destruct Hx as [k [<- Hk]].
      apply IH; auto. eapply forallb_In; eassumption. }
    cbn [norm kids pre]. destruct l as [|k [|k2 r]].
    + destruct (is_some a); [|reflexivity]. cbn [sort_by fold_right noalias forallb].
      rewrite HP. reflexivity.
    + destruct (negb (is_self_string k) && negb (has_comment k)); [|exact Hgen].
      apply IH; [left; reflexivity|assumption|]. eapply forallb_In; [eassumption|left; reflexivity].
    + exact Hgen.
Qed.

Theorem alias_clash_noalias m ts :
  forallb noalias ts = true -> alias_clash cmp m (map (normalize cmp) ts) = false.
Proof.
  intros H. unfold alias_clash. apply run_clash_noalias; [constructor|].
  apply Forall_forall. intros e He. apply in_flat_map in He. destruct He as [n [Hn He]].
  apply in_map_iff in Hn. destruct Hn as [t [<- Ht]].
  assert (Hnt : noalias (normalize cmp t) = true).
  { unfold normalize. apply norm_noalias; [reflexivity|]. eapply forallb_In; eassumption. }
  unfold events in He. destruct (contains_comment _ || _).
  - destruct He as [<-|[]]. exact Hnt.
  - apply in_map_iff in He. destruct He as [f [<- Hf]]. cbn [ev_tree].
    pose proof (flatten_noalias false _ Hnt) as HF. rewrite Forall_forall in HF. auto.
Qed.

(* P4 without aliases: Module, Crate, One keep the imports of every run that has no `as`
   and no nested empty list *)
Theorem noalias_leaves g ts :
  g = Module \/ g = GCrate \/ g = One ->
  forallb ast_shape ts = true -> forallb noalias ts = true ->
  NestedEmptyList (map (normalize cmp) ts) = false ->
  SameSet (Leaves (with_granularity cmp g (map (normalize cmp) ts))) (Leaves ts).
Proof.
  intros Hg Hs Hn He. apply granularity_leaves; [assumption|].
  unfold BadClass. rewrite He.
  destruct Hg as [ -> | [ -> | -> ] ]; cbn [orb]; apply alias_clash_noalias; assumption.
Qed.
End NoAliasRun.
